"""Confirm a seeded change and run the property's check against it.
usage: seedtest.py <dir with patch.diff / demo*.py> <Cxx> [--tier quick] [--tests "<pytest args>"] [--seed n]
Works on a scratch copy of /repo (never on /repo itself): demo on the clean copy must pass, with the patch it must fail,
then `./check Cxx` runs with LKV_REPO_SRC=<copy>/src and must exit 1 with a VIOLATION line.  The copy is removed afterwards."""
import argparse, json, os, shutil, subprocess, sys, tempfile, time
ROOT = os.path.dirname(os.path.dirname(os.path.abspath(__file__)))
def sh(cmd, cwd=None, env=None, timeout=3600):
    r = subprocess.run(cmd, shell=True, cwd=cwd, env=env, capture_output=True, text=True, timeout=timeout)
    return r.returncode, (r.stdout + r.stderr)
def main():
    ap = argparse.ArgumentParser(); ap.add_argument("dir"); ap.add_argument("pid"); ap.add_argument("--patch", default="patch.diff"); ap.add_argument("--demo", default="demo.py")
    ap.add_argument("--tier", default="quick"); ap.add_argument("--tests", default=None); ap.add_argument("--seed", default="1"); ap.add_argument("--keep-out", default=None)
    a = ap.parse_args()
    os.makedirs("/root/scratch", exist_ok=True)
    scratch = tempfile.mkdtemp(prefix=f"seed_{a.pid}_", dir="/root/scratch")
    res = {"property": a.pid, "patch": a.patch}
    try:
        sh(f"rsync -a --exclude=.git --exclude=.hypothesis /repo/ {scratch}/repo/")
        repo = f"{scratch}/repo"; env = dict(os.environ, PYTHONPATH=f"{repo}/src", PYTHONDONTWRITEBYTECODE="1")
        patch = os.path.abspath(os.path.join(a.dir, a.patch)); demo = os.path.abspath(os.path.join(a.dir, a.demo))
        rc, out = sh(f"/venv/bin/python {demo}", cwd=repo, env=env); res["demo_clean_rc"] = rc
        if rc != 0: res["demo_clean_out"] = out[-600:]
        rc, out = sh(f"git apply {patch}", cwd=repo); res["apply_rc"] = rc
        if rc != 0: res["apply_out"] = out[-400:]; print(json.dumps(res, indent=1)); return
        rc, out = sh(f"/venv/bin/python {demo}", cwd=repo, env=env); res["demo_patched_rc"] = rc; res["demo_patched_tail"] = out.strip()[-300:]
        rc, out = sh("/venv/bin/python -c 'import lenskit, lenskit.pipeline, lenskit.als, lenskit.knn, lenskit.basic, lenskit.splitting, lenskit.metrics, lenskit.batch'", cwd=repo, env=env); res["imports_rc"] = rc
        if a.tests:
            t = time.time(); rc, out = sh(f"/venv/bin/python -m pytest -q -p no:cacheprovider -x --timeout=900 {a.tests}", cwd=repo, env=env, timeout=7200)
            res["tests_cmd"] = a.tests; res["tests_rc"] = rc; res["tests_tail"] = out.strip().splitlines()[-1] if out.strip() else ""; res["tests_s"] = round(time.time() - t)
        outdir = a.keep_out or f"{scratch}/out"; os.makedirs(outdir, exist_ok=True)
        t = time.time()
        # a private copy of the Lean project (with its build products): the check regenerates the translated models from the patched
        # sources, which must neither touch the committed ones nor collide with another run
        sh(f"rsync -a {ROOT}/lean/ {scratch}/lean/", cwd=ROOT)
        rc, out = sh(f"{ROOT}/check {a.pid} --tier {a.tier}", cwd=ROOT, env=dict(os.environ, LKV_REPO_SRC=f"{repo}/src", LKV_OUT=outdir, LKV_LEAN=f"{scratch}/lean", VERIF_SEED=a.seed), timeout=7200)
        res["check_rc"] = rc; res["check_s"] = round(time.time() - t); res["check_lines"] = [l for l in out.splitlines() if l.startswith(("VIOLATION", "KNOWN-FINDING", "machinery"))][:6]
        if rc == 2: res["check_err"] = out[-800:]
        res["detected"] = (rc == 1 and any(l.startswith("VIOLATION") for l in res["check_lines"]))
        rp = [l.split("replay=")[1].split()[0] for l in res["check_lines"] if "replay=" in l]
        if rp and os.path.exists(rp[0]):
            d = json.load(open(rp[0])); res["replay_verdict"] = d.get("verdict"); res["replay_case"] = json.dumps(d.get("case"))[:400]
            res["replay_failed"] = str((d.get("detail") or {}).get("failed"))[:400]
    finally:
        shutil.rmtree(scratch, ignore_errors=True)
    print(json.dumps(res, indent=1))
if __name__ == "__main__":
    main()
