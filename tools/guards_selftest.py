"""Self-test of the generated guard obligations (translate/py2lean_guards.py + lean/LK/Proofs/Guards*.lean), independent of the
correspondence harness: each entry rewrites one source line in a scratch copy of lenskit, re-translates, and builds the obligations.
`break` entries must make the build fail (or the translation impossible); `keep` entries are behaviour-preserving rewrites that must pass;
`outside` entries are behaviour-preserving too but leave the translated subset (the check then reports `no-failing-input-found`).
Restores the generated files afterwards.  usage: guards_selftest.py [/repo/src/lenskit]"""
import os, shutil, subprocess, sys, tempfile
ROOT = os.path.dirname(os.path.dirname(os.path.abspath(__file__)))
sys.path.insert(0, os.path.join(ROOT, "translate"))
import py2lean_guards as g
SRC = sys.argv[1] if len(sys.argv) > 1 else "/repo/src/lenskit"
LEAN = os.path.join(ROOT, "lean")
CASES = [
 ("C01", "data/relationships.py", "        if tbl is None:\n            return None\n\n        return ItemList.from_arrow", "        if not tbl:\n            return None\n\n        return ItemList.from_arrow", "break"),
 ("C01", "data/vocab.py", "        if num < 0:\n            raise IndexError(\"negative numbers not supported\")\n        return self._index[num]", "        return self._index[num]", "break"),
 ("C01", "data/vocab.py", "        if num < 0:\n            raise IndexError(\"negative numbers not supported\")\n        return self._index[num]", "        if num <= 0:\n            raise IndexError(\"negative numbers not supported\")\n        return self._index[num]", "break"),
 ("C01", "data/vocab.py", "        if num < 0:\n            raise IndexError(\"negative numbers not supported\")\n        return self._index[num]", "        if 0 > num:\n            raise IndexError(\"negative numbers not supported\")\n        return self._index[num]", "keep"),
 ("C01", "data/vocab.py", "        if missing == \"error\" and np.any(nums < 0):\n            raise KeyError()", "        if np.any(nums < 0):\n            raise KeyError()", "break"),
 ("C01", "data/relationships.py", "        if number is None:\n            number = self.row_vocabulary.number(id, \"none\")", "        if not number:\n            number = self.row_vocabulary.number(id, \"none\")", "break"),
 ("C02", "pipeline/components.py", "    if primary is not None:\n        return primary\n    else:\n        return fallback.get()", "    return primary or fallback.get()", "break"),
 ("C02", "pipeline/components.py", "    if primary is not None:\n        return primary\n    else:\n        return fallback.get()", "    if primary is None:\n        return fallback.get()\n    return primary", "keep"),
 ("C02", "pipeline/runner.py", "DeferredRun(self, iname, name, snode, required=ireq, data_type=itype)", "DeferredRun(self, iname, name, snode, required=required, data_type=itype)", "break"),
 ("C02", "pipeline/runner.py", "                if val is None and required and isinstance(node, InputNode):", "                if val is None and isinstance(node, InputNode):", "break"),
 ("C02", "pipeline/runner.py", "            elif required:\n                # the node was skipped earlier because nothing required it\n                raise PipelineError(f\"no data available for required node {node}\")\n            else:\n                return None", "            else:\n                return None", "break"),
 ("C02", "pipeline/runner.py", "        if val is None and required and types and not is_compatible_data(None, *types):", "        if val is None and types and not is_compatible_data(None, *types):", "break"),
 ("C02", "pipeline/runner.py", "        if val is None and required and types and not is_compatible_data(None, *types):", "        if required and val is None and types and not is_compatible_data(None, *types):", "keep"),
 ("C02", "pipeline/runner.py", "                if required and itype:\n                    ireq = not is_compatible_data(None, itype)\n                else:\n                    ireq = False", "                if itype:\n                    ireq = not is_compatible_data(None, itype)\n                else:\n                    ireq = False", "break"),
 ("C02", "pipeline/runner.py", "                and not is_compatible_data(None, itype)\n                and not required\n", "                and not is_compatible_data(None, itype)\n", "break"),
 ("C02", "pipeline/runner.py", "        elif status == \"in-progress\":\n            raise PipelineError(f\"pipeline cycle encountered at {node}\")\n", "", "break"),
 ("C02", "pipeline/runner.py", "        if self.data_type is not None and not is_compatible_data(val, self.data_type):", "        if not self.data_type is None and not is_compatible_data(val, self.data_type):", "keep"),
 ("C03", "pipeline/common.py", "    if predicts_ratings == \"raw\":\n        builder.predicts_ratings()\n    elif predicts_ratings:\n        builder.predicts_ratings(fallback=BiasScorer())", "    if predicts_ratings:\n        builder.predicts_ratings(fallback=BiasScorer())\n    elif predicts_ratings == \"raw\":\n        builder.predicts_ratings()", "break"),
 ("C18", "implicit.py", "        delegate = self._construct()\n", "        delegate = getattr(self, \"delegate\", None) or self._construct()\n", "break"),
 ("C11", "training.py", "        return random_generator(self.rng)\n", "        return getattr(self, \"_gen\", None) or random_generator(self.rng)\n", "break"),
 ("C03", "stats.py", "    if n >= 0 and n < N:", "    if n > 0 and n < N:", "keep"),
 ("C03", "stats.py", "    if n >= 0 and n < N:", "    if n >= 0 and n <= N:", "break"),
 ("C03", "stats.py", "    if n >= 0 and n < N:", "    if 0 <= n < N:", "keep"),
 ("C03", "stats.py", "    if n == 0:\n        return np.empty(0, np.int64)\n", "", "break"),
 ("C03", "basic/topn.py", "        if n is None:\n            n = self.config.n or -1", "        if not n:\n            n = self.config.n or -1", "break"),
 ("C03", "basic/topn.py", "            n = self.config.n or -1", "            n = self.config.n if self.config.n else -1", "keep"),
 ("C03", "basic/topn.py", "            n = self.config.n or -1", "            n = self.config.n if self.config.n is not None else -1", "break"),
 ("C03", "basic/history.py", "        if query.user_id is None:\n            return query\n\n        if query.user_items is None:", "        if query.user_id and query.user_items is None:", "break"),
 ("C03", "basic/history.py", "        if query.user_id is None:\n            return query\n\n        if query.user_items is None:", "        if query.user_id is not None and query.user_items is None:", "keep"),
 ("C05", "data/builder.py", "        if max_time is not None:\n            max_time = _conform_time", "        if max_time:\n            max_time = _conform_time", "break"),
 ("C07", "metrics/bulk.py", "    if default is None:\n        if isinstance(m, ListMetric):", "    if not default:\n        if isinstance(m, ListMetric):", "break"),
 ("C05", "splitting/records.py", "        return crossfold_records(data, repeats, test_only=test_only, rng=rng)", "        return crossfold_records(data, repeats, test_only=test_only)", "break"),
 ("C05", "splitting/users.py", "        return crossfold_users(data, repeats, method, test_only=test_only, rng=rng)", "        return crossfold_users(data, repeats, method, rng=rng)", "break"),
 ("C05", "splitting/records.py", "    if repeats is None:\n        test_pos", "    if not repeats:\n        test_pos", "break"),
 ("C05", "splitting/users.py", "    if disjoint and repeats is not None and repeats * size >= len(users):", "    if repeats is not None and disjoint and repeats * size >= len(users):", "keep"),
 ("C06", "metrics/ranking/_base.py", "        if self.k is not None:\n            if not items.ordered:", "        if self.k:\n            if not items.ordered:", "keep"),
 ("C06", "metrics/ranking/_base.py", "            if len(items) > self.k:", "            if len(items) >= self.k:", "keep"),
 ("C06", "metrics/ranking/_base.py", "            if len(items) > self.k:", "            if len(items) > self.k + 1:", "break"),
 ("C06", "metrics/ranking/_pr.py", "        if self.k is not None and self.k < nrel:", "        if self.k is not None and self.k > nrel:", "break"),
 ("C06", "metrics/ranking/_pr.py", "        nrel = len(test)\n        if self.k is not None and self.k < nrel:\n            nrel = self.k\n", "        nrel = len(test) if self.k is None else min(len(test), self.k)\n", "keep"),
 ("C06", "metrics/ranking/_dcg.py", "            if self.k and self.k < n:", "            if self.k is not None and self.k <= n:", "keep"),
 ("C07", "metrics/predict.py", "        if self.missing_truth == \"error\" and (nbad := np.sum(rate_m & ~pred_m)):", "        if self.missing_scores == \"error\" and (nbad := np.sum(rate_m & ~pred_m)):", "break"),
 ("C07", "metrics/predict.py", "        if self.missing_scores == \"error\" and (nbad := np.sum(pred_m & ~rate_m)):", "        if (nbad := np.sum(pred_m & ~rate_m)) and self.missing_scores == \"error\":", "keep"),
 ("C07", "metrics/bulk.py", "                elif list_test is None:", "                elif not list_test:", "break"),
 ("C08", "basic/bias.py", "            elif user_id is not None:", "            elif user_id:", "break"),
 ("C09", "knn/user.py", "        if uidx is not None:", "        if uidx:", "break"),
 ("C10", "als/_common.py", "        if user_id is not None and self.users_ is not None:", "        if user_id and self.users_ is not None:", "break"),
 ("C10", "als/_common.py", "            and len(query.user_items) > 0\n", "", "break"),
 ("C11", "random.py", "        if query is None or query.user_id is None:", "        if not query or not query.user_id:", "break"),
 ("C18", "pipeline/_impl.py", "        elif options.rng is None or isinstance(options.rng, (Generator, BitGenerator)):", "        elif not options.rng or isinstance(options.rng, (Generator, BitGenerator)):", "break"),
 ("C18", "pipeline/_impl.py", "c_opts = options if seed is None else replace(options, rng=seed.spawn(1)[0])", "c_opts = options if not seed else replace(options, rng=seed.spawn(1)[0])", "break"),
 ("C11", "random.py", "    if seed is None and _global_rng is not None:\n        return _global_rng", "    if not seed and _global_rng is not None:\n        return _global_rng", "break"),
 ("C11", "random.py", "    if seed is None and _global_rng is not None:\n        return _global_rng", "    if _global_rng is not None and seed is None:\n        return _global_rng", "keep"),
 ("C13", "pipeline/builder.py", "        cfg.aliases = {a: t.name for (a, t) in sorted(self._aliases.items(), key=lambda kv: kv[0])}", "        cfg.aliases = {a: t.name for (a, t) in sorted(self._aliases.items(), key=lambda kv: kv[1].name)}", "break"),
 ("C13", "pipeline/builder.py", "                    if iname not in c_ins and iname in self._default_connections:", "                    if iname in self._default_connections:", "break"),
 ("C13", "pipeline/builder.py", "                    if iname not in c_ins and iname in self._default_connections:", "                    if iname in self._default_connections and iname not in c_ins:", "keep"),
 ("C13", "pipeline/builder.py", "            if h2 != cfg.meta.hash:\n                _log.warning", "            if h2 == cfg.meta.hash:\n                _log.warning", "break"),
 ("C13", "pipeline/builder.py", "        if cfg.meta.hash is not None:\n            h2 = builder.config_hash()", "        if cfg.meta.hash:\n            h2 = builder.config_hash()", "outside"),
 ("C13", "pipeline/config.py", "        return None if types is None else sorted(types)", "        return None if types is None else list(types)", "break"),
 ("C13", "pipeline/builder.py", "                    c_cfg.inputs = dict(sorted(edges.get(name, {}).items(), key=lambda kv: kv[0]))", "                    c_cfg.inputs = edges.get(name, {})", "break"),
 ("C13", "pipeline/builder.py", "        cfg.aliases = {a: t.name for (a, t) in sorted(self._aliases.items(), key=lambda kv: kv[0])}", "        cfg.aliases = {a: t.name for (a, t) in self._aliases.items()}", "break"),
 ("C13", "pipeline/builder.py", "        cfg.aliases = {a: t.name for (a, t) in sorted(self._aliases.items(), key=lambda kv: kv[0])}", "        cfg.aliases = {a: t.name for (a, t) in sorted(self._aliases.items())}", "keep"),
 ("C13", "pipeline/builder.py", "        cfg.literals = dict(sorted(cfg.literals.items(), key=lambda kv: kv[0]))", "        cfg.literals = dict(cfg.literals.items())", "break"),
 ("C13", "pipeline/builder.py", "        cfg.literals = dict(sorted(cfg.literals.items(), key=lambda kv: kv[0]))", "        cfg.literals = dict(sorted(cfg.literals.items(), key=lambda kv: repr(kv[1])))", "break"),
 ("C13", "pipeline/builder.py", "        cfg.literals = dict(sorted(cfg.literals.items(), key=lambda kv: kv[0]))", "        cfg.literals = dict(sorted(cfg.literals.items(), key=lambda it: it[0]))", "keep"),
 ("C14", "pipeline/builder.py", "            builder._edges[name] = dict(spec.inputs)", "            builder._edges[name] = spec.inputs", "break"),
 ("C14", "pipeline/builder.py", "        edges = deepcopy(self._edges)", "        edges = dict(self._edges)", "break"),
 ("C14", "pipeline/builder.py", "        edges = deepcopy(self._edges)", "        edges = {n: dict(w) for (n, w) in self._edges.items()}", "keep"),
 ("C14", "data/builder.py", "        return DataContainer(self.schema.model_copy(deep=True), tables)", "        return DataContainer(self.schema.model_copy(), tables)", "break"),
 ("C14", "data/builder.py", "            self.schema = name.schema.model_copy(deep=True)", "            self.schema = name.schema", "break"),
 ("C16", "data/items.py", "        if self._numbers is None:\n            if self._vocab is None:", "        if not self._numbers:\n            if self._vocab is None:", "break"),
 ("C16", "data/items.py", "        if vocabulary is not None and vocabulary is not self._vocab:", "        if vocabulary is not None:", "break"),
 ("C15", "data/items.py", "        if self._numbers is not None:\n            state[\"numbers\"] = self._numbers.numpy()\n        elif self._vocab is not None:", "        if self._numbers:\n            state[\"numbers\"] = self._numbers.numpy()\n        elif self._vocab is not None:", "break"),
 ("C15", "data/items.py", "        if self._ids is not None:\n            state[\"ids\"] = self._ids\n        elif self._vocab is not None:", "        if self._vocab is not None and self._ids is None:\n            state[\"ids\"] = self.ids()\n        elif False:", "break"),
 ("C15", "data/items.py", "        elif self._vocab is not None:\n            state[\"numbers\"] = self.numbers(missing=\"negative\")\n", "", "break"),
 ("C16", "data/items.py", "            if item_ids is None and source is not None and source._ids is not None:\n                del self._ids", "            if source is not None and source._ids is not None:\n                del self._ids", "break"),
 ("C16", "data/items.py", "        if isinstance(source, ItemList) and self._len != source._len:", "        if isinstance(source, ItemList) and self._len < source._len:", "break"),
 ("C16", "data/items.py", "                and source._vocab is not vocabulary\n                and source._numbers is not None\n", "                and source._vocab is not vocabulary\n", "break"),
 ("C16", "data/items.py", "                and source._vocab is not None\n                and source._vocab is not vocabulary\n", "                and source._vocab is not vocabulary\n                and source._vocab is not None\n", "keep"),
 ("C16", "data/items.py", "                if item_ids is None and \"item_id\" not in fields:\n                    self._ids = source.ids()", "                if \"item_id\" not in fields and item_ids is None:\n                    self._ids = source.ids()", "keep"),
 ("C16", "data/items.py", "            if source is not None and source._numbers is not None:\n                self.__dict__.pop(\"_numbers\", None)", "            if source is not None:\n                self.__dict__.pop(\"_numbers\", None)", "outside"),
 ("C16", "data/items.py", "        if missing == \"error\" and np.any(self._numbers.numpy() < 0):\n            raise KeyError(\"item IDs\")\n", "", "break"),
 ("C18", "basic/popularity.py", "        if hasattr(self, \"item_scores_\") and not options.retrain:\n            return\n\n        _log.info(\"counting item popularity\")", "        if hasattr(self, \"item_scores_\") or not options.retrain:\n            return\n\n        _log.info(\"counting item popularity\")", "break"),
 ("C18", "knn/item.py", "        if hasattr(self, \"items_\") and not options.retrain:", "        if not options.retrain and hasattr(self, \"items_\"):", "keep"),
 ("C18", "basic/bias.py", "        if hasattr(self, \"model_\") and not options.retrain:", "        if hasattr(self, \"model_\"):", "break"),
 ("C18", "training.py", "        self.trained_epochs = 0\n", "", "break"),
 ("C19", "stochastic/_ranker.py", "        if n is None or n < 0:\n            n = self.config.n or -1", "        if n is None or n < 0 or n > N:\n            n = self.config.n or -1", "break"),
 ("C19", "basic/random.py", "        if n < 0:\n            n = len(items)\n        else:\n            n = min(n, len(items))", "        if n <= 0:\n            n = len(items)\n        else:\n            n = min(n, len(items))", "break"),
 ("C19", "basic/random.py", "        if n < 0 or n > N:\n            n = N", "        if n > N or n < 0:\n            n = N", "keep"),
 ("C19", "basic/random.py", "        if n < 0 or n > N:\n            n = N", "        if not (0 <= n <= N):\n            n = N", "keep"),
 ("C19", "stochastic/_ranker.py", "        if n < 0 or n > N:\n            n = N", "        if not (0 < n <= N):\n            n = N", "break"),
]
import py2lean_np, py2lean_scatter, py2lean_imp, py2lean_holdout, py2lean_arrow, py2lean_cand, py2lean_neg, py2lean_als, py2lean_agg, py2lean_rank, py2lean_sim, py2lean_split
# other per-run translators: (generated file, obligations module, generator, its Unsupported)
OTHER = {"C05split": ("SplitC05.lean", "LK.Proofs.SplitC05", py2lean_split.translate, py2lean_split.Unsupported),
         "C09sim": ("SimC09.lean", "LK.Proofs.SimC09", py2lean_sim.translate, py2lean_sim.Unsupported),
         "C01ptr": ("RowPtrsC01.lean", "LK.Proofs.RowPtrsC01", py2lean_arrow.translate_rowptrs, py2lean_arrow.Unsupported),
         "C19lin": ("ImpC19.lean", "LK.Proofs.ImpC19", py2lean_imp.translate_linear, py2lean_imp.Unsupported),
         "C06rank": ("RankC06.lean", "LK.Proofs.RankC06", py2lean_rank.generate, py2lean_rank.Unsupported),
         "C07agg": ("AggC07.lean", "LK.Proofs.AggC07", py2lean_agg.generate, py2lean_agg.Unsupported),
         "C10als": ("AlsC10.lean", "LK.Proofs.AlsC10", py2lean_als.generate, py2lean_als.Unsupported),
         "C20neg": ("NegC20.lean", "LK.Proofs.NegC20", py2lean_neg.translate, py2lean_neg.Unsupported),
         "C03cand": ("CandC03.lean", "LK.Proofs.CandC03", py2lean_cand.translate, py2lean_cand.Unsupported),
         "C17sc": ("ArrowScalarC17.lean", "LK.Proofs.ArrowC17", py2lean_arrow.translate_scalar, py2lean_arrow.Unsupported),
         "C17ar": ("ArrowC17.lean", "LK.Proofs.ArrowC17", py2lean_arrow.translate, py2lean_arrow.Unsupported),
         "C05ho": ("HoldoutC05.lean", "LK.Proofs.HoldoutC05", py2lean_holdout.generate, py2lean_holdout.Unsupported),
         "C08imp": ("ImpC08.lean", "LK.Proofs.ImpC08", py2lean_imp.translate, py2lean_imp.Unsupported),
         "C06np": ("NpC06.lean", "LK.Proofs.NpC06", py2lean_np.translate_dcg, py2lean_np.Unsupported),
         "C08np": ("NpC08.lean", "LK.Proofs.NpC08", py2lean_np.translate_learn, py2lean_np.Unsupported),
         "C04sc": ("ScatterC04.lean", "LK.Proofs.ScatterC04", py2lean_scatter.generate, py2lean_scatter.Unsupported)}
CASES += [
 ("C05split", "splitting/users.py", "    if test_only:\n        train_build.clear_relationships(iname)\n    else:", "    if not test_only:\n        train_build.clear_relationships(iname)\n    else:", "break"),
 ("C05split", "splitting/users.py", "        test_us = users[ts]\n", "        test_us = users[ts[:-1]]\n", "break"),
 ("C05split", "splitting/temporal.py", "        mask = ts_col >= t\n", "        mask = ts_col > t\n", "break"),
 ("C05split", "splitting/temporal.py", "        if i + 1 < len(times):\n            t2 = times[i + 1]", "        if i + 1 <= len(times):\n            t2 = times[i]", "break"),
 ("C05split", "splitting/records.py", "        train_build.add_interactions(iname, df[~mask])", "        train_build.add_interactions(iname, df[mask])", "break"),
 ("C05split", "splitting/records.py", "    train_build.clear_relationships(iname)\n", "", "break"),
 ("C05split", "splitting/records.py", "        end = start + size\n        yield xs[start:end]", "        end = start + size + 1\n        yield xs[start:end]", "break"),
 ("C05split", "splitting/records.py", "    test_sets = np.array_split(rows, partitions)", "    test_sets = np.array_split(rows, partitions + 1)", "break"),
 ("C09sim", "knn/item.py", "    sim[item] = 0\n", "", "break"),
 ("C09sim", "knn/item.py", "    mask = sim >= min_sim", "    mask = sim > min_sim", "break"),
 ("C09sim", "knn/item.py", "max_nbrs > 0 and max_nbrs < vals.shape[0]:", "max_nbrs > 0 and max_nbrs > vals.shape[0]:", "break"),
 ("C09sim", "knn/item.py", "        cols = cols[cis]\n", "", "break"),
 ("C09sim", "knn/item.py", "        order = torch.argsort(cols)\n        cols = cols[order]\n        vals = vals[order]", "        order = torch.argsort(cols)\n        vals = vals[order]\n        cols = cols[order]", "keep"),
 ("C09sim", "knn/item.py", "        c, cs, vs = _sim_row(i, matrix, matrix[i], min_sim, max_nbrs)", "        c, cs, vs = _sim_row(i, matrix, matrix[i - 1], min_sim, max_nbrs)", "break"),
 ("C09sim", "knn/item.py", "    sim = torch.mv(matrix, row.to(torch.float64))", "    sim = torch.mv(matrix, row)", "keep"),
 ("C09sim", "knn/item.py", "        end = min(start + block_size, nitems)", "        end = min(start + block_size, nitems - 1)", "break"),
 ("C09sim", "knn/item.py", "    counts = [torch.tensor([0], dtype=torch.int32)]\n    columns = []", "    counts = []\n    columns = []", "break"),
 ("C09sim", "knn/item.py", "        counts[i - start] = c\n        columns.append(cs)", "        columns.append(cs)\n        counts[i - start] = c", "keep"),
 ("C09sim", "knn/item.py", "        counts[i - start] = c\n", "        counts[i - start - 1] = c\n", "break"),
 ("C01ptr", "data/relationships.py", "        row_sizes[np.asarray(rsz_nums) + 1] = rsz_counts", "        row_sizes[np.asarray(rsz_nums)] = rsz_counts", "break"),
 ("C01ptr", "data/relationships.py", "        table = table.sort_by([(c, \"ascending\") for c in e_cols])\n", "", "break"),
 ("C19lin", "stochastic/_ranker.py", "        scores = scores[valid_mask] * self.config.scale", "        scores = scores[valid_mask]", "break"),
 ("C19lin", "stochastic/_ranker.py", "        scores = scores[valid_mask] * self.config.scale", "        scores = scores * self.config.scale", "break"),
 ("C19lin", "stochastic/_ranker.py", "        keys /= np.maximum(weights, np.finfo(\"f4\").smallest_normal)", "        keys *= np.maximum(weights, np.finfo(\"f4\").smallest_normal)", "break"),
 ("C19lin", "stochastic/_ranker.py", "        keys /= np.maximum(weights, np.finfo(\"f4\").smallest_normal)", "        keys /= weights", "break"),
 ("C19lin", "stochastic/_ranker.py", "        picked = argtopn(keys, n)\n        return ItemList(valid_items[picked], ordered=True)", "        picked = argtopn(keys, n)\n        return ItemList(valid_items[picked], ordered=False)", "break"),
 ("C19lin", "stochastic/_ranker.py", "        picked = argtopn(keys, n)\n        return ItemList(valid_items[picked], ordered=True)", "        best = argtopn(keys, n)\n        return ItemList(valid_items[best], ordered=True)", "keep"),
 ("C19lin", "stochastic/_ranker.py", "                if r > 0:\n                    scores /= r", "                if r > np.finfo(scores.dtype).eps:\n                    scores /= r", "break"),
 ("C19lin", "stochastic/_ranker.py", "                        weights = scores / tot", "                        weights = scores", "break"),
 ("C19lin", "stochastic/_ranker.py", "                scores -= lb\n", "                scores -= ub\n", "break"),
 ("C06rank", "metrics/ranking/_dcg.py", "            scores = gains.reindex(items, fill_value=0).values\n            if self.k:\n                gains = gains.nlargest(n=self.k)", "            scores = gains.reindex(items, fill_value=0).values\n            if self.k:\n                gains = gains.nsmallest(n=self.k)", "break"),
 ("C06rank", "metrics/ranking/_dcg.py", "            scores[np.isin(items, test.ids())] = 1.0\n            n = len(test)", "            scores[np.isin(items, test.ids())] = 1.0\n            n = len(items)", "break"),
 ("C06rank", "metrics/ranking/_dcg.py", "        realized = array_dcg(np.require(scores, np.float32), self.discount)\n        return realized / ideal", "        realized = array_dcg(np.require(scores, np.float32), self.discount)\n        return ideal / realized", "break"),
 ("C06rank", "metrics/ranking/_dcg.py", "        realized = array_dcg(np.require(scores, np.float32), self.discount)\n        return realized / ideal", "        dcg = array_dcg(np.require(scores, np.float32), self.discount)\n        return dcg / ideal", "keep"),
 ("C06rank", "metrics/ranking/_dcg.py", "                gains = gains.sort_values(ascending=False)\n            ideal = array_dcg", "                gains = gains.sort_values(ascending=True)\n            ideal = array_dcg", "break"),
 ("C06rank", "metrics/ranking/_pop.py", "        ranks = self.item_ranks.reindex(items, fill_value=0)\n        return ranks.mean()", "        ranks = self.item_ranks.reindex(items)\n        return ranks.mean()", "break"),
 ("C06rank", "metrics/ranking/_pop.py", "        ranks = self.item_ranks.reindex(items, fill_value=0)\n        return ranks.mean()", "        ranks = self.item_ranks.reindex(items, fill_value=0)\n        return ranks.sum()", "break"),
 ("C06rank", "metrics/ranking/_pr.py", "        return ngood / nrecs", "        return ngood / len(test)", "break"),
 ("C06rank", "metrics/ranking/_recip.py", "            return 1.0 / (npz[0] + 1.0)", "            return 1.0 / npz[0]", "break"),
 ("C06rank", "metrics/ranking/_rbp.py", "            max = np.sum(disc[: min(nrel, k)])", "            max = np.sum(disc[:nrel])", "break"),
 ("C06rank", "metrics/ranking/_rbp.py", "            return rbp * (1 - self.patience)", "            return rbp", "break"),
 ("C06rank", "metrics/ranking/_hit.py", "        return 1 if np.any(np.isin(recs.ids(), test.ids())) else 0", "        good = np.isin(recs.ids(), test.ids())\n        return 1 if np.any(good) else 0", "keep"),
 ("C07agg", "metrics/predict.py", "            tot_err += t\n            tot_n += n\n\n        if tot_n > 0:\n            return tot_err / tot_n", "            tot_err += t\n            tot_n += n\n\n        if n > 0:\n            return tot_err / tot_n", "break"),
 ("C07agg", "metrics/predict.py", "        return np.sum(err), int(err.count())", "        return np.sum(err), len(err)", "break"),
 ("C07agg", "metrics/predict.py", "        return np.sum(np.abs(err)), int(err.count())", "        return np.sum(np.abs(err)), int(ps.count())", "break"),
 ("C07agg", "metrics/predict.py", "        err = ps - ts\n        return float(np.mean(np.abs(err)))", "        err = ts - ps\n        return float(np.mean(np.abs(err)))", "keep"),
 ("C10als", "als/_explicit.py", "    A = MMT + regI * nui\n", "    A = MMT + regI\n", "break"),
 ("C10als", "als/_explicit.py", "    V = M.T @ vals\n", "    V = M.T @ (vals + 1.0)\n", "break"),
 ("C10als", "als/_explicit.py", "    A = MMT + regI * len(items)\n", "    A = MMT + regI\n", "break"),
 ("C10als", "als/_implicit.py", "        y = ctx.right.T[:, cols] @ (vals + 1.0)", "        y = ctx.right.T[:, cols] @ vals", "break"),
 ("C10als", "als/_implicit.py", "    OtO += regmat\n", "", "break"),
 ("C10als", "als/_explicit.py", "    A = MMT + regI * nui\n", "    A = regI * nui + MMT\n", "keep"),
 ("C20neg", "data/relationships.py", "        return locs >= 0", "        return locs > 0", "break"),
 ("C20neg", "data/relationships.py", "                    max_attempts=max_attempts - 1,\n                    weighting=weighting,", "                    max_attempts=max_attempts - 1,", "break"),
 ("C20neg", "data/relationships.py", "                    max_attempts=max_attempts - 1,", "                    max_attempts=max_attempts,", "break"),
 ("C20neg", "data/relationships.py", "                trows = rng.choice(self._table.num_rows, size=shape, replace=True)", "                trows = rng.integers(0, self._table.num_rows - 1, size=shape)", "break"),
 ("C20neg", "data/relationships.py", "        _log.debug(\"checking negatives\", nrows=len(rows), npos=np.sum(non_neg).item())\n", "", "keep"),
 ("C03cand", "basic/candidates.py", "            qis = qis[qis >= 0]\n", "", "break"),
 ("C03cand", "basic/candidates.py", "            mask[qis] = False", "            mask[qis] = True", "break"),
 ("C17sc", "data/builder.py", "        val_array = val_array.take(pa.array(np.argsort(nums.to_numpy(), kind=\"stable\")))\n", "", "break"),
 ("C17sc", "data/builder.py", "        tbl_mask[nums.to_numpy()] = True", "        tbl_mask[nums.to_numpy() - 1] = True", "break"),
 ("C17ar", "data/builder.py", "    sizes[rows + 1] = lists.value_lengths().to_numpy()", "    sizes[rows] = lists.value_lengths().to_numpy()", "break"),
 ("C17ar", "data/builder.py", "    if not np.all(valid):\n        rows = rows[valid]\n        lists = lists.drop_null()\n\n    # reorder input to align with the output\n    order = np.argsort(rows)\n    if np.any(np.diff(order) < 0):\n        lists = lists.take(order)\n        rows = rows[order]",
  "    order = np.argsort(rows)\n    if np.any(np.diff(order) < 0):\n        lists = lists.take(order)\n        rows = rows[order]\n    if not np.all(valid):\n        rows = rows[valid]\n        lists = lists.drop_null()", "break"),
 ("C17ar", "data/builder.py", "    return pa.ListArray.from_arrays(offsets, lists.flatten(), mask=mask)", "    return pa.ListArray.from_arrays(offsets, lists.values, mask=mask)", "break"),
 ("C17ar", "data/builder.py", "    # now we do surgery", "    _ = None  # surgery", "outside"),
 ("C05ho", "splitting/holdout.py", "        return items[ordered[len(ordered) - self.n :]]", "        return items[ordered[-self.n :]]", "break"),
 ("C05ho", "splitting/holdout.py", "        ordered = np.argsort(col)\n        return items[ordered[len(ordered) - self.n :]]", "        order = np.argsort(col)\n        return items[order[len(order) - self.n :]]", "keep"),
 ("C05ho", "splitting/holdout.py", "        if len(items) <= self.n:\n            return items\n\n        col", "        if len(items) < self.n:\n            return items\n\n        col", "break"),
 ("C05ho", "splitting/holdout.py", "        return items[ordered[len(ordered) - n :]]", "        return items[ordered[len(ordered) - n - 1 :]]", "break"),
 ("C05ho", "splitting/holdout.py", "        if len(items) <= self.n:\n            return items\n\n        sel", "        if len(items) < self.n:\n            return items\n\n        sel", "break"),
 ("C08imp", "basic/bias.py", "                    uoff[r_mask] -= self.item_biases[r_idxes[r_mask]]", "                    uoff -= self.item_biases[r_idxes]", "break"),
 ("C08imp", "basic/bias.py", "            if ratings is not None:\n                assert user_items is not None", "            if ratings is not None and user_id is None:\n                assert user_items is not None", "break"),
 ("C08imp", "basic/bias.py", "            scores[mask] += self.item_biases[idxes[mask]]", "            scores[mask] -= self.item_biases[idxes[mask]]", "break"),
 ("C08imp", "basic/bias.py", "                    np.sum(np.isfinite(uoff)) + entity_damping(self.damping, \"user\")", "                    np.sum(np.isfinite(uoff))", "break"),
 ("C08imp", "basic/bias.py", "                    user_bias = self.user_biases[uno]\n", "                    user_bias = self.user_biases[uno]\n                    _logger.debug(\"found\")\n", "keep"),
 ("C06np", "metrics/ranking/_dcg.py", "    np.maximum(disc, 1, out=disc)\n    np.reciprocal(disc, out=disc)", "    np.reciprocal(disc, out=disc)\n    np.maximum(disc, 1, out=disc)", "break"),
 ("C06np", "metrics/ranking/_dcg.py", "    np.maximum(disc, 1, out=disc)\n", "", "break"),
 ("C06np", "metrics/ranking/_dcg.py", "    disc = np.maximum(disc, 1)\n    disc = np.reciprocal(disc)", "    np.maximum(disc, 1, out=disc)\n    np.reciprocal(disc, out=disc)", "keep"),
 ("C06np", "metrics/ranking/_dcg.py", "    np.maximum(disc, 1, out=disc)\n", "    disc[disc <= 0] = 1\n", "break"),
 ("C08np", "basic/bias.py", "            counts = np.full(ncols, entity_damping(damping, \"item\"))", "            counts = np.zeros(ncols)", "break"),
 ("C08np", "basic/bias.py", "            centered -= i_bias[ratings.col]\n", "", "break"),
 ("C08np", "basic/bias.py", "            np.add.at(sums, ratings.row, centered)", "            np.add.at(sums, ratings.col, centered)", "break"),
 ("C08np", "basic/bias.py", "            np.divide(sums, counts, out=u_bias, where=counts > 0)", "            np.divide(counts, sums, out=u_bias, where=sums > 0)", "break"),
 ("C08np", "basic/bias.py", "            np.add.at(counts, ratings.col, 1)\n", "            counts += np.bincount(ratings.col, minlength=ncols)\n", "keep"),
 ("C08np", "basic/bias.py", "            np.add.at(counts, ratings.row, 1)\n", "            counts += np.bincount(ratings.col, minlength=nrows)\n", "break"),
 ("C08np", "basic/bias.py", "        centered = ratings.data - g_bias\n", "        centered = ratings.data - g_bias\n        _logger.debug(\"centred\")\n", "keep"),
 ("C04sc", "basic/popularity.py", "        scores[mask] = self.item_scores_[inums[mask]]", "        scores[mask] = self.item_scores_[inums][mask]", "outside"),
 ("C04sc", "hpf.py", "        item_mask = item_nums >= 0", "        item_mask = item_nums > 0", "break"),
 ("C04sc", "implicit.py", "        if mult_first:\n            prod = prod[good_inos]\n", "", "break"),
 ("C04sc", "flexmf/_base.py", "        full_scores[scorable_mask] = scores.cpu()", "        full_scores[: len(i_cols)] = scores.cpu()", "break"),
 ("C04sc", "flexmf/_base.py", "        i_cols = i_cols[scorable_mask]\n        i_tensor = torch.from_numpy(i_cols)", "        i_tensor = torch.from_numpy(i_cols)", "break"),
 ("C04sc", "funksvd.py", "        i_feats = self.item_features_[item_nums[item_mask], :]", "        known = item_nums[item_mask]\n        i_feats = self.item_features_[known, :]", "keep"),
]
def build(pid):
    mod = OTHER[pid][1] if pid in OTHER else f"LK.Proofs.Guards{pid}"
    r = subprocess.run(["lake", "build", mod], cwd=LEAN, capture_output=True, text=True)
    return r.returncode == 0
if os.environ.get("LKV_ONLY"): CASES = [c for c in CASES if c[0] in os.environ["LKV_ONLY"].split(",")]          # e.g. LKV_ONLY=C09sim
bad = 0
for pid, rel, old, new, want in CASES:
    tmp = tempfile.mkdtemp(prefix="guards_", dir=os.environ.get("LKV_SCRATCH", "/root/scratch") if os.path.isdir(os.environ.get("LKV_SCRATCH", "/root/scratch")) else None)
    try:
        shutil.copytree(SRC, os.path.join(tmp, "lenskit"), ignore=shutil.ignore_patterns("__pycache__"))
        f = os.path.join(tmp, "lenskit", rel); text = open(f).read()
        assert old in text, (pid, rel, "pattern not found")
        open(f, "w").write(text.replace(old, new, 1))
        target = os.path.join(LEAN, "LK", "Generated", OTHER[pid][0] if pid in OTHER else f"Guards{pid}.lean"); keep = open(target).read()
        gen = (lambda: OTHER[pid][2](os.path.join(tmp, "lenskit"))) if pid in OTHER else (lambda: g.generate(pid, os.path.join(tmp, "lenskit")))
        uns = OTHER[pid][3] if pid in OTHER else g.Unsupported
        try:
            try: open(target, "w").write(gen()); ok = build(pid); how = "obligations " + ("hold" if ok else "fail")
            except uns as e: ok = False; how = "untranslatable: " + str(e)[:60]
        finally:
            open(target, "w").write(keep)
        # `outside`: behaviour-preserving, but written with constructs the translator does not cover — reported like a broken obligation
        verdict = "ok" if (ok == (want == "keep") and (want != "outside" or how.startswith("untranslatable"))) else "UNEXPECTED"
        bad += verdict != "ok"
        first = (new.strip().splitlines() or ["(line removed)"])[0][:70]
        print(f"{verdict:10s} {pid} {want:5s} {rel}: {first!r} → {how}")
    finally:
        shutil.rmtree(tmp, ignore_errors=True)
for pid in sorted({c[0] for c in CASES}): assert build(pid), pid          # the committed state builds again
print("guards selftest:", "all as expected" if not bad else f"{bad} unexpected")
sys.exit(1 if bad else 0)
