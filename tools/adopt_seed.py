"""Confirm a sub-agent's seeded change and file it under /verif/seeded/<id>/ (patch.diff, demo.py, meta.json).
usage: adopt_seed.py <agent dir> <X (A|B|A2..)> <Cxx> --tests "<pytest args>" [--tier quick|thorough] [--note "..."]"""
import argparse, json, os, shutil, subprocess, sys
ROOT = os.path.dirname(os.path.dirname(os.path.abspath(__file__)))
ap = argparse.ArgumentParser(); ap.add_argument("dir"); ap.add_argument("x"); ap.add_argument("pid"); ap.add_argument("--tests", required=True)
ap.add_argument("--tier", default="quick"); ap.add_argument("--note", default=""); ap.add_argument("--demo", default=None); ap.add_argument("--seed", default="1")
a = ap.parse_args()
demo = a.demo or f"demo_{a.x[0]}.py"
r = subprocess.run([sys.executable, os.path.join(ROOT, "tools", "seedtest.py"), a.dir, a.pid, "--patch", f"{a.x}.diff", "--demo", demo, "--tests", a.tests, "--tier", a.tier, "--seed", a.seed],
                   capture_output=True, text=True)
try: res = json.loads(r.stdout)
except Exception: print(r.stdout, r.stderr); sys.exit(2)
ok = res.get("demo_clean_rc") == 0 and res.get("apply_rc") == 0 and res.get("demo_patched_rc", 0) != 0 and res.get("imports_rc") == 0 and res.get("tests_rc") == 0
print(json.dumps({k: v for k, v in res.items() if k not in ("demo_patched_tail",)}, indent=1))
if not ok:
    print("NOT CONFIRMED — not filed"); sys.exit(1)
sid = f"{a.pid}-{a.x}"; d = os.path.join(ROOT, "seeded", sid); os.makedirs(d, exist_ok=True)
shutil.copy(os.path.join(a.dir, f"{a.x}.diff"), os.path.join(d, "patch.diff")); shutil.copy(os.path.join(a.dir, demo), os.path.join(d, "demo.py"))
agent = {}
for cand in (f"{a.x}.json", f"{a.x[0]}.json"):
    p = os.path.join(a.dir, cand)
    if os.path.exists(p):
        try: agent = json.load(open(p))
        except Exception: agent = {"raw": open(p).read()[:2000]}
        break
meta = {"id": sid, "property": a.pid, "breaks": agent.get("summary", ""), "needs": agent.get("needs", ""), "files": agent.get("files", []),
        "agent_tests_run": agent.get("tests_run", ""), "note": a.note,
        "confirmed": {"base_commit": subprocess.run(["git", "-C", "/repo", "rev-parse", "--short", "HEAD"], capture_output=True, text=True).stdout.strip(),
                      "demo_on_clean_tree_rc": res["demo_clean_rc"], "demo_with_patch_rc": res["demo_patched_rc"], "demo_with_patch_says": res.get("demo_patched_tail", "")[-200:],
                      "library_imports_with_patch": res["imports_rc"] == 0,
                      "existing_tests_with_patch": {"cmd": f"pytest -q -p no:cacheprovider -x {a.tests}", "rc": res["tests_rc"], "summary": res.get("tests_tail", "")}},
        "check": {"cmd": f"./check {a.pid} --tier {a.tier} (VERIF_SEED={a.seed}, LKV_REPO_SRC=<scratch copy with the patch>)", "exit": res.get("check_rc"), "detected": res.get("detected"),
                  "seconds": res.get("check_s"), "lines": [l.split(" replay=")[0] + (" no-failing-input-found" if l.endswith("no-failing-input-found") else "") for l in res.get("check_lines", [])],
                  "first_replay_case": res.get("replay_case"), "first_replay_failed": res.get("replay_failed"), "first_replay_verdict": res.get("replay_verdict")}}
json.dump(meta, open(os.path.join(d, "meta.json"), "w"), indent=1, ensure_ascii=False)
print("filed", d, "detected =", res.get("detected"))
