"""Append restated property theorems to lean/LK/Props/Cxx.lean (same scheme as gen_props, without regenerating the file).
usage: add_props.py Cxx Stem name [name…]"""
import os, re, sys
sys.path.insert(0, os.path.dirname(__file__))
import gen_props as g
LEAN = g.LEAN
pid, stem, names = sys.argv[1], sys.argv[2], sys.argv[3:]
src = open(f"{LEAN}/LK/Proofs/{stem}.lean").read()
path = f"{LEAN}/LK/Props/{pid}.lean"; text = open(path).read()
if f"import LK.Proofs.{stem}\n" not in text: text = f"import LK.Proofs.{stem}\n" + text
blocks = []; idx = []
cur = None
for name in names:
    m = re.search(rf"^theorem {re.escape(name)}\b", src, re.M); assert m, name
    ns, ctx = g.context_for(src, m.start()); binders, stmt = g.split_sig(src[m.end():]); args = " ".join(g.explicit_names(binders))
    doc = ""; k = src.rfind("/--", 0, m.start())
    if k >= 0:
        seg = src[k:m.start()]
        if re.fullmatch(r"/--(?:(?!-/).)*-/\s*(?:omit[^\n]*\n)?", seg, re.S): doc = seg[:seg.index("-/") + 2] + "\n"
    if (ns, ctx) != cur:
        if cur: blocks.append(f"end {cur[0]}\n")
        blocks.append(f"\nnamespace {ns}\n" + "\n".join(ctx) + ("\n" if ctx else "")); cur = (ns, ctx)
    pname = f"{pid}_{stem}_{name}"
    assert pname not in text, pname
    vnames = " ".join(n for l in ctx if l.startswith("variable (") for n in g.explicit_names(l[len("variable "):]))
    proof = f"{name} {args}" if not vnames else f"by first | exact {name} {args} | exact {name} {vnames} {args}"
    blocks.append(f"{doc}theorem {pname}{binders.rstrip()} :{stmt.rstrip()} :=\n  {proof}\n")
    idx.append(f"{pid} {ns}.{pname} {ns}.{name}")
if cur: blocks.append(f"end {cur[0]}\n")
open(path, "w").write(text.rstrip("\n") + "\n" + "\n".join(blocks))
open(f"{LEAN}/props.index", "a").write("\n".join(idx) + "\n")
print("added", len(idx), "to", path)
