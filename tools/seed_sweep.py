"""Re-validate every filed seeded change against /repo as it is now: patch applies, demo passes clean / fails patched, the property's
check reports a VIOLATION.  usage: seed_sweep.py [--tier quick] [--jobs 4] [ids…]   Writes seeded/SWEEP.json (a run with ids updates those entries only) and refreshes each meta.json's `check`."""
import argparse, json, os, subprocess, sys, time
from concurrent.futures import ThreadPoolExecutor
ROOT = os.path.dirname(os.path.dirname(os.path.abspath(__file__)))
ap = argparse.ArgumentParser(); ap.add_argument("ids", nargs="*"); ap.add_argument("--tier", default="quick"); ap.add_argument("--jobs", type=int, default=4); ap.add_argument("--seed", default="1")
a = ap.parse_args()
ids = a.ids or sorted(os.listdir(os.path.join(ROOT, "seeded")))
ids = [i for i in ids if os.path.isdir(os.path.join(ROOT, "seeded", i))]
def one(sid):
    d = os.path.join(ROOT, "seeded", sid); pid = sid.split("-")[0]
    r = subprocess.run([sys.executable, os.path.join(ROOT, "tools", "seedtest.py"), d, pid, "--patch", "patch.diff", "--demo", "demo.py", "--tier", a.tier, "--seed", a.seed],
                       capture_output=True, text=True, env=dict(os.environ, OMP_NUM_THREADS="2", MKL_NUM_THREADS="2"))
    try: res = json.loads(r.stdout)
    except Exception: res = {"error": (r.stdout + r.stderr)[-400:]}
    res["id"] = sid
    return res
t0 = time.time(); out = []
with ThreadPoolExecutor(a.jobs) as ex:
    for res in ex.map(one, ids):
        ok = res.get("apply_rc") == 0 and res.get("demo_clean_rc") == 0 and res.get("demo_patched_rc", 0) != 0
        print(res["id"], "applies+demo" if ok else "STALE", "DETECTED" if res.get("detected") else "MISSED", f"{res.get('check_s')}s", flush=True)
        out.append({k: res.get(k) for k in ("id", "apply_rc", "demo_clean_rc", "demo_patched_rc", "check_rc", "detected", "check_s", "replay_verdict", "error")})
        mp = os.path.join(ROOT, "seeded", res["id"], "meta.json")
        if ok and os.path.exists(mp):
            m = json.load(open(mp)); m["check"].update({"exit": res.get("check_rc"), "detected": res.get("detected"), "seconds": res.get("check_s"), "tier": a.tier,
                                                        "revalidated_at_repo_commit": subprocess.run(["git", "-C", "/repo", "rev-parse", "--short", "HEAD"], capture_output=True, text=True).stdout.strip()})
            json.dump(m, open(mp, "w"), indent=1, ensure_ascii=False)
sp = os.path.join(ROOT, "seeded", "SWEEP.json")
if a.ids and os.path.exists(sp):          # a partial sweep updates the entries of the last complete one instead of replacing it
    prev = json.load(open(sp)); byid = {o["id"]: o for o in prev.get("results", [])}; byid.update({o["id"]: o for o in out})
    json.dump(dict(prev, results=[byid[k] for k in sorted(byid)], partial_update={"ids": sorted(o["id"] for o in out), "seed": a.seed}), open(sp, "w"), indent=1)
else:
    json.dump({"tier": a.tier, "seed": a.seed, "wall_s": round(time.time() - t0), "results": out}, open(sp, "w"), indent=1)
print("detected", sum(1 for o in out if o.get("detected")), "of", len(out))
