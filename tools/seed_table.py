"""Prints the markdown table of a later seeding round for DESIGN.md §10.5 (ids ending in 3 — the default — or 4) from seeded/*/meta.json.
usage: seed_table.py [3|4]"""
import json, glob, os, sys
ROOT = os.path.dirname(os.path.dirname(os.path.abspath(__file__)))
NEEDED = {
 "C02-B3": "generated graphs also use lenskit's own first-available component (`fallback_on_none`) — falsy primaries (0) occur",
 "C03-A3": "zero-based user identifiers in the generated datasets",
 "C03-B3": "recommendations of a rating-prediction pipeline compared with those of the same pipeline without rating prediction",
 "C04-A3": "a history item unknown to the model must be neutral (same scores with and without it) for the k-NN / implicit scorers",
 "C06-B3": "discount functions below 1 (`ln`, half square root) for DCG / nDCG",
 "C08-B3": "average-rank and cumulative-share variants of the time-bounded scorer against the popularity model on the after-cut-off counts",
 "C09-B3": "user k-NN queries with a supplied history compared with the definition — this found the real normalisation defect (`08b99c8`) first; the seeded change is then reported as well",
 "C10-A3": "fold-in embeddings: normal equations of the supplied history, five array forms of the rating field, the same list presented twice and compared afterwards",
 "C10-B3": "FunkSVD / ALS scores checked for every trained user, zero-based identifiers",
 "C11-B3": "text-derived seeds (`(seed, \"user\")`, strings) compared across interpreter processes with different `PYTHONHASHSEED`",
 "C12-A3": "batch recommendation lengths None / 0 / 1 / 3 / 50 (was always 3)",
 "C12-B3": "the model shared with process-pool workers holds empty arrays",
 "C13-A3": "components with optional settings explicitly set to None (default not None); settings compared after reload",
 "C14-A3": "candidate lists in four forms (vocabulary-backed, numbers, identifiers only, with an unknown one) and a history list; their whole observable state (vocabulary, numbers, pickled state, frame columns) before / after the run; every pipeline history contains a run",
 "C14-B3": "datasets built without a designated default interaction class; the schema is recorded before any data view is taken; plain read operations in the histories",
 "C15-B3": "generated datasets whose identifiers are registered out of order (integer and string) with every attribute layout, observed through identifiers, numbering, interaction views, per-user rows, statistics, attributes; pickled models of nine scorer kinds compared by their scores",
 "C16-A3": "representation round trips (Arrow with / without numbers, frame, pickle, torch) inside the operation histories; floating-point fields incl. NaN for every item (first reported by the C15 check's all-NaN score field)",
 "C18-B3": "repeated `Pipeline.train` calls with both retrain settings × five seed kinds against the new `pipeTrain` model (op `c18.pipe`)",
 "C19-A3": "the ranker's input list and the scores it carries are compared before / after; original scores must be carried into the output",
 "C19-B3": "repeated calls for queries without a user identifier (derived seeds) must differ as the model's draw sequence says",
}
NEEDED.update({
 "C01-B4": "per-entity statistics (count, rating count, mean rating, first / last time) compared with the record table — also on a copy of the records in which every other record has no rating value",
 "C02-A4": "components addressed by node, by name and by an alias when they are wired",
 "C09-A4": "the same query object scored twice (item k-NN: history with a caller-owned float32 rating array); scores must repeat and the caller's history must be what it was",
 "C12-A4": "test collections keyed by (user, sequence number) — keys that carry fields beyond the user, with a user recurring",
 "C12-B4": "an invoker given a model that cannot be shipped to the workers: the error surfaces and no process the invoker started is left (also checked after every pool run)",
 "C13-A4": "after a modifying builder derived from the pipeline re-points one of its connections, the pipeline's document, hash and clone (no hash warning) are compared with what they were",
 "C14-B4": "one builder built twice with the scorer given as class + configuration; the later pipeline's scorer is trained on other data",
 "C15-A4": "collections holding several lists under one key",
 "C16-A4": "fields given as nested plain sequences (list of lists, tuple of tuples, list of arrays) — right outer length, wrong dimensionality",
 "C17-A4": "dense vectors supplied as a column-major (Fortran-ordered) matrix",
 "C19-A4": "the configured scale factor varied (0.5, 2, −1, 0, −2) for the linear and identity transforms",
})
NEEDED.update({
 "C03-B5": "the pipeline is first trained on an earlier snapshot of the data and then trained again, with the default options, on the data the expectations refer to",
 "C05-B5": "cut-offs of exactly 0 on integer timestamps that start at 0 (12 % of the plain temporal cases, two directed ones)",
 "C07-A5": "the prediction metric registered once more with an explicitly requested default of 0",
 "C07-B5": "test collections keyed by the same two fields as the outputs, in the other order",
 "C08-A5": "item vocabularies that are not in identifier order (the largest identifiers registered first, the others arriving with the records)",
 "C10-B5": "the same ALS scorer trained again (another seed) and asked to fold the same history in: the embedding must solve the system over the embeddings it has now",
 "C11-A5": "one `TrainingOptions` object carrying an integer seed handed to two trainings, and asked for its generator twice",
 "C18-A5": "the `implicit` bridge (ALS, BPR) among the components, and datasets of one shape (other users and items, the same numbers of both)",
 "C18-B5": "the first call's options object handed to `Pipeline.train` again",
})
NEEDED.update({
 "C02-A6": "an inline literal string that spells the name (or an alias) of an existing node, given as an input value: it must stay a literal",
 "C02-B6": "`replace_component` called with only some of the inputs given again — the others must be retained",
 "C09-A6": "directed dense cases with a small neighbourhood limit (every rated item similar to the target, `max_nbrs` 1–3) on explicit feedback",
 "C09-B6": "a neighbour whose similarity reaches the configured minimum exactly (directed user-user case with `min_sim` set to a similarity that occurs)",
 "C12-A6": "queries whose test list is empty, with the test items as candidates",
 "C13-A6": "components added as a class with no configuration object, and the written document compared with the settings of the built component",
 "C14-B6": "a component of the caller's own that derives copies with the documented `ItemList(source, field=False)` / `scores=False` forms from a scored list",
 "C15-A6": "date-times with a sub-microsecond part (interaction timestamps and a date-time item attribute), half of the generated datasets",
 "C15-B6": "collections written with a `batch_size` smaller than the number of lists (several record batches)",
 "C16-A6": "a copy with the ordering flag given (`ordered=False` of a list whose ranks were already asked for), then asked for its ranks",
 "C16-B6": "Boolean masks and position selectors given as plain lists and tuples, not only as arrays",
 "C17-A6": "entities registered in two or three batches whose later batches hold smaller identifiers, before attributes are attached",
 "C19-A6": "a selector with a fixed integer seed called several times in a row (the calls continue one stream), with the scripted generator injected through the library's own RNG constructor",
})
SUF = sys.argv[1] if len(sys.argv) > 1 else "3"
rows = []
for d in sorted(glob.glob(os.path.join(ROOT, "seeded", "*" + SUF))):
    m = json.load(open(os.path.join(d, "meta.json")))
    i = m["id"]; txt = (m.get("breaks") or "").replace("|", "\\|").replace("\n", " ")
    txt = txt if len(txt) <= 170 else txt[:167] + "…"
    by = m["check"].get("detected_by")
    rows.append(f"| {i} | {txt} | {NEEDED.get(i, '— (caught as first written)')}{' *(detected: ' + str(m['check'].get('detected')) + ')*' if not m['check'].get('detected') else ''} |")
print("| id | the change | what the check needed in order to see it |\n|---|---|---|")
print("\n".join(rows))
