"""add an entry to known_findings.json:  add_finding.py fixed|finding Cxx "<match>" "<what>" [commit]"""
import json, sys, os
ROOT = os.path.dirname(os.path.dirname(os.path.abspath(__file__)))
kind, pid, match, what = sys.argv[1:5]; commit = sys.argv[5] if len(sys.argv) > 5 else None
p = os.path.join(ROOT, "known_findings.json"); d = json.load(open(p))
d = [e for e in d if not (e["property"] == pid and e["match"] == match)]
e = {"property": pid, "kind": kind, "match": match, "what": what}
if kind == "fixed": e["commit"] = commit; e["line"] = f"fixed: property={pid} {commit} {match}"
d.append(e); json.dump(d, open(p, "w"), indent=1); print(e)
