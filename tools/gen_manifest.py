"""Writes /verif/MANIFEST.json from the table below (run by hand after editing; the result is committed)."""
import json, os
ROOT = os.path.dirname(os.path.dirname(os.path.abspath(__file__)))

TB = ("Trusted: Lean 4.33 kernel + axioms {propext, Classical.choice, Quot.sound} (audited per run with #print axioms, forbidden-token grep); "
      "single Mathlib v4.33 modules in proof files; the Python correspondence harness (generators, canonicalisation, tolerance policy, scripted RNG) and the "
      "compiled Lean driver; NumPy/pandas/PyArrow/SciPy/PyTorch primitives are modelled as definitions, not verified. ")

P = {
 "C01": ("Theorems over the builder/CSR model for all operation histories (prefix-stable numbering, nodup, number_iff, row slice = the user's records, row pointers, "
         "new-record denotation, filters only remove / time-window spec, no (user, item) pair stored twice); the model is tied to the code by a differential run of generated "
         "builder histories with every view (record table, SciPy/torch CSR+COO, CSR/COO structure incl. nnz and shape, rows by id and by number, stats) decoded and compared.",
         "Arrow/SciPy/torch constructors are assumed to honour the arrays they are given; attribute values are opaque payloads.",
         "Lean theorems (induction over op lists) + model/impl differential on builder histories", "5/C01"),
 "C02": ("run = denotation for every ranked (acyclic) graph, inputs and request list (run_eq_denote, ≈1000 lines); the builder's validate is modelled and proved to yield such a rank (validated_run_eq_denote) "
         "and to reject every cyclic wiring; default-connection resolution theorems; at-most-once and needed-only execution for arbitrary graphs; "
         "tied to PipelineRunner by a differential over generated DAGs (values, error classes, execution log order).",
         "Component behaviour comes from a closed DSL shared by model and harness; Python-level type checking is abstracted to accepts/acceptsNone.",
         "Lean refinement proof (memoised runner = denotational evaluator) + differential on generated DAGs", "5/C02"),
 "C03": ("argtopn subset/nodup/sorted/length/optimal, candidate-set definition, query-form agreement, fallback merge, run-time n precedence proved for all inputs; "
         "differential through the real topn/predict pipelines with a table scorer.",
         "Each real scorer's scores are taken from the scorer itself; float32 scores compared exactly as rationals.",
         "Lean theorems on top-n/candidate model + differential through real pipelines", "5/C03"),
 "C04": ("The gather-mask-scatter idiom equals a per-item map (alignment, independence, permutation-equivariance) for all lists; that each shipped scorer is an instance "
         "is measured metamorphically (singleton-call table vs list call) — correspondence, not theorem.",
         "Scorer internals (torch modules, BLAS) are opaque tables; cross-list float comparison within tolerance.",
         "Lean theorem on the scatter idiom + model-mediated metamorphic run over shipped scorers", "5/C04"),
 "C05": ("array_split partition, make-pair partition, user-split exactness/no-leak, LastN spec, temporal partition / windows of a cut sequence and zone-independence of the conversion of every cut-off and end bound proved for all inputs and all "
         "permutations; differential against every splitter and holdout incl. fallback paths.",
         "pandas/Arrow filter primitives assumed; random choices enter as universally quantified parameters (scripted RNG at run time).",
         "Lean theorems (perm/partition inductions) + differential with scripted generator", "5/C05"),
 "C06": ("Bounds, ideal = 1, swap monotonicity (incl. rearrangement argument for graded nDCG), MeanPopRank range / unknown-item clauses proved over Rat for all lists/truths/cut-offs with an abstract non-decreasing discount; "
         "code-shaped metric model compared with measure_list on generated cases to 1e-12.",
         "float evaluation within tolerance; log2 discount enters as a table of the float values NumPy produced.",
         "Lean theorems over Rat + exact-rational differential of ten list metrics", "5/C06"),
 "C07": ("global aggregate = metric of pooled usable pairs for lists of any length (global_is_pooled), counts = usable pairs, per-key row definition; RunAnalysis compared per list and at run level.",
         "pandas alignment/aggregation primitives assumed; RMSE compared through its square.",
         "Lean theorem on pooling + differential of RunAnalysis tables", "5/C07"),
 "C08": ("Code-shaped accumulation = documented damped-mean formulas for every dataset/damping; strict monotonicity of count/rank popularity; history offset formula; differential on BiasModel/PopScorer.",
         "float32 storage rounding within tolerance; time-bounded popularity judged under TZ=UTC.",
         "Lean theorems over Rat + differential on learned offsets and scores", "5/C08"),
 "C09": ("Fast/slow/rank-mask scoring paths equal the definitional neighbourhood formula; similarity symmetry/no-self/range; truncation keeps the top; block-size independence — for all inputs up to exact ties; "
         "differential on sim matrices and scores of trained item/user k-NN models.",
         "sparse kernels and float32 rounding within tolerance; similarities within rounding of the threshold are skipped.",
         "Lean theorems + differential on trained k-NN models", "5/C09"),
 "C10": ("PARTIAL (floating point): normal equations ⇔ (unique) global minimiser of the ridge / confidence-weighted objective proved over any ordered field with Mathlib matrices; the residual term of the theorem itself is "
         "evaluated by an interpreted Lean driver on the trained rows; FunkSVD Float model bit-compared with numba; that Cholesky/torch solve to rounding is measured, not proved.",
         "Lean interpreter evaluates closed Mathlib terms as the kernel would; float residual tolerance 1e-5 relative.",
         "Lean/Mathlib optimality theorems + residual evaluation of trained rows (measurement)", "5/C10"),
 "C11": ("PARTIAL (thread-level FP): seeded non-interference of the splitter plumbing, derived-seed order independence, chunk/fan-out independence proved; chunking arithmetic is re-translated from the source "
         "on every run and its obligations re-proved; bit-identity across thread counts is sampled in subprocesses.",
         "numpy Generator/SeedSequence assumed; BLAS/torch kernel determinism sampled only.",
         "Lean theorems + per-run translation of WorkChunks.create + seeded re-run / thread grid", "5/C11"),
 "C12": ("PARTIAL (OS scheduling): collector logic (batch = sequential map in key order, failure surfaces, fan-out = map) proved for every completion order; real process pools compared with sequential calls.",
         "Executor.map yields in submission order (assumed); process pools and shared memory are exercised, not modelled.",
         "Lean theorems on collector model + differential with real pools", "5/C12"),
 "C13": ("Configuration round trip under WFcfg, injectivity of the canonical JSON tree, order independence of aliases/edges proved; model text compared byte-for-byte with pydantic's and SHA-256 with config_hash, producers re-run under several PYTHONHASHSEEDs.",
         "pydantic's JSON writer and SHA-256 assumed; render injectivity on trees assumed.",
         "Lean theorems on config model + byte-level differential of canonical text", "5/C13"),
 "C14": ("Separation invariant over all operation histories of the heap model (built objects unaffected by any later operation on derived builders); every generated pipeline and dataset-schema history also drives the Lean heap model (op c14.run) and the wiring / schema dictionaries of all objects are compared after every operation; heap-shape abstraction and fingerprints in addition.",
         "The heap model's copy discipline is the code's only as far as the heap-shape probe measures it.",
         "Lean invariant proof on heap model + heap-shape / fingerprint histories on real objects", "5/C14"),
 "C15": ("Generated datasets (out-of-order / string identifiers, every attribute layout) and pickled models of nine scorer kinds are compared observationally after the round trip. Every crash prefix of the save sequence (any deletion order, clean or torn write) loads as fail/new/old, never a mixture — proved without side hypotheses; fault injection at the file-system primitives on the real save at every step compared with the model; ItemList pickling modelled with round-trip theorems and the pickled state compared; the other round trips measured.",
         "Parquet/pickle codecs assumed injective with non-decoding truncations; a completed rmtree/write is durable.",
         "Lean theorem over all crash points + exhaustive fault injection on the real save", "5/C15"),
 "C16": ("Alignment invariant and selection/caching/alternate-vocabulary/copy-constructor/ranks-cache specs proved for the item-list model; differential over operation histories (incl. copies with replaced identifiers, numbers, vocabulary, fields; representation round trips through Arrow, frames, pickle and torch; floating-point fields incl. all-NaN).",
         "NumPy/torch/Arrow conversions assumed.",
         "Lean invariant proof + differential on operation histories", "5/C16"),
 "C17": ("Read-back theorems for the scalar, list, dense-vector and sparse-vector layouts (incl. sliced Arrow inputs) for all subsets/orders; differential on add/read of attributes through every input and read form, selections and drop_null.",
         "Arrow list/struct constructors assumed.",
         "Lean theorems + differential on attribute add/read", "5/C17"),
 "C18": ("Guard logic (skip = identity), retrain = fresh, once-only training and distinct seeds proved on the training model, also at pipeline level (pipeTrain: skip is the identity whatever the seed, retrain = fresh, untrainable components untouched); full-state comparison of retrained vs fresh real components and repeated pipeline trainings against the model (op c18.pipe) is correspondence.",
         "The model knows learned attributes by name only; state comparison excludes timers.",
         "Lean theorems on train guard/loop + state-snapshot differential on real components", "5/C18"),
 "C19": ("PARTIAL (distribution): validity (subset, nodup, length, order), weight normalisation, run-time n precedence proved for all random inputs; the analytic core of the first-position odds (exponential clocks: w/W) proved with Mathlib, the link to NumPy's draws assumed; exact ranking predicted from scripted uniforms; first-position odds tested statistically (thorough).",
         "Sampler distribution (exponential clocks / uniform subset) assumed, tested statistically.",
         "Lean theorems + scripted-RNG differential (+ statistical test)", "5/C19"),
 "C20": ("verified-or-warned by induction on attempts, pairing injective, columns valid, every eligible column reachable — for all draw streams; scripted-RNG differential predicts exact columns and warnings.",
         "NumPy draws are scripted/replayed.",
         "Lean theorems + scripted-RNG differential", "5/C20"),
}

GUARDS = {
 "C13": "the places where the configuration document gets its canonical order (input types, component connections, aliases, literals), what kind of node ComponentNode.create makes of a component (a class always has its configuration validated), default-connection resolution, and when a loaded document's recorded hash is challenged",
 "C16": "ItemList.numbers (alternate-vocabulary path, computing the own numbers, the KeyError test) and of the copy constructor (which of the identifiers, numbers and cached ranks copied from the source an override makes stale), ItemList.ranks (unordered lists have no ranks whatever is stored) and the selector conversion of __getitem__",
 "C15": "ItemList.__getstate__ / __setstate__ (what goes into the pickled state: stored identifiers / numbers, else resolved through the vocabulary, else left out) and the options DataContainer.save hands to write_table (none that coerces values)",
 "C14": "the copy depth at PipelineBuilder.from_pipeline / build_config and DatasetBuilder.__init__ / build_container",
 "C05": "the path selection of sample_records and sample_users (fall-back calls with their arguments)", "C06": "RankingMetricBase.truncate, Recall's denominator and nDCG's ideal length",
 "C01": "MatrixRelationshipSet.row_items / row_table and Vocabulary.number / numbers / term / terms (unknown identifiers are reported, negative numbers rejected)", "C02": "fallback_on_none (use_first_of) and the runner (status dispatch, answer to a request of a finished node, missing / ill-typed inputs, required-ness of dependencies, bail-out, deferred type test)", "C03": "TopNRanker.__call__, UserTrainingHistoryLookup.__call__ and stats.argtopn",
 "C07": "RunAnalysis.measure (test-data chain)", "C08": "BiasModel.compute_for_items (user-offset chain)", "C09": "UserKNNScorer.__call__ (self-similarity guard)",
 "C10": "ALSBase.__call__ (user number, fold-in guard) and the bias chain", "C11": "DerivingRNG.__call__, random_generator (which generator a seed resolves to), derivable_rng and the samplers' path selection", "C18": "Pipeline.train (seed classification, per-component options) and the retrain guard of all 13 shipped trainable components",
 "C19": "the list-length logic of StochasticTopNRanker, SoftmaxRanker and RandomSelector, and that each builds its generator factory once, in its constructor",
}

def main():
    checks = []
    for pid in sorted(P):
        text, note, tech, ref = P[pid]
        if pid in GUARDS:
            text += (f" The decision logic of {GUARDS[pid]} is re-translated from the source into Lean on every run (translate/py2lean_guards.py → LK/Generated/Guards{pid}.lean) "
                     f"and proved to be the model's (LK/Proofs/Guards{pid}.lean); a broken obligation triggers the failing-input search.")
            tech += " + per-run translation of decision logic with proof obligations"
        if pid == "C01":
            text += " The CSR row-pointer computation of MatrixRelationshipSet.__init__ is re-translated on every run (translate/py2lean_arrow.py → LK/Generated/RowPtrsC01.lean) and proved equal to the model's rowPtrs (rowPtrsT_eq)."
        if pid == "C09":
            text += (" _sim_row, _sim_block and _sim_blocks (the similarity rows of the item-item model and their assembly into a CSR tensor block by block) are re-translated on every run (translate/py2lean_sim.py → LK/Generated/SimC09.lean, "
                     "torch operations in LK/Model/TorchOps.lean) and proved to store the model's simRowTrunc for every item, whatever the block size (simRowT_eq, simBlocksT_eq, simBlocksT_row).")
            tech += " + per-run translation of the similarity-row kernel proved equal to the model"
        if pid == "C09":
            text += (" The neighbour selection of UserKNNScorer.__call__ (userNbrsT: a user is a candidate iff its similarity is at least min_sim, never the user itself) and the per-target scoring of "
                     "ItemKNNScorer.__call__ (itemScoreT: nothing below min_nbrs, the whole neighbourhood when it fits within max_nbrs, the max_nbrs most similar otherwise — proved to be the model's aggregate, itemScoreT_eq) are translated the same way.")
        if pid == "C15":
            text += (" The native Parquet layout of item-list collections (record_batches / save_parquet / load_parquet) is re-translated on every run (translate/py2lean_coll.py → LK/Generated/CollC15.lean) and proved to load, "
                     "for every collection and every batch size, the saved keys in the saved order each with its own list (load_save, load_save_batch_indep).")
            tech += " + per-run translation of the collection layout with a round-trip theorem for every batch size"
        if pid in ("C14", "C02"):
            text += (f" The builder's edit operations connect / clear_inputs / replace_component are re-translated on every run (translate/py2lean_build.py → LK/Generated/Build{pid}.lean) and proved "
                     + ("to be the connect / clearInputs steps of the heap model (connectT_is_step, clearInputsT_is_step); the item-list copy constructor is read for fresh field dictionaries and no in-place change of objects shared with its source (run_leaves)."
                        if pid == "C14" else "to retain the connections that are not given again and to wire a non-node value as a literal whatever it spells (replace_retains, replace_overrides, literal_stays_literal)."))
            tech += " + per-run translation of the builder's edit operations with proof obligations"
        if pid == "C17":
            text += (" The identifier bookkeeping of add_entities is re-translated on every run (translate/py2lean_ent.py → LK/Generated/EntC17.lean) and proved to be the model's addEntities with the index equal to the table "
                     "(addEntitiesT_eq, numbers_kept: entities keep their numbers when more are added).")
        if pid == "C19":
            text += " The linear transform of StochasticTopNRanker, the scaling statement before it and the statements after it (exponential-race keys, the pick) are re-translated on every run (translate/py2lean_imp.py → LK/Generated/ImpC19.lean) and proved equal to the model's linearWeights / keys / stochasticRank."
        if pid == "C07":
            text += (" The methods of RMSE and MAE (measure_list, compute_list_data, extract_list_metric, global_aggregate) are re-translated on every run (translate/py2lean_agg.py → LK/Generated/AggC07.lean, "
                     "pandas missing-value semantics in LK/Model/SeriesOps.lean) and proved equal to the model's listData / extract / measureList / globalAgg.")
            tech += " + per-run translation of the RMSE / MAE methods proved equal to the model"
        if pid == "C10":
            text += (" The linear systems the explicit / implicit row solvers and fold-ins hand to the Cholesky solver are re-translated on every run into Mathlib matrix terms (translate/py2lean_als.py → LK/Generated/AlsC10.lean) "
                     "and proved to be the normal equations of the documented objectives (ridge penalty reg × entry count; confidence-weighted system over all rows, via restriction to the row's entries).")
            tech = "Lean/Mathlib optimality theorems + per-run translation of the solvers' linear systems proved to be the normal equations + residual evaluation of trained rows (measurement)"
        if pid == "C20":
            text += (" sample_negatives / _check_negatives / _check_negatives_and_resample are re-translated on every run into one function recursing on the attempt budget (translate/py2lean_neg.py → LK/Generated/NegC20.lean) "
                     "and proved equal to the model's sampleVerified (sampleT_eq).")
            tech += " + per-run translation of the verified sampler proved equal to the model"
        if pid == "C12":
            text += (" What the batch runner registers, what its worker asks of the pipeline for one key, and the length batch.recommend forwards are recorded on every run and proved to be the worker model's "
                     "(LK/Model/BatchWorker.lean, LK/Proofs/BatchTraceC12.lean: one call per invocation, each with its own inputs only; n forwarded as given).")
            tech += " + per-run recording of the runner / worker calls proved equal to the worker model"
        if pid == "C15":
            text += (" The file-system step sequence of the real DataContainer.save (over an existing directory and into a fresh one) is recorded on every run and proved to be the model's saveSteps / saveFresh "
                     "(LK/Proofs/SaveTraceC15.lean), so the crash-safety theorems apply to what the code did.")
            tech += " + per-run recording of the save's step sequence proved equal to the model's"
        if pid == "C17":
            text += (" _expand_and_align_list_array is re-translated statement by statement on every run (translate/py2lean_arrow.py → LK/Generated/ArrowC17.lean) and proved equal to the model's expandAlign "
                     "(expandAlignT_eq: scatter of lengths + cumulative sum = prefix sums; null mask), hence to read back what was supplied.")
            tech += " + per-run translation of the list-array alignment proved equal to the model"
        if pid == "C05":
            text += " The holdout methods SampleN / SampleFrac / LastN / LastFrac are re-translated on every run (translate/py2lean_holdout.py) and LastN is proved equal to the model's repaired lastN. The record splitters' bookkeeping (_make_pair, crossfold_records, _disjoint_samples) is matched statement by statement on every run (translate/py2lean_split.py → LK/Generated/SplitC05.lean) and proved equal to the model's makePair / crossfoldRecords."
        if pid == "C06":
            text += (" array_dcg / fixed_dcg are re-translated statement by statement on every run (translate/py2lean_np.py → LK/Generated/NpC06.lean) and proved equal to the model's arrayDcg / fixedDcg; "
                     "measure_list of Hit, Precision, Recall, RecipRank, RBP, NDCG (binary and graded) and MeanPopRank is re-translated (translate/py2lean_rank.py → LK/Generated/RankC06.lean) and each proved equal to the model's metric.")
            tech += " + per-run translation of seven metrics' measure_list and of the DCG kernels proved equal to the model"
        if pid == "C08":
            text += (" BiasModel.learn's NumPy code is re-translated statement by statement on every run (translate/py2lean_np.py → LK/Generated/NpC08.lean) and proved equal to the accumulation model "
                     "(biasLearn_eq_model), which is proved equal to the documented damped means; BiasModel.compute_for_items is translated with all its branches (translate/py2lean_imp.py → LK/Generated/ImpC08.lean) "
                     "and proved to assemble global + item + user offset with the documented precedence (computeForItems_spec, assembled_is_score, histBias_is_model).")
            tech += " + per-run translation of BiasModel.learn proved equal to the model"
        if pid == "C04":
            text += (" The array statements of __call__ of PopScorer, HPFScorer, FunkSVDScorer, ALSBase, BiasedSVDScorer, FlexMFScorerBase (the FlexMF family) and the implicit bridge are re-translated on every run (translate/py2lean_scatter.py → LK/Generated/ScatterC04.lean, "
                     "combinators of LK/Model/ArrayOps.lean) and each translated __call__ is proved equal to the per-item map scoreList (LK/Proofs/ScatterC04.lean); the k-NN, FlexMF and implicit scorers remain measured only.")
            tech = "Lean theorem on the scatter idiom + per-run translation of seven scorer classes' array code proved equal to it + model-mediated metamorphic run over shipped scorers"
        if pid == "C03":
            text += (" The wiring of the pipelines topn_pipeline / predict_pipeline build is extracted on every run (translate/wiring_gen.py → LK/Generated/WiringC03.lean) and the value of its "
                     "recommender / rating-predictor nodes, with every component replaced by its model, is proved to be LK.Rec.recommend / fallbackMerge for all environments (LK/Proofs/WiringC03.lean).")
        checks.append({
            "property_id": pid,
            "quick_cmd": f"./check {pid} --tier quick",
            "thorough_cmd": f"./check {pid} --tier thorough",
            "evidence_file": f"evidence/{pid}.json",
            "replay_cmd_template": f"./check {pid} --replay {{path}}",
            "engine": "lean4-lk",
            "level_claimed": {"category": "proof", "text": text, "design_ref": f"DESIGN.md §{ref}"},
            "level_note": TB + note,
            "technique": tech,
        })
    m = {
        "version": 1,
        "setup_cmd": "cd lean && lake build LK lkdriver",
        "hooks": {"guard": "LENSKIT_LKPY_VERIF", "enable": "no source hooks: the harness monkey-patches at run time; ./check exports LENSKIT_LKPY_VERIF=1 (unused by /repo)",
                  "baseline_off_cmd": "cd /repo && /venv/bin/python -m pytest -ra -q -p no:cacheprovider --timeout=900 --continue-on-collection-errors",
                  "source_commits": [], "add_only": True},
        "engines": [{"name": "lean4-lk", "path": "lean", "serves_properties": sorted(P),
                     "kind_free_text": "Lean 4 library LK (models, specs, proofs, restated property theorems) + compiled JSON-lines driver lkdriver + interpreted Mathlib driver MatMain.lean; Python correspondence harness under harness/"}],
        "checks": checks,
        "notes": "All 20 properties claimed; C10, C11, C12, C18, C19 are partial as described in DESIGN.md. Exit 2 = machinery error, never a violation.",
        "not_applicable": [],
    }
    json.dump(m, open(os.path.join(ROOT, "MANIFEST.json"), "w"), indent=1, ensure_ascii=False)
    print("wrote MANIFEST.json with", len(checks), "checks")

if __name__ == "__main__":
    main()
