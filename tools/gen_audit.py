"""Rewrite lean/LK/Audit.lean from lean/props.index (one `#print axioms` per restated property theorem)."""
import os
LEAN = os.path.join(os.path.dirname(os.path.dirname(os.path.abspath(__file__))), "lean")
names = [l.split()[1] for l in open(os.path.join(LEAN, "props.index")) if l.split()]
open(os.path.join(LEAN, "LK", "Audit.lean"), "w").write("import LK.PropsAll\n" + "".join(f"#print axioms {n}\n" for n in names))
print(len(names), "theorems")
