"""Verify that every committed file under lean/LK/Generated is what the translators produce from /repo as it is now
(a check run against a patched copy without a private LKV_LEAN would leave translated files of the patched sources behind).
usage: check_generated.py [--fix]   exit 0 if all equal (or fixed)"""
import os, sys
ROOT = os.path.dirname(os.path.dirname(os.path.abspath(__file__)))
sys.path.insert(0, os.path.join(ROOT, "translate"))
import py2lean, py2lean_guards as g, py2lean_np, py2lean_scatter, py2lean_imp, py2lean_holdout, py2lean_arrow, py2lean_cand, py2lean_neg, py2lean_als, py2lean_agg, py2lean_rank, py2lean_sim, py2lean_split, py2lean_coll, py2lean_build, py2lean_ent
R = "/repo/src/lenskit"; G = os.path.join(ROOT, "lean", "LK", "Generated")
out = {f"Guards{pid}.lean": g.generate(pid, R) for pid in sorted(g.SITES)}
out.update({"NpC08.lean": py2lean_np.translate_learn(R), "NpC06.lean": py2lean_np.translate_dcg(R), "ScatterC04.lean": py2lean_scatter.generate(R),
            "ImpC08.lean": py2lean_imp.translate(R), "HoldoutC05.lean": py2lean_holdout.generate(R), "ArrowC17.lean": py2lean_arrow.translate(R),
            "ArrowScalarC17.lean": py2lean_arrow.translate_scalar(R), "CandC03.lean": py2lean_cand.translate(R), "NegC20.lean": py2lean_neg.translate(R), "AlsC10.lean": py2lean_als.generate(R), "AggC07.lean": py2lean_agg.generate(R), "RankC06.lean": py2lean_rank.generate(R), "ImpC19.lean": py2lean_imp.translate_linear(R), "RowPtrsC01.lean": py2lean_arrow.translate_rowptrs(R), "SimC09.lean": py2lean_sim.translate(R), "SplitC05.lean": py2lean_split.translate(R),
            "CollC15.lean": py2lean_coll.translate(R), "EntC17.lean": py2lean_ent.translate(R), "BuildC14.lean": py2lean_build.translate(R, "C14"), "BuildC02.lean": py2lean_build.translate(R, "C02"),
            "Chunking.lean": py2lean.translate(R + "/parallel/chunking.py", "WorkChunks", "create", "chunkCreate", "LK.Gen.Chunking")})
bad = [f for f, t in out.items() if open(os.path.join(G, f)).read() != t]
extra = sorted(set(os.listdir(G)) - set(out) - {"WiringC03.lean", "SaveTraceC15.lean", "BatchTraceC12.lean"})          # (these are produced by running lenskit; ./check C03 / C15 / C12 rewrites them)
for f in bad:
    print("differs from the translation of /repo:", f)
    if "--fix" in sys.argv: open(os.path.join(G, f), "w").write(out[f])
if extra: print("unexpected files:", extra)
print(f"{len(out) - len(bad)} of {len(out)} generated files are current")
sys.exit(0 if (not bad or "--fix" in sys.argv) and not extra else 1)
