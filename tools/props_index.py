"""Which scratch theorems carry which property (file stem under LK/Proofs, theorem short name)."""
INDEX = {
 "C01": [("Dataset", n) for n in ["addEntities_prefix", "addEntities_nodup", "addEntities_complete", "addEntities_oneshot_sorted",
          "number_some_iff", "number_none_iff", "step_prefix", "run_prefix", "number_stable", "newRecs_denote", "newRecs_insert_all",
          "decode_stable", "sortedRecs_perm"]] +
        [("Dataset2", n) for n in ["rowOf_eq_filter", "rowOf_perm", "rowOf_empty", "rowCount_sorted", "last_ptr_total"]] +
        [("Csr", n) for n in ["row_slice", "rowPtrs_get"]],
 "C02": [("Pipeline", n) for n in ["run_eq_denote", "denote_req_indep", "denote_fuel"]] +
        [("PipelineLog", n) for n in ["exec_at_most_once", "exec_only_needed", "forceLazy_unselected"]],
 "C03": [("TopN", n) for n in ["argtopn_sub", "argtopn_nodup", "argtopn_sorted", "argtopn_length", "argtopn_optimal", "runtime_n_overrides"]] +
        [("Recommend", n) for n in ["query_forms_agree", "recommend_spec", "fallbackMerge_spec"]],
 "C04": [("Scatter", n) for n in ["scoreList_eq_map", "multFirst_eq"]],
 "C05": [("Split", n) for n in ["arraySplit_flatten", "arraySplit_length", "arraySplit_each_once", "makePair_partition", "makePair_testOnly",
          "userSplit_other_users", "userSplit_test", "userSplit_no_leak", "temporal_partition", "temporal_train_before", "temporal_test_window",
          "conformCut_tz_independent"]] + [("Split2", "lastN_spec")],
 "C06": [("RankMetrics", n) for n in ["wsumFrom_swap_mono", "ndcg_binary_bounds", "recall_bounds"]] +
        [("RankMetrics2", n) for n in ["precision_bounds", "hit_values", "recipRank_bounds", "firstTrue_spec", "rbp_plain_bounds", "rbp_norm_bounds",
          "ndcg_binary_ideal", "recall_ideal", "rbp_norm_ideal", "gains_swap_mono", "gains_replace_mono"]] +
        [("RankMetrics3", n) for n in ["ndcg_graded_bounds", "ndcg_graded_ideal"]],
 "C07": [("PredictMetrics", n) for n in ["global_is_pooled"]],
 "C08": [("Bias", n) for n in ["itemBiases_eq_def", "avgRank_strict_mono", "count_strict_mono"]] +
        [("Bias2", n) for n in ["userBiases_eq_def", "no_ratings_zero", "historyBias_eq_def", "score_known", "score_unknown_item"]],
 "C09": [("KNN", n) for n in ["item_impl_eq_def", "user_impl_eq_def", "chosen_are_top", "simRow_symm", "simRow_no_self", "simRow_range"]] +
        [("KNN2", n) for n in ["simRowTrunc_sub", "simRowTrunc_top", "simRowTrunc_length", "simBlocks_blocksize_indep", "simBlocks_eq_rows"]],
 "C10": [("NormalEq", n) for n in ["normalEq_isMin", "normalEq_unique_min", "resid_zero_iff"]] +
        [("NormalEqW", n) for n in ["normalEq_isMin", "normalEq_unique_min", "resid_zero_iff", "implicit_split"]] +
        [("FunkSVD", "trainFeature_frozen")],
 "C11": [("Rng", n) for n in ["sampleRecords_seeded", "sampleUsers_seeded", "derived_order_independent"]] +
        [("Batch", "fanout_chunk_independent")] + [("Chunking", n) for n in ["chunk_size_pos", "row_in_unique_chunk"]],
 "C12": [("Batch", n) for n in ["batch_eq_sequential", "failure_surfaces", "sequential_keys", "fanout_eq_map"]],
 "C13": [("Config", n) for n in ["roundtrip", "toJson_injective"]] + [("ConfigOrder", n) for n in ["aliases_order_indep", "edges_order_indep"]],
 "C14": [("Heap", n) for n in ["step_deep", "immutable"]],
 "C15": [("Persist", n) for n in ["removal_phase_safe", "onlyFrom_load", "save_crash_safe", "save_fresh_crash_safe"]],
 "C16": [("ItemList", n) for n in ["getitem_aligned", "getitem_ids", "cacheNums_aligned", "cacheNums_ids"]] +
        [("ItemList2", n) for n in ["numbers_alt_spec", "numbers_alt_error", "withVocab_repaired_spec"]],
 "C17": [("Attr", n) for n in ["scalar_readback", "scalar_readback_partial", "scalar_length", "list_readback"]],
 "C18": [("Train", n) for n in ["skip_is_identity", "retrain_eq_fresh", "trained_once", "seeds_distinct"]],
 "C19": [("Stochastic", n) for n in ["stochasticRank_valid", "stochasticRank_length_le", "runtime_n_overrides"]] +
        [("Stochastic2", n) for n in ["stochasticRank_length", "randomSelect_valid", "linearWeights_sum", "softmaxWeights_sum"]],
 "C20": [("NegSample", n) for n in ["verified_or_warned", "combine_injective", "cols_from_draws", "popular_in_data", "every_column_reachable"]],
}
