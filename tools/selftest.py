"""Apply each mutant to a scratch copy of /repo/src, run the property's quick check against it, expect a VIOLATION; clean up."""
import os, shutil, subprocess, sys, tempfile, time
sys.path.insert(0, os.path.dirname(__file__))
from mutants import MUTANTS, HARMLESS
ROOT = os.environ.get("LKV_ROOT", os.path.dirname(os.path.dirname(os.path.abspath(__file__)))); REPO = os.environ.get("LKV_REPO", "/repo")
def main(which):
    harmless = 'harmless' in which; which = which - {'harmless'}
    res = []
    for pid, name, rel, old, new in (HARMLESS if harmless else MUTANTS):
        if which and pid not in which and name not in which: continue
        if old == "SKIP": continue
        scratch = tempfile.mkdtemp(prefix="lkmut_", dir="/root/scratch" if os.path.isdir("/root/scratch") else None)
        try:
            shutil.copytree(f"{REPO}/src", f"{scratch}/src")
            p = f"{scratch}/src/lenskit/{rel}"; s = open(p).read()
            if old not in s: res.append((pid, name, "EDIT-NOT-APPLICABLE")); continue
            open(p, "w").write(s.replace(old, new, 1))
            t = time.time()
            # a private copy of the Lean project: the check regenerates the translated models from the edited sources
            subprocess.run(["rsync", "-a", f"{ROOT}/lean/", f"{scratch}/lean/"], check=True)
            r = subprocess.run([f"{ROOT}/check", pid, "--tier", "quick"], capture_output=True, text=True, timeout=1800, cwd=ROOT,
                               env=dict(os.environ, LKV_REPO_SRC=f"{scratch}/src", LKV_OUT=f"{scratch}/out", LKV_LEAN=f"{scratch}/lean", VERIF_SEED=os.environ.get("VERIF_SEED", "3")))
            viol = [l for l in r.stdout.splitlines() if l.startswith("VIOLATION")]
            res.append((pid, name, f"exit={r.returncode} violations={len(viol)} {('SILENT' if (r.returncode == 0 and not viol) else 'FALSE-ALARM' if r.returncode == 1 else 'ERROR') if harmless else ('DETECTED' if (r.returncode == 1 and viol) else 'MISSED' if r.returncode == 0 else 'ERROR')} {time.time()-t:.0f}s"
                        + ("" if r.returncode != 2 else " :: " + r.stderr.strip().splitlines()[-1][:120])))
        finally:
            shutil.rmtree(scratch, ignore_errors=True)
        print(*res[-1], flush=True)
    print(("silent" if harmless else "detected"), sum(("SILENT" in r[2]) or ("DETECTED" in r[2]) for r in res), "of", len(res))
if __name__ == "__main__":
    main(set(sys.argv[1:]))
