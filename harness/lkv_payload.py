import hashlib, numpy as np, torch
class Boom(Exception): pass
def digest(model):
    h = hashlib.sha256()
    for k in sorted(model):
        v = model[k]
        if isinstance(v, torch.Tensor):
            v = v.to_dense().numpy() if v.layout != torch.strided else v.numpy()
        if isinstance(v, np.ndarray): h.update(str((v.shape, str(v.dtype))).encode()); h.update(np.ascontiguousarray(v).tobytes())
        else: h.update(str(v).encode())
    return h.hexdigest()[:12]
def work(model, x):
    if x < 0: raise Boom(f"task {x}")
    return (x, x * x + len(model["arr"]), digest(model))
