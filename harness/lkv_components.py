"""Deterministic test components importable by worker processes."""
import math
import numpy as np
from lenskit.data import ItemList
from lenskit.data.query import RecQuery
from lenskit.pipeline import Component
from lenskit.training import Trainable

class TableScorer(Component, Trainable):
    config: None
    def __init__(self, base=None, fail_users=()):
        self.base = dict(base or {}); self.fail_users = set(fail_users); self.trained = 0
    def train(self, data, options=None): self.trained += 1
    def __call__(self, query: RecQuery, items: ItemList) -> ItemList:
        query = RecQuery.create(query)
        if query.user_id in self.fail_users: raise ValueError(f"scorer refuses user {query.user_id}")
        h = 0 if query.user_items is None else len(query.user_items)
        sc = np.array([self.base.get(int(i), math.nan) * (1 + h) + (hash(("u", query.user_id)) % 7 if False else 0) for i in items.ids()], dtype="f8")
        return ItemList(items, scores=sc)


# importable plain functions for generated pipeline graphs (C13)
def fn_add(x: int, y: int) -> int: return x + y
def fn_neg(x: int) -> int: return -x
def fn_first(a: int | None, b: int) -> int: return b if a is None else a
def fn_three(x: int, y: int, z: int | None) -> int: return x * 100 + y * 10 + (0 if z is None else z)


from lenskit.training import TrainingOptions as _TO
class RecordingTrainable(Component, Trainable):
    """records (first draw of the generator it was given, interaction count) for every `train` call"""
    config: None
    def __init__(self): self.calls = []
    def train(self, data, options=_TO()):
        from lenskit.random import random_generator
        self.calls.append((int(random_generator(options.rng).integers(1 << 30)) if options.rng is not None else None, data.interaction_count))
    def __call__(self, items: ItemList) -> ItemList: return items
