"""Deterministic test components importable by worker processes."""
import math
import numpy as np
from lenskit.data import ItemList
from lenskit.data.query import RecQuery
from lenskit.pipeline import Component
from lenskit.training import Trainable

class TableScorer(Component, Trainable):
    config: None
    def __init__(self, base=None, fail_users=()):
        self.base = dict(base or {}); self.fail_users = set(fail_users); self.trained = 0
    def train(self, data, options=None): self.trained += 1
    def __call__(self, query: RecQuery, items: ItemList) -> ItemList:
        query = RecQuery.create(query)
        if query.user_id in self.fail_users: raise ValueError(f"scorer refuses user {query.user_id}")
        h = 0 if query.user_items is None else len(query.user_items)
        sc = np.array([self.base.get(int(i), math.nan) * (1 + h) + (hash(("u", query.user_id)) % 7 if False else 0) for i in items.ids()], dtype="f8")
        return ItemList(items, scores=sc)


# importable plain functions for generated pipeline graphs (C13)
def fn_add(x: int, y: int) -> int: return x + y
def fn_neg(x: int) -> int: return -x
def fn_first(a: int | None, b: int) -> int: return b if a is None else a
def fn_three(x: int, y: int, z: int | None) -> int: return x * 100 + y * 10 + (0 if z is None else z)


def fn_ident_items(items: ItemList) -> ItemList: return items

from lenskit.training import TrainingOptions as _TO
class RecordingTrainable(Component, Trainable):
    """records (first draw of the generator it was given, interaction count) for every `train` call"""
    config: None
    def __init__(self): self.calls = []; self.seen = []
    def train(self, data, options=_TO()):
        from lenskit.random import random_generator
        self.seen.append((bool(options.retrain), data.interaction_count))
        if self.calls and not options.retrain: return          # the guard every shipped component has
        self.calls.append((int(random_generator(options.rng).integers(1 << 30)) if options.rng is not None else None, data.interaction_count))
    def __call__(self, items: ItemList) -> ItemList: return items


def builder_state(pb):
    """Extract the builder state the C13 model consumes (declaration orders as they are)."""
    from typing import Mapping
    from pydantic import TypeAdapter, JsonValue
    from lenskit.pipeline.nodes import InputNode, LiteralNode, ComponentNode
    from lenskit.pipeline import config as pcfg
    from lenskit.pipeline.types import type_string
    inputs = []; comps = []; lits = []
    for node in pb.nodes():
        if isinstance(node, InputNode):
            types = None if node.types is None else list({type_string(t) for t in node.types})   # the set of strings the code builds, in its iteration order
            inputs.append({"name": node.name, "types": types})
        elif isinstance(node, LiteralNode):
            lit = pcfg.PipelineLiteral.represent(node.value)
            lits.append({"name": node.name, "encoding": lit.encoding, "value": TypeAdapter(JsonValue).dump_json(lit.value).decode()})
        elif isinstance(node, ComponentNode):
            pc = pcfg.PipelineComponent.from_node(node)
            conf = None if pc.config is None else TypeAdapter(Mapping[str, JsonValue]).dump_json(pc.config).decode()
            comps.append({"name": node.name, "code": pc.code, "config": conf, "params": list(node.inputs.keys()),
                          "edges": [[k, v] for k, v in pb._edges.get(node.name, {}).items()]})
    return {"name": pb.name, "version": pb.version, "inputs": inputs, "comps": comps,
            "aliases": [[a, n.name] for a, n in pb._aliases.items()],
            "defaults": [[k, v] for k, v in pb._default_connections.items()],
            "default": pb._default, "literals": lits}


class NoCfgComp(Component):
    """a component without configuration (C13: added to builders as a class and as an instance)"""
    config: None
    def __call__(self, x: int) -> int: return x + 1


from pydantic import BaseModel as _BM
class OptCfg(_BM):
    level: int | None = 5          # an optional setting whose default is not None: None is a value of its own
    label: str | None = None
class OptComp(Component):
    """a component with optional settings (C13: a setting that is explicitly None must survive the configuration document)"""
    config: OptCfg
    def __call__(self, x: int) -> int: return x + (self.config.level or 0)


class DerivingComponent(Component):
    """Derives new lists from the one it is given with the documented ``ItemList(source, ...)`` forms (add, replace, remove a field or the scores,
    change the ordering flag, subset); the list it was given is the caller's."""
    config: None
    def __call__(self, items: ItemList) -> ItemList:
        import numpy as np
        n = len(items)
        outs = [ItemList(items, scores=False), ItemList(items, tagf=False), ItemList(items, extra=np.zeros(n)), ItemList(items, scores=np.ones(n)),
                ItemList(items, ordered=not items.ordered), items[::-1], items[np.arange(n) % 2 == 0], ItemList(items, tagf=np.zeros(n), scores=False)]
        return outs[0]
