"""C16 — ItemList identifier/number/field alignment under operation histories."""
from __future__ import annotations
import random
import numpy as np
from ..core import CheckSpec, Outcome, Lean

def _errtag(e):
    return {RuntimeError: "runtime", KeyError: "key", IndexError: "index", TypeError: "type", ValueError: "value", AttributeError: "attribute"}.get(type(e), type(e).__name__)

def gen(rng: random.Random, tier: str):
    n = {"quick": 6000, "thorough": 60000}[tier]
    for _ in range(n):
        universe = list(range(100, 100 + rng.randint(2, 8)))
        v1 = sorted(rng.sample(universe, rng.randint(1, len(universe))))
        L = rng.randint(0, 6)
        mode = rng.choice(["ids", "ids+vocab", "nums+vocab", "nums", "both+vocab"])
        ids = [rng.choice(universe + [999]) for _ in range(L)]
        if rng.random() < 0.7: ids = list(dict.fromkeys(ids)); L = len(ids)
        nums = [rng.randrange(len(v1)) for _ in range(L)]
        if mode == "both+vocab": ids = [v1[k] for k in nums]
        f1 = [rng.randint(-5, 5) for _ in range(L)]
        ops = []; cur = L
        alts = [v1] + [sorted(rng.sample(universe, rng.randint(1, len(universe)))) for _ in range(2)]      # a small pool, so the same alternate vocabulary recurs within a history
        for _k in range(rng.randint(1, 6)):
            kind = rng.choice(["ids", "numbers", "numbers", "getitem", "withvocab", "fields", "len", "ranks", "ranks", "copyids", "copynums", "copyboth", "copyidsvocab", "dropfield", "setfield", "setfield", "convert", "convert", "setnested", "setordered"])
            if kind == "convert": ops.append({"op": "convert", "via": rng.choice(["arrow", "frame", "pickle", "torch", "arrow-numbers"])}); continue
            if kind == "numbers":
                alt = rng.choice([None] + alts)
                ops.append({"op": "numbers", "vocab": alt, "missing": rng.choice(["error", "negative"])})
            elif kind == "getitem":
                style = rng.choice(["idx", "mask", "slice"])
                if style == "mask": sel = [k for k in range(cur) if rng.random() < 0.5]
                elif style == "slice":
                    a = rng.randint(0, cur); b = rng.randint(a, cur); sel = list(range(a, b))
                else: sel = [rng.randrange(cur) for _ in range(rng.randint(0, cur))] if cur else []
                ops.append({"op": "getitem", "sel": sel, "style": style, "form": rng.choice(["array", "array", "list", "tuple"]) if style == "mask" else rng.choice(["array", "list"])}); cur = len(sel)
            elif kind == "withvocab":
                ops.append({"op": "withvocab", "vocab": rng.choice(alts)})
            elif kind in ("copyids", "copyboth", "copyidsvocab", "copynums"):
                # the copy constructor with replaced identifiers / numbers (same length most of the time, another length sometimes)
                m = cur if rng.random() < 0.6 else rng.randint(0, 5)
                o = {"op": kind}
                if kind != "copynums": o["ids"] = rng.sample(universe + [999], min(m, len(universe) + 1)); m = len(o["ids"])
                if kind in ("copynums", "copyboth"): o["nums"] = [rng.randrange(len(v1)) for _ in range(m if kind == "copyboth" or rng.random() < 0.7 else rng.randint(0, 5))]
                if kind == "copyidsvocab": o["vocab"] = rng.choice(alts)
                ops.append(o)
                if kind == "copynums": cur = cur          # a length mismatch is rejected; the list keeps its length
                else: cur = m
            elif kind == "dropfield": ops.append({"op": "dropfield", "name": "f1"})
            elif kind == "setfield": 
                nm = rng.choice(["f1", "f2", "f3"])          # f3 is a floating-point field; the model's value -5 stands for NaN there
                vals = [rng.randint(-5, 5) for _ in range(cur if rng.random() < 0.8 else rng.randint(0, 5))]
                if nm == "f3" and rng.random() < 0.35: vals = [-5] * len(vals)          # NaN for every item
                ops.append({"op": "setfield", "name": nm, "vals": vals})
            elif kind == "setordered": ops.append({"op": "setordered", "flag": rng.random() < 0.4})          # a copy with the ordering flag given (mostly: an unordered copy)
            elif kind == "setnested":
                # a field given as a nested plain sequence (two values per item): the right outer length, the wrong dimensionality
                ops.append({"op": "setnested", "name": rng.choice(["f1", "f2"]), "vals": [rng.randint(-5, 5) for _ in range(cur)], "as": rng.choice(["list", "tuple", "list-of-arrays"])})
            else: ops.append({"op": kind})
        if rng.random() < 0.12:
            # directed: the same alternate vocabulary asked of a list and then of a copy whose identifiers / numbers were replaced
            alt = rng.choice(alts); miss = rng.choice(["error", "negative"])
            ops.append({"op": "numbers", "vocab": alt, "missing": "negative"})
            if rng.random() < 0.6:
                newids = rng.sample(universe + [999], min(cur, len(universe) + 1)); ops.append({"op": "copyids", "ids": newids}); cur = len(newids)
            else: ops.append({"op": "copynums", "nums": [rng.randrange(len(v1)) for _ in range(cur)]})
            ops.append({"op": "numbers", "vocab": alt, "missing": miss})
        ordered0 = rng.random() < 0.5
        if rng.random() < 0.1: ops += [{"op": "ranks"}, {"op": "setordered", "flag": False}, {"op": "ranks"}]; ordered0 = True          # directed: ranks cached on an ordered list, then an unordered copy is asked for its ranks
        yield {"mode": mode, "ids": ids, "nums": nums, "vocab": v1, "f1": f1, "ops": ops, "ordered": ordered0}

def run(case: dict, lean: Lean) -> Outcome:
    from lenskit.data import ItemList, Vocabulary
    vpool = {}
    def vocab(lst):
        t = tuple(lst)
        if t not in vpool: vpool[t] = Vocabulary(list(t), name="item")
        return vpool[t]
    mode, ids, nums, v1, f1 = case["mode"], case["ids"], case["nums"], case["vocab"], case["f1"]
    ordered = bool(case.get("ordered", False))
    L = len(f1); kw = dict(f1=np.array(f1, dtype="i8"), ordered=ordered)
    init = dict(len=L, ids=None, nums=None, vocab=None, fields=[dict(name="f1", vals=f1)], ordered=ordered)
    ida = np.array(ids, dtype="i8"); na = np.array(nums, dtype="i4")
    if mode == "ids": il = ItemList(item_ids=ida, **kw); init["ids"] = ids
    elif mode == "ids+vocab": il = ItemList(item_ids=ida, vocabulary=vocab(v1), **kw); init.update(ids=ids, vocab=v1)
    elif mode == "nums+vocab": il = ItemList(item_nums=na, vocabulary=vocab(v1), **kw); init.update(nums=nums, vocab=v1)
    elif mode == "nums": il = ItemList(item_nums=na, **kw); init["nums"] = nums
    else: il = ItemList(item_ids=ida, item_nums=na, vocabulary=vocab(v1), **kw); init.update(ids=ids, nums=nums, vocab=v1)
    def fields_of(l):
        out = {}
        for n_ in ("f1", "f2", "f3"):
            a = l.field(n_)
            if a is not None: out[n_] = [-5 if (n_ == "f3" and x != x) else int(x) for x in np.asarray(a)]
        return out
    real = []; cur = il; mops = []
    for op in case["ops"]:
        k = op["op"]
        try:
            if k == "ids": mops.append({"op": "ids"}); real.append({"ok": [int(x) for x in cur.ids()]})
            elif k == "numbers":
                mops.append({"op": "numbers", "vocab": op["vocab"], "missing": op["missing"]})
                real.append({"ok": [int(x) for x in cur.numbers(vocabulary=None if op["vocab"] is None else vocab(op["vocab"]), missing=op["missing"])]})
            elif k == "getitem":
                sel = op["sel"]; mops.append({"op": "getitem", "sel": sel, "style": op["style"]})
                if op["style"] == "mask":
                    m = np.zeros(len(cur), dtype=bool); m[sel] = True
                    form = op.get("form", "array") if len(cur) else "array"          # the selector as a NumPy array, or as the plain list / tuple a caller may just as well write (an empty plain list has no element type and is left out)
                    cur = cur[m] if form == "array" else cur[[bool(x) for x in m]] if form == "list" else cur[tuple(bool(x) for x in m)]
                elif op["style"] == "slice": cur = cur[sel[0]:sel[-1] + 1] if sel else cur[0:0]
                else: cur = cur[np.array(sel, dtype="i8")] if (op.get("form", "array") == "array" or not sel) else cur[[int(x) for x in sel]]
                real.append("ok")
            elif k == "withvocab":
                mops.append({"op": "withvocab", "vocab": op["vocab"]}); cur = ItemList(cur, vocabulary=vocab(op["vocab"])); real.append("ok")
            elif k == "fields":
                mops.append({"op": "fields"}); real.append(fields_of(cur))
            elif k == "convert":
                # a representation round trip keeps every item's identifier and field values together and leaves the source as it was:
                # observed as the identifiers and fields of the converted list, against the model's for the source
                if len(cur) == 0: continue          # (the empty list's Arrow / frame form is the recorded C15 finding)
                try: cur.ids()
                except Exception: continue          # number-only lists without a vocabulary have no table form
                import pickle, torch
                via = op["via"]
                if via == "arrow": conv = ItemList.from_arrow(cur.to_arrow())
                elif via == "arrow-numbers": conv = ItemList.from_arrow(cur.to_arrow(numbers=cur.vocabulary is not None and all(int(i) in cur.vocabulary for i in cur.ids())))
                elif via == "frame": conv = ItemList.from_df(cur.to_df(numbers=False))
                elif via == "pickle": conv = pickle.loads(pickle.dumps(cur))
                else: conv = ItemList(item_ids=cur.ids().copy(), ordered=cur.ordered, **{n_: cur.field(n_, "torch") for n_ in ("f1", "f2", "f3") if cur.field(n_) is not None})
                mops += [{"op": "ids"}, {"op": "fields"}, {"op": "ids"}, {"op": "fields"}]
                real += [{"ok": [int(x) for x in conv.ids()]}, fields_of(conv), {"ok": [int(x) for x in cur.ids()]}, fields_of(cur)]
            elif k == "ranks":
                mops.append({"op": "ranks"}); r_ = cur.ranks(); real.append(None if r_ is None else [int(x) for x in r_])
            elif k in ("copyids", "copynums", "copyboth", "copyidsvocab"):
                mops.append(dict(op))
                ckw = {}
                if "ids" in op: ckw["item_ids"] = np.array(op["ids"], dtype="i8")
                if "nums" in op: ckw["item_nums"] = np.array(op["nums"], dtype="i4")
                if "vocab" in op: ckw["vocabulary"] = vocab(op["vocab"])
                cur = ItemList(cur, **ckw); real.append("ok")
            elif k == "dropfield": mops.append(dict(op)); cur = ItemList(cur, **{op["name"]: False}); real.append("ok")
            elif k == "setfield":
                mops.append(dict(op))
                arr = np.array([np.nan if v == -5 else float(v) for v in op["vals"]], dtype="f8") if op["name"] == "f3" else np.array(op["vals"], dtype="i8")
                cur = ItemList(cur, **{op["name"]: arr}); real.append("ok")
            elif k == "setordered":
                mops.append({"op": "setordered", "flag": bool(op["flag"])}); cur = ItemList(cur, ordered=bool(op["flag"])); real.append("ok")
            elif k == "setnested":
                # for the model a field has exactly one value per item: the 2n values of the nested sequence are not one per item (n ≥ 1)
                nv = (list(op["vals"]) + [0] * len(cur))[:len(cur)]          # one row per item of the list as it is now
                mops.append({"op": "setfield", "name": op["name"], "vals": [x for v in nv for x in (v, v + 1)]})
                rows = [[v, v + 1] for v in nv]
                nested = rows if op["as"] == "list" else tuple(tuple(r) for r in rows) if op["as"] == "tuple" else [np.array(r, dtype="i8") for r in rows]
                cur = ItemList(cur, **{op["name"]: nested}); real.append("ok")
            else: mops.append({"op": "len"}); real.append(len(cur))
        except Exception as e:          # an exception of the implementation is an outcome of the case
            real.append({"err": _errtag(e)})
    as_is = lean.call("c16.run", dict(variant="asIs", init=init, ops=mops))
    rep = lean.call("c16.run", dict(variant="repaired", init=init, ops=mops))
    variant = "repaired" if real == rep and real != as_is else "asIs"
    corr = real in (as_is, rep)          # the code may be in its as-is or its repaired state
    spec = real == rep                   # theorems (alignment under every history) are about the repaired semantics
    classes = [mode]
    kinds = {o["op"] for o in case["ops"]}
    if "withvocab" in kinds: classes.append("re-vocabulary")
    for o in case["ops"]:
        if o["op"] == "convert": classes.append("convert via " + o["via"])
        if o["op"] == "setfield" and o["name"] == "f3": classes.append("floating-point field" + (" that is NaN for every item" if o["vals"] and all(v == -5 for v in o["vals"]) else ""))
    for k_ in ("copyids", "copynums", "copyboth", "copyidsvocab", "dropfield", "setfield", "ranks"):
        if k_ in kinds: classes.append("op:" + k_)
    if ordered: classes.append("ordered list")
    if any(o["op"] == "numbers" and o["vocab"] is not None for o in case["ops"]): classes.append("alternate vocabulary")
    if any(isinstance(r, dict) and "err" in r for r in real): classes.append("error outcome")
    if 999 in ids and mode != "both+vocab": classes.append("unknown identifier")
    if as_is != rep: classes.append("as-is ≠ repaired")
    key = None
    if not spec and real == as_is:
        kinds_ = [o["op"] for o in case["ops"]]
        key = ("ItemList copy constructor: stale ranks / supplied identifiers deleted / numbers deleted twice" if any(k_.startswith("copy") for k_ in kinds_)
               else "ItemList(source, vocabulary=other): stale numbers")
    return Outcome(corr, spec, tuple(classes), {"impl": real, "as_is": as_is, "repaired": rep, "matches": variant}, key)

def shrink(case: dict):
    for i in range(len(case["ops"])):
        if case["ops"][i]["op"] != "getitem":      # removing a subset op would invalidate later selections
            c = dict(case); c["ops"] = case["ops"][:i] + case["ops"][i + 1:]; yield c
    if len(case["ops"]) > 1:
        c = dict(case); c["ops"] = case["ops"][:-1]; yield c

SPEC = CheckSpec(
    pid="C16",
    theorems=["LK.IL.C16_ItemList_getitem_aligned", "LK.IL.C16_ItemList_getitem_ids", "LK.IL.C16_ItemList_cacheNums_aligned",
              "LK.IL.C16_ItemList_cacheNums_ids", "LK.IL.C16_ItemList2_numbers_alt_spec", "LK.IL.C16_ItemList2_numbers_alt_error",
              "LK.IL.C16_ItemList2_withVocab_repaired_spec"],
    correspondence_ops=["c16.run"],
    nontrivial_rule="distinct histories reaching ≥1 of: each construction mode, re-vocabulary, alternate vocabulary, error outcome, unknown identifier, as-is ≠ repaired, representation round trips (Arrow with / without numbers, frame, pickle, torch), floating-point fields (all NaN)",
    budgets={"quick": 1500, "thorough": 30000}, gen=gen, run=run, shrink=shrink)
