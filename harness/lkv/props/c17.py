"""C17 — entity attributes (scalar + list layouts)."""
from __future__ import annotations
import random
from ..core import CheckSpec, Outcome, Lean

def gen(rng: random.Random, tier: str):
    n = {"quick": 300, "thorough": 8000}[tier]
    for _ in range(n):
        k = rng.randint(1, 8); ids = rng.sample(range(100), k)
        use_str = rng.random() < 0.4
        ents = rng.sample(ids, rng.randint(0, k))
        yield {"ids": ids, "entities": ents, "str_ids": use_str, "list_lens": [rng.randint(0, 3) for _ in ents]}

def run(case: dict, lean: Lean) -> Outcome:
    from lenskit.data import DatasetBuilder
    conv = (lambda x: f"i{x:03d}") if case["str_ids"] else (lambda x: x)
    ids = [conv(x) for x in case["ids"]]; ents = [conv(x) for x in case["entities"]]
    b = DatasetBuilder(); b.add_entities("item", ids)
    vals = [f"v{e}" for e in ents]; lists = [[f"t{e}_{j}" for j in range(m)] for e, m in zip(ents, case["list_lens"])]
    b.add_scalar_attribute("item", "title", ents, vals)
    if ents: b.add_list_attribute("item", "tags", ents, lists)
    ds = b.build(); vocab = list(ds.items.ids())
    nums = [vocab.index(e) for e in ents]
    real_s = ds.entities("item").attribute("title").arrow().to_pylist()
    pairs = [[r, v] for r, v in zip(nums, vals)]
    model_s = lean.call("c17.add_scalar", {"n": len(ids), "pairs": pairs, "variant": "asIs"})
    want_s = lean.call("c17.add_scalar", {"n": len(ids), "pairs": pairs, "variant": "repaired"})   # = the read-back spec
    corr = real_s in (model_s, want_s); spec = real_s == want_s     # the code may be in its as-is or its repaired state
    detail = {"scalar": {"impl": real_s, "model": model_s, "supplied": dict(zip(map(str, ents), vals))}}
    if ents:
        real_l = ds.entities("item").attribute("tags").arrow().to_pylist()
        model_l = lean.call("c17.add_list", {"n": len(ids), "pairs": [[r, l] for r, l in zip(nums, lists)]})
        corr = corr and real_l == model_l; spec = spec and real_l == model_l
        detail["list"] = {"impl": real_l, "model": model_l}
    classes = []
    if nums != sorted(nums): classes.append("non-ascending entity order")
    if 0 < len(ents) < len(ids): classes.append("partial coverage")
    if len(ents) == len(ids): classes.append("full coverage")
    if case["str_ids"]: classes.append("string ids")
    if any(m == 0 for m in case["list_lens"]): classes.append("empty list value")
    key = "add_scalar_attribute:entity_ids_not_ascending" if (not spec and nums != sorted(nums)) else None
    return Outcome(corr, spec, tuple(classes), detail, key)

def shrink(case: dict):
    for i in range(len(case["entities"])):
        c = dict(case); c["entities"] = case["entities"][:i] + case["entities"][i+1:]; c["list_lens"] = case["list_lens"][:i] + case["list_lens"][i+1:]
        yield c
    for i in range(len(case["ids"])):
        if case["ids"][i] not in case["entities"]:
            c = dict(case); c["ids"] = case["ids"][:i] + case["ids"][i+1:]; yield c

SPEC = CheckSpec(
    pid="C17",
    theorems=["LK.Attr.scalar_readback", "LK.Attr.scalar_readback_partial", "LK.Attr.list_readback", "LK.Attr.fill_sorted"],
    correspondence_ops=["c17.add_scalar", "c17.add_list"],
    nontrivial_rule="distinct (ids, entity order, id kind, list lengths) cases reaching ≥1 of: non-ascending entity order, partial/full coverage, string ids, empty list value",
    budgets={"quick": 300, "thorough": 8000}, gen=gen, run=run, shrink=shrink)
