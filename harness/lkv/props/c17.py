"""C17 — entity attributes: scalar, list, dense-vector and sparse-vector layouts, every input form and read form."""
from __future__ import annotations
import random
from ..core import CheckSpec, Outcome, Lean

DIM = 3
NOVEC = "dense vector attribute read for a set of entities none of which has a vector raises AssertionError"

def gen(rng: random.Random, tier: str):
    n = {"quick": 300, "thorough": 8000}[tier]
    for _ in range(n):
        k = rng.randint(1, 8); ids = rng.sample(range(100), k)
        def subset(full_p=0.25):
            return rng.sample(ids, k) if rng.random() < full_p else rng.sample(ids, rng.randint(0, k))
        ents = subset(0.15); vents = subset(0.35); sents = subset(0.25)
        yield {"ids": ids, "entities": ents, "str_ids": rng.random() < 0.4, "list_lens": [rng.randint(0, 3) for _ in ents],
               "scalar_form": rng.choice(["arrays", "series", "frame"]),
               "list_form": rng.choice(["python", "arrow", "sliced", "nulls"]), "list_lead": rng.randint(1, 2),
               "vec_entities": vents, "vec_form": rng.choice(["numpy", "numpy-F", "arrow", "arrow-null"]), "vec_null": rng.randrange(8),
               "sp_entities": sents, "late": rng.sample([x for x in range(100, 120)], rng.randint(0, 2)) if rng.random() < 0.3 else [],
               "select": rng.sample(ids, rng.randint(0, k)), "dim_names": rng.random() < 0.5,
               "scalar_dict": rng.random() < 0.3, "list_dict": rng.random() < 0.3, "entity_batches": rng.random() < 0.35}

def _vec(e):      # the dense vector of entity e (entity 7, 17, … get the zero vector)
    return [0.0, 0.0, 0.0] if e % 10 == 7 else [e + 0.5, e * 2.0, -float(e)]
def _sprow(e):    # sparse entries of entity e: {column: value}; entity ≡ 3 (mod 5) has an empty row
    return {} if e % 5 == 3 else {e % 4: e + 0.25, **({3: 1.0} if e % 4 != 3 and e % 2 == 0 else {})}

def _outcome(f):
    try: return f()
    except Exception as ex: return {"error": type(ex).__name__}

def run(case: dict, lean: Lean) -> Outcome:
    import numpy as np, pandas as pd, pyarrow as pa, scipy.sparse as sps
    from lenskit.data import DatasetBuilder
    conv = (lambda x: f"i{x:03d}") if case["str_ids"] else (lambda x: x)
    ids = [conv(x) for x in case["ids"]]; ents = [conv(x) for x in case["entities"]]
    b = DatasetBuilder()
    if case.get("entity_batches") and len(ids) >= 2:
        # the entities arrive in two batches (identifiers in no particular order across them): the table appends, whatever the identifiers' order
        h = max(1, len(ids) // 2); b.add_entities("item", ids[:h]); b.add_entities("item", ids[h:])
    else: b.add_entities("item", ids)
    vals = [f"v{e}" for e in case["entities"]]
    lists = [[f"t{e}_{j}" for j in range(m)] for e, m in zip(case["entities"], case["list_lens"])]
    failed = []; keys = []; detail = {}; classes = []
    try:          # a failure of the implementation while the attributes are added is an outcome of the case
        # ---- scalar
        sf = case.get("scalar_form", "arrays")
        sd = {"dictionary": True} if case.get("scalar_dict") else {}          # dictionary-encoded storage: same values, another Arrow type
        ld = {"dictionary": True} if case.get("list_dict") else {}
        if sd or ld: classes.append("dictionary-encoded attribute")
        if case.get("entity_batches"): classes.append("entities registered in two batches")
        if sf == "series": b.add_scalar_attribute("item", "title", pd.Series(vals, index=pd.Index(ents, dtype=object if case["str_ids"] else "int64"), dtype=object), **sd)
        elif sf == "frame": b.add_scalar_attribute("item", "title", pd.DataFrame({"item_id": pd.Series(ents, dtype=object if case["str_ids"] else "int64"), "title": pd.Series(vals, dtype=object)}), **sd)
        else: b.add_scalar_attribute("item", "title", ents, vals, **sd)
        # ---- list
        lf = case.get("list_form", "python"); lead = []
        list_nulls = set()
        if ents:
            if lf == "arrow": b.add_list_attribute("item", "tags", ents, pa.array(lists, type=pa.list_(pa.string())), **ld)
            elif lf == "sliced":
                lead_lists = [[f"lead{j}"] for j in range(case.get("list_lead", 1))]; lead = [x for l in lead_lists for x in l]
                b.add_list_attribute("item", "tags", ents, pa.array(lead_lists + lists, type=pa.list_(pa.string())).slice(len(lead_lists)), **ld)
            elif lf == "nulls":
                list_nulls = {i for i in range(len(ents)) if i % 3 == 1}
                b.add_list_attribute("item", "tags", ents, pa.array([None if i in list_nulls else l for i, l in enumerate(lists)], type=pa.list_(pa.string())), **ld)
            else: b.add_list_attribute("item", "tags", ents, lists, **ld)
        # ---- dense vector
        vents_raw = case.get("vec_entities", []); vents = [conv(x) for x in vents_raw]; vf = case.get("vec_form", "numpy")
        vnull = {case.get("vec_null", 0) % len(vents)} if (vf == "arrow-null" and vents) else set()
        names = ["a", "b", "c"] if case.get("dim_names") else None
        vec_added = False
        if vents:
            if vf == "numpy": data = np.array([_vec(e) for e in vents_raw], dtype=np.float64)
            elif vf == "numpy-F":          # the same matrix in column-major memory (what `.T` of a factorisation or np.asfortranarray gives)
                data = np.asfortranarray(np.array([_vec(e) for e in vents_raw], dtype=np.float64)); classes.append("column-major matrix")
            else: data = pa.array([None if i in vnull else _vec(e) for i, e in enumerate(vents_raw)], type=pa.list_(pa.float64(), DIM))
            b.add_vector_attribute("item", "emb", vents, data, dim_names=names); vec_added = True
        # ---- sparse vector
        sents_raw = case.get("sp_entities", []); sents = [conv(x) for x in sents_raw]
        if sents:
            mat = np.zeros((len(sents), 4)); [mat.__setitem__((i, c), v) for i, e in enumerate(sents_raw) for c, v in _sprow(e).items()]
            b.add_vector_attribute("item", "sp", sents, sps.csr_array(mat), dim_names=["w", "x", "y", "z"] if names else None)
        # ---- entities added after the attributes
        late = [conv(x) for x in case.get("late", [])]
        if late: b.add_entities("item", late); classes.append("entities added after the attributes")
        ds = b.build()
    except Exception as ex:
        import traceback
        where = [f.name for f in traceback.extract_tb(ex.__traceback__) if 'lenskit' in f.filename][-1:] or ['?']
        return Outcome(False, False, ('adding the attributes raised',), {'failed': [f'adding the attributes raised {type(ex).__name__} in {where[0]}: {str(ex)[:80]}']}, None)
    vocab = list(ds.items.ids()); n = len(vocab)
    es = ds.entities("item")
    num = {e: vocab.index(e) for e in vocab}
    sel = [conv(x) for x in case.get("select", [])]; selnums = [num[e] for e in sel]
    def views(attr, want, kind):
        """compare every read form of one attribute with the per-row values `want` (None = missing)"""
        a = _outcome(lambda: es.attribute(attr))
        if isinstance(a, dict): failed.append(f"{attr}: attribute lookup raises {a['error']}"); return a
        got = _outcome(lambda: a.arrow().to_pylist())
        if kind == "sparse" and isinstance(got, list): got = [None if r is None else sorted((d["index"], d["value"]) for d in r) for r in got]
        if got != want: failed.append(f"{attr}: arrow() differs")
        s = _outcome(lambda: es.select(ids=sel).attribute(attr).arrow().to_pylist())
        if kind == "sparse" and isinstance(s, list): s = [None if r is None else sorted((d["index"], d["value"]) for d in r) for r in s]
        if s != [want[i] for i in selnums]:
            failed.append(f"{attr}: select(ids).arrow() differs")
            if isinstance(s, dict) and s["error"] == "AssertionError" and all(want[i] is None for i in selnums): keys.append(NOVEC)
        if list(_outcome(lambda: list(es.select(ids=sel).attribute(attr).ids()))) != sel: failed.append(f"{attr}: select(ids).ids() differs")
        # drop_null keeps exactly the entities that have a value — on the whole set and on a selection
        for label, base, idx in (("all", es, list(range(n))), ("selection", es.select(ids=sel), selnums)):
            d = _outcome(lambda: base.attribute(attr).drop_null())
            if isinstance(d, dict): failed.append(f"{attr}: drop_null() on {label} raises {d['error']}"); continue
            keep = [i for i in idx if want[i] is not None]
            got_ids = _outcome(lambda: list(d.ids())); got_nums = _outcome(lambda: [int(x) for x in d.numbers()])
            if got_ids != [vocab[i] for i in keep] or got_nums != keep: failed.append(f"{attr}: drop_null() on {label} keeps entities {got_ids}, want {[vocab[i] for i in keep]}")
            else:
                dv = _outcome(lambda: d.arrow().to_pylist())
                if kind == "sparse" and isinstance(dv, list): dv = [None if r is None else sorted((x["index"], x["value"]) for x in r) for r in dv]
                if dv != [want[i] for i in keep]: failed.append(f"{attr}: values after drop_null() on {label} differ")
        if kind in ("scalar", "list"):
            p = _outcome(lambda: a.pandas())
            if isinstance(p, dict): failed.append(f"{attr}: pandas() raises {p['error']}")
            else:
                gotp = [None if (x is None or (isinstance(x, float) and x != x)) else (list(x) if kind == "list" else x) for x in p.tolist()]
                if list(p.index) != vocab or gotp != want:
                    failed.append(f"{attr}: pandas() differs")
                    if list(p.index) == [e for e, w in zip(vocab, want) if w is not None] and any(w is None for w in want):
                        keys.append("scalar / list pandas(missing='null') omits the entities without a value")
            po = _outcome(lambda: a.pandas(missing="omit"))
            if isinstance(po, dict): failed.append(f"{attr}: pandas(omit) raises {po['error']}")
            elif list(po.index) != [e for e, w in zip(vocab, want) if w is not None]: failed.append(f"{attr}: pandas(omit) index differs")
            if kind == "scalar":
                m = _outcome(lambda: a.numpy())
                if isinstance(m, dict): failed.append(f"{attr}: numpy() raises {m['error']}")
                # (numpy() promises nothing about the entries of entities without a value — only the defined ones are compared)
                elif len(m) != len(want) or any(w is not None and x != w for x, w in zip(m.tolist(), want)): failed.append(f"{attr}: numpy() differs")
        if kind == "dense":
            m = _outcome(lambda: a.numpy())
            if isinstance(m, dict): failed.append(f"{attr}: numpy() raises {m['error']}")
            elif [None if np.isnan(r).all() else r.tolist() for r in m] != want: failed.append(f"{attr}: numpy() differs")
            t = _outcome(lambda: a.torch().numpy())
            if isinstance(t, dict): failed.append(f"{attr}: torch() raises {t['error']}")
            elif [None if np.isnan(r).all() else r.tolist() for r in t] != want: failed.append(f"{attr}: torch() differs")
            p = _outcome(lambda: a.pandas())
            if isinstance(p, dict):
                failed.append(f"{attr}: pandas() raises {p['error']}")
                if any(w is None for w in want): keys.append("vector attribute with missing rows: pandas() raises")
            elif list(p.index) != vocab or [None if np.isnan(r).all() else r.tolist() for r in p.to_numpy()] != want or (names and list(p.columns) != names):
                failed.append(f"{attr}: pandas() differs")
            po = _outcome(lambda: a.pandas(missing="omit"))
            if isinstance(po, dict): failed.append(f"{attr}: pandas(omit) raises {po['error']}")
            elif list(po.index) != [e for e, w in zip(vocab, want) if w is not None] or po.to_numpy().tolist() != [w for w in want if w is not None]: failed.append(f"{attr}: pandas(omit) differs")
            if _outcome(lambda: (a.dim_names, a.vector_size)) != (names, DIM): failed.append(f"{attr}: dimension names / vector size not preserved")
        if kind == "sparse":
            m = _outcome(lambda: a.scipy().toarray().tolist())
            dense = [[dict(r or []).get(c, 0.0) for c in range(4)] for r in want]
            if m != dense: failed.append(f"{attr}: scipy() differs")
            t = _outcome(lambda: a.torch().to_dense().numpy().tolist())
            if t != dense: failed.append(f"{attr}: torch() differs")
            if _outcome(lambda: (a.dim_names, a._spec.vector_size)) != (["w", "x", "y", "z"] if names else None, 4): failed.append(f"{attr}: dimension names / vector size not preserved")
        return got
    pad = lambda rows: rows + [None] * (n - len(rows))
    # scalar: model (as-is and repaired); the specification is the repaired model = "exactly the supplied value, missing otherwise"
    nums = [num[e] for e in ents]; pairs = [[r, v] for r, v in zip(nums, vals)]
    model_s = lean.call("c17.add_scalar", {"n": n, "pairs": pairs, "variant": "asIs"})
    want_s = lean.call("c17.add_scalar", {"n": n, "pairs": pairs, "variant": "repaired"})
    nf = len(failed); real_s = views("title", want_s, "scalar")
    corr = real_s in (model_s, want_s)
    if len(failed) > nf and nums != sorted(nums) and real_s == model_s: keys.append("add_scalar_attribute:entity_ids_not_ascending")
    detail["scalar"] = {"impl": real_s, "model_as_is": model_s, "spec": want_s, "supplied": dict(zip(map(str, ents), vals))}
    if ents:
        lp = [[r, l] for i, (r, l) in enumerate(zip(nums, lists)) if i not in list_nulls]
        model_l = lean.call("c17.add_list", {"n": n, "pairs": lp, "lead": lead if not list_nulls else [], "variant": "asIs"})
        want_l = lean.call("c17.add_list", {"n": n, "pairs": lp, "variant": "repaired"})
        nf = len(failed); real_l = views("tags", want_l, "list")
        corr = corr and real_l in (model_l, want_l)
        if len(failed) > nf and lf == "sliced" and real_l == model_l: keys.append("add_list_attribute: sliced Arrow list array read through its unsliced child buffer")
        detail["list"] = {"impl": real_l, "model_as_is": model_l, "spec": want_l, "form": lf}
    if vec_added:
        vnums = [num[e] for e in vents]
        vp = [[r, None if i in vnull else [repr(x) for x in _vec(e)]] for i, (r, e) in enumerate(zip(vnums, vents_raw))]
        m_as = lean.call("c17.add_dense", {"n": n - len(late), "pairs": vp, "variant": "asIs"})
        m_rep = lean.call("c17.add_dense", {"n": n - len(late), "pairs": vp, "variant": "repaired"})
        tofl = lambda rows: pad([None if r is None else [float(x) for x in r] for r in rows])
        want_v = tofl(m_rep["rows"])
        nf = len(failed); real_v = views("emb", want_v, "dense")
        if isinstance(real_v, dict) and real_v["error"] == "AssertionError" and all(w is None for w in want_v):
            keys.append(NOVEC)
        elif isinstance(real_v, dict):     # attribute lookup failed: the column specification was never registered
            corr = corr and (not m_as["registered"]) and real_v["error"] == "KeyError"
            keys.append("dense vector attribute covering every entity: never registered in the schema / stored in arrival order")
        else:
            corr = corr and real_v in (tofl(m_as["rows"]), want_v)
            if len(failed) > nf and real_v != want_v and real_v == tofl(m_as["rows"]): keys.append("dense vector attribute covering every entity: never registered in the schema / stored in arrival order")
        detail["dense"] = {"impl": real_v, "model_as_is": m_as, "spec": want_v, "form": vf}
        if m_rep["layout"] == "fixed": classes.append("dense vectors for every entity")
        else: classes.append("dense vectors for a strict subset / with nulls")
        if vnums != sorted(vnums): classes.append("dense vectors in non-ascending entity order")
    if sents:
        snums = [num[e] for e in sents]
        sp = [[r, [f"{c}:{v!r}" for c, v in sorted(_sprow(e).items())]] for r, e in zip(snums, sents_raw)]
        want_sp = pad([None if r is None else sorted((int(x.split(":")[0]), float(x.split(":")[1])) for x in r) for r in lean.call("c17.add_list", {"n": n - len(late), "pairs": sp, "variant": "repaired"})])
        real_sp = views("sp", want_sp, "sparse")
        corr = corr and real_sp == want_sp
        detail["sparse"] = {"impl": real_sp, "spec": want_sp}
        classes.append("sparse vectors")
    spec = not failed
    if failed: detail["failed"] = failed
    if nums != sorted(nums): classes.append("non-ascending entity order")
    if 0 < len(ents) < len(ids): classes.append("partial coverage")
    if len(ents) == len(ids): classes.append("full coverage")
    if case["str_ids"]: classes.append("string ids")
    if any(m == 0 for m in case["list_lens"]): classes.append("empty list value")
    if sf != "arrays": classes.append(f"scalar supplied as {sf}")
    if ents and lf != "python": classes.append(f"list supplied as {lf}")
    if sel: classes.append("selected subset read")
    key = tuple(sorted(set(keys))) if (keys and not spec) else None
    return Outcome(corr, spec, tuple(classes), detail, key)

def shrink(case: dict):
    for fld in ("vec_entities", "sp_entities", "late", "select"):
        if case.get(fld):
            c = dict(case); c[fld] = []; yield c
            for i in range(len(case[fld])):
                c = dict(case); c[fld] = case[fld][:i] + case[fld][i+1:]; yield c
    for i in range(len(case["entities"])):
        c = dict(case); c["entities"] = case["entities"][:i] + case["entities"][i+1:]; c["list_lens"] = case["list_lens"][:i] + case["list_lens"][i+1:]
        yield c
    used = set(case["entities"]) | set(case.get("vec_entities", [])) | set(case.get("sp_entities", [])) | set(case.get("select", []))
    for i in range(len(case["ids"])):
        if case["ids"][i] not in used and len(case["ids"]) > 1:          # (the generator never produces a dataset without entities)
            c = dict(case); c["ids"] = case["ids"][:i] + case["ids"][i+1:]; yield c
    if case.get("scalar_form", "arrays") != "arrays": c = dict(case); c["scalar_form"] = "arrays"; yield c
    if case.get("str_ids"): c = dict(case); c["str_ids"] = False; yield c

SPEC = CheckSpec(
    pid="C17",
    theorems=[],     # taken from lean/props.index
    correspondence_ops=["c17.add_scalar", "c17.add_list", "c17.add_dense"],
    nontrivial_rule="distinct cases reaching ≥1 of: non-ascending entity order, partial/full coverage, string ids, empty list value, each input form, dense vectors (full / partial / nulls / unordered), sparse vectors, late entities, selected subset",
    budgets={"quick": 300, "thorough": 8000}, gen=gen, run=run, shrink=shrink)
