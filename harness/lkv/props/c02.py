"""C02 — a pipeline run is the functional evaluation of its DAG (memoising runner vs denotational reading)."""
from __future__ import annotations
import random
from ..core import CheckSpec, Outcome, Lean

def _imports():
    global PipelineBuilder, Lazy, PipelineError
    from lenskit.pipeline import PipelineBuilder, Lazy
    from lenskit.diagnostics import PipelineError

class CompErr(Exception):
    def __init__(self, tag): self.tag = tag
class CompKeyErr(KeyError):          # components fail with whatever their code raises — a dictionary miss is the commonest
    def __init__(self, tag): super().__init__(tag); self.tag = tag
class CompLookupErr(LookupError):
    def __init__(self, tag): super().__init__(tag); self.tag = tag
class CompTypeErr(TypeError):
    def __init__(self, tag): super().__init__(tag); self.tag = tag
ERRS = [CompErr, CompKeyErr, CompLookupErr, CompTypeErr]

LOG = []

def make_fn(idx, op, k, params):
    _imports()
    """params: list of (pname, lzy, acceptsNone). Returns a python function with proper annotations."""
    anns = []
    for (pn, lzy, an) in params:
        t = "int | None" if an else "int"
        anns.append(f"{pn}: " + (f"Lazy[{t}]" if lzy else t))
    eager = [pn for (pn, lzy, an) in params if not lzy]
    lazies = [pn for (pn, lzy, an) in params if lzy]
    body = [f"    LOG.append({idx})", f"    args = [{', '.join(eager)}]", f"    lz = [{', '.join(lazies)}]"]
    if op == "add":
        body += ["    if any(not isinstance(a, int) for a in args): raise TypeError('add')", "    return sum(args)"]
    elif op == "const": body += [f"    return {k}"]
    elif op == "constNone": body += ["    return None"]
    elif op == "ident": body += ["    return args[0]"]
    elif op == "raise": body += [f"    raise ERRS[{k} % 4]({k})"]
    elif op == "sumOpt": body += [f"    return {k} + sum(a for a in args if isinstance(a, int))"]
    elif op == "firstOf": body += ["    return args[0] if args[0] is not None else lz[0].get()"]
    elif op == "firstOfLK": body += ["    return fallback_on_none(args[0], lz[0])"]       # the shipped component behind `use_first_of`
    elif op == "lazyIfNeg": body += ["    return lz[0].get() if (isinstance(args[0], int) and args[0] < 0) else args[0]"]
    src = f"def comp_{idx}({', '.join(anns)}) -> object:\n" + "\n".join(body) + "\n"
    from lenskit.pipeline.components import fallback_on_none
    ns = {"Lazy": Lazy, "LOG": LOG, "ERRS": ERRS, "fallback_on_none": fallback_on_none}
    exec(src, ns)
    return ns[f"comp_{idx}"]

def gen_case(rng):
    n = rng.randint(2, 8); cyclic = rng.random() < 0.12
    nodes = []
    for i in range(n):
        r = rng.random()
        if i == 0 or r < 0.25:
            nodes.append({"kind": "input", "acceptsNone": rng.random() < 0.5, "accepts": ["int"]})
        elif r < 0.35:
            v = None if rng.random() < 0.3 else {"i": rng.randint(-3, 9)}
            nodes.append({"kind": "literal", "value": v})
        else:
            op = rng.choice(["add", "add", "sumOpt", "sumOpt", "ident", "const", "constNone", "raise", "firstOf", "firstOfLK", "firstOfLK", "lazyIfNeg"])
            def src():
                if rng.random() < 0.08: return None
                if cyclic and rng.random() < 0.35: return rng.randrange(0, n)      # any node, itself and later ones included: may close a cycle
                return rng.randrange(0, i)
            if op in ("add", "sumOpt"):
                ps = [{"lzy": False, "acceptsNone": rng.random() < 0.5, "accepts": ["int"], "src": src()} for _ in range(rng.randint(1, 3))]
            elif op == "ident":
                ps = [{"lzy": False, "acceptsNone": rng.random() < 0.5, "accepts": ["int"], "src": src()}]
            elif op in ("const", "constNone", "raise"):
                ps = [{"lzy": False, "acceptsNone": rng.random() < 0.5, "accepts": ["int"], "src": src()} for _ in range(rng.randint(0, 2))]
            else:
                ps = [{"lzy": False, "acceptsNone": True if op in ("firstOf", "firstOfLK") else rng.random() < 0.5, "accepts": ["int"], "src": src()},
                      {"lzy": True, "acceptsNone": rng.random() < 0.5, "accepts": ["int"], "src": (src() if cyclic else None) or rng.randrange(0, i)}]
            nodes.append({"kind": "comp", "op": op, "k": rng.randint(0, 5), "params": ps})
    inputs = []
    for i, nd in enumerate(nodes):
        if nd["kind"] == "input":
            r = rng.random()
            inputs.append(None if r < 0.4 else ({"s": "x"} if r < 0.5 else {"i": rng.randint(-3, 9)}))
        else:
            inputs.append(None)
    reqs = [rng.randrange(n) for _ in range(rng.randint(1, 3))]
    order = list(range(n)); rng.shuffle(order)          # declaration order
    case = {"nodes": nodes, "inputs": inputs, "requests": reqs, "decl": order}
    # default connections (targets are inputs / literals, so no cycle can be closed); optionally the pipeline is built, the defaults
    # re-pointed and the pipeline built again — the second build must follow the builder's graph as it stands then
    leaves = [i for i, nd in enumerate(nodes) if nd["kind"] in ("input", "literal")]
    if leaves and rng.random() < 0.3:
        case["defaults"] = {f"p{j}": rng.choice(leaves) for j in range(3) if rng.random() < 0.6}
        if case["defaults"] and rng.random() < 0.6:
            case["redefault"] = {pn: rng.choice(leaves) for pn in case["defaults"] if rng.random() < 0.7}
            case["between"] = rng.choice(["build", "config_hash", "clone"])
    return case

def mnodes(case):
    """the model's DSL has one first-available operation; `firstOfLK` is the same node computed by lenskit's own fallback component"""
    return [dict(nd, op="firstOf") if nd.get("op") == "firstOfLK" else nd for nd in case["nodes"]]

def final_defaults(case):
    d = dict(case.get("defaults") or {}); d.update(case.get("redefault") or {}); return d

def model_nodes(case):
    """the functional reading: a parameter with no explicit wiring takes the builder's default connection of its name, if any"""
    d = final_defaults(case)
    if not d: return case["nodes"]
    out = []
    for nd in case["nodes"]:
        if nd["kind"] == "comp":
            nd = dict(nd, params=[dict(p, src=(d.get(f"p{j}") if p["src"] is None else p["src"])) for j, p in enumerate(nd["params"])])
        out.append(nd)
    return out

def build_real(case):
    pb = PipelineBuilder()
    nodes = case["nodes"]
    handles = {}
    for i in case["decl"]:
        nd = nodes[i]; name = f"n{i}"
        if nd["kind"] == "input":
            handles[i] = pb.create_input(name, int, None) if nd["acceptsNone"] else pb.create_input(name, int)
        elif nd["kind"] == "literal":
            v = nd["value"]
            if nd.get("inline"): handles[i] = v["s"]          # a plain string handed to `connect` as the value itself — even when it spells a node's name
            else: handles[i] = pb.literal(None if v is None else v.get("i", v.get("s")), name=name)
        else:
            params = [(f"p{j}", p["lzy"], p["acceptsNone"]) for j, p in enumerate(nd["params"])]
            handles[i] = pb.add_component(name, make_fn(i, nd["op"], nd["k"], params))
    for i, nd in enumerate(nodes):
        if nd["kind"] == "comp":
            wiring = {f"p{j}": handles[p["src"]] for j, p in enumerate(nd["params"]) if p["src"] is not None}
            if wiring:
                # a component may be addressed by its node, by its name, or by an alias declared for it: the wiring is the component's either way
                via = case.get("connect_via", "node")
                if via == "name": pb.connect(f"n{i}", **wiring)
                elif via == "alias": pb.alias(f"alias-of-n{i}", handles[i]); pb.connect(f"alias-of-n{i}", **wiring)
                else: pb.connect(handles[i], **wiring)
    if case.get("replace_partial") is not None:
        # a component replaced by an equal one with ONE of its connections given again: the others are retained, as documented
        i = case["replace_partial"]; nd = nodes[i]
        params = [(f"p{j}", p["lzy"], p["acceptsNone"]) for j, p in enumerate(nd["params"])]
        j0 = next(j for j, p in enumerate(nd["params"]) if p["src"] is not None)
        pb.replace_component(f"n{i}", make_fn(i, nd["op"], nd["k"], params), **{f"p{j0}": handles[nd["params"][j0]["src"]]})
    for pn, tgt in (case.get("defaults") or {}).items(): pb.default_connection(pn, handles[tgt])
    if case.get("redefault"):
        how = case.get("between", "build")
        if how == "build": pb.build()
        elif how == "config_hash": pb.config_hash()
        else: pb = pb.clone()
        for pn, tgt in case["redefault"].items(): pb.default_connection(pn, pb.node(f"n{tgt}"))
    return pb.build()

def run_real(pipe, case):
    LOG.clear()
    kw = {}
    for i, v in enumerate(case["inputs"]):
        if case["nodes"][i]["kind"] == "input" and v is not None:
            kw[f"n{i}"] = v["i"] if "i" in v else v["s"]
    try:
        out = pipe.run(tuple(f"n{i}" for i in case["requests"]), **kw)
        res = {"ok": [None if x is None else ({"i": x} if isinstance(x, int) else {"s": x}) for x in out]}
    except Exception as e:
        if isinstance(e, tuple(ERRS)): res = {"err": f"comp{e.tag}"}          # a component's own exception, whatever its class
        elif isinstance(e, PipelineError): res = {"err": "pipelineError"}
        elif isinstance(e, TypeError): res = {"err": "typeError"}
        elif isinstance(e, KeyError): res = {"err": "keyError"}
        elif isinstance(e, RuntimeError): res = {"err": "runtimeError"}
        else: res = {"err": "other:" + type(e).__name__}
    return {"result": res, "log": list(LOG)}


def gen_redefault(rng):
    """directed: a component with one wired and one unwired parameter; the unwired one takes a default connection that is re-pointed
    (to a leaf with another value) after the builder has been built / hashed / cloned once"""
    vals = rng.sample(range(-3, 10), 3)
    nodes = [{"kind": "literal", "value": {"i": vals[0]}}, {"kind": "literal", "value": {"i": vals[1]}}, {"kind": "input", "acceptsNone": False, "accepts": ["int"]},
             {"kind": "comp", "op": rng.choice(["add", "sumOpt"]), "k": rng.randint(0, 5),
              "params": [{"lzy": False, "acceptsNone": False, "accepts": ["int"], "src": rng.choice([0, 1, 2])}, {"lzy": False, "acceptsNone": False, "accepts": ["int"], "src": None}]}]
    a, b = rng.sample([0, 1, 2], 2)
    order = list(range(4)); rng.shuffle(order)
    return {"nodes": nodes, "inputs": [None, None, {"i": vals[2]}, None], "requests": [3], "decl": order,
            "defaults": {"p1": a}, "redefault": {"p1": b}, "between": rng.choice(["build", "config_hash", "clone"])}

def gen(rng: random.Random, tier: str):
    n = {"quick": 1500, "thorough": 200000}[tier]
    for k in range(n):
        c = gen_redefault(rng) if k % 25 == 7 else gen_case(rng)
        c["connect_via"] = ("node", "node", "name", "alias")[k % 4]          # how the components are addressed when they are wired
        if k % 6 == 1 and "redefault" not in c:
            # directed: a literal string that happens to spell the name of another node, handed to `connect` directly — it is a value
            used = {p["src"] for nd in c["nodes"] if nd["kind"] == "comp" for p in nd["params"]}
            lits = [i for i, nd in enumerate(c["nodes"]) if nd["kind"] == "literal" and i in used and i not in (c.get("defaults") or {}).values()]
            others = [i for i, nd in enumerate(c["nodes"]) if nd["kind"] in ("input", "comp")]
            if lits and others:
                i = rng.choice(lits); t = rng.choice(others)
                c["nodes"][i] = {"kind": "literal", "value": {"s": f"n{t}"}, "inline": True}
                c["requests"] = [r if r != i else t for r in c["requests"]]
        if k % 6 == 4:
            multi = [i for i, nd in enumerate(c["nodes"]) if nd["kind"] == "comp" and sum(1 for p in nd["params"] if p["src"] is not None) >= 2]
            if multi: c["replace_partial"] = rng.choice(multi)
        yield c

def run(case: dict, lean: Lean) -> Outcome:
    _imports()
    margs = {"nodes": mnodes(case), "inputs": case["inputs"], "requests": case["requests"], "defaults": [[pn, tgt] for pn, tgt in final_defaults(case).items()]}
    try:
        pipe = build_real(case)
    except PipelineError as e:
        # the builder refused the wiring: the model's `validate` must refuse it too (cyclic wirings are rejected), and only those
        valid = lean.call("c02.run", {"variant": "repaired", **margs})["valid"]
        ok = (valid is False)
        return Outcome(ok, ok, ("wiring rejected at build time",), {"build_error": str(e)[:80], "model_valid": valid}, None)
    except Exception as e:
        return Outcome(False, False, ("build raised",), {"build_error": type(e).__name__ + ": " + str(e)[:80]}, None)
    real = run_real(pipe, case)
    # default connections are resolved inside the model (`LK.Cfg.resolve`), from the builder's defaults as they stand at the last build
    args = {"nodes": mnodes(case), "inputs": case["inputs"], "requests": case["requests"], "defaults": [[pn, tgt] for pn, tgt in final_defaults(case).items()]}
    as_is = lean.call("c02.run", {"variant": "asIs", **args})
    rep = lean.call("c02.run", {"variant": "repaired", **args})
    valid = rep.pop("valid"); as_is.pop("valid", None)
    corr = real in (as_is, rep) and valid          # the builder accepted the wiring, so the model's validate must accept it
    spec = real["result"] == rep["result"] and real["log"] == rep["log"] and valid     # run_eq_denote + exec_at_most_once are about `repaired`
    classes = []
    nodes = case["nodes"]
    if len(set(case["requests"])) < len(case["requests"]): classes.append("node requested twice")
    if any(nd["kind"] == "comp" and any(p["lzy"] for p in nd["params"]) for nd in nodes): classes.append("lazy edge")
    if any(nd["kind"] == "comp" and nd["op"] == "raise" for nd in nodes): classes.append("raising component")
    if any(nd["kind"] == "comp" and any(p["src"] is None for p in nd["params"]) for nd in nodes): classes.append("unwired parameter")
    srcs = [p["src"] for nd in nodes if nd["kind"] == "comp" for p in nd["params"] if p["src"] is not None]
    if len(srcs) != len(set(srcs)): classes.append("shared sub-expression")
    if case["decl"] != sorted(case["decl"]): classes.append("later-declared source")
    if any(nd["kind"] == "comp" and nd["op"] == "firstOfLK" for nd in nodes): classes.append("shipped first-available component")
    if "err" in real["result"]: classes.append("error: " + real["result"]["err"])
    if as_is != rep: classes.append("as-is ≠ repaired")
    if case.get("defaults"): classes.append("default connections")
    if case.get("connect_via", "node") != "node": classes.append("wired by " + case["connect_via"])
    if case.get("replace_partial") is not None: classes.append("component replaced with one connection given again")
    if any(nd.get("inline") for nd in case["nodes"]): classes.append("string literal spelling a node name")
    if case.get("redefault"): classes.append("defaults re-pointed after " + case.get("between", "build"))
    if any(nd["kind"] == "comp" and nd["op"] == "raise" and nd["k"] % 4 == 1 for nd in nodes): classes.append("component raising KeyError")
    key = None
    if not spec and real == as_is:
        key = "runner memo: answer depends on earlier requests (" + (real["result"].get("err") or "value") + " vs " + (rep["result"].get("err") or "value") + ")"
    return Outcome(corr, spec, tuple(classes), {"impl": real, "as_is": as_is, "repaired": rep}, key)

def shrink(case: dict):
    if len(case["requests"]) > 1:
        for i in range(len(case["requests"])):
            c = dict(case); c["requests"] = case["requests"][:i] + case["requests"][i + 1:]; yield c
    # drop the last node when nothing refers to it
    n = len(case["nodes"])
    if n > 1 and (n - 1) not in case["requests"]:
        c = dict(case); c["nodes"] = case["nodes"][:-1]; c["inputs"] = case["inputs"][:-1]; c["decl"] = [d for d in case["decl"] if d != n - 1]; yield c
    for i, v in enumerate(case["inputs"]):
        if v is not None:
            c = dict(case); c["inputs"] = list(case["inputs"]); c["inputs"][i] = None; yield c

SPEC = CheckSpec(
    pid="C02",
    theorems=["LK.Pipe.C02_Pipeline_run_eq_denote", "LK.Pipe.C02_Pipeline_denote_req_indep", "LK.Pipe.C02_Pipeline_denote_fuel",
              "LK.Pipe.C02_PipelineLog_exec_at_most_once", "LK.Pipe.C02_PipelineLog_exec_only_needed", "LK.Pipe.C02_PipelineLog_forceLazy_unselected"],
    correspondence_ops=["c02.run"],
    nontrivial_rule="distinct graphs reaching ≥1 of: node requested twice, lazy edge, raising component, unwired parameter, shared sub-expression, later-declared source, each error class, as-is ≠ repaired",
    budgets={"quick": 1500, "thorough": 200000}, gen=gen, run=run, shrink=shrink)
