"""C20 — negative sampling returns valid columns; with verification they are true negatives unless a warning says otherwise."""
from __future__ import annotations
import random, warnings
import numpy as np
from ..core import CheckSpec, Outcome, Lean

class Scripted(np.random.Generator):
    def __init__(self, script):
        super().__init__(np.random.PCG64(0)); self.script = list(script); self.calls = []
    def choice(self, a, size=None, replace=True, p=None, axis=0, shuffle=True):
        self.calls.append(("choice", int(a), size))
        return np.asarray(self.script.pop(0)).reshape(size if size is not None else ())

def gen(rng: random.Random, tier: str):
    n = {"quick": 300, "thorough": 60000}[tier]
    for k in range(n):
        nu, ni = rng.randint(1, 4), rng.randint(1, 5)
        pairs = [[u, i] for u in range(nu) for i in range(ni) if rng.random() < rng.choice([0.3, 0.6, 0.9])] or [[0, 0]]
        yield {"nu": nu, "ni": ni, "pairs": pairs, "rows": [rng.randrange(nu) for _ in range(rng.randint(1, 5))], "attempts": rng.choice([0, 1, 2, 3, 10]),
               "weighting": rng.choice(["uniform", "popular"]), "seed": rng.randrange(10**6), "scripted": k % 3 != 0, "count": rng.choice([None, None, 2, 3])}

def run(case: dict, lean: Lean) -> Outcome:
    import pandas as pd
    from lenskit.data import from_interactions_df
    nu, ni, pairs, rows, attempts, weighting = case["nu"], case["ni"], case["pairs"], case["rows"], case["attempts"], case["weighting"]
    df = pd.DataFrame({"user_id": [p[0] for p in pairs], "item_id": [p[1] for p in pairs]})
    ds = from_interactions_df(df, users=list(range(nu)), items=list(range(ni)))
    m = ds.interactions().matrix()
    tbl = m.arrow().to_pydict(); stored = [int(x) for x in tbl["item_num"]]; obs = set(zip(tbl["user_num"], tbl["item_num"]))
    failed = []; corr = True; classes = [weighting]
    if case["scripted"] and case["count"] is None:
        # replay protocol: the case dictates every draw; model and implementation must consume them identically
        bound = ni if weighting == "uniform" else len(stored)
        dec = (lambda x: x) if weighting == "uniform" else (lambda x: stored[x])
        r0 = random.Random(case["seed"]); draws = []; cur = list(rows); a = attempts
        while True:
            d = [r0.randrange(bound) for _ in cur]; draws.append(d)
            badpos = [r for r, x in zip(cur, d) if (r, dec(x)) in obs]
            if not badpos or a == 0: break
            cur = badpos; a -= 1
        g = Scripted(draws)
        try:
            with warnings.catch_warnings(record=True) as w:
                warnings.simplefilter("always")
                out = m.sample_negatives(np.array(rows, dtype=np.int32), weighting=weighting, max_attempts=attempts, rng=g)
        except Exception as e:
            # the implementation asked for draws the declared protocol does not contain (or in another shape): correspondence broken for this case
            return Outcome(False, True, tuple(classes + ["draw protocol deviates"]), {"error": type(e).__name__ + ": " + str(e)[:100], "calls": [list(map(str, c)) for c in g.calls], "draws": draws}, None)
        real = {"cols": [int(x) for x in out], "warned": any("verified negatives" in str(x.message) for x in w), "unused": len(g.script)}
        model = lean.call("c20.sample", {"nCols": ni, "observed": [[int(a_), int(b_)] for a_, b_ in obs], "storedCols": stored, "rows": rows, "draws": draws,
                                          "attempts": attempts, "weighting": weighting})
        corr = real == model; cols = [real["cols"]]; warned = real["warned"]; classes.append("scripted draws")
        shape_ok = len(real["cols"]) == len(rows)
    else:
        with warnings.catch_warnings(record=True) as w:
            warnings.simplefilter("always")
            out = np.asarray(m.sample_negatives(np.array(rows, dtype=np.int32), weighting=weighting, n=case["count"], max_attempts=max(attempts, 1), rng=case["seed"]))
        warned = any("verified negatives" in str(x.message) for x in w)
        shape_ok = out.shape == ((len(rows),) if case["count"] is None else (len(rows), case["count"]))
        cols = out.T.tolist() if out.ndim == 2 else [out.tolist()]
        classes.append("seeded draws"); 
        if case["count"]: classes.append("several per row")
    if not shape_ok: failed.append("result shape differs from the request")
    for col in cols:
        for r, c in zip(rows, col):
            if not (0 <= c < ni): failed.append(f"column {c} out of range")
            elif (r, c) in obs and not warned: failed.append(f"row {r}: column {c} is an observed interaction and no warning was raised")
            if weighting == "popular" and c not in stored: failed.append(f"popularity weighting drew column {c}, which never occurs in the data")
    # "plentiful ⇒ no warning" is a statement about probabilities in the seeded path (the deterministic content — a warning only after a
    # position used up its whole budget on observed columns — is the theorem `cols_from_draws` / the scripted comparison above).  It is
    # asserted only where a warning would have probability < 1e-9: positions × (largest observed share)^(budget + 1).
    if weighting == "uniform" and rows:
        share = max(sum(1 for c in range(ni) if (r, c) in obs) / ni for r in rows)
        npos = len(rows) * (case["count"] or 1)
        if warned and npos * share ** (max(attempts, 1) + 1) < 1e-9: failed.append("warning although unobserved columns are plentiful (a warning had probability < 1e-9)")
    if warned: classes.append("warned")
    if any(all((r, c) in obs for c in range(ni)) for r in rows): classes.append("row without negatives")
    return Outcome(corr, not failed and corr, tuple(classes), {"failed": failed[:6]}, None)

def shrink(case: dict):
    for i in range(len(case["rows"])):
        if len(case["rows"]) > 1: c = dict(case); c["rows"] = case["rows"][:i] + case["rows"][i + 1:]; yield c
    for i in range(len(case["pairs"])):
        if len(case["pairs"]) > 1: c = dict(case); c["pairs"] = case["pairs"][:i] + case["pairs"][i + 1:]; yield c

SPEC = CheckSpec(
    pid="C20", theorems=[f"LK.Neg.C20_NegSample_{n}" for n in ["verified_or_warned", "combine_injective", "cols_from_draws", "popular_in_data", "every_column_reachable"]],
    correspondence_ops=["c20.sample"],
    nontrivial_rule="distinct cases reaching ≥1 of: uniform / popular, scripted / seeded draws, several per row, warned, row without negatives",
    budgets={"quick": 300, "thorough": 60000}, gen=gen, run=run, shrink=shrink)
