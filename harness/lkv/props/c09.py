"""C09 — k-NN scorers compute the documented neighbourhood formula; learned item model properties."""
from __future__ import annotations
import math, random
from fractions import Fraction
import numpy as np
from ..core import CheckSpec, Outcome, Lean, rat

def gen(rng: random.Random, tier: str):
    n = {"quick": 50, "thorough": 6000}[tier]
    for k in range(n):
        nu, ni = rng.randint(3, 9), rng.randint(3, 8)
        explicit = rng.random() < 0.6
        UB, IB = rng.choice([(100, 1000), (100, 1000), (0, 1000), (0, 0)])          # zero-based identifiers are identifiers like any other
        rows = [[UB + u, IB + i, float(rng.choice([1, 2, 3, 4, 5]))] for u in range(nu) for i in range(ni) if rng.random() < rng.choice([0.4, 0.55, 0.7])]
        if len({r[1] for r in rows}) < 2 or len({r[0] for r in rows}) < 3: continue
        kk = rng.randint(1, 4)
        yield {"algo": "item" if k % 2 == 0 else "user", "rows": rows, "explicit": explicit, "k": kk, "min_nbrs": (rng.randint(1, min(kk, 3)) if rng.random() < 0.8 else kk + rng.randint(1, 2)),          # a minimum above the limit is a configuration like any other
               "min_sim": rng.choice([1e-6, 0.05, 0.2]), "save_nbrs": rng.choice([None, None, 1, 2, 3]), "block": rng.choice([1, 2, 3, 250])}
    # directed: dense explicit data and a small k — neighbourhoods larger than k on both scoring paths
    for algo in ("item", "item", "user"):
        rows = [[100 + u, 1000 + i, float(rng.choice([1, 2, 3, 4, 5]))] for u in range(7) for i in range(6) if rng.random() < 0.85]
        yield {"algo": algo, "rows": rows, "explicit": True, "k": rng.choice([1, 2]), "min_nbrs": 1, "min_sim": 1e-6, "save_nbrs": None, "block": 250}
    # directed: a minimum above the limit on dense data (neighbourhoods larger than the limit yet smaller than the minimum)
    for algo, expl in (("item", False), ("item", True), ("user", False)):
        rows = [[100 + u, 1000 + i, float(rng.choice([1, 2, 3, 4, 5]))] for u in range(8) for i in range(6) if rng.random() < 0.85]
        yield {"algo": algo, "rows": rows, "explicit": expl, "k": 2, "min_nbrs": 5, "min_sim": 1e-6, "save_nbrs": None, "block": 250}
    # directed: implicit users with four items each, neighbours sharing exactly two — a cosine of exactly 1/2 (every operation is exact in
    # binary floating point), and a threshold of exactly 1/2: a neighbour AT the threshold qualifies
    base = [0, 1, 2, 3]
    rows = [[100, 1000 + i, 1.0] for i in base] + [[101, 1000 + i, 1.0] for i in (0, 1, 4, 5)] + [[102, 1000 + i, 1.0] for i in (2, 3, 6, 7)] + [[103, 1000 + i, 1.0] for i in (4, 5, 6, 7)]
    yield {"algo": "user", "rows": rows, "explicit": False, "k": 3, "min_nbrs": 1, "min_sim": 0.5, "save_nbrs": None, "block": 250, "exact_threshold": True}

def _near(x, y, tol): return abs(x - y) <= tol * max(1.0, abs(x), abs(y))

def _item(case, lean):
    import pandas as pd
    from lenskit.data import from_interactions_df, ItemList
    from lenskit.data.query import RecQuery
    from lenskit.knn import ItemKNNScorer
    explicit, k, mn, ms, sv = case["explicit"], case["k"], case["min_nbrs"], case["min_sim"], case["save_nbrs"]
    df = pd.DataFrame(case["rows"], columns=["user_id", "item_id", "rating"])
    if not explicit: df = df.drop(columns=["rating"])
    ds = from_interactions_df(df)
    fb = "explicit" if explicit else "implicit"
    m = ItemKNNScorer(max_nbrs=k, min_nbrs=mn, min_sim=ms, save_nbrs=sv, block_size=case["block"], feedback=fb); m.train(ds)
    m2 = ItemKNNScorer(max_nbrs=k, min_nbrs=mn, min_sim=ms, save_nbrs=sv, block_size=250 if case["block"] != 250 else 2, feedback=fb); m2.train(ds)
    sim = m.sim_matrix_.toarray(); failed = []; corr = True; n_items = sim.shape[0]
    if not np.array_equal(sim, m2.sim_matrix_.toarray()): failed.append("similarity model depends on the block size")
    mat = ds.interactions().matrix().scipy(attribute="rating" if explicit else None, layout="csr").toarray().T.astype("f8")
    mask = ds.interactions().matrix().scipy(layout="csr").toarray().T > 0
    vecs = []
    for r, mk in zip(mat, mask):
        v = np.where(mk, r, 0.0)
        if explicit: v = np.where(mk, v - (v[mk].mean() if mk.any() else 0.0), 0.0)
        nrm = math.sqrt((v * v).sum())
        vecs.append([rat(x / nrm) if nrm > 0 else "0" for x in v])
    full = lean.call("c09.sim_rows", dict(vecs=vecs, minSim=rat(ms)))
    rowsL = lean.call("c09.sim_rows", dict(vecs=vecs, minSim=rat(ms), maxN=sv)) if sv else full
    for i, row in enumerate(rowsL):
        d = {j: float(Fraction(s)) for j, s in row}
        fs = sorted((float(Fraction(s)) for _, s in full[i]), reverse=True)
        if sv and len(fs) > sv and abs(fs[sv - 1] - fs[sv]) < 1e-6: continue      # tie at the cut: either choice is allowed
        for j in range(n_items):
            s = float(sim[i, j])
            if j in d:
                if not _near(s, d[j], 1e-4) and abs(d[j] - ms) > 1e-5: corr = False; failed.append(f"sim[{i},{j}] = {s}, definition {d[j]}")
            elif s != 0 and abs(s - ms) > 1e-5: corr = False; failed.append(f"sim[{i},{j}] = {s} but not a neighbour by definition")
    # learned-model clauses on the implementation alone
    if np.any(np.diag(sim) != 0): failed.append("item related to itself")
    nz = sim[sim != 0]
    if len(nz) and (nz.min() < ms - 1e-5 or nz.max() > 1 + 1e-6): failed.append("similarity outside [threshold, 1]")
    if not sv and not np.allclose(sim, sim.T, atol=1e-6): failed.append("untruncated model not symmetric")
    means = m.item_means_ if m.item_means_ is not None else np.zeros(n_items)
    over_k = 0
    for u in list(ds.users.ids())[:4]:
        hist = ds.user_row(u); items = ItemList(item_ids=list(ds.items.ids()))
        if len(hist) > 1:
            # a caller-supplied history need not be in vocabulary order: present it in a scrambled order
            order = np.random.default_rng(case.get("seed", 0) + int(u)).permutation(len(hist)); hist = hist[order]
        sc = m(RecQuery(user_id=u, user_items=hist), items).scores()
        hn = hist.numbers(vocabulary=m.items_); hr = hist.field("rating") if explicit else np.ones(len(hn))
        for t in range(len(items)):
            nbrs = [[int(j), rat(sim[j, t]), rat(np.float32(r) - np.float32(means[j]) if explicit else 1.0)] for j, r in zip(hn, hr) if sim[j, t] != 0]
            res = lean.call("c09.item_score", dict(explicit=explicit, k=k, minNbrs=mn, nbrs=nbrs))
            ss = sorted((float(sim[j, t]) for j in hn if sim[j, t] != 0), reverse=True)
            if len(ss) > k:
                over_k += 1
                if ss[k - 1] == ss[k]: continue
            real = None if np.isnan(sc[t]) else float(sc[t]) - (float(means[t]) if explicit else 0.0)
            mod = None if res["impl"] is None else float(Fraction(res["impl"]))
            ok = (real is None and mod is None) or (real is not None and mod is not None and _near(real, mod, 2e-4))
            if not ok or res["impl"] != res["def"]: corr = False; failed.append(f"score(user {u}, item {t}) = {real}, definition {mod}")
        # the score is a function of the query: the same history object (ratings in a caller-owned, writeable float32 array — the
        # form a serving loop keeps around) scored again gives the same scores, and the caller's ratings are what they were
        if len(hist) and explicit:
            own = np.array(hist.field("rating"), dtype=np.float32); keep = own.copy()
            h32 = ItemList(item_ids=hist.ids(), rating=own); q32 = RecQuery(user_id=u, user_items=h32)
            first = m(q32, items).scores(); second = m(q32, items).scores()
            if not np.allclose(first, sc, atol=1e-5, equal_nan=True): corr = False; failed.append(f"user {u}: history as a float32 array scores differently from the same history as read from the dataset")
            if not np.array_equal(first, second, equal_nan=True): corr = False; failed.append(f"user {u}: scoring the same query object twice gives different scores")
            if not np.array_equal(np.asarray(h32.field("rating")), keep) or not np.array_equal(own, keep): failed.append(f"user {u}: the caller's history ratings were changed by the scorer")
    return corr, failed, over_k

def _user(case, lean):
    import pandas as pd
    from lenskit.data import from_interactions_df, ItemList
    from lenskit.data.query import RecQuery
    from lenskit.knn import UserKNNScorer
    explicit, k, mn, ms = case["explicit"], case["k"], case["min_nbrs"], case["min_sim"]
    df = pd.DataFrame(case["rows"], columns=["user_id", "item_id", "rating"])
    if not explicit: df = df.drop(columns=["rating"])
    ds = from_interactions_df(df)
    m = UserKNNScorer(max_nbrs=k, min_nbrs=mn, min_sim=ms, feedback="explicit" if explicit else "implicit"); m.train(ds)
    UV = m.user_vectors_.to_dense().numpy(); UR = m.user_ratings_.toarray()
    RM = ds.interactions().matrix().scipy(layout="csr").toarray() > 0
    failed = []; corr = True; over_k = 0
    V = [int(x) for x in ds.items.ids()]
    queries = []
    for u in list(ds.users.ids())[:4]:
        un = m.users_.number(u)
        queries.append((f"user {u} by id", RecQuery(user_id=u), UV[un], float(m.user_means_[un]) if explicit else 0.0, un))
        # the same user with a history supplied at scoring time: re-rated (explicit) / extended by an item (implicit) — the query vector is
        # built from the supplied history (centred on ITS mean, unit length), the user's stored vector and mean play no part
        hist = ds.user_row(u)
        hids = [int(i) for i in hist.ids()]
        if explicit:
            rts = [float(6 - r) if k_ % 2 else float(r) for k_, r in enumerate(hist.field("rating"))]
            qh = ItemList(item_ids=hids, rating=rts); mu = float(np.mean(np.array(rts, dtype="f4")))
            vec = np.zeros(len(V), dtype="f4"); vec[[V.index(i) for i in hids]] = np.array(rts, dtype="f4") - np.float32(mu)
        else:
            extra = [i for i in V if i not in hids][:1]
            qh = ItemList(item_ids=hids + extra + [987654]); mu = 0.0
            vec = np.zeros(len(V), dtype="f4"); vec[[V.index(i) for i in hids + extra]] = 1.0
        nv = float(np.linalg.norm(vec))
        if nv > 0:
            queries.append((f"user {u} with a supplied history", RecQuery(user_id=u, user_items=qh), vec / nv, mu, un))
            queries.append((f"unknown user with the history of {u}", RecQuery(user_id=424242, user_items=qh), vec / nv, mu, None))
    for label, qobj, qvec, umean, un in queries:
        u = label
        sims = (UV @ qvec).astype("f4")
        if un is not None: sims[un] = 0
        if any(abs(float(s) - ms) < min(1e-5, ms / 2) and not (case.get("exact_threshold") and float(s) == ms) for s in sims): continue     # float rounding at the threshold decides membership (unless equality is exact by construction)
        items = ItemList(item_ids=list(ds.items.ids()))
        try: sc = m(qobj, items).scores()
        except Exception as e: corr = False; failed.append(f"{label}: raised {type(e).__name__}"); continue
        # the same query object asked again answers the same, and the caller's history is left as it was
        if qobj.user_items is not None:
            keep_ids = list(qobj.user_items.ids()); keep_r = None if qobj.user_items.field("rating") is None else np.array(qobj.user_items.field("rating")).copy()
            again = m(qobj, items).scores()
            if not np.array_equal(sc, again, equal_nan=True): corr = False; failed.append(f"{label}: scoring the same query object twice gives different scores")
            if list(qobj.user_items.ids()) != keep_ids or (keep_r is not None and not np.array_equal(np.array(qobj.user_items.field("rating")), keep_r)):
                failed.append(f"{label}: the caller's history was changed by the scorer")
        qual = [v for v in range(len(sims)) if sims[v] >= ms]
        for t in range(len(items)):
            nbrs = [[v, rat(sims[v]), rat(UR[v, t]) if RM[v, t] else "0"] for v in qual]
            rated = [v for v in qual if RM[v, t]]
            res = lean.call("c09.user_score", dict(explicit=explicit, k=k, minNbrs=mn, nbrs=nbrs, rated=rated))
            rs = sorted((float(sims[v]) for v in rated), reverse=True)
            if len(rs) > k:
                over_k += 1
                # a tie at the cut — exact, or within the rounding of two float32 dot products (the harness recomputes the similarities
                # with NumPy, the implementation with torch): either neighbour may be kept, the claim is "up to exact ties"
                if abs(rs[k - 1] - rs[k]) <= 2e-6 * max(1.0, abs(rs[k])): continue
            real = None if np.isnan(sc[t]) else float(sc[t]) - umean
            mod = None if res["impl"] is None else float(Fraction(res["impl"]))
            ok = (real is None and mod is None) or (real is not None and mod is not None and _near(real, mod, 2e-4))
            if not ok or res["impl"] != res["def"]: corr = False; failed.append(f"score({u}, item {t}) = {real}, definition {mod}")
    return corr, failed, over_k

def run(case: dict, lean: Lean) -> Outcome:
    corr, failed, over_k = (_item if case["algo"] == "item" else _user)(case, lean)
    classes = [case["algo"] + ("-explicit" if case["explicit"] else "-implicit")]
    if over_k: classes.append("neighbourhood larger than k")
    if case["save_nbrs"] and case["algo"] == "item": classes.append("stored-neighbour truncation")
    if case["min_nbrs"] > 1: classes.append("min_nbrs > 1")
    if case["min_nbrs"] > case["k"]: classes.append("min_nbrs > max_nbrs")
    if case["block"] != 250 and case["algo"] == "item": classes.append("small block size")
    return Outcome(corr, not failed, tuple(classes), {"failed": failed[:10]}, None)

def shrink(case: dict):
    for i in range(len(case["rows"])):
        c = dict(case); c["rows"] = case["rows"][:i] + case["rows"][i + 1:]
        if len({r[1] for r in c["rows"]}) >= 2 and len({r[0] for r in c["rows"]}) >= 3: yield c

SPEC = CheckSpec(
    pid="C09",
    theorems=[f"LK.KNN.C09_KNN_{n}" for n in ["item_impl_eq_def", "user_impl_eq_def", "chosen_are_top", "simRow_symm", "simRow_no_self", "simRow_range"]]
             + [f"LK.KNN.C09_KNN2_{n}" for n in ["simRowTrunc_sub", "simRowTrunc_top", "simRowTrunc_length", "simBlocks_blocksize_indep", "simBlocks_eq_rows"]],
    correspondence_ops=["c09.sim_rows", "c09.item_score", "c09.user_score"],
    nontrivial_rule="distinct (dataset, configuration) reaching ≥1 of: item/user × explicit/implicit, neighbourhood larger than k, stored-neighbour truncation, min_nbrs > 1, small block size",
    budgets={"quick": 50, "thorough": 6000}, gen=gen, run=run, shrink=shrink)
