"""C15 — persistence round trips and crash safety of the dataset directory format."""
from __future__ import annotations
import json, math, os, pickle, random, shutil, tempfile
from pathlib import Path
import numpy as np
from ..core import CheckSpec, Outcome, Lean, ROOT

def _imports():
    global pd, pq, cont, summ, Dataset, from_interactions_df, DatasetBuilder, ItemList, ItemListCollection, UserIDKey
    import pandas as pd, pyarrow.parquet as pq
    import lenskit.data.container as cont, lenskit.data.summary as summ
    from lenskit.data import Dataset, from_interactions_df, DatasetBuilder, ItemList, ItemListCollection
    from lenskit.data.collection import UserIDKey

class Crash(Exception): pass

def make_ds(tag, extra_class=False):
    rng = np.random.default_rng(tag)
    df = pd.DataFrame({"user_id": [1, 1, 2, 3], "item_id": [10, 20, 10, 30], "rating": rng.integers(1, 6, 4).astype(float)})
    b = DatasetBuilder(from_interactions_df(df))
    if extra_class: b.add_entities("tag", [f"t{tag}a", f"t{tag}b"])
    return b.build()

def gen_ds(rnd, str_ids=False, sorted_ids=False, attrs=True, ts="int"):
    """a dataset whose users and items are registered in several batches (later batches may hold smaller identifiers), with a
    scalar, a list, a dense-vector and a sparse-vector attribute on the items"""
    import scipy.sparse as sps
    conv = (lambda x: f"k{x:03d}") if str_ids else int
    items = rnd.sample(range(10, 60), rnd.randint(4, 9)); users = rnd.sample(range(100, 140), rnd.randint(3, 7))
    if sorted_ids: items.sort(); users.sort()
    b = DatasetBuilder()
    cut_i = rnd.randint(1, len(items) - 1); cut_u = rnd.randint(1, len(users) - 1)
    for cls, ids, cut in (("item", items, cut_i), ("user", users, cut_u)):
        b.add_entities(cls, [conv(x) for x in ids[:cut]]); b.add_entities(cls, [conv(x) for x in ids[cut:]])
    # time stamps: small integers, or date-times at the finest (nanosecond) resolution pandas has by default
    stamp = (lambda: rnd.randint(0, 1000)) if ts == "int" else (lambda: pd.Timestamp(1_600_000_000_000_000_000 + rnd.randint(0, 10**12)))
    rows = [(conv(u), conv(i), float(rnd.randint(1, 5)), stamp()) for u in users for i in items if rnd.random() < 0.55]
    if not rows: rows = [(conv(users[0]), conv(items[0]), 3.0, stamp())]
    b.add_interactions("rating", pd.DataFrame(rows, columns=["user_id", "item_id", "rating", "timestamp"]), entities=["user", "item"], default=True)
    if attrs:
        sub = [conv(x) for x in rnd.sample(items, rnd.randint(1, len(items)))]
        b.add_scalar_attribute("item", "title", sub, [f"t-{x}" for x in sub])
        if ts != "int": b.add_scalar_attribute("item", "released", sub, pd.to_datetime([1_500_000_000_000_000_000 + rnd.randint(0, 10**12) for _ in sub]))
        b.add_list_attribute("item", "tags", sub, [[f"g{rnd.randint(0, 4)}" for _ in range(rnd.randint(0, 3))] for _ in sub])
        b.add_vector_attribute("item", "emb", sub, np.array([[rnd.randint(-4, 4) / 2 for _ in range(3)] for _ in sub]))
        b.add_vector_attribute("item", "sp", sub, sps.csr_array(np.array([[rnd.choice([0, 0, 1.5, -2.0]) for _ in range(4)] for _ in sub])))
    return b.build()

def observe(ds):
    """what a user of the dataset can see: identifiers and numbering, interaction views, per-user rows, statistics, attribute values"""
    out = {"schema": ds.schema.model_dump_json(), "users": [str(x) for x in ds.users.ids()], "items": [str(x) for x in ds.items.ids()]}
    it = ds.interaction_table(format="pandas", original_ids=True)
    out["rows"] = sorted(map(tuple, it.astype(str).values.tolist()))
    nt = ds.interaction_table(format="pandas", original_ids=False)
    out["rows_by_number"] = sorted(map(tuple, nt.astype(str).values.tolist()))
    out["user_rows"] = {str(u): (lambda r: None if r is None else sorted(zip(map(str, r.ids()), map(float, r.field("rating") if r.field("rating") is not None else []))))(ds.user_row(u)) for u in ds.users.ids()}
    st = ds.item_stats(); out["item_counts"] = {str(i): int(c) for i, c in zip(st.index, st["count"])}
    m = ds.interactions().matrix().scipy(attribute="rating").tocoo()
    out["matrix"] = sorted(zip(map(int, m.row), map(int, m.col), map(float, m.data)))
    for a in ds.schema.entities["item"].attributes:
        at = ds.entities("item").attribute(a)
        out["attr:" + a] = dict(zip(map(str, at.ids()), json.loads(json.dumps(at.arrow().to_pylist(), default=str))))
    return json.dumps(out, sort_keys=True, default=str)

def fingerprint(ds):
    out = {"schema": ds.schema.model_dump_json()}
    for n, t in ds._data.tables.items(): out[n] = t.to_pydict()
    return json.dumps(out, sort_keys=True, default=str)

def table_names(ds): return list(ds._data.tables.keys())

def run_save_with_crash(ds_new, path, k, torn, del_order, trace=None):
    """Run DataContainer.save with its k-th file-system step interrupted.  A step is any removal of a directory entry under `path`
    (the entries of a pre-existing directory go in `del_order` when the code removes the whole tree), the rmdir, the mkdir, and every
    file written under `path` (schema, one per table, summary).  The injection points are the file-system primitives themselves, so a
    save that is re-organised still gets interrupted at each of its steps.  The directory is left as the crash left it."""
    import shutil as _sh
    step = {"n": 0}
    def tick(write_path=None, partial=None, what=None):
        if trace is not None: trace.append(what if what is not None else ("write", os.path.basename(str(write_path))))
        if step["n"] == k:
            if torn and write_path is not None:
                with real_open(write_path, "wb") as f: f.write(partial if partial is not None else b"PAR1 trunc")
            raise Crash()
        step["n"] += 1
    real_open = open; real_remove, real_unlink, real_rmdir = os.remove, os.unlink, os.rmdir
    real_rmtree = _sh.rmtree; real_mkdir = Path.mkdir; real_save_stats = summ.save_stats; real_pq_write = pq.write_table
    under = lambda p_: str(p_).startswith(str(path))
    def fake_rmtree(p_, *a, **kw):
        if not under(p_): return real_rmtree(p_, *a, **kw)
        present = set(os.listdir(p_))
        for name in [n for n in del_order if n in present] + sorted(present - set(del_order)):
            tick(what=("rm", name)); real_remove(Path(p_) / name)
        tick(what=("rmdir",)); real_rmdir(p_)
    def fake_remove(p_, *a, **kw):
        if under(p_): tick(what=("rm", os.path.basename(str(p_))))
        return real_remove(p_, *a, **kw)
    def fake_rmdir(p_, *a, **kw):
        if under(p_): tick(what=("rmdir",))
        return real_rmdir(p_, *a, **kw)
    def fake_write_table(table, where, **kw):
        if under(where): tick(write_path=where)
        return real_pq_write(table, where, **kw)
    class FakeOpen:
        def __call__(self, file, mode="r", *a, **kw):
            if under(file) and any(c in mode for c in "wax"):
                tick(write_path=file, partial=b'{"name": nul' if str(file).endswith(".json") else b"# Summ")
            return real_open(file, mode, *a, **kw)
    def fake_save_stats(data, out):
        tick(write_path=out, partial=b"# Summ")
        return real_save_stats(data, out)
    def fake_mkdir(self, *a, **kw):
        if str(self) == str(path): tick(what=("mkdir",))
        return real_mkdir(self, *a, **kw)
    saved_cont = {nm: getattr(cont, nm) for nm in ("rmtree", "write_table") if hasattr(cont, nm)}
    for nm, fk in (("rmtree", fake_rmtree), ("write_table", fake_write_table)):
        if nm in saved_cont: setattr(cont, nm, fk)
    _sh.rmtree = fake_rmtree; pq.write_table = fake_write_table; summ.save_stats = fake_save_stats
    os.remove = fake_remove; os.unlink = fake_remove; os.rmdir = fake_rmdir
    cont.open = FakeOpen(); Path.mkdir = fake_mkdir
    try:
        ds_new._data.save(path)
        return "completed"
    except Crash:
        return "crashed"
    finally:
        for nm, v in saved_cont.items(): setattr(cont, nm, v)
        _sh.rmtree = real_rmtree; pq.write_table = real_pq_write; summ.save_stats = real_save_stats
        os.remove, os.unlink, os.rmdir = real_remove, real_unlink, real_rmdir
        del cont.open; Path.mkdir = real_mkdir

def lean_save_trace():
    """Run the real `DataContainer.save` once over an existing directory and once into a fresh one, with every file-system step recorded
    (no interruption), and render the two step sequences as Lean data for `LK/Proofs/SaveTraceC15.lean`."""
    _imports()
    WORK.mkdir(exist_ok=True, parents=True)
    old = make_ds(1, extra_class=True); new = make_ds(2, extra_class=False)
    def fname(n):
        if n == "schema.json": return "FName.schema"
        if n == "summary.md": return "FName.summary"
        if n.endswith(".parquet"): return f'FName.table "{n[:-8]}"'
        raise ValueError(f"unexpected file {n} in a dataset directory")
    def content(n): return "Content.schema newDs" if n == "schema.json" else ("Content.summary" if n == "summary.md" else "Content.table 2")
    def render(tr):
        out = []
        for st in tr:
            if st[0] == "rm": out.append(f"Step.rm ({fname(st[1])})")
            elif st[0] in ("rmdir", "mkdir"): out.append("Step." + st[0])
            else: out.append(f"Step.write ({fname(st[1])}) ({content(st[1])})")
        return "[" + ",\n   ".join(out) + "]"
    tmp = tempfile.mkdtemp(prefix="c15tr_", dir=WORK)
    try:
        p1 = Path(tmp) / "ds"; old.save(p1); names = sorted(os.listdir(p1)); t1 = []
        if run_save_with_crash(new, p1, 10**9, False, names, trace=t1) != "completed": raise RuntimeError("traced save did not complete")
        p2 = Path(tmp) / "fresh"; t2 = []
        if run_save_with_crash(new, p2, 10**9, False, [], trace=t2) != "completed": raise RuntimeError("traced save did not complete")
    finally:
        shutil.rmtree(tmp, ignore_errors=True)
    q = lambda xs: "[" + ", ".join(f'"{x}"' for x in xs) + "]"
    return ("import LK.Model.Persist\n/-! GENERATED on every run of `./check C15` (harness/lkv/props/c15.py `lean_save_trace`): the file-system steps the real\n"
            "`DataContainer.save` performed — over a directory holding another dataset, and into a fresh directory — recorded at the\n"
            "file-system primitives (remove / rmdir / mkdir / every file opened for writing); do not edit. -/\nnamespace LK.Gen.SaveTraceC15\nopen LK.Persist\n\n"
            f"def oldDs : DSd := {{ tag := 1, tables := {q(table_names(old))} }}\ndef newDs : DSd := {{ tag := 2, tables := {q(table_names(new))} }}\n"
            f"def delOrder : List FName := [{', '.join(fname(n) for n in names)}]\n\n"
            f"def observedOverExisting : List Step :=\n  {render(t1)}\n\ndef observedFresh : List Step :=\n  {render(t2)}\n\nend LK.Gen.SaveTraceC15\n")

def load_verdict(path, fp_old, fp_new):
    try:
        ds = Dataset.load(path)
        fp = fingerprint(ds)
    except Exception:
        return "fail"
    return "new" if fp == fp_new else ("old" if fp == fp_old else "mix")

def canon(il):
    d = {"ids": [x.item() if hasattr(x, "item") else x for x in il.ids()], "ordered": bool(il.ordered)}
    for f in sorted(il._fields if hasattr(il, "_fields") else []):
        v = il.field(f)
        d[f] = None if v is None else [None if (isinstance(x, (float, np.floating)) and math.isnan(x)) else (x.item() if hasattr(x, "item") else x) for x in v]
    return d


from ..core import OUT
WORK = OUT / ".work"

def gen(rng: random.Random, tier: str):
    n = {"quick": 60, "thorough": 12000}[tier]
    # every crash point of a save over a fresh and over an existing directory, complete and torn writes
    for fresh in (True, False):
        for trial in range(1 if fresh else {"quick": 2, "thorough": 12}[tier]):
            total = 5 if fresh else 12
            for k in range(total + 1):
                for torn in (False, True):
                    yield {"kind": "crash", "fresh": fresh, "k": k, "torn": torn, "order_seed": rng.randrange(10**6), "old_tag": 1, "new_tag": 2 + trial}
    for _ in range(n):
        L = rng.randint(0, 5)
        yield {"kind": "itemlist", "len": L, "str_ids": rng.random() < 0.3,
               "fields": rng.choice([[], ["score"], ["score", "rating"], ["rating", "cnt"], ["score", "discount", "exposure"], ["label", "item_pop"], ["dcg", "freq", "lift"], ["field_x", "e"]]),
               "ordered": rng.random() < 0.5, "seed": rng.randrange(10**6), "vocab": rng.choice(["none", "none", "known", "with-unknown"]),
               "nan_scores": rng.random() < 0.15}          # a score field that is NaN for every item (e.g. nothing could be scored)
    for _ in range(n // 2):
        yield {"kind": "collection", "n": rng.randint(0, 4), "same_fields": rng.random() < 0.6, "seed": rng.randrange(10**6), "dup_keys": rng.random() < 0.35, "batch": rng.choice([None, None, 1, 2, 3])}
    for _ in range(max(4, n // 10)):
        yield {"kind": "dataset", "seed": rng.randrange(10**6), "extra": rng.random() < 0.5, "how": rng.choice(["native", "pickle"])}
    # generated datasets (identifiers registered out of order, integer or string, every attribute layout) and models trained on them
    for j in range(max(6, n // 10)):
        yield {"kind": "dataset2", "seed": rng.randrange(10**6), "str_ids": rng.random() < 0.35, "how": ["native", "pickle"][j % 2], "sorted_ids": rng.random() < 0.2, "ts": "ns" if j % 4 in (0, 3) else "int"}
    scorers = ["pop", "pop-rank", "bias", "iknn", "uknn", "als", "ials", "funksvd", "pipeline"]
    for j in range(max(len(scorers), n // 10)):
        yield {"kind": "model", "scorer": scorers[j % len(scorers)], "seed": rng.randrange(10**6), "str_ids": rng.random() < 0.3, "sorted_ids": rng.random() < 0.2}

def _mk_il(rnd, L, str_ids, fields, ordered, vocab="none", nan_scores=False):
    ids = rnd.sample(range(100, 130), L)
    kw = {}
    for extra in fields:
        if extra not in ("score", "rating", "cnt"): kw[extra] = np.array([rnd.randint(0, 9) / 2 for _ in range(L)])
    if vocab != "none":
        from lenskit.data import Vocabulary
        conv = (lambda x: f"i{x}") if str_ids else (lambda x: x)
        universe = [conv(x) for x in range(100, 130)]
        if vocab == "with-unknown" and L: universe = [u for u in universe if u != conv(ids[0])]      # the first item is not in the vocabulary
        kw["vocabulary"] = Vocabulary(universe)
    if "score" in fields: kw["scores"] = np.array([math.nan if nan_scores else rnd.choice([1.5, -2.0, math.nan, 0.0]) for _ in range(L)], dtype="f4")
    if "rating" in fields: kw["rating"] = np.array([float(rnd.randint(1, 5)) for _ in range(L)])
    if "cnt" in fields: kw["cnt"] = np.array([rnd.randint(0, 9) for _ in range(L)], dtype="i4")
    if str_ids: return ItemList(item_ids=np.array([f"i{x}" for x in ids], dtype=object) if L else np.array([], dtype=object), ordered=ordered, **kw)
    return ItemList(item_ids=np.array(ids, dtype="i8"), ordered=ordered, **kw)

def _same(a, b):
    b = dict(b); b.pop("rank", None); b["ordered"] = a["ordered"]      # arrow / frame forms carry a rank column instead of the flag
    return a == b

def run(case: dict, lean: Lean) -> Outcome:
    _imports()
    WORK.mkdir(exist_ok=True, parents=True)
    kind = case["kind"]; failed = []; key = None; corr = True; classes = [kind]
    if kind == "crash":
        old = make_ds(case["old_tag"], extra_class=True); new = make_ds(case["new_tag"], extra_class=False)
        fp_old, fp_new = fingerprint(old), fingerprint(new)
        tmp = tempfile.mkdtemp(prefix="c15_", dir=WORK)
        try:
            path = Path(tmp) / "ds"
            if not case["fresh"]: old.save(path)
            names = [] if case["fresh"] else sorted(os.listdir(path))
            del_order = names[:]; random.Random(case["order_seed"]).shuffle(del_order)
            status = run_save_with_crash(new, path, case["k"], case["torn"], del_order)
            real = load_verdict(path, fp_old, fp_new)
        finally:
            shutil.rmtree(tmp, ignore_errors=True)
        model = lean.call("c15.crash", {"old": table_names(old), "new": table_names(new), "delOrder": del_order, "k": case["k"], "torn": case["torn"], "fresh": case["fresh"]})
        corr = real == model["verdict"]
        # steps 0..k-1 completed; the first len(del_order) steps remove one entry each. `summary.md` is not read by `load`,
        # so "nothing removed yet" means: no file the dataset is loaded from has been removed
        removed_something = (not case["fresh"]) and any(n != "summary.md" for n in del_order[: case["k"]])
        if real == "mix": failed.append("interrupted save loads as a mixture of the two datasets")
        if real == "old" and removed_something: failed.append("loads as the old dataset although part of it had been removed")
        if status == "completed" and real != "new": failed.append("completed save does not load as the saved dataset")
        classes += ["fresh" if case["fresh"] else "over existing", "torn write" if case["torn"] else "clean cut", "verdict:" + real]
        return Outcome(corr, not failed, tuple(classes), {"impl": real, "model": model, "failed": failed, "delete_order": del_order}, None)
    rnd = random.Random(case["seed"])
    if kind == "itemlist":
        il = _mk_il(rnd, case["len"], case["str_ids"], case["fields"], case["ordered"], case.get("vocab", "none"), case.get("nan_scores", False)); c = canon(il)
        if case.get("vocab", "none") != "none": classes.append("vocabulary-backed list" + (" with an unknown identifier" if case["vocab"] == "with-unknown" and case["len"] else ""))
        if any(f not in ("score", "rating", "cnt") for f in case["fields"]): classes.append("custom field names")
        fresh = lambda: _mk_il(random.Random(case["seed"]), case["len"], case["str_ids"], case["fields"], case["ordered"], case.get("vocab", "none"), case.get("nan_scores", False))
        for how, f in (("arrow", lambda: ItemList.from_arrow(fresh().to_arrow())), ("frame", lambda: ItemList.from_df(fresh().to_df())), ("pickle", lambda: pickle.loads(pickle.dumps(fresh()))),
                       ("pickle after use", lambda: pickle.loads(pickle.dumps(il)))):
            try:
                o = canon(f())
                if not (o == c if how.startswith("pickle") else _same(c, o)): failed.append(f"{how}: {c} -> {o}")
            except Exception as e:
                failed.append(f"{how}: {type(e).__name__}: {str(e)[:60]}")
        # the pickled state itself, against the model of __getstate__ (identifiers / numbers resolved through the vocabulary)
        try:
            toi = (lambda x: int(str(x)[1:])) if case["str_ids"] else int
            f0 = fresh(); voc = None if f0._vocab is None else [toi(x) for x in f0._vocab.ids()]
            init = {"len": len(f0), "ids": [toi(x) for x in f0.ids()], "nums": None, "vocab": voc, "ordered": bool(f0.ordered),
                    "fields": [{"name": n_, "vals": []} for n_ in f0._fields]}
            try:
                st = f0.__getstate__()
                real_st = {"ordered": bool(st["ordered"]), "len": int(st["len"]), "ids": None if st.get("ids") is None else [toi(x) for x in st["ids"]],
                           "numbers": None if st.get("numbers") is None else [int(x) for x in st["numbers"]], "fields": [k_[6:] for k_ in st if k_.startswith("field_")]}
            except Exception as e: real_st = {"err": {"KeyError": "key", "RuntimeError": "runtime", "IndexError": "index"}.get(type(e).__name__, type(e).__name__)}
            m_as = lean.call("c15.getstate", {"variant": "asIs", "init": init}); m_rep = lean.call("c15.getstate", {"variant": "repaired", "init": init})
            if real_st not in (m_as, m_rep): corr = False; failed.append(f"pickled state {real_st} differs from the model's {m_rep}")
            elif real_st != m_rep: failed.append(f"pickled state {real_st}, specification {m_rep}")
            # the Arrow round trip against its model (which, like the code, has no columns for an empty list)
            init2 = dict(init, fields=[{"name": n_, "vals": [0] * len(f0)} for n_ in f0._fields])
            m_rt = lean.call("c15.arrow_rt", {"init": init2})
            try:
                o = ItemList.from_arrow(fresh().to_arrow())
                real_rt = {"len": len(o), "ordered": bool(o.ordered), "ids": [toi(x) for x in o.ids()], "fields": list(o._fields)}
            except TypeError: real_rt = {"err": "type"}
            except Exception as e: real_rt = {"err": type(e).__name__}
            if real_rt != m_rt: corr = False; failed.append(f"Arrow round trip gives {real_rt}, its model {m_rt}")
        except Exception as e:
            failed.append(f"state comparison raised {type(e).__name__}")
        if case["len"] == 0: classes.append("empty list")
        if case["str_ids"]: classes.append("string ids")
        if failed and case["len"] == 0 and all(f.startswith(("arrow: TypeError", "frame:")) for f in failed): key = "empty ItemList does not survive the Arrow / frame round trip"
        elif failed and case.get("vocab") == "with-unknown" and all(f.startswith(("pickle: KeyError", "pickle after use: KeyError", "frame: KeyError")) for f in failed): key = "pickling / framing an item list whose vocabulary does not know one of its identifiers raises KeyError"
    elif kind == "collection":
        fsets = [["score"], ["score", "rating"], ["rating", "cnt"], []]
        f0 = rnd.choice(fsets); ilc = ItemListCollection.empty(UserIDKey)
        ckeys = rnd.sample(range(1, 50), case["n"])
        if case.get("dup_keys") and ckeys:          # a collection may hold several lists under one key; each is saved and loaded as its own list
            ckeys.insert(rnd.randint(1, len(ckeys)), ckeys[0]); classes.append("duplicate keys")
        for k in ckeys:
            fl = f0 if case["same_fields"] else rnd.choice(fsets)
            ilc.add(_mk_il(rnd, rnd.randint(0, 4), False, fl, rnd.random() < 0.7), user_id=k)
        want = [(tuple(k), canon(v)) for k, v in ilc.items()]
        tmp = tempfile.mkdtemp(prefix="c15_", dir=WORK)
        try:
            p = Path(tmp) / "x.parquet"; ilc.save_parquet(p, **({"batch_size": case["batch"]} if case.get("batch") else {})); got = [(tuple(k), canon(v)) for k, v in ItemListCollection.load_parquet(p).items()]
            if len(got) != len(want): failed.append(f"{len(want)} lists -> {len(got)}")
            for (k1, a), (k2, b) in zip(want, got):
                if k1 != k2 or not _same(a, b) or a["ordered"] != b["ordered"]: failed.append(f"{k1}: {a} -> {k2}: {b}")
        except Exception as e:
            failed.append(f"parquet: {type(e).__name__}: {str(e)[:70]}")
        finally:
            shutil.rmtree(tmp, ignore_errors=True)
        lens = [len(v) for _, v in ilc.items()]
        mixed = len({tuple(sorted(k for k in c if k not in ("ids", "ordered"))) for _, c in want}) > 1
        if case["n"] == 0: classes.append("empty collection")
        if case.get("batch") and case["batch"] < len(lens): classes.append("written in several record batches")
        if 0 in lens: classes.append("contains empty list")
        if mixed: classes.append("lists with differing fields")
        if failed and all(("'ordered': False" in f.split(" -> ")[0] and "'ordered': True" in f.split(" -> ")[-1]
                           and f.split(" -> ")[0].replace("'ordered': False", "'ordered': True").split(": ", 1)[1] == f.split(" -> ")[-1].split(": ", 1)[1]) for f in failed if " -> " in f) \
                and all(" -> " in f for f in failed) and not any("'ids': []" in f for f in failed):
            key = "an unordered list stored next to ordered lists reloads as ordered"
        # what remains unrepaired concerns empty collections and empty lists only; a failure on a non-empty list is a new violation
        only_empty = all(f.startswith("parquet:") or f.split(": {'ids': []")[0] != f for f in failed)
        if key is None and failed and (case["n"] == 0 or 0 in lens) and only_empty: key = "ItemListCollection.save_parquet: empty collection / empty lists"
    elif kind == "dataset2":
        ds = gen_ds(rnd, case["str_ids"], case["sorted_ids"], ts=case.get("ts", "int")); ob = observe(ds)
        if case.get("ts", "int") != "int": classes.append("nanosecond date-times")
        ids = [str(x) for x in ds.items.ids()] + [str(x) for x in ds.users.ids()]
        classes.append("generated dataset:" + case["how"])
        if not case["sorted_ids"]: classes.append("identifiers registered out of order")
        if case["str_ids"]: classes.append("string identifiers")
        tmp = tempfile.mkdtemp(prefix="c15_", dir=WORK)
        try:
            if case["how"] == "native": ds.save(Path(tmp) / "d"); o = Dataset.load(Path(tmp) / "d")
            else: o = pickle.loads(pickle.dumps(ds))
            ob2 = observe(o)
            if ob2 != ob:
                a, b_ = json.loads(ob), json.loads(ob2)
                failed.append(f"dataset differs after {case['how']} round trip in " + ", ".join(k for k in a if a[k] != b_.get(k)))
            if observe(ds) != ob: failed.append("storing the dataset changed it")
        except Exception as e:
            failed.append(f"{case['how']}: {type(e).__name__}: {str(e)[:70]}")
        finally:
            shutil.rmtree(tmp, ignore_errors=True)
    elif kind == "model":
        from lenskit.basic import PopScorer, BiasScorer
        from lenskit.knn import ItemKNNScorer, UserKNNScorer
        from lenskit.als import BiasedMFScorer, ImplicitMFScorer
        from lenskit.funksvd import FunkSVDScorer
        from lenskit.pipeline import topn_pipeline
        from lenskit.training import TrainingOptions
        from lenskit.data import RecQuery
        ds = gen_ds(rnd, case["str_ids"], case["sorted_ids"], attrs=False)
        classes.append("model:" + case["scorer"])
        if not case["sorted_ids"]: classes.append("identifiers registered out of order")
        if case["str_ids"]: classes.append("string identifiers")
        mk = {"pop": lambda: PopScorer(), "pop-rank": lambda: PopScorer(score="rank"), "bias": lambda: BiasScorer(damping=2), "iknn": lambda: ItemKNNScorer(max_nbrs=4, min_nbrs=1, min_sim=-1.0 if False else 1e-6),
              "uknn": lambda: UserKNNScorer(max_nbrs=4, min_nbrs=1), "als": lambda: BiasedMFScorer(embedding_size=3, epochs=2), "ials": lambda: ImplicitMFScorer(embedding_size=3, epochs=2),
              "funksvd": lambda: FunkSVDScorer(features=2, epochs=2), "pipeline": lambda: BiasScorer(damping=1)}[case["scorer"]]
        if True:
            cand = ItemList(item_ids=list(ds.items.ids()))
            def scores_of(model):
                out = {}
                for u in ds.users.ids():
                    q = RecQuery(user_id=u, user_items=ds.user_row(u))
                    r = model.run("recommender", query=q, n=3) if case["scorer"] == "pipeline" else model(cand) if case["scorer"].startswith("pop") else model(q, cand)
                    out[str(u)] = [(str(i), None if sc is None or math.isnan(sc) else float(sc)) for i, sc in zip(r.ids(), r.scores())]
                return out
            if case["scorer"] == "pipeline": model = topn_pipeline(mk(), n=3); model.train(ds, TrainingOptions(rng=case["seed"]))
            else: model = mk(); model.train(ds, TrainingOptions(rng=case["seed"]))
            before = scores_of(model)          # (a failure up to here is the harness's own, not a finding)
        try:
            m2 = pickle.loads(pickle.dumps(model)); after = scores_of(m2)
            if after != before:
                bad = [u for u in before if before[u] != after.get(u)]
                failed.append(f"reloaded {case['scorer']} gives different scores for users {bad[:3]}: {before[bad[0]][:3]} -> {after[bad[0]][:3]}")
            if scores_of(model) != before: failed.append("pickling the model changed it")
        except Exception as e:
            failed.append(f"model {case['scorer']}: {type(e).__name__}: {str(e)[:90]}")
    else:
        ds = make_ds(case["seed"] % 1000, extra_class=case["extra"]); fp = fingerprint(ds)
        tmp = tempfile.mkdtemp(prefix="c15_", dir=WORK)
        try:
            if case["how"] == "native": ds.save(Path(tmp) / "d"); o = Dataset.load(Path(tmp) / "d")
            else: o = pickle.loads(pickle.dumps(ds))
            if fingerprint(o) != fp: failed.append(f"dataset differs after {case['how']} round trip")
            if [int(x) for x in o.users.ids()] != [int(x) for x in ds.users.ids()]: failed.append("user numbering changed")
        except Exception as e:
            failed.append(f"{case['how']}: {type(e).__name__}: {str(e)[:70]}")
        finally:
            shutil.rmtree(tmp, ignore_errors=True)
        classes.append("dataset:" + case["how"])
    return Outcome(corr, not failed, tuple(classes), {"failed": failed[:6]}, key)

SPEC = CheckSpec(
    pid="C15",
    theorems=[f"LK.Persist.C15_Persist_{n}" for n in ["removal_phase_safe", "onlyFrom_load", "save_crash_safe", "save_fresh_crash_safe"]],
    correspondence_ops=["c15.crash", "c15.getstate", "c15.arrow_rt"],
    nontrivial_rule="distinct cases reaching ≥1 of: crash over fresh / existing directory × torn / clean × each load verdict; item lists (empty, string ids), collections (empty, with empty lists, differing fields), datasets (native, pickle; generated with out-of-order / string identifiers and every attribute layout), pickled models of nine scorer kinds",
    budgets={"quick": 60, "thorough": 12000}, gen=gen, run=run, shrink=None)
