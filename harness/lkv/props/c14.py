"""C14 — built pipelines and datasets never change, whatever is done with builders / clones derived from them."""
from __future__ import annotations
import json, random
import numpy as np
from ..core import CheckSpec, Outcome, Lean

PIPE_OPS = ["modify", "connect", "replace", "add", "alias", "clear", "build", "clone", "train_clone", "run"]
DATA_OPS = ["builder_from", "add_entities", "add_interactions", "add_attr", "add_class", "filter", "build", "reuse_builder", "split"]

def gen(rng: random.Random, tier: str):
    n = {"quick": 60, "thorough": 2500}[tier]
    for k in range(n):
        world = "pipeline" if k % 2 == 0 else "dataset"
        ops = [rng.choice(PIPE_OPS if world == "pipeline" else DATA_OPS) for _ in range(rng.randint(2, 8))]
        ops[0] = "modify" if world == "pipeline" else "builder_from"
        yield {"world": world, "ops": ops, "seed": rng.randrange(10**6), "scorer": rng.choice(["bias", "pop", "iknn"]), "predicts": rng.random() < 0.4}

def _reach(obj, seen, depth=0):
    import pyarrow as pa, pandas as pd
    from pydantic import BaseModel
    from lenskit.data import Vocabulary
    from lenskit.pipeline.nodes import Node
    leaves = (str, bytes, int, float, bool, type(None), np.ndarray, pa.Table, pa.Array, pa.ChunkedArray, pd.Index, pd.DataFrame, Vocabulary, type, Node)
    if isinstance(obj, leaves) or depth > 12 or id(obj) in seen: return
    if isinstance(obj, (dict, list, set, BaseModel)): seen[id(obj)] = type(obj).__name__
    if isinstance(obj, dict):
        for v in obj.values(): _reach(v, seen, depth + 1)
    elif isinstance(obj, (list, set, tuple)):
        for v in obj: _reach(v, seen, depth + 1)
    elif isinstance(obj, BaseModel):
        for f in obj.__class__.model_fields: _reach(getattr(obj, f), seen, depth + 1)
    elif hasattr(obj, "__dict__") and not callable(obj) and type(obj).__module__.startswith("lenskit") and not hasattr(obj, "train") and not hasattr(obj, "__call__"):
        for v in vars(obj).values(): _reach(v, seen, depth + 1)

def shared_containers(a, b):
    ra, rb = {}, {}; _reach(a, ra); _reach(b, rb)
    return sorted(t for i, t in ra.items() if i in rb and "Troolean" not in t and t not in ("AttrLayout",))

def _pipe_fp(p, ds):
    from lenskit.data import ItemList
    out = p.run("recommender", query=int(ds.users.ids()[0]), n=3)
    return json.dumps({"cfg": p.config.model_dump(mode="json"), "hash": p.config_hash, "name": p.name,
                       "edges": {n.name: {k: v.name for k, v in p.node_input_connections(n).items()} for n in p.nodes()},
                       "run": [int(i) for i in out.ids()]}, sort_keys=True, default=str)

def _ds_fp(d):
    ents = {c: [str(x) for x in d.entities(c).ids()] for c in d.schema.entities}
    attrs = {c: {a: d.entities(c).attribute(a).arrow().to_pylist() for a in d.schema.entities[c].attributes} for c in d.schema.entities}
    tbl = d.interactions().pandas(ids=True) if d.schema.relationships else None
    return json.dumps({"schema": d.schema.model_dump(mode="json"), "entities": ents, "attrs": attrs,
                       "rows": None if tbl is None else sorted(map(tuple, tbl.astype(str).values.tolist()))}, sort_keys=True, default=str)

def _dataset(rnd, base=0):
    import pandas as pd
    from lenskit.data import from_interactions_df
    rows = [[100 + u, 1000 + i, float(rnd.randint(1, 5)), rnd.randint(0, 100)] for u in range(5) for i in range(6) if rnd.random() < 0.6]
    return from_interactions_df(pd.DataFrame(rows, columns=["user_id", "item_id", "rating", "timestamp"]))

def run(case: dict, lean: Lean) -> Outcome:
    import pandas as pd
    from lenskit.data import DatasetBuilder, ItemList
    from lenskit.pipeline import topn_pipeline
    from lenskit.basic import BiasScorer, PopScorer
    from lenskit.knn import ItemKNNScorer
    from lenskit.splitting import crossfold_users, SampleN
    rnd = random.Random(case["seed"]); failed = []; classes = {case["world"]}; keys = set()
    ds = _dataset(rnd)
    def check(objs, when):
        for name, (o, fp0, fpf) in list(objs.items()):
            try: now = fpf(o)
            except Exception as e: now = "observation raised " + type(e).__name__      # e.g. a rewired pipeline that now needs another input
            if now != fp0:
                objs[name] = (o, now, fpf)          # report each change once, against the operation that caused it
                failed.append(f"{name} changed after {when}")
                keys.add("pipeline rewired through a builder obtained with modify()" if (name.startswith("pipe") and when in ("connect", "clear")) else
                         ("dataset schema changed through a DatasetBuilder created from it" if name.startswith("data") and when in ("add_class", "add_attr", "add_entities", "add_interactions", "filter", "reuse_builder") else "?" + name + when))
    if case["world"] == "pipeline":
        mk = {"bias": lambda: BiasScorer(damping=3), "pop": lambda: PopScorer(), "iknn": lambda: ItemKNNScorer(max_nbrs=3)}[case["scorer"]]
        p0 = topn_pipeline(mk(), n=4, predicts_ratings=case["predicts"] and case["scorer"] != "pop", name="orig"); p0.train(ds)
        fpf = lambda p: _pipe_fp(p, ds)
        built = {"pipe0": (p0, fpf(p0), fpf)}; builders = []; cur = p0
        for op in case["ops"]:
            classes.add("op:" + op)
            try:
                if op == "modify":
                    b = cur.modify(); builders.append(b)
                    sh = shared_containers(cur.config, vars(b))
                    if sh: failed.append(f"pipeline and its modify() builder share mutable {sorted(set(sh))}"); keys.add("pipeline rewired through a builder obtained with modify()")
                elif not builders: continue
                elif op == "connect": b = builders[-1]; b.connect("scorer", items=b.node("items"))
                elif op == "replace": builders[-1].replace_component("scorer", BiasScorer(damping=rnd.randint(0, 9)))
                elif op == "add": builders[-1].add_component(f"extra{len(built)}{rnd.randint(0, 999)}", PopScorer())
                elif op == "alias": builders[-1].alias(f"al{rnd.randint(0, 999)}", "scorer")
                elif op == "clear": builders[-1].clear_inputs("ranker"); builders[-1].connect("ranker", items=builders[-1].node("scorer"), n=builders[-1].node("n"))
                elif op == "build":
                    pn = builders[-1].build(); pn.train(ds); built[f"pipe{len(built)}"] = (pn, fpf(pn), fpf); cur = pn
                elif op == "clone": c = cur.clone(); c.train(ds)
                elif op == "train_clone": c = cur.clone(); c.train(_dataset(rnd))
                elif op == "run":
                    il = ItemList(item_ids=list(ds.items.ids()), tagf=np.arange(len(ds.items)))
                    before = (il.ids().tolist(), il.field("tagf").tolist(), None if il.scores() is None else il.scores().tolist())
                    cur.run("recommender", query=int(ds.users.ids()[1]), items=il, n=2)
                    if (il.ids().tolist(), il.field("tagf").tolist(), None if il.scores() is None else il.scores().tolist()) != before: failed.append("a component changed the item list it was given"); keys.add("?itemlist")
            except Exception as e:
                classes.add("op raised"); continue
            check(built, op)
    else:
        fpf = _ds_fp
        built = {"data0": (ds, fpf(ds), fpf)}; builders = []; cur = ds
        for op in case["ops"]:
            classes.add("op:" + op)
            try:
                if op == "builder_from":
                    b = DatasetBuilder(cur); builders.append(b)
                    sh = shared_containers(cur._data.schema, b.schema)
                    if sh: failed.append(f"dataset and the builder created from it share mutable {sorted(set(sh))}"); keys.add("dataset schema changed through a DatasetBuilder created from it")
                elif not builders: continue
                elif op == "add_entities": builders[-1].add_entities("item", [5000 + rnd.randint(0, 99)], duplicates="update")
                elif op == "add_interactions":
                    builders[-1].add_interactions("rating", pd.DataFrame({"user_id": [900 + rnd.randint(0, 9)], "item_id": [7000 + rnd.randint(0, 9)], "rating": [3.0], "timestamp": [5]}), missing="insert")
                elif op == "add_attr":
                    ids = [int(x) for x in builders[-1].build().items.ids()][:2]
                    builders[-1].add_scalar_attribute("item", f"t{rnd.randint(0, 9999)}", ids, [f"v{i}" for i in ids])
                elif op == "add_class": builders[-1].add_entity_class(f"cls{rnd.randint(0, 9999)}")
                elif op == "filter": builders[-1].filter_interactions("rating", max_time=rnd.randint(0, 100))
                elif op == "build": dn = builders[-1].build(); built[f"data{len(built)}"] = (dn, fpf(dn), fpf); cur = dn
                elif op == "reuse_builder":
                    dn = builders[-1].build(); built[f"data{len(built)}"] = (dn, fpf(dn), fpf)
                    sh = shared_containers(dn._data.schema, builders[-1].schema)
                    if sh: failed.append(f"built dataset and its producing builder share mutable {sorted(set(sh))}"); keys.add("dataset schema changed through a DatasetBuilder created from it")
                    builders[-1].add_entity_class(f"late{rnd.randint(0, 9999)}")
                elif op == "split": list(crossfold_users(cur, 2, SampleN(1), rng=rnd.randint(0, 999)))
            except Exception as e:
                classes.add("op raised"); continue
            check(built, op)
    return Outcome(not failed, not failed, tuple(sorted(classes)), {"failed": failed[:8]}, tuple(sorted(keys)) if keys else None)

def shrink(case: dict):
    for i in range(1, len(case["ops"])):
        c = dict(case); c["ops"] = case["ops"][:i] + case["ops"][i + 1:]; yield c

SPEC = CheckSpec(
    pid="C14", theorems=["LK.Heap.C14_Heap_step_deep", "LK.Heap.C14_Heap_immutable"], correspondence_ops=[],
    nontrivial_rule="distinct operation histories reaching ≥1 of: each derive / modify / build / clone / split / train / run operation on pipelines and datasets",
    budgets={"quick": 60, "thorough": 2500}, gen=gen, run=run, shrink=shrink)
