"""C14 — built pipelines and datasets never change, whatever is done with builders / clones derived from them."""
from __future__ import annotations
import json, random
import numpy as np
from ..core import CheckSpec, Outcome, Lean

PIPE_OPS = ["modify", "connect", "replace", "add", "alias", "clear", "build", "clone", "train_clone", "run", "rebuild_train"]
DATA_OPS = ["builder_from", "add_entities", "add_interactions", "add_attr", "add_class", "filter", "build", "reuse_builder", "split", "read"]

def gen(rng: random.Random, tier: str):
    n = {"quick": 60, "thorough": 2500}[tier]
    for k in range(n):
        world = "pipeline" if k % 2 == 0 else "dataset"
        ops = [rng.choice(PIPE_OPS if world == "pipeline" else DATA_OPS) for _ in range(rng.randint(2, 8))]
        ops[0] = "modify" if world == "pipeline" else "builder_from"
        if world == "pipeline" and k % 8 == 4: ops = ["modify", rng.choice(["connect", "clear"]), "build", "run"] + ops[1:3]          # directed: rewire a kept component, then build from that builder
        if world == "pipeline" and k % 8 == 2 and "rebuild_train" not in ops: ops.insert(rng.randint(1, len(ops)), "rebuild_train")          # directed: one builder, two builds
        if world == "pipeline" and "run" not in ops: ops.insert(rng.randint(1, len(ops)), "run")          # every pipeline history hands a candidate list to the components
        if world == "dataset" and "read" not in ops and rng.random() < 0.5: ops.insert(rng.randint(1, len(ops)), "read")
        yield {"world": world, "ops": ops, "seed": rng.randrange(10**6), "scorer": rng.choice(["bias", "pop", "iknn"]), "predicts": rng.random() < 0.4,
               "plain_builder": rng.random() < 0.4, "cand": ["vocab", "ids", "ids+unknown", "numbers"][(k // 2) % 4]}

def _reach(obj, seen, depth=0):
    import pyarrow as pa, pandas as pd
    from pydantic import BaseModel
    from lenskit.data import Vocabulary
    from lenskit.pipeline.nodes import Node
    leaves = (str, bytes, int, float, bool, type(None), np.ndarray, pa.Table, pa.Array, pa.ChunkedArray, pd.Index, pd.DataFrame, Vocabulary, type, Node)
    if isinstance(obj, leaves) or depth > 12 or id(obj) in seen: return
    if isinstance(obj, (dict, list, set, BaseModel)): seen[id(obj)] = type(obj).__name__
    if isinstance(obj, dict):
        for v in obj.values(): _reach(v, seen, depth + 1)
    elif isinstance(obj, (list, set, tuple)):
        for v in obj: _reach(v, seen, depth + 1)
    elif isinstance(obj, BaseModel):
        for f in obj.__class__.model_fields: _reach(getattr(obj, f), seen, depth + 1)
    elif hasattr(obj, "__dict__") and not callable(obj) and type(obj).__module__.startswith("lenskit") and not hasattr(obj, "train") and not hasattr(obj, "__call__"):
        for v in vars(obj).values(): _reach(v, seen, depth + 1)

def shared_containers(a, b):
    ra, rb = {}, {}; _reach(a, ra); _reach(b, rb)
    return sorted(t for i, t in ra.items() if i in rb and "Troolean" not in t and t not in ("AttrLayout",))

def _wiring_of(o, keep_empty=False):
    from lenskit.pipeline import Pipeline
    d = {n: dict(c.inputs) for n, c in o.config.components.items()} if isinstance(o, Pipeline) else {n: dict(e) for n, e in o._edges.items()}
    return d if keep_empty else {n: e for n, e in d.items() if e}

def _wiring_all(objs):
    from lenskit.pipeline import Pipeline
    return [{"kind": "pipe" if isinstance(o, Pipeline) else "builder", "wiring": _wiring_of(o)} for o in objs]

def _schema_of(o):
    from lenskit.data import Dataset
    sch = o._data.schema if isinstance(o, Dataset) else o.schema
    d = {"entities": {c: "class" for c in sch.entities}}
    for c, e in sch.entities.items(): d["attrs:" + c] = {a: (spec.layout.value if hasattr(spec.layout, "value") else str(spec.layout)) for a, spec in e.attributes.items()}
    return d

def _schema_all(objs):
    from lenskit.data import Dataset
    return [{"kind": "pipe" if isinstance(o, Dataset) else "builder", "wiring": {c: w for c, w in _schema_of(o).items() if w}} for o in objs]

def _pipe_fp(p, ds):
    from lenskit.data import ItemList
    out = p.run("recommender", query=int(ds.users.ids()[0]), n=3)
    return json.dumps({"cfg": p.config.model_dump(mode="json"), "hash": p.config_hash, "name": p.name,
                       "edges": {n.name: {k: v.name for k, v in p.node_input_connections(n).items()} for n in p.nodes()},
                       "run": [int(i) for i in out.ids()]}, sort_keys=True, default=str)

def _ds_fp(d):
    schema0 = d.schema.model_dump(mode="json")          # recorded before any view is taken: reading a dataset must not write to it
    ents = {c: [str(x) for x in d.entities(c).ids()] for c in d.schema.entities}
    attrs = {c: {a: d.entities(c).attribute(a).arrow().to_pylist() for a in d.schema.entities[c].attributes} for c in d.schema.entities}
    tbl = d.interactions().pandas(ids=True) if d.schema.relationships else None
    return json.dumps({"schema": schema0, "schema_after_views": d.schema.model_dump(mode="json"), "entities": ents, "attrs": attrs,
                       "rows": None if tbl is None else sorted(map(tuple, tbl.astype(str).values.tolist()))}, sort_keys=True, default=str)

def _dataset(rnd, base=0, plain=False):
    import pandas as pd
    from lenskit.data import from_interactions_df, DatasetBuilder
    rows = [[100 + u, 1000 + i, float(rnd.randint(1, 5)), rnd.randint(0, 100)] for u in range(5) for i in range(6) if rnd.random() < 0.6]
    df = pd.DataFrame(rows, columns=["user_id", "item_id", "rating", "timestamp"])
    if not plain: return from_interactions_df(df)
    b = DatasetBuilder()          # a builder that designates no default interaction class (the single class is the inferred default)
    b.add_interactions("rating", df, entities=["user", "item"], missing="insert")
    return b.build()

def run(case: dict, lean: Lean) -> Outcome:
    import pandas as pd
    from lenskit.data import DatasetBuilder, ItemList
    from lenskit.pipeline import topn_pipeline
    from lenskit.basic import BiasScorer, PopScorer
    from lenskit.knn import ItemKNNScorer
    from lenskit.splitting import crossfold_users, SampleN
    rnd = random.Random(case["seed"]); failed = []; classes = {case["world"]}; keys = set()
    ds = _dataset(rnd, plain=bool(case.get("plain_builder")) and case["world"] == "dataset")
    if case.get("plain_builder") and case["world"] == "dataset": classes.add("no designated default interaction class")
    def check(objs, when):
        for name, (o, fp0, fpf) in list(objs.items()):
            try: now = fpf(o)
            except Exception as e: now = "observation raised " + type(e).__name__      # e.g. a rewired pipeline that now needs another input
            if now != fp0:
                objs[name] = (o, now, fpf)          # report each change once, against the operation that caused it
                failed.append(f"{name} changed after {when}")
                keys.add("pipeline rewired through a builder obtained with modify()" if (name.startswith("pipe") and when in ("connect", "clear")) else
                         ("dataset schema changed through a DatasetBuilder created from it" if name.startswith("data") and when in ("add_class", "add_attr", "add_entities", "add_interactions", "filter", "reuse_builder") else "?" + name + when))
    if case["world"] == "pipeline":
        mk = {"bias": lambda: BiasScorer(damping=3), "pop": lambda: PopScorer(), "iknn": lambda: ItemKNNScorer(max_nbrs=3)}[case["scorer"]]
        p0 = topn_pipeline(mk(), n=4, predicts_ratings=case["predicts"] and case["scorer"] != "pop", name="orig"); p0.train(ds)
        fpf = lambda p: _pipe_fp(p, ds)
        built = {"pipe0": (p0, fpf(p0), fpf)}; builders = []; cur = p0
        # the same history drives the Lean heap model: objects in creation order, wiring dictionaries as heap cells
        objs = [p0]; mops = []; snaps = [(0, _wiring_all(objs))]; bidx = []; cur_i = 0
        init = [[c, sorted([k, v] for k, v in w.items())] for c, w in _wiring_of(p0, keep_empty=True).items()]
        for op in case["ops"]:
            classes.add("op:" + op)
            try:
                if op == "modify":
                    b = cur.modify(); builders.append(b)
                    objs.append(b); bidx.append(len(objs) - 1); mops.append({"op": "modify", "p": cur_i})
                    sh = shared_containers(cur.config, vars(b))
                    if sh: failed.append(f"pipeline and its modify() builder share mutable {sorted(set(sh))}"); keys.add("pipeline rewired through a builder obtained with modify()")
                elif not builders: continue
                elif op == "connect":
                    b = builders[-1]; b.connect("scorer", items=b.node("items"))
                    mops.append({"op": "connect", "b": bidx[-1], "comp": "scorer", "k": "items", "v": "items"})
                elif op == "replace": builders[-1].replace_component("scorer", BiasScorer(damping=rnd.randint(0, 9)))
                elif op == "add":
                    nm = f"extra{len(built)}{rnd.randint(0, 999)}"; builders[-1].add_component(nm, PopScorer())
                    mops.append({"op": "clear", "b": bidx[-1], "comp": nm})
                elif op == "alias": builders[-1].alias(f"al{rnd.randint(0, 999)}", "scorer")
                elif op == "clear":
                    builders[-1].clear_inputs("ranker"); builders[-1].connect("ranker", items=builders[-1].node("scorer"), n=builders[-1].node("n"))
                    mops += [{"op": "clear", "b": bidx[-1], "comp": "ranker"}, {"op": "connect", "b": bidx[-1], "comp": "ranker", "k": "items", "v": "scorer"},
                             {"op": "connect", "b": bidx[-1], "comp": "ranker", "k": "n", "v": "n"}]
                elif op == "build":
                    pn = builders[-1].build(); pn.train(ds); built[f"pipe{len(built)}"] = (pn, fpf(pn), fpf); cur = pn
                    objs.append(pn); cur_i = len(objs) - 1; mops.append({"op": "build", "b": bidx[-1]})
                elif op == "rebuild_train":
                    # the same builder built twice with the scorer given as class + configuration: each pipeline gets its own scorer, so
                    # training the later pipeline's scorer on other data leaves the earlier pipeline's results as they were.  (Only that
                    # scorer is retrained: the other components of a modify() builder are the original pipeline's own instances, by design.)
                    from lenskit.basic.bias import BiasConfig
                    b = builders[-1]; b.replace_component("scorer", BiasScorer, BiasConfig(damping=rnd.randint(0, 9)))
                    pa_ = b.build(); pa_.train(ds); built[f"pipe{len(built)}"] = (pa_, fpf(pa_), fpf)
                    objs.append(pa_); mops.append({"op": "build", "b": bidx[-1]})
                    pb_ = b.build()
                    objs.append(pb_); mops.append({"op": "build", "b": bidx[-1]})
                    if pa_.node("scorer").component is pb_.node("scorer").component:
                        failed.append("two pipelines built from the same builder share the instance of a component given as class + configuration")
                    pb_.node("scorer").component.train(_dataset(rnd))
                elif op == "clone": c = cur.clone(); c.train(ds)
                elif op == "train_clone": c = cur.clone(); c.train(_dataset(rnd))
                elif op == "run":
                    form = case.get("cand", "vocab"); classes.add("candidates:" + form)
                    cids = [int(x) for x in ds.items.ids()] + ([424242] if form == "ids+unknown" else [])
                    il = (ItemList(item_ids=np.array(cids), vocabulary=ds.items, tagf=np.arange(len(cids))) if form == "vocab"
                          else ItemList(item_nums=np.arange(len(cids)), vocabulary=ds.items, tagf=np.arange(len(cids))) if form == "numbers"
                          else ItemList(item_ids=cids, tagf=np.arange(len(cids))))          # identifiers only: no vocabulary, no numbers
                    hist = ItemList(item_ids=cids[:2], rating=[4.0, 2.0])
                    def state(l):
                        import pickle
                        try: nums = l.numbers().tolist()
                        except Exception as e: nums = "refused: " + type(e).__name__
                        st = l.__getstate__() if hasattr(l, "__getstate__") else {}
                        return (l.ids().tolist(), [(f, np.asarray(l.field(f)).tolist()) for f in ("tagf", "rating") if l.field(f) is not None], None if l.scores() is None else l.scores().tolist(),
                                l.vocabulary is None, nums, sorted(l.to_df().columns), sorted(k for k, v in (st.items() if isinstance(st, dict) else []) if v is not None), l.ordered)
                    before = (state(il), state(hist))
                    from lenskit.data import RecQuery
                    cur.run("recommender", query=RecQuery(user_id=int(ds.users.ids()[1]), user_items=hist), items=il, n=2)
                    after = (state(il), state(hist))
                    if after != before: failed.append(f"a component changed an item list it was given: {str(before)[:160]} -> {str(after)[:160]}"); keys.add("?itemlist")
                    # a component of the caller's own that derives reduced / extended copies with the documented ItemList(source, ...) forms
                    from lkv_components import DerivingComponent
                    il2 = ItemList(il, scores=np.linspace(1.0, 2.0, len(il))); before = (state(il), state(il2))
                    DerivingComponent()(il2)
                    after = (state(il), state(il2)); classes.add("derived copies of a scored list")
                    if after != before: failed.append(f"deriving copies of an item list changed the list itself: {str(before[1])[:200]} -> {str(after[1])[:200]}"); keys.add("?itemlist-derive")
            except Exception as e:
                classes.add("op raised"); continue
            check(built, op)
            snaps.append((len(mops), _wiring_all(objs)))
        canon = lambda world: [{"kind": o["kind"], "wiring": {c: dict(map(tuple, kv)) for c, kv in o["wiring"] if kv}} for o in world]
        deep = [canon(w) for w in lean.call("c14.run", {"deep": True, "init": init, "ops": mops})]
        shallow = [canon(w) for w in lean.call("c14.run", {"deep": False, "init": init, "ops": mops})]
        real_tr = [snap for _, snap in snaps]
        if real_tr != [deep[k] for k, _ in snaps]:
            model_corr = real_tr == [shallow[k] for k, _ in snaps]       # the code before its repair aliased the wiring dictionaries
            step = next(j for j, (k, snap) in enumerate(snaps) if snap != deep[k])
            failed.append(f"wiring of the objects differs from the heap model (copying discipline) after operation {step}: {json.dumps(real_tr[step])[:300]} vs {json.dumps(deep[snaps[step][0]])[:300]}")
            if model_corr: keys.add("pipeline rewired through a builder obtained with modify()")
            else: keys.add("?wiring differs from both heap models")
    else:
        fpf = _ds_fp
        built = {"data0": (ds, fpf(ds), fpf)}; builders = []; cur = ds
        # heap model of the schema: one cell for the entity-class dictionary, one per class for its attribute dictionary
        objs = [ds]; mops = []; snaps = [(0, _schema_all(objs))]; bidx = []; cur_i = 0
        init = [[c, sorted([k, v] for k, v in w.items())] for c, w in _schema_of(ds).items()]
        for op in case["ops"]:
            classes.add("op:" + op)
            try:
                if op == "builder_from":
                    b = DatasetBuilder(cur); builders.append(b)
                    objs.append(b); bidx.append(len(objs) - 1); mops.append({"op": "modify", "p": cur_i})
                    sh = shared_containers(cur._data.schema, b.schema)
                    if sh: failed.append(f"dataset and the builder created from it share mutable {sorted(set(sh))}"); keys.add("dataset schema changed through a DatasetBuilder created from it")
                elif not builders: continue
                elif op == "add_entities": builders[-1].add_entities("item", [5000 + rnd.randint(0, 99)], duplicates="update")
                elif op == "add_interactions":
                    builders[-1].add_interactions("rating", pd.DataFrame({"user_id": [900 + rnd.randint(0, 9)], "item_id": [7000 + rnd.randint(0, 9)], "rating": [3.0], "timestamp": [5]}), missing="insert")
                elif op == "add_attr":
                    ids = [int(x) for x in builders[-1].build().items.ids()][:2]
                    an = f"t{rnd.randint(0, 9999)}"
                    builders[-1].add_scalar_attribute("item", an, ids, [f"v{i}" for i in ids])
                    mops.append({"op": "connect", "b": bidx[-1], "comp": "attrs:item", "k": an, "v": "scalar"})
                elif op == "add_class":
                    cn = f"cls{rnd.randint(0, 9999)}"; builders[-1].add_entity_class(cn)
                    mops += [{"op": "connect", "b": bidx[-1], "comp": "entities", "k": cn, "v": "class"}, {"op": "clear", "b": bidx[-1], "comp": "attrs:" + cn}]
                elif op == "filter": builders[-1].filter_interactions("rating", max_time=rnd.randint(0, 100))
                elif op == "build":
                    dn = builders[-1].build(); built[f"data{len(built)}"] = (dn, fpf(dn), fpf); cur = dn
                    objs.append(dn); cur_i = len(objs) - 1; mops.append({"op": "build", "b": bidx[-1]})
                elif op == "reuse_builder":
                    dn = builders[-1].build(); built[f"data{len(built)}"] = (dn, fpf(dn), fpf)
                    objs.append(dn); mops.append({"op": "build", "b": bidx[-1]})
                    sh = shared_containers(dn._data.schema, builders[-1].schema)
                    if sh: failed.append(f"built dataset and its producing builder share mutable {sorted(set(sh))}"); keys.add("dataset schema changed through a DatasetBuilder created from it")
                    cn = f"late{rnd.randint(0, 9999)}"; builders[-1].add_entity_class(cn)
                    mops += [{"op": "connect", "b": bidx[-1], "comp": "entities", "k": cn, "v": "class"}, {"op": "clear", "b": bidx[-1], "comp": "attrs:" + cn}]
                elif op == "split": list(crossfold_users(cur, 2, SampleN(1), rng=rnd.randint(0, 999)))
                elif op == "read":          # plain reads of a built dataset
                    cur.interaction_count; cur.user_row(user_num=0); cur.item_stats(); cur.interactions().matrix().scipy()
            except Exception as e:
                classes.add("op raised"); continue
            check(built, op)
            snaps.append((len(mops), _schema_all(objs)))
        canon = lambda world: [{"kind": o["kind"], "wiring": {c: dict(map(tuple, kv)) for c, kv in o["wiring"] if kv}} for o in world]
        deep = [canon(w) for w in lean.call("c14.run", {"deep": True, "init": init, "ops": mops})]
        shallow = [canon(w) for w in lean.call("c14.run", {"deep": False, "init": init, "ops": mops})]
        real_tr = [snap for _, snap in snaps]
        if real_tr != [deep[k] for k, _ in snaps]:
            step = next(j for j, (k, snap) in enumerate(snaps) if snap != deep[k])
            failed.append(f"schemas of the objects differ from the heap model (copying discipline) after operation {step}: {json.dumps(real_tr[step])[:300]} vs {json.dumps(deep[snaps[step][0]])[:300]}")
            keys.add("dataset schema changed through a DatasetBuilder created from it" if real_tr == [shallow[k] for k, _ in snaps] else "?schema differs from both heap models")
    return Outcome(not failed, not failed, tuple(sorted(classes)), {"failed": failed[:8]}, tuple(sorted(keys)) if keys else None)

def shrink(case: dict):
    for i in range(1, len(case["ops"])):
        c = dict(case); c["ops"] = case["ops"][:i] + case["ops"][i + 1:]; yield c

SPEC = CheckSpec(
    pid="C14", theorems=["LK.Heap.C14_Heap_step_deep", "LK.Heap.C14_Heap_immutable"], correspondence_ops=["c14.run"],
    nontrivial_rule="distinct operation histories reaching ≥1 of: each derive / modify / build / clone / split / read / train / run operation on pipelines and datasets, candidate lists with a vocabulary / numbers only / identifiers only (with an unknown one), datasets without a designated default interaction class",
    budgets={"quick": 60, "thorough": 2500}, gen=gen, run=run, shrink=shrink)
