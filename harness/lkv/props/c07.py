"""C07 — RunAnalysis reports each metric's own per-list values; RMSE / MAE pool exactly the usable pairs."""
from __future__ import annotations
import math, random
from fractions import Fraction
import numpy as np
from ..core import CheckSpec, Outcome, Lean, rat

def gen(rng: random.Random, tier: str):
    n = {"quick": 250, "thorough": 8000}[tier]
    for _ in range(n):
        lists = []
        for u in range(rng.randint(1, 4)):
            k = rng.randint(0, 4); items = rng.sample(range(8), k)
            preds = [None if rng.random() < 0.25 else rng.randint(1, 10) / 2 for _ in range(k)]
            # the test list rates a subset of the scored items (the rest have "missing truth") plus some items that were not scored at all
            truth = {i: rng.randint(1, 10) / 2 for i in items if rng.random() < 0.75}
            for i in rng.sample(range(8, 12), rng.choice([0, 0, 1, 2])): truth[i] = rng.randint(1, 10) / 2
            lists.append({"user": 10 + u, "run": rng.choice(["a", "b"]), "items": items, "preds": preds, "truth": [[i, r] for i, r in truth.items()],
                          "has_test": rng.random() < 0.85, "test_empty": rng.random() < 0.12})
        yield {"lists": lists, "metric": rng.choice(["rmse", "mae"]), "two_level_key": rng.random() < 0.5, "test_key_swapped": rng.random() < 0.3,
               "ms": rng.choice(["ignore", "ignore", "ignore", "error"]), "mt": rng.choice(["ignore", "ignore", "ignore", "error"])}

def _norm(case):
    """older corpus / replay cases: items = positions, truth = parallel list"""
    for l in case["lists"]:
        if "items" not in l:
            l["items"] = list(range(len(l["preds"]))); l["truth"] = [[i, r] for i, r in enumerate(l["truth"])]; l.setdefault("test_empty", False)
    case.setdefault("ms", "ignore"); case.setdefault("mt", "ignore")
    return case

def run(case: dict, lean: Lean) -> Outcome:
    from lenskit.data import ItemList, ItemListCollection
    from lenskit.metrics import RunAnalysis, RMSE, MAE, ListLength, TestItemCount
    from lenskit.metrics.ranking import Recall
    case = _norm(dict(case, lists=[dict(l) for l in case["lists"]]))
    sq = case["metric"] == "rmse"; cls = RMSE if sq else MAE
    two = case["two_level_key"]
    swapped = bool(two and case.get("test_key_swapped"))          # the test collection carries the same two fields, in the other order: projection is by name
    out = ItemListCollection(["user_id", "run"] if two else ["user_id"]); test = ItemListCollection(["run", "user_id"] if swapped else ["user_id"])
    tlookup = (lambda l: test.lookup(l["run"], l["user"])) if swapped else (lambda l: test.lookup(l["user"]))
    used = []; seen_keys = set(); seen_users = set(); tl = {}
    for l in case["lists"]:
        key = (l["user"], l["run"]) if two else (l["user"],)
        if key in seen_keys: continue
        seen_keys.add(key); used.append(l)
        out.add(ItemList(item_ids=np.array(l["items"], dtype=np.int64), scores=np.array([np.nan if p is None else p for p in l["preds"]], dtype=np.float64), ordered=True), *key)
        if l["has_test"] and l["user"] not in seen_users:
            tr = [] if l["test_empty"] else l["truth"]
            for tk in ([("a", l["user"]), ("b", l["user"])] if swapped else [(l["user"],)]):
                test.add(ItemList(item_ids=np.array([i for i, _ in tr], dtype=np.int64), rating=np.array([r for _, r in tr], dtype=np.float64)), *tk)
            tl[l["user"]] = dict((i, r) for i, r in tr)
        seen_users.add(l["user"])
    have_test = set(tl)
    metric = cls(missing_scores=case["ms"], missing_truth=case["mt"]); rec = Recall(2)
    def custom(recs, test_l): return float(len(recs) * 10 + len(test_l))          # a list-wise function metric with a value for every pair of lists
    ra = RunAnalysis(); ra.add_metric(metric); ra.add_metric(rec); ra.add_metric(ListLength()); ra.add_metric(TestItemCount()); ra.add_metric(custom, "custom", default=-1.0)
    # …and the prediction metric once more with an explicitly requested default of 0 (its own is "none"): zero is a default like any other
    ra.add_metric(cls(missing_scores=case["ms"], missing_truth=case["mt"]), "zero-default", default=0.0)
    # aligned pairs (outer join) for the model, lists with test data in output order
    usable = [l for l in used if l["user"] in have_test]
    mlists = []
    for l in usable:
        truth = tl[l["user"]]; pm = dict(zip(l["items"], l["preds"]))
        mlists.append([[None if pm.get(i) is None else rat(pm[i]), None if i not in truth else rat(truth[i])] for i in sorted(set(pm) | set(truth))])
    margs = {"lists": mlists, "sq": sq, "ms": case["ms"], "mt": case["mt"]}
    as_is = lean.call("c07.global", {**margs, "variant": "asIs"}); rep = lean.call("c07.global", {**margs, "variant": "repaired"})
    failed = []; key = None; keys = []
    classes = [case["metric"]]
    if two: classes.append("projected key")
    if swapped: classes.append("test keys with the same fields in another order")
    if any(p is None for l in used for p in l["preds"]): classes.append("missing predictions")
    if any(set(l["items"]) - set(tl.get(l["user"], {})) for l in usable): classes.append("scored item without truth")
    if any(set(tl.get(l["user"], {})) - set(l["items"]) for l in usable): classes.append("rated item not scored")
    if any(l["user"] not in have_test for l in used): classes.append("output without test list")
    if any(not l["preds"] for l in used): classes.append("empty list")
    if any(u in tl and not tl[u] for u in tl): classes.append("empty test list")
    if "error" in (case["ms"], case["mt"]): classes.append("error disposition")
    try:
        with np.errstate(all="ignore"):
            res = ra.measure(out, test)
        lm = res.list_metrics(fill_missing=False); lmf = res.list_metrics(); summ = res.list_summary(); gl = float(res.global_metrics().iloc[0])
    except Exception as e:
        if isinstance(e, ValueError) and "error" in rep:        # a configured `error` disposition rejects the run, as the model says
            classes.append("rejected by disposition")
            return Outcome("error" in as_is, True, tuple(classes), {"error": str(e)[:80], "model": rep}, None)
        k0 = "MAE.global_aggregate raises UnboundLocalError when no list has test data" if (isinstance(e, UnboundLocalError) and not sq and not have_test) else None
        return Outcome(False, False, ("analysis raised",), {"error": type(e).__name__ + ": " + str(e)[:80]}, k0)
    if "error" in rep:
        return Outcome(False, False, tuple(classes), {"failed": ["the configured error disposition did not reject the run"], "model": rep}, None)
    mname = lm.columns[0]; rname = lm.columns[1]
    def close(x, q):
        if q is None: return x is None or (isinstance(x, float) and math.isnan(x))
        if x is None or math.isnan(x): return False
        qq = float(Fraction(q)); xx = x * x if sq else x
        return abs(xx - qq) <= 1e-9 * max(1, abs(qq))
    per = []
    for l in usable:
        k = (l["user"], l["run"]) if two else l["user"]
        per.append(float(lm.loc[k, mname]))
    ok_as = all(close(x, q) for x, q in zip(per, as_is["per_list"])) and close(gl, as_is["global"])
    ok_rep = all(close(x, q) for x, q in zip(per, rep["per_list"])) and close(gl, rep["global"])
    corr = ok_as or ok_rep
    if not ok_rep: failed.append("RMSE/MAE per-list or pooled value differs from the definition over usable pairs")
    # each reported per-list value is the metric's own value for that output and the projected test list
    own = {mname: lambda o, t: float(metric.measure_list(o, t)), rname: lambda o, t: float(rec.measure_list(o, t)),
           "N": lambda o, t: float(len(o)), "TestItemCount": lambda o, t: float(len(t)), "custom": custom}
    for l in used:
        k = (l["user"], l["run"]) if two else l["user"]
        for col, fn in own.items():
            v = float(lm.loc[k, col])
            if l["user"] in have_test:
                try:
                    with np.errstate(all="ignore"):
                        want = fn(out.lookup(*((l["user"], l["run"]) if two else (l["user"],))), tlookup(l))
                except Exception as e:
                    failed.append(f"{col} for key {k}: the metric's own measure_list raises {type(e).__name__}")
                    if col == mname and not sq and isinstance(e, AttributeError): keys.append("MAE.measure_list raises AttributeError when no pair is usable")
                    continue
                if math.isnan(want) and not math.isnan(v): failed.append(f"fill_missing=False: key {k} has an undefined {col} but reports {v}")
                elif not ((math.isnan(v) and math.isnan(want)) or abs(v - want) < 1e-9): failed.append(f"{col} for key {k}: reported {v}, the metric itself gives {want}")
            elif not math.isnan(v): failed.append(f"fill_missing=False: key {k} has no test list but reports {col} = {v}")
    # two analyses merged into one report the same as one analysis with all the metrics: the substituted defaults and the summary too
    try:
        raA = RunAnalysis(); raA.add_metric(cls(missing_scores=case["ms"], missing_truth=case["mt"])); raA.add_metric(rec)
        raB = RunAnalysis(); raB.add_metric(ListLength()); raB.add_metric(custom, "custom", default=-1.0)
        with np.errstate(all="ignore"):
            rA = raA.measure(out, test); rB = raB.measure(out, test)
        rA.merge_from(rB)
        mf = rA.list_metrics(); ms_ = rA.list_summary()
        for col in (mname, rname, "N", "custom"):
            a_, b_ = mf[col].astype(float).reindex(lmf.index), lmf[col].astype(float)
            if not ((a_.isna() & b_.isna()) | ((a_ - b_).abs() < 1e-9)).all(): failed.append(f"merged results: default-filled {col} differs from the single analysis")
            for stat in ("mean", "median", "std"):
                x, y = float(ms_.loc[col, stat]), float(summ.loc[col, stat])
                if not ((math.isnan(x) and math.isnan(y)) or abs(x - y) < 1e-9): failed.append(f"merged results: summary {stat} of {col} = {x}, single analysis {y}")
    except Exception as e:
        failed.append(f"merging two analysis results raised {type(e).__name__}: {str(e)[:60]}")
    # default substitution and summary statistics (mean / median / std of the default-filled values)
    for l in used:
        k = (l["user"], l["run"]) if two else l["user"]
        if l["user"] not in have_test and float(lmf.loc[k, "custom"]) != -1.0: failed.append(f"default not substituted for key {k}")
        if l["user"] not in have_test and not (float(lmf.loc[k, "zero-default"]) == 0.0): failed.append(f"explicit default 0 not substituted for key {k}")
    for col in (rname, "N", "custom"):
        c = lmf[col].astype(float)
        for stat, want in (("mean", c.mean()), ("median", c.median()), ("std", c.std())):
            got = float(summ.loc[col, stat])
            if not ((math.isnan(got) and math.isnan(want)) or abs(got - want) < 1e-9): failed.append(f"summary {stat} of {col} = {got}, want {want}")
    if failed and keys and all("measure_list raises" in f for f in failed): key = tuple(sorted(set(keys)))
    elif failed:
        if all(f.startswith("fill_missing=False") for f in failed): key = "list_metrics(fill_missing=False) fills defaults anyway"
        elif all(f.startswith("RMSE/MAE") for f in failed) and ok_as: key = "RMSE/MAE decomposed counts include ignored pairs"
        elif all(f.startswith(("RMSE/MAE", "fill_missing=False")) for f in failed) and ok_as: key = "RMSE/MAE decomposed counts include ignored pairs + fill_missing flag ignored"
    return Outcome(corr, not failed, tuple(classes), {"failed": failed[:8], "per_list": per, "global": gl, "as_is": as_is, "repaired": rep}, key)

def shrink(case: dict):
    case = _norm(dict(case, lists=[dict(l) for l in case["lists"]]))
    for i in range(len(case["lists"])):
        if len(case["lists"]) > 1: c = dict(case); c["lists"] = case["lists"][:i] + case["lists"][i + 1:]; yield c
    for i, l in enumerate(case["lists"]):
        for j in range(len(l["preds"])):
            l2 = dict(l); l2["preds"] = l["preds"][:j] + l["preds"][j + 1:]; l2["items"] = l["items"][:j] + l["items"][j + 1:]
            c = dict(case); c["lists"] = case["lists"][:i] + [l2] + case["lists"][i + 1:]; yield c
        for j in range(len(l["truth"])):
            l2 = dict(l); l2["truth"] = l["truth"][:j] + l["truth"][j + 1:]
            c = dict(case); c["lists"] = case["lists"][:i] + [l2] + case["lists"][i + 1:]; yield c

SPEC = CheckSpec(
    pid="C07", theorems=[], correspondence_ops=["c07.global"],
    nontrivial_rule="distinct analyses reaching ≥1 of: RMSE / MAE, projected key, missing predictions, scored item without truth, rated item not scored, output without test list, empty list, empty test list, error disposition",
    budgets={"quick": 250, "thorough": 8000}, gen=gen, run=run, shrink=shrink)
