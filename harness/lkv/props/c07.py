"""C07 — RunAnalysis reports each metric's own per-list values; RMSE / MAE pool exactly the usable pairs."""
from __future__ import annotations
import math, random
from fractions import Fraction
import numpy as np
from ..core import CheckSpec, Outcome, Lean, rat

def gen(rng: random.Random, tier: str):
    n = {"quick": 250, "thorough": 8000}[tier]
    for _ in range(n):
        lists = []
        for u in range(rng.randint(1, 4)):
            k = rng.randint(0, 4)
            lists.append({"user": 10 + u, "run": rng.choice(["a", "b"]), "preds": [None if rng.random() < 0.25 else rng.randint(1, 10) / 2 for _ in range(k)],
                          "truth": [rng.randint(1, 10) / 2 for _ in range(k)], "has_test": rng.random() < 0.85})
        yield {"lists": lists, "metric": rng.choice(["rmse", "mae"]), "two_level_key": rng.random() < 0.5}

def run(case: dict, lean: Lean) -> Outcome:
    from lenskit.data import ItemList, ItemListCollection
    from lenskit.metrics import RunAnalysis, RMSE, MAE
    from lenskit.metrics.ranking import Recall
    sq = case["metric"] == "rmse"; cls = RMSE if sq else MAE
    two = case["two_level_key"]
    out = ItemListCollection(["user_id", "run"] if two else ["user_id"]); test = ItemListCollection(["user_id"])
    used = []; seen_keys = set(); seen_users = set()
    for l in case["lists"]:
        key = (l["user"], l["run"]) if two else (l["user"],)
        if key in seen_keys: continue
        seen_keys.add(key); used.append(l)
        items = np.arange(len(l["preds"]), dtype=np.int64)
        out.add(ItemList(item_ids=items, scores=np.array([np.nan if p is None else p for p in l["preds"]], dtype=np.float64), ordered=True), *key)
        if l["has_test"] and l["user"] not in seen_users:
            test.add(ItemList(item_ids=items, rating=np.array(l["truth"], dtype=np.float64)), l["user"])
        seen_users.add(l["user"])
    have_test = {k[0] for k in test.keys()}
    metric = cls(missing_scores="ignore"); rec = Recall(2)
    ra = RunAnalysis(); ra.add_metric(metric); ra.add_metric(rec)
    failed = []; key = None
    try:
        with np.errstate(all="ignore"):
            res = ra.measure(out, test)
        lm = res.list_metrics(fill_missing=False); lmf = res.list_metrics(); summ = res.list_summary(); gl = float(res.global_metrics().iloc[0])
    except Exception as e:
        k0 = "MAE.global_aggregate raises UnboundLocalError when no list has test data" if (isinstance(e, UnboundLocalError) and not sq and not have_test) else None
        return Outcome(False, False, ("analysis raised",), {"error": type(e).__name__ + ": " + str(e)[:80]}, k0)
    mname = lm.columns[0]; rname = lm.columns[1]
    # correspondence with the model of the decomposed computation (lists with test data, in output order)
    usable = [l for l in used if l["user"] in have_test]
    tl = {}
    for l in used:
        if l["has_test"] and l["user"] not in tl: tl[l["user"]] = l["truth"]
    mlists = []
    for l in usable:
        truth = tl[l["user"]]; k = min(len(truth), len(l["preds"]))
        # the output list may belong to a later run of the same user: its predictions meet that user's test ratings item by item
        mlists.append([[None if (j >= len(l["preds"]) or l["preds"][j] is None) else rat(l["preds"][j]), rat(truth[j]) if j < len(truth) else None] for j in range(max(len(truth), len(l["preds"])))])
    mlists = [[p for p in ml if p[1] is not None] for ml in mlists]
    as_is = lean.call("c07.global", {"lists": mlists, "sq": sq, "variant": "asIs"}); rep = lean.call("c07.global", {"lists": mlists, "sq": sq, "variant": "repaired"})
    def close(x, q):
        if q is None: return x is None or (isinstance(x, float) and math.isnan(x))
        if x is None or math.isnan(x): return False
        qq = float(Fraction(q)); xx = x * x if sq else x
        return abs(xx - qq) <= 1e-9 * max(1, abs(qq))
    per = []
    for l in usable:
        k = (l["user"], l["run"]) if two else l["user"]
        per.append(float(lm.loc[k, mname]))
    ok_as = all(close(x, q) for x, q in zip(per, as_is["per_list"])) and close(gl, as_is["global"])
    ok_rep = all(close(x, q) for x, q in zip(per, rep["per_list"])) and close(gl, rep["global"])
    corr = ok_as or ok_rep
    if not ok_rep: failed.append("RMSE/MAE per-list or pooled value differs from the definition over usable pairs")
    # each reported per-list value is the metric's own value for that output and the projected test list
    for l in used:
        k = (l["user"], l["run"]) if two else l["user"]
        v = float(lm.loc[k, rname])
        if l["user"] in have_test:
            want = float(rec.measure_list(out.lookup(*((l["user"], l["run"]) if two else (l["user"],))), test.lookup(l["user"])))
            if math.isnan(want) and v == 0.0: failed.append(f"fill_missing=False: key {k} has an undefined value but reports the default")
            elif not ((math.isnan(v) and math.isnan(want)) or abs(v - want) < 1e-12): failed.append(f"Recall for key {k}: reported {v}, metric gives {want}")
        elif not math.isnan(v): failed.append(f"fill_missing=False: key {k} has no test list but reports {v}")
    # summary statistics are mean / median / std of the default-filled values
    col = lmf[rname].astype(float)
    for stat, want in (("mean", col.mean()), ("median", col.median()), ("std", col.std())):
        got = float(summ.loc[rname, stat])
        if not ((math.isnan(got) and math.isnan(want)) or abs(got - want) < 1e-9): failed.append(f"summary {stat} = {got}, want {want}")
    if failed:
        if all(f.startswith("fill_missing=False") for f in failed): key = "list_metrics(fill_missing=False) fills defaults anyway"
        elif all(f.startswith("RMSE/MAE") for f in failed) and ok_as: key = "RMSE/MAE decomposed counts include ignored pairs"
        elif all(f.startswith(("RMSE/MAE", "fill_missing=False")) for f in failed) and ok_as: key = "RMSE/MAE decomposed counts include ignored pairs + fill_missing flag ignored"
    classes = [case["metric"]]
    if two: classes.append("projected key")
    if any(p is None for l in used for p in l["preds"]): classes.append("missing predictions ignored")
    if any(l["user"] not in have_test for l in used): classes.append("output without test list")
    if any(not l["preds"] for l in used): classes.append("empty list")
    return Outcome(corr, not failed, tuple(classes), {"failed": failed[:8], "per_list": per, "global": gl, "as_is": as_is, "repaired": rep}, key)

def shrink(case: dict):
    for i in range(len(case["lists"])):
        if len(case["lists"]) > 1: c = dict(case); c["lists"] = case["lists"][:i] + case["lists"][i + 1:]; yield c
    for i, l in enumerate(case["lists"]):
        for j in range(len(l["preds"])):
            l2 = dict(l); l2["preds"] = l["preds"][:j] + l["preds"][j + 1:]; l2["truth"] = l["truth"][:j] + l["truth"][j + 1:]
            c = dict(case); c["lists"] = case["lists"][:i] + [l2] + case["lists"][i + 1:]; yield c

SPEC = CheckSpec(
    pid="C07", theorems=["LK.Pred.C07_PredictMetrics_global_is_pooled"], correspondence_ops=["c07.global"],
    nontrivial_rule="distinct analyses reaching ≥1 of: RMSE / MAE, projected key, ignored missing predictions, output without test list, empty list",
    budgets={"quick": 250, "thorough": 8000}, gen=gen, run=run, shrink=shrink)
