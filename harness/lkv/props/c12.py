"""C12 — batch / parallel execution equals running each task in turn; failures surface; payloads arrive unchanged."""
from __future__ import annotations
import json, math, random
import numpy as np
from ..core import CheckSpec, Outcome, Lean, silence_fd1

def gen(rng: random.Random, tier: str):
    jobs = {"quick": [1, 1, 2], "thorough": [1, 1, 2, 2, 4, 8, 16]}[tier]
    reps = {"quick": 2, "thorough": 12}[tier]
    for _ in range(reps):
        for nj in jobs:
            yield {"kind": "batch", "n_jobs": nj, "form": rng.choice(["list", "dict", "collection", "frame", "collection2"]), "n_keys": rng.choice([0, 1, 3, 6, 9]), "dup": rng.random() < 0.3, "empty_test": rng.random() < 0.4,
                   "op": rng.choice(["recommend", "predict", "score"]), "fail_at": rng.choice([None, None, 0, 2]), "seed": rng.randrange(10**6), "pipeline": rng.choice(["table", "iknn"]),
                   "n": rng.choice([3, 3, None, 0, 1, 50])}
            yield {"kind": "invoker", "n_jobs": nj, "tasks": rng.choice([[], [3], list(range(7)), [5, 5, 1, 1, 9], list(range(20))]), "fail_at": rng.choice([None, None, 1]), "seed": rng.randrange(10**6)}
    # directed: a failing task / key with a real process pool, and runners that carry several invocations in either order
    top = max(jobs)
    yield {"kind": "invoker", "n_jobs": top, "tasks": list(range(7)), "fail_at": rng.choice([0, 3, 6]), "seed": rng.randrange(10**6)}
    for n_ in (0, None):          # directed: a zero-length request and the pipeline's own default length
        yield {"kind": "batch", "n_jobs": rng.choice(jobs), "form": "list", "n_keys": 3, "dup": False, "op": "recommend", "fail_at": None, "seed": rng.randrange(10**6), "pipeline": "table", "n": n_}
    yield {"kind": "invoker", "n_jobs": top, "tasks": [1, 2, 3], "fail_at": None, "seed": rng.randrange(10**6), "unshippable": True}
    yield {"kind": "batch", "n_jobs": 1, "form": "dict", "n_keys": 3, "dup": False, "op": rng.choice(["predict", "score"]), "fail_at": None, "seed": rng.randrange(10**6), "pipeline": "table", "n": 3, "empty_test": True}
    for op_ in ("recommend", "predict"):          # directed: keys with fields beyond the user, sequentially and in a pool
        yield {"kind": "batch", "n_jobs": 1 if op_ == "recommend" else top, "form": "collection2", "n_keys": 4, "dup": False, "op": op_, "fail_at": None, "seed": rng.randrange(10**6), "pipeline": "table", "n": 3}
    yield {"kind": "batch", "n_jobs": top, "form": "dict", "n_keys": 6, "dup": False, "op": "predict", "fail_at": rng.choice([0, 2, 5]), "seed": rng.randrange(10**6), "pipeline": "table"}
    for nj in sorted(set([1, top])):
        for order in (["predict", "recommend"], ["recommend", "predict"], ["score", "recommend", "predict"]):
            yield {"kind": "multi", "n_jobs": nj, "order": order, "n_keys": rng.choice([3, 5]), "seed": rng.randrange(10**6)}

def lean_batch_trace():
    """Record, from the running code, (1) the invocations `BatchPipelineRunner.recommend / predict / score` register, (2) the `run_all` calls the
    worker `_run_pipeline` makes for one key with those invocations (a recording stand-in for the pipeline), and (3) the length `batch.recommend`
    hands to the runner for n = None, 0, 3 — as Lean data for `LK/Proofs/BatchTraceC12.lean`."""
    from lenskit.batch import BatchPipelineRunner
    from lenskit.batch import _runner as br
    from lenskit import batch as lb
    from lenskit.data import ItemList
    from lenskit.data.collection import UserIDKey
    def arg(v, test):
        if v is None: return "Arg.none"
        if v is test: return "Arg.testItems"
        if isinstance(v, bool): raise ValueError("unexpected boolean input")
        if isinstance(v, int): return f"Arg.int ({v})"
        raise ValueError(f"unexpected input value {v!r}")
    q = lambda x: '"' + str(x) + '"'
    def inv_lean(iv):
        if len(iv.components) != 1: raise ValueError("invocation with several components")
        (c, o), = iv.components.items()
        extra = ", ".join(f"({q(k)}, {arg(v, None)})" for k, v in iv.extra_inputs.items())
        return f"{{ comp := {q(c)}, output := {q(o)}, testItems := {'true' if iv.items == 'test-items' else 'false'}, extra := [{extra}] }}"
    runner = BatchPipelineRunner(n_jobs=1); runner.recommend(n=0); runner.predict(); runner.score()
    invs = list(runner.invocations)
    calls = []
    class Rec:
        name = "recorder"
        def run_all(self, *nodes, **inputs):
            calls.append((list(nodes), dict(inputs))); return {n_: None for n_ in nodes}
    test = ItemList(item_ids=[1, 2, 3]); USER = 4242
    key, result = br._run_pipeline((Rec(), invs), (UserIDKey(USER), test))
    # …and for a key that carries more than the user, and for one that carries no user at all
    from collections import namedtuple
    calls_user = list(calls); calls.clear()
    br._run_pipeline((Rec(), invs), (namedtuple("UserSeqKey", ["user_id", "seq"])(USER, 7), test)); calls_composite = list(calls); calls.clear()
    br._run_pipeline((Rec(), invs), (namedtuple("ItemKey", ["item_id"])(99), test)); calls_nouser = list(calls); calls.clear()
    # …and for a user whose test list is empty (it is still the test list: an empty list is a list)
    empty = ItemList(item_ids=[])
    br._run_pipeline((Rec(), invs), (UserIDKey(USER), empty)); calls_empty = list(calls); calls.clear()
    calls.extend(calls_user)
    def call_lean(nodes, inputs, test=test):
        ins = ", ".join(f"({q(k)}, {'Arg.user' if (k == 'query' and v == USER) else arg(v, test)})" for k, v in sorted(inputs.items()))
        return f"{{ nodes := [{', '.join(q(n_) for n_ in nodes)}], inputs := [{ins}] }}"
    # what batch.recommend registers for a given n
    fwd = []
    class Stop(Exception): pass
    orig_run = BatchPipelineRunner.run
    def fake_run(self, pipeline, users): fwd.append(list(self.invocations)); raise Stop()
    BatchPipelineRunner.run = fake_run
    try:
        for n in (None, 0, 3):
            try: lb.recommend(None, [1], n)
            except Stop: pass
    finally:
        BatchPipelineRunner.run = orig_run
    return ("import LK.Model.BatchWorker\n/-! GENERATED on every run of `./check C12` (harness/lkv/props/c12.py `lean_batch_trace`): recorded from the running code; do not edit. -/\n"
            "namespace LK.Gen.BatchTraceC12\nopen LK.BatchWorker\n\n"
            "/-- registered by `runner.recommend(n=0); runner.predict(); runner.score()` -/\ndef observedInvocations : List Inv :=\n  [" + ",\n   ".join(inv_lean(i) for i in invs) + "]\n\n"
            "/-- the `run_all` calls of `_run_pipeline` for one user key with those invocations -/\ndef observedCalls : List Call :=\n  [" + ",\n   ".join(call_lean(n_, i) for n_, i in calls) + "]\n\n"
            "/-- …for a key `(user_id, seq)` that carries more than the user -/\ndef observedCallsCompositeKey : List Call :=\n  [" + ",\n   ".join(call_lean(n_, i) for n_, i in calls_composite) + "]\n\n"
            "/-- …for a user whose test list is empty -/\ndef observedCallsEmptyTest : List Call :=\n  [" + ",\n   ".join(call_lean(n_, i, empty) for n_, i in calls_empty) + "]\n\n"
            "/-- …and for a key without a user -/\ndef observedCallsNoUser : List Call :=\n  [" + ",\n   ".join(call_lean(n_, i) for n_, i in calls_nouser) + "]\n\n"
            f"/-- the output names the worker filed its results under -/\ndef observedOutputs : List String := [{', '.join(q(k) for k in result)}]\n\n"
            "/-- what `batch.recommend(pipe, users, n)` registers for n = None, 0, 3 -/\ndef observedForwarding : List (List Inv) :=\n  [" + ",\n   ".join("[" + ", ".join(inv_lean(i) for i in f) + "]" for f in fwd) + "]\n\nend LK.Gen.BatchTraceC12\n")

def _canon(il):
    return [(int(i), None if math.isnan(s) else float(s)) for i, s in zip(il.ids(), il.scores())] if len(il) else []

def run(case: dict, lean: Lean) -> Outcome:
    import pandas as pd, torch
    failed = []; key = None; classes = [case["kind"], f"n_jobs={case['n_jobs']}"]
    rnd = random.Random(case["seed"]); nj = case["n_jobs"]
    if case["kind"] == "invoker":
        from lenskit.parallel import invoker
        from lkv_payload import work, digest, Boom
        g = np.random.default_rng(case["seed"])
        model = dict(arr=g.standard_normal(50), ints=np.arange(7, dtype="i4"), dense=torch.from_numpy(g.standard_normal((6, 4))),
                     csr=torch.from_numpy(g.standard_normal((5, 5))).to_sparse_csr(), coo=torch.from_numpy(np.where(g.random((4, 6)) < 0.4, 1.5, 0.0)).to_sparse_coo(), tag="m",
                     empty=np.zeros(0), empty2=np.zeros((0, 3), dtype="f4"), empty_t=torch.zeros(0, dtype=torch.float64))          # models legitimately hold empty arrays
        tasks = list(case["tasks"])
        if case["fail_at"] is not None and len(tasks) > case["fail_at"]: tasks[case["fail_at"]] = -1; classes.append("failing task")
        want_fail = any(t < 0 for t in tasks)
        # the collector model: any completion order (here a random permutation) yields the sequential result, a failing task surfaces
        order = list(range(len(tasks))); rnd.shuffle(order)
        distinct = []; tag = lambda v: distinct.index(v) if v in distinct else (distinct.append(v) or len(distinct) - 1)
        seq_vals = [None if t < 0 else work(model, t) for t in tasks]
        m = lean.call("c12.batch", {"keys": [int(t) for t in tasks], "outcomes": [None if v is None else tag(repr(v)) for v in seq_vals], "order": order})
        real = None
        import gc, multiprocessing as mp, threading, time
        before = {p.pid for p in mp.active_children()}
        def leftover():
            # whatever the invoker started (workers, the shared-memory manager) must be gone once it has been left — by its own
            # clean-up, not by a garbage collection that happens to run later (collection is switched off while we look)
            for _ in range(40):
                left = [p for p in mp.active_children() if p.pid not in before]
                if not left: return []
                time.sleep(0.05)
            return left
        if case.get("unshippable") and nj >= 2:
            # a model that cannot be shipped to the workers: the error surfaces, and nothing the invoker started stays behind
            classes.append("model that cannot be shipped"); bad_model = dict(model, guard=threading.Lock())
            gc.disable()
            try:
                try:
                    with silence_fd1():
                        with invoker(bad_model, work, n_jobs=nj) as inv: list(inv.map(tasks or [1]))
                    failed.append("a model that cannot be serialised for the workers raised nothing")
                except Exception: pass
                left = leftover()
                if left: failed.append(f"{len(left)} process(es) started by the invoker are still running after the failed set-up: {[p.name for p in left][:3]}")
            finally: gc.enable()
            for p in mp.active_children():
                if p.pid not in before: p.terminate()
            return Outcome(not failed, not failed, tuple(classes), {"failed": failed}, None)
        try:
            with silence_fd1():
                with invoker(model, work, n_jobs=nj) as inv: out = list(inv.map(tasks))
            real = {"ok": [[int(t), tag(repr(o))] for t, o in zip(tasks, out)]} if len(out) == len(tasks) else {"ok": "wrong length"}
            if want_fail: failed.append("a failing task did not surface as an error")
            elif out != [work(model, x) for x in tasks]: failed.append("results differ from f(model, x) in task order (or the payload changed on the way)")
        except Boom:
            real = {"error": True}
            if not want_fail: failed.append("unexpected task failure")
        except Exception as e:
            real = {"error": type(e).__name__}
            failed.append(f"invoker raised {type(e).__name__}: {str(e)[:60]}")
        if nj >= 2:
            left = leftover()
            if left: failed.append(f"{len(left)} process(es) started by the invoker are still running after it was left")
        mm = m["batch"]; model_says = {"error": True} if "error" in mm else {"ok": mm["ok"]}
        if real != model_says: failed.append(f"collector model predicts {json.dumps(model_says)[:120]}, implementation gave {json.dumps(real)[:120]}")
        if not tasks: classes.append("no tasks")
        if len(tasks) > nj: classes.append("more tasks than workers")
        return Outcome(not failed, not failed, tuple(classes), {"failed": failed}, None)
    if case["kind"] == "multi":
        # one runner, several invocations: every output must equal the corresponding single-query operation
        from lenskit.data import from_interactions_df, ItemList, ItemListCollection
        from lenskit.pipeline import topn_pipeline
        from lenskit import operations
        from lenskit.batch import BatchPipelineRunner
        from lkv_components import TableScorer
        rows = [(100 + u, 1000 + i, float(rnd.choice([1, 2, 3, 4, 5]))) for u in range(9) for i in range(12) if rnd.random() < 0.5]
        ds = from_interactions_df(pd.DataFrame(rows, columns=["user_id", "item_id", "rating"]))
        V = [int(x) for x in ds.items.ids()]; users = [int(u) for u in ds.users.ids()]
        base = dict(zip(V, rnd.sample([x / 4 for x in range(-20, 60)], len(V))))
        pipe = topn_pipeline(TableScorer(base), predicts_ratings="raw", n=5); pipe.train(ds)
        reqs = rnd.sample(users, min(case["n_keys"], len(users)))
        test = {u: ItemList(item_ids=rnd.sample(V, 3) + [7777]) for u in reqs}
        runner = BatchPipelineRunner(n_jobs=nj)
        for o in case["order"]:
            if o == "recommend": runner.recommend(n=4)
            elif o == "predict": runner.predict()
            else: runner.score()
        classes += ["invocations:" + ">".join(case["order"])]
        try:
            res = runner.run(pipe, ItemListCollection.from_dict(test, key="user_id"))
            for o, name in (("recommend", "recommendations"), ("predict", "predictions"), ("score", "scores")):
                if o not in case["order"]: continue
                out = res.output(name)
                if [int(k.user_id) for k in out.keys()] != reqs: failed.append(f"{name}: keys differ from the request")
                for k, il in out.items():
                    u = int(k.user_id)
                    want = _canon(operations.recommend(pipe, u, 4) if o == "recommend" else operations.predict(pipe, u, test[u]) if o == "predict" else operations.score(pipe, u, test[u]))
                    if _canon(il) != want: failed.append(f"{name} for user {u} differ from the single-query operation: {_canon(il)[:4]} vs {want[:4]}")
        except Exception as e:
            failed.append(f"multi-invocation run raised {type(e).__name__}: {str(e)[:60]}")
        return Outcome(not failed, not failed, tuple(classes), {"failed": failed[:6]}, None)
    from lenskit.data import from_interactions_df, ItemList, ItemListCollection
    from lenskit.pipeline import topn_pipeline
    from lenskit import batch, operations
    from lenskit.knn import ItemKNNScorer
    from lkv_components import TableScorer
    rows = [(100 + u, 1000 + i, float(rnd.choice([1, 2, 3, 4, 5]))) for u in range(9) for i in range(12) if rnd.random() < 0.5]
    ds = from_interactions_df(pd.DataFrame(rows, columns=["user_id", "item_id", "rating"]))
    V = [int(x) for x in ds.items.ids()]; users = [int(u) for u in ds.users.ids()]
    reqs = rnd.sample(users + [999], min(case["n_keys"], len(users) + 1))
    if case["dup"] and len(reqs) >= 2 and case["form"] == "list": reqs = reqs + [reqs[0]]; classes.append("duplicate keys")
    fail_user = reqs[case["fail_at"]] if (case["fail_at"] is not None and len(reqs) > case["fail_at"] and case["pipeline"] == "table") else None
    base = dict(zip(V, rnd.sample([x / 4 for x in range(-20, 60)], len(V))))
    pipe = (topn_pipeline(TableScorer(base, fail_users=[fail_user] if fail_user is not None else []), predicts_ratings="raw", n=5) if case["pipeline"] == "table"
            else topn_pipeline(ItemKNNScorer(max_nbrs=3), predicts_ratings=True, n=4))
    pipe.train(ds)
    test = {u: ItemList(item_ids=rnd.sample(V, 4) + [7777]) for u in dict.fromkeys(reqs)}
    if case.get("empty_test") and test and case["form"] in ("dict", "collection", "collection2"):
        test[next(iter(test))] = ItemList(item_ids=np.array([], dtype=np.int64)); classes.append("a key with an empty test list")          # nothing to score is a request like any other
    op = case["op"] if case["form"] != "list" else "recommend"
    form = case["form"]
    if form == "collection2":
        # keys that carry more than the user: (user_id, seq) — the user may recur, each key is its own request for that user
        ks = list(test) + (list(test)[:1] if len(test) >= 2 else [])
        arg = ItemListCollection(["user_id", "seq"])
        for sq, u in enumerate(ks): arg.add(test[u], user_id=u, seq=sq)
        classes.append("keys with fields beyond the user")
    else: ks = None
    arg = arg if form == "collection2" else (list(reqs) if form == "list" else {u: test[u] for u in test} if form == "dict"
           else ItemListCollection.from_dict({u: test[u] for u in test}, key="user_id") if form == "collection"
           else pd.DataFrame([(u, int(i)) for u in test for i in test[u].ids()], columns=["user_id", "item_id"]))
    keys_in = ks if form == "collection2" else list(reqs) if form == "list" else (list(test) if form in ("dict", "collection") else sorted(test))
    n_req = case.get("n", 3)
    classes += ["form:" + form, "op:" + op] + ([f"recommend n={n_req}"] if op == "recommend" else [])
    if not reqs: classes.append("no keys")
    if fail_user is not None: classes.append("failing key")
    try:
        seq = {}
        for u in dict.fromkeys(keys_in):
            seq[u] = _canon(operations.recommend(pipe, u, n_req) if op == "recommend" else operations.predict(pipe, u, test[u]) if op == "predict" else operations.score(pipe, u, test[u]))
        seq_failed = False
    except ValueError:
        seq_failed = True
    try:
        with silence_fd1():
            out = (batch.recommend(pipe, arg, n_req, n_jobs=nj) if op == "recommend" else batch.predict(pipe, arg, n_jobs=nj) if op == "predict" else batch.score(pipe, arg, n_jobs=nj))
        if seq_failed: failed.append("the single-query operation fails for a key but the batch run reports nothing")
        else:
            got_keys = [int(k.user_id) for k in out.keys()]
            if got_keys != keys_in: failed.append(f"result keys {got_keys} differ from the input keys {keys_in}")
            for k, il in out.items():
                if _canon(il) != seq[int(k.user_id)]: failed.append(f"key {k.user_id}: batch result differs from the single-query result")
        # collector model over the same keys with the single-query results as task outcomes
        if not seq_failed or True:
            distinct = []; tag = lambda v: distinct.index(v) if v in distinct else (distinct.append(v) or len(distinct) - 1)
            order = list(range(len(keys_in))); rnd.shuffle(order)
            m = lean.call("c12.batch", {"keys": keys_in, "outcomes": [None if (seq_failed and u == fail_user) else tag(repr(seq.get(u))) for u in keys_in], "order": order})["batch"]
            if "error" in m: failed.append("collector model predicts an error but the batch run returned results")
            elif [[int(k.user_id), tag(repr(_canon(il)))] for k, il in out.items()] != m["ok"]: failed.append("batch output differs from the collector model (keys, order or attribution)")
    except ZeroDivisionError:
        failed.append("empty request collection raises ZeroDivisionError")
        if not reqs: key = "batch run over an empty request collection raises ZeroDivisionError"
    except Exception as e:
        if not seq_failed: failed.append(f"batch raised {type(e).__name__}: {str(e)[:60]}")
    return Outcome(not failed, not failed, tuple(classes), {"failed": failed[:6]}, key)

SPEC = CheckSpec(
    pid="C12", theorems=[f"LK.Batch.C12_Batch_{n}" for n in ["batch_eq_sequential", "failure_surfaces", "sequential_keys", "fanout_eq_map"]], correspondence_ops=["c12.batch"],
    nontrivial_rule="distinct cases reaching ≥1 of: batch / invoker × worker counts, each key form and operation, no keys / tasks, duplicate keys, failing key / task, more tasks than workers, requested lengths None / 0 / 1 / 3 / 50",
    budgets={"quick": 12, "thorough": 170}, gen=gen, run=run, shrink=None)
