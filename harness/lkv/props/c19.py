"""C19 — random selection / stochastic ranking return valid samples; first-position odds follow the weights."""
from __future__ import annotations
import math, random
from fractions import Fraction
import numpy as np
from ..core import CheckSpec, Outcome, Lean, rat

EPS = float(np.finfo("f4").smallest_normal)

class Scripted(np.random.Generator):
    """a Generator whose `uniform` / `choice` outcomes are dictated by the case and whose calls are logged"""
    def __init__(self, us=None, picks=None):
        super().__init__(np.random.PCG64(0)); self.us = us; self.picks = picks; self.calls = []
    def uniform(self, low=0.0, high=1.0, size=None):
        self.calls.append(("uniform", low, high, size))
        if size != len(self.us): raise AssertionError(f"uniform size {size}, eligible {len(self.us)}")
        return np.array(self.us, dtype="f8")
    def choice(self, a, size=None, replace=True, p=None, axis=0, shuffle=True):
        self.calls.append(("choice", int(a), size, replace))
        return np.array(self.picks[: (size if size is not None else 1)], dtype="i8")

def gen(rng: random.Random, tier: str):
    n = {"quick": 800, "thorough": 80000}[tier]
    for k in range(n):
        N = rng.randint(0, 8)
        raw = []
        for _i in range(N):
            c = rng.random()
            raw.append("nan" if c < 0.1 else "inf" if c < 0.14 else "-inf" if c < 0.18 else rng.choice([0.0, 1.0, 2.5, -1.0, 3.0, round(rng.uniform(-3, 5), 3)]))
        mag = rng.choice([1.0, 1.0, 1e-18, 1e-9, 1e6])          # score magnitudes: probabilities, logits, counts …
        raw = [x * mag if isinstance(x, float) else x for x in raw]
        nfin = sum(1 for x in raw if isinstance(x, float))
        yield {"scores": raw, "transform": rng.choice(["linear", None]), "cfg_n": rng.choice([None, -1, 0, 1, 3, 20]),
               "run_n": rng.choice([None, None, -1, 0, 2, 5, 50]), "us": [rng.uniform(1e-6, 1) for _ in range(nfin)],
               "perm": rng.sample(range(N), N), "kind": "stochastic" if k % 4 else "random",
               # the configured scale factor (powers of two, so that scaling is exact in float32 and float64 alike); ≤ 0 is legitimate
               "scale": rng.choice([1.0, 1.0, 1.0, 0.5, 2.0, -1.0, 0.0, -2.0])}
    for _ in range({"quick": 6, "thorough": 60}[tier]):
        yield {"kind": "anonymous", "seed": rng.randrange(10**6), "which": rng.choice(["random", "stochastic", "stochastic-linear"])}
    for which in ("random-fixed-seed", "stochastic-fixed-seed"):          # directed: a component configured with a plain integer seed is one stream, not the same draw again and again
        yield {"kind": "anonymous", "seed": rng.randrange(10**6), "which": which}
    if tier == "thorough":
        yield {"kind": "odds", "weights": [1.0, 2.0, 3.0, 0.5], "draws": 20000, "seed": rng.randrange(10**6)}

def _f(x): return {"nan": math.nan, "inf": math.inf, "-inf": -math.inf}.get(x, x)

def run(case: dict, lean: Lean) -> Outcome:
    from lenskit.data import ItemList
    from lenskit.stochastic import StochasticTopNRanker
    from lenskit.basic.random import RandomSelector
    if case["kind"] == "odds":
        # statistical support for the distributional clause (not a theorem): first-position frequencies vs weight share
        w = case["weights"]; tot = sum(w); first = [0] * len(w)
        rk = StochasticTopNRanker(n=1, transform=None, rng=case["seed"])
        il = ItemList(item_ids=list(range(len(w))), scores=np.array(w))
        for _ in range(case["draws"]): first[int(rk(il).ids()[0])] += 1
        dev = [abs(f / case["draws"] - x / tot) / math.sqrt((x / tot) * (1 - x / tot) / case["draws"]) for f, x in zip(first, w)]
        ok = max(dev) < 6.0          # false-alarm probability ≈ 8e-9 per run
        return Outcome(True, ok, ("first-position odds",), {"first": first, "z": dev}, None)
    if case["kind"] == "anonymous":
        # a component seeded per user serves queries that carry no user identifier: every execution is a new draw
        il = ItemList(item_ids=list(range(100, 108)), scores=np.linspace(0.5, 4.0, 8))
        mk = {"random": lambda: RandomSelector(n=3, rng=(case["seed"], "user")), "stochastic": lambda: StochasticTopNRanker(n=3, rng=(case["seed"], "user")),
              "stochastic-linear": lambda: StochasticTopNRanker(n=3, transform="linear", rng=(case["seed"], "user")),
              "random-fixed-seed": lambda: RandomSelector(n=3, rng=case["seed"]), "stochastic-fixed-seed": lambda: StochasticTopNRanker(n=3, rng=case["seed"])}[case["which"]]
        comp = mk(); outs = [tuple(int(i) for i in comp(il).ids()) for _ in range(40)]
        ok = len(set(outs)) > 1          # 40 identical ordered triples out of 336 have probability < 1e-90 under any of the configured laws
        return Outcome(True, ok, ("repeated calls with a fixed integer seed" if case["which"].endswith("fixed-seed") else "anonymous queries under a user-derived seed",), {"distinct_outcomes": len(set(outs)), "first": list(outs[0])}, None)
    raw = [_f(x) for x in case["scores"]]; N = len(raw)
    fin = [x for x in raw if math.isfinite(x)]
    il = ItemList(item_ids=[10 + i for i in range(N)], scores=np.array(raw, dtype="f8") if N else np.array([], dtype="f8"), tag=[f"t{i}" for i in range(N)])
    failed = []
    if case["kind"] == "random":
        g = Scripted(picks=case["perm"])
        import lenskit.basic.random as _br
        _orig = _br.derivable_rng; _br.derivable_rng = lambda spec: (lambda q=None: g)          # the scripted generator, wherever the component resolves its factory
        try:
            sel = RandomSelector(n=case["cfg_n"])
            try:
                out = sel(il, n=case["run_n"]); real = [int(i) - 10 for i in out.ids()]
            except Exception as e:
                real = "EXC:" + type(e).__name__; out = None
        finally: _br.derivable_rng = _orig
        # length: a non-negative run-time n overrides; None / negative falls back to the configured one (0/None = unlimited)
        rn, cn = case["run_n"], case["cfg_n"]
        # `RandomSelector`: a run-time n (any value) wins; negative means everything; otherwise the configured one (0/None = -1)
        n_eff = rn if rn is not None else (cn if cn not in (None, 0) else -1)
        want_len = N if n_eff < 0 else min(n_eff, N)
        if isinstance(real, str): failed.append(real)
        else:
            if len(real) != want_len: failed.append(f"length {len(real)}, want {want_len}")
            if len(set(real)) != len(real) or any(not (0 <= p < N) for p in real): failed.append("not distinct positions of the input")
            if any(out.field("tag")[k] != f"t{p}" for k, p in enumerate(real)): failed.append("fields not carried with the items")
        spec = not failed
        return Outcome(spec, spec, ("uniform selection", "n above eligible" if n_eff > N else "n within"), {"impl": real, "failed": failed}, None)
    before = il.scores().copy() if N else np.array([])
    g = Scripted(us=case["us"])
    scale = float(case.get("scale", 1.0))
    import lenskit.stochastic._ranker as _sr
    _orig = _sr.derivable_rng; _sr.derivable_rng = lambda spec: (lambda q=None: g)
    try:
        rk = StochasticTopNRanker(n=case["cfg_n"], transform=case["transform"], scale=scale)
        try:
            out = rk(il, n=case["run_n"]); real = [int(i) - 10 for i in out.ids()]
        except Exception as e:
            real = "EXC:" + type(e).__name__; out = None
    finally: _sr.derivable_rng = _orig
    scs = [None if (isinstance(x, float) and math.isnan(x)) else "inf" if x == math.inf else "-inf" if x == -math.inf else rat(x) for x in raw]
    scaled = [x * scale for x in fin]          # the scores every transform starts from
    w = (lean.call("c19.linear", dict(scores=[rat(x) for x in scaled])) if fin else []) if case["transform"] == "linear" else [rat(x) for x in scaled]
    pos = lean.call("c19.rank", dict(scores=scs, nCfg=case["cfg_n"], nRun=case["run_n"], weights=w,
                                     logu=[rat(math.log(u)) for u in case["us"]], eps=rat(EPS)))
    corr = real == pos
    after = il.scores()
    if N and not np.array_equal(before, after, equal_nan=True): failed.append("the candidate list's scores were changed by the ranker")
    if not isinstance(real, str) and len(real) and not np.array_equal(before[np.array(real, dtype="i8")], out.scores(), equal_nan=True):
        failed.append("returned items do not carry their original scores")
    if not isinstance(real, str):
        if len(set(real)) != len(real): failed.append("repeated item")
        if any(not math.isfinite(raw[p]) for p in real): failed.append("item without a finite score selected")
        if len(fin) and not out.ordered: failed.append("result not marked ordered")
        if any(out.field("tag")[k] != f"t{p}" for k, p in enumerate(real)): failed.append("fields not carried with the items")
        rn, cn = case["run_n"], case["cfg_n"]
        n_eff = rn if (rn is not None and rn >= 0) else (cn if cn not in (None, 0) and cn > 0 else -1)
        want_len = len(fin) if (n_eff < 0 or n_eff > len(fin)) else n_eff
        if len(real) != want_len: failed.append(f"length {len(real)}, want {want_len}")
    else: failed.append(real)
    spec = not failed
    classes = ["stochastic:" + str(case["transform"])]
    if not fin: classes.append("no eligible item")
    if len(fin) < N: classes.append("non-finite scores present")
    if fin and max(fin) == min(fin): classes.append("degenerate range")
    if any(x < 0 for x in fin): classes.append("negative scores")
    if fin and 0 < max(abs(x) for x in fin) < 1e-6: classes.append("tiny score magnitudes")
    if fin and max(abs(x) for x in fin) > 1e5: classes.append("large score magnitudes")
    if case["run_n"] is not None and case["run_n"] >= 0: classes.append("run-time n")
    if scale != 1.0: classes.append("scale ≤ 0" if scale <= 0 else "scale ≠ 1")
    return Outcome(corr, spec and corr, tuple(classes), {"impl": real, "model": pos, "failed": failed}, None)

def shrink(case: dict):
    if case.get("kind") in ("stochastic", "random") and "scores" in case:
        for i in range(len(case["scores"])):
            c = dict(case); c["scores"] = case["scores"][:i] + case["scores"][i + 1:]
            nf = sum(1 for x in c["scores"] if isinstance(x, float)); c["us"] = case["us"][:nf]
            c["perm"] = [p for p in case["perm"] if p < len(c["scores"])]; yield c

SPEC = CheckSpec(
    pid="C19",
    theorems=["LK.Stoch.C19_Stochastic_stochasticRank_valid", "LK.Stoch.C19_Stochastic_stochasticRank_length_le", "LK.Stoch.C19_Stochastic_runtime_n_overrides",
              "LK.Stoch.C19_Stochastic2_stochasticRank_length", "LK.Stoch.C19_Stochastic2_randomSelect_valid", "LK.Stoch.C19_Stochastic2_linearWeights_sum",
              "LK.Stoch.C19_Stochastic2_softmaxWeights_sum"],
    correspondence_ops=["c19.rank", "c19.linear"],
    nontrivial_rule="distinct (scores, transform, n, draws) reaching ≥1 of: uniform selection, each transform, no eligible item, non-finite scores, degenerate range, negative scores, run-time n, first-position odds (thorough)",
    budgets={"quick": 800, "thorough": 80000}, gen=gen, run=run, shrink=shrink)
