"""C13 — the configuration document determines the pipeline; the hash is a function of its content only."""
from __future__ import annotations
import hashlib, json, os, random, subprocess, sys, warnings
from ..core import CheckSpec, Outcome, Lean

FUNCS = {"fn_add": ["x", "y"], "fn_neg": ["x"], "fn_first": ["a", "b"], "fn_three": ["x", "y", "z"]}
TYPES = ["int", "str", "float", "None"]

def gen(rng: random.Random, tier: str):
    n = {"quick": 120, "thorough": 4000}[tier]
    for k in range(n):
        nin = rng.randint(1, 3)
        inputs = [{"name": f"in{i}", "types": rng.sample(TYPES, rng.randint(1, 4)) if rng.random() < 0.85 else None} for i in range(nin)]
        nodes = [f"in{i}" for i in range(nin)]; lits = []; comps = []
        for j in range(rng.randint(0, 2)):
            lits.append({"name": f"lit{j}", "value": rng.randint(-5, 5)}); nodes.append(f"lit{j}")
        for j in range(rng.randint(1, 5)):
            kind = rng.choice(list(FUNCS) + ["bias", "pop", "topn", "cls-nocfg", "inst-nocfg", "cls-bias", "opt", "cls-opt", "cls-opt-default"])
            if kind in FUNCS:
                params = FUNCS[kind]
                edges = [[p, rng.choice(nodes)] for p in params if rng.random() < 0.8]
                comps.append({"name": f"c{j}", "kind": kind, "edges": edges, "setting": None})
            elif kind in ("cls-nocfg", "inst-nocfg", "cls-opt-default"):
                comps.append({"name": f"c{j}", "kind": kind, "edges": [["x", rng.choice(nodes)]] if rng.random() < 0.8 else [], "setting": None})
            elif kind in ("opt", "cls-opt"):
                comps.append({"name": f"c{j}", "kind": kind, "edges": [["x", rng.choice(nodes)]] if rng.random() < 0.8 else [], "setting": rng.choice([1, 2, 3])})
            else:
                comps.append({"name": f"c{j}", "kind": kind, "edges": [], "setting": rng.choice([1, 2, 3])})
            nodes.append(f"c{j}")
        defaults = [[rng.choice(["x", "y", "b"]), rng.choice([n for n in nodes if not n.startswith("c")])]] if rng.random() < 0.3 else []
        if k % 6 == 2:
            # directed: one component takes its first parameter (by name) from a default connection and a later one explicitly —
            # the document must list the resolved wiring in one canonical order, as a reload does
            leaves = [n for n in nodes if not n.startswith("c")]
            comps.append({"name": f"c{len(comps)}", "kind": "fn_three", "edges": [["z", rng.choice(leaves)], ["y", rng.choice(leaves)]], "setting": None})
            defaults = [["x", rng.choice(leaves)]]
        if k % 6 == 4:
            # directed: two literal values handed to `connect` directly — whichever is declared first, the configuration is the same
            comps.append({"name": f"c{len(comps)}", "kind": "fn_three", "edges": [["x", {"lit": rng.randint(1, 4)}], ["y", {"lit": rng.randint(5, 9)}]], "setting": None})
        cnames = [c["name"] for c in comps]
        yield {"name": rng.choice([None, "pipe", "αβ pipe"]), "version": rng.choice([None, "1.0"]), "inputs": inputs, "literals": lits, "comps": comps,
               "aliases": [[f"al{i}", rng.choice(cnames)] for i in range(rng.randint(0, 3))],
               # default connections point at inputs / literals only: the builder's cycle check does not follow them
               "defaults": defaults,
               "default": rng.choice([None] + cnames), "decl_seed": rng.randrange(10**6), "subprocess": k % 40 == 0}

def build(case: dict, decl_seed: int | None = None, tweak: str | None = None):
    """construct the builder; `decl_seed` permutes the declaration order of connections and aliases only"""
    from lenskit.pipeline import PipelineBuilder
    from lenskit.basic import BiasScorer, PopScorer
    from lenskit.basic.topn import TopNRanker
    import lkv_components as lc
    ty = {"int": int, "str": str, "float": float, "None": None}
    r = random.Random(decl_seed) if decl_seed is not None else None
    pb = PipelineBuilder(name=(case["name"] + "!" if (tweak == "name" and case["name"]) else ("renamed" if tweak == "name" else case["name"])), version=case["version"])
    h = {}
    for i in case["inputs"]:
        h[i["name"]] = pb.create_input(i["name"], *([ty[t] for t in i["types"]] if i["types"] is not None else []))
    for l in case["literals"]: h[l["name"]] = pb.literal(l["value"], name=l["name"])
    for ci, c in enumerate(case["comps"]):
        s = c["setting"]
        if tweak == "setting" and s is not None and not any(cc["setting"] is not None for cc in case["comps"][:ci]): s = s + 10
        if c["kind"] == "cls-nocfg": h[c["name"]] = pb.add_component(c["name"], lc.NoCfgComp); continue          # a component class, to be instantiated by the pipeline
        if c["kind"] == "cls-opt-default": h[c["name"]] = pb.add_component(c["name"], lc.OptComp); continue          # a configurable class, given no configuration: its defaults
        if c["kind"] == "cls-bias": h[c["name"]] = pb.add_component(c["name"], BiasScorer, {"damping": s}); continue
        # optional settings: an odd setting makes `level` explicitly None (its default is 5)
        if c["kind"] == "cls-opt": h[c["name"]] = pb.add_component(c["name"], lc.OptComp, {"level": None if s % 2 else s, "label": None if s < 3 else "t"}); continue
        if c["kind"] == "opt": h[c["name"]] = pb.add_component(c["name"], lc.OptComp(level=None if s % 2 else s, label=None if s < 3 else "t")); continue
        obj = getattr(lc, c["kind"]) if c["kind"] in FUNCS else {"bias": lambda: BiasScorer(damping=s), "pop": lambda: PopScorer(score=["count", "rank", "quantile"][s % 3]),
                                                                "topn": lambda: TopNRanker(n=s), "inst-nocfg": lambda: lc.NoCfgComp()}[c["kind"]]()
        h[c["name"]] = pb.add_component(c["name"], obj)
    for p, n in case["defaults"]: pb.default_connection(p, h[n])
    for c in case["comps"]:
        edges = list(c["edges"])
        if tweak == "edge" and edges and c is next(cc for cc in case["comps"] if cc["edges"]): edges = edges[:-1]
        if r: r.shuffle(edges)
        if edges: pb.connect(h[c["name"]], **{p: (n["lit"] if isinstance(n, dict) else h[n]) for p, n in edges})          # {"lit": v}: a literal value handed to `connect` directly
    aliases = list(case["aliases"])
    if tweak == "alias": aliases = aliases + [["extra-alias", case["comps"][0]["name"]]]
    if r: r.shuffle(aliases)
    for a, n in dict(aliases).items() if not r else aliases:
        try: pb.alias(a, h[n])
        except Exception: pass
    if case["default"]: pb.default_component(h[case["default"]] if tweak != "default" else h[case["comps"][-1]["name"] if case["default"] != case["comps"][-1]["name"] else case["comps"][0]["name"]])
    return pb

def run(case: dict, lean: Lean) -> Outcome:
    from lenskit.pipeline import PipelineBuilder
    from lenskit.diagnostics import PipelineWarning
    from lkv_components import builder_state
    # duplicate alias names make the case ill-formed (the builder rejects them): keep the first
    case = dict(case); seen = set(); case["aliases"] = [a for a in case["aliases"] if not (a[0] in seen or seen.add(a[0]))]
    pb = build(case)
    from lenskit.diagnostics import PipelineError
    try:
        cfg = pb.build_config(include_hash=False)
    except PipelineError as e:        # e.g. a default connection closing a cycle: the builder rejects the graph, nothing to compare
        return Outcome(True, True, ("rejected graph",), {"rejected": str(e)}, None)
    real = cfg.model_dump_json(exclude_none=True); hash0 = pb.config_hash()
    st = builder_state(pb)
    order = {i.name: (None if i.types is None else list(i.types)) for i in cfg.inputs}     # the iteration order this very set object has
    for i in st["inputs"]: i["types"] = order[i["name"]]
    model = lean.call("c13.canon_json", {**st, "variant": "asIs"}); model_rep = lean.call("c13.canon_json", {**st, "variant": "repaired"})
    if real != model and real == model_rep: model = model_rep          # the code may be in its as-is or its repaired (sorted types) state
    corr = real == model and hashlib.sha256(model.encode()).hexdigest() == hash0
    failed = []; key = None
    if not corr: failed.append("canonical text / hash differ from the model")
    failed_doc = None
    # the document says of every component what the built component actually has
    try:
        pdoc = pb.build()
        for c in case["comps"]:
            comp = getattr(pdoc.node(c["name"]), "component", None); live = getattr(comp, "config", None)
            live = None if live is None else (live.model_dump(mode="json") if hasattr(live, "model_dump") else live)
            doc = cfg.components[c["name"]].config
            if (dict(doc) if doc else {}) != (dict(live) if live else {}): failed_doc = f"document records settings {doc!r} for {c['name']}, the built component has {live!r}"; break
        else: failed_doc = None
    except Exception as e: failed_doc = f"comparing the document with the built components raised {type(e).__name__}"
    if failed_doc: failed.append(failed_doc)
    # round trips: direct, through JSON, clone
    full = pb.build_config()
    for how, doc in (("direct", full), ("json", json.loads(full.model_dump_json()))):
        with warnings.catch_warnings(record=True) as w:
            warnings.simplefilter("always")
            try:
                b2 = PipelineBuilder.from_config(doc)
                if b2.config_hash() != hash0: failed.append(f"{how}: hash changes on reload")
                if (b2.name, b2.version) != (pb.name, pb.version): failed.append(f"{how}: name/version lost")
                p0 = pb.build(); p2 = b2.build()
                for c in case["comps"]:
                    c0 = getattr(p0.node(c["name"]), "component", None); c2 = getattr(p2.node(c["name"]), "component", None)
                    if getattr(c0, "config", None) != getattr(c2, "config", None): failed.append(f"{how}: settings of {c['name']} change on reload: {getattr(c0, 'config', None)!r} -> {getattr(c2, 'config', None)!r}")
                if any(issubclass(x.category, PipelineWarning) for x in w): failed.append(f"{how}: hash-mismatch warning on an untouched document")
            except Exception as e: failed.append(f"{how}: reload raised {type(e).__name__}")
    try:
        pc = pb.build().clone()
        if pc.config_hash != hash0 or (pc.name, pc.version) != (pb.name, pb.version): failed.append("clone: name/version lost or hash changes on reload")
    except Exception as e: failed.append(f"clone raised {type(e).__name__}")
    # the document keeps describing the pipeline it was taken from: after a modifying builder derived from the pipeline has re-pointed one of
    # its connections, the pipeline's document, its hash, and what a clone rebuilds (without a hash-mismatch warning) are what they were
    try:
        P = pb.build(); doc_before = P.config.model_dump_json(exclude_none=True); hash_before = P.config_hash
        mb = P.modify(); moved = None
        srcs = [i.name for i in P.config.inputs] + list(P.config.literals)
        for cname, spec in P.config.components.items():
            for prm, cur in list(spec.inputs.items()):
                alt = next((x for x in srcs if x != cur), None)
                if alt is not None and moved is None:
                    try: mb.connect(cname, **{prm: mb.node(alt)}); moved = (cname, prm, alt)
                    except Exception: pass
        if moved is not None:
            with warnings.catch_warnings(record=True) as w:
                warnings.simplefilter("always")
                if P.config.model_dump_json(exclude_none=True) != doc_before or P.config_hash != hash_before:
                    failed.append(f"the pipeline's document / hash changed after a modifying builder re-pointed {moved[0]}.{moved[1]}")
                c2 = P.clone()
                if c2.config_hash != hash_before: failed.append("clone after a modifying builder was rewired: hash differs from the pipeline's")
                if any(issubclass(x.category, PipelineWarning) for x in w): failed.append("clone after a modifying builder was rewired: hash-mismatch warning")
    except Exception as e: failed.append(f"modify / clone raised {type(e).__name__}")
    # a cloned *builder* describes the same pipeline
    try:
        bc = pb.clone()
        if bc.build_config(include_hash=False).model_dump_json(exclude_none=True) != real: failed.append("builder clone: the clone's configuration differs")
    except Exception as e: failed.append(f"builder clone raised {type(e).__name__}")
    multi = any(i["types"] and len(i["types"]) > 1 for i in case["inputs"])
    if pb.name is None and pb.version is None and multi and failed and all(("hash changes on reload" in f) or ("hash-mismatch warning" in f) for f in failed):
        key = "config hash depends on PYTHONHASHSEED through the input type set"       # the same set rebuilt in another insertion order iterates differently
    if (pb.name is not None or pb.version is not None) and failed and all(("clone: name/version lost" in f) or ("name/version lost" in f) or ("hash changes on reload" in f) or ("hash-mismatch warning" in f) for f in failed):
        key = "from_config drops the pipeline name and version"
    if failed and all(f.startswith("builder clone:") for f in failed) and (pb.name is not None or pb.version is not None):
        key = "PipelineBuilder.clone() drops the pipeline's name and version"
    elif any(c["kind"] == "cls-nocfg" for c in case["comps"]) and failed and not any("name/version lost" in f and "hash" not in f for f in failed) \
            and all(("hash changes on reload" in f) or ("hash-mismatch warning" in f) or ("clone:" in f) for f in failed):
        # established by comparing the documents: the class form writes `config: null`, the reloaded instance `config: {}`
        key = "a component class without a configuration class is written with config null but reloads with config {} (hash changes)"
    # declaration order of connections / aliases is irrelevant; any change of content changes the hash
    if build(case, decl_seed=case["decl_seed"]).config_hash() != hash0: failed.append("hash depends on declaration order")
    tweaks = ["name"] + (["setting"] if any(c["setting"] is not None for c in case["comps"]) else []) + (["edge"] if any(c["edges"] for c in case["comps"]) else []) \
        + ["alias"] + (["default"] if case["default"] and len(case["comps"]) > 1 else [])
    for t in tweaks:
        bt = build(case, tweak=t)
        same_doc = bt.build_config(include_hash=False).model_dump_json(exclude_none=True) == real      # e.g. an edge that the default connection restores
        if (bt.config_hash() == hash0) != same_doc: failed.append(f"hash {'changed' if same_doc else 'unchanged'} after changing the {t}")
        if t in ("name", "alias") and same_doc: failed.append(f"changing the {t} left the document unchanged")
    # the hash is a function of the configuration *as it stands*: a builder that has already produced a document / hash and whose default
    # connection is then re-pointed must describe (and hash) the same pipeline as a builder declared that way from the start
    if case["defaults"]:
        leaves = [i["name"] for i in case["inputs"]] + [l["name"] for l in case["literals"]]
        pn, old_t = case["defaults"][0]
        others = [n for n in leaves if n != old_t]
        if others:
            new_t = others[case["decl_seed"] % len(others)]
            try:
                pb.default_connection(pn, pb.node(new_t))
                fresh = build(dict(case, defaults=[[pn, new_t]] + case["defaults"][1:]))
                d1 = pb.build_config(include_hash=False).model_dump_json(exclude_none=True); d2 = fresh.build_config(include_hash=False).model_dump_json(exclude_none=True)
                if d1 != d2 or pb.config_hash() != fresh.config_hash():
                    failed.append("after re-pointing a default connection the builder's document / hash differ from those of a builder declared that way")
            except PipelineError: pass          # the new target closes a cycle: rejected, nothing to compare
            classes_extra = ["default connection re-pointed after hashing"]
        else: classes_extra = []
    else: classes_extra = []
    # a tampered recorded hash must warn
    bad = full.model_copy(deep=True); bad.meta.hash = "0" * 64
    with warnings.catch_warnings(record=True) as w:
        warnings.simplefilter("always"); PipelineBuilder.from_config(bad)
        if not any(issubclass(x.category, PipelineWarning) for x in w): failed.append("tampered hash loads without warning")
    # other interpreter processes (string-hash randomisation) produce the same hash
    if case.get("subprocess"):
        code = ("import sys, json; sys.path[:0] = json.loads(sys.argv[2]); from lkv.core import quiet_lenskit; quiet_lenskit(); from lkv.props.c13 import build; "
                "print('HASH', build(json.loads(sys.argv[1])).config_hash())")
        hs = set()
        for seed in ("0", "1", "77"):
            p = subprocess.run([sys.executable, "-c", code, json.dumps(case), json.dumps([p for p in sys.path if p])], env=dict(os.environ, PYTHONHASHSEED=seed),
                               capture_output=True, text=True, timeout=120)
            hs.update(l.split()[1] for l in p.stdout.splitlines() if l.startswith("HASH"))
        if hs != {hash0} and hs:
            failed.append(f"hash differs across interpreter processes ({len(hs | {hash0})} values)")
            if all("interpreter processes" in f for f in failed): key = "config hash depends on PYTHONHASHSEED through the input type set"
    classes = []
    if case["name"]: classes.append("named")
    if case["literals"]: classes.append("literals")
    if case["aliases"]: classes.append("aliases")
    if case["defaults"]: classes.append("default connections")
    if any(i["types"] and len(i["types"]) > 1 for i in case["inputs"]): classes.append("multi-type input")
    classes += classes_extra
    if any(c["setting"] is not None for c in case["comps"]): classes.append("configurable component")
    if any(c["kind"] in ("opt", "cls-opt") and c["setting"] % 2 for c in case["comps"]): classes.append("setting explicitly None")
    if case.get("subprocess"): classes.append("other processes")
    return Outcome(corr, not failed, tuple(classes), {"failed": failed, "hash": hash0}, key)

def shrink(case: dict):
    for i in range(len(case["comps"]) - 1, 0, -1):
        used = any(n == case["comps"][i]["name"] for c in case["comps"] for _, n in c["edges"]) or any(n == case["comps"][i]["name"] for _, n in case["aliases"] + case["defaults"]) \
            or case["default"] == case["comps"][i]["name"]
        if not used: c = dict(case); c["comps"] = case["comps"][:i] + case["comps"][i + 1:]; yield c
    if case["aliases"]: c = dict(case); c["aliases"] = []; yield c
    if case["literals"] and not any(isinstance(n, str) and n.startswith("lit") for cc in case["comps"] for _, n in cc["edges"]): c = dict(case); c["literals"] = []; yield c

SPEC = CheckSpec(
    pid="C13",
    theorems=["LK.Cfg.C13_Config_roundtrip", "LK.Cfg.C13_Config_toJson_injective", "LK.Cfg.C13_ConfigOrder_aliases_order_indep", "LK.Cfg.C13_ConfigOrder_edges_order_indep"],
    correspondence_ops=["c13.canon_json"],
    nontrivial_rule="distinct generated graphs reaching ≥1 of: named, literals, aliases, default connections, multi-type input, configurable component, other processes",
    budgets={"quick": 120, "thorough": 4000}, gen=gen, run=run, shrink=shrink)
