"""C06 — ranking metrics equal their definitions; ranges, ideal rankings, swaps."""
from __future__ import annotations
import math, random
from fractions import Fraction
import numpy as np
from ..core import CheckSpec, Outcome, Lean, rat

TOL = 2.0 ** -20
NORMALISED = {"hit", "precision", "recall", "recip", "rbp", "rbpn", "ndcg", "ndcg_gain"}
RANK_SENSITIVE = {"recip", "rbp", "rbpn", "dcg", "ndcg", "dcg_gain", "ndcg_gain"}
DISCOUNTS = {"log2": lambda r: np.log2(r), "log2p1": lambda r: np.log2(r + 1), "rank-int": lambda r: r,
             "ln": lambda r: np.log(r), "sqrt-half": lambda r: np.sqrt(r) / 2}          # the last two take values in (0, 1) at small ranks: clamped to 1

def gen(rng: random.Random, tier: str):
    n = {"quick": 600, "thorough": 20000}[tier]
    for _ in range(n):
        universe = list(range(12))
        L = rng.sample(universe, rng.randint(0, 10))
        T = rng.sample(universe, rng.randint(0, 8))
        yield {"recs": L, "test": T, "gains": [rng.randint(0, 10) / 2 for _ in T], "k": rng.choice([None, None] + list(range(1, 13))),
               "pat": rng.choice(["1/8", "1/2", "7/8", "17/20"]), "disc": rng.choice(["log2", "log2", "log2p1", "rank-int", "ln", "sqrt-half"]),
               # popularity of the 12 universe items in a training dataset (0 = known but never interacted with); the list may also recommend items unknown to it
               "pop_counts": [rng.choice([0, 1, 1, 2, 3, 4]) for _ in universe], "pop_unknown": rng.sample([50, 51, 52], rng.choice([0, 0, 1, 2]))}

def _metrics(k, pat, disc):
    from lenskit.metrics.ranking import Hit, Precision, Recall, RecipRank, RBP, DCG, NDCG
    d = DISCOUNTS[disc]; p = float(Fraction(pat))
    return {"hit": Hit(k), "precision": Precision(k), "recall": Recall(k), "recip": RecipRank(k),
            "rbp": RBP(k, patience=p), "rbpn": RBP(k, patience=p, normalize=True),
            "dcg": DCG(k, discount=d), "ndcg": NDCG(k, discount=d),
            "dcg_gain": DCG(k, discount=d, gain="rating"), "ndcg_gain": NDCG(k, discount=d, gain="rating")}

def _measure(m, L, T, gains):
    from lenskit.data import ItemList
    recs = ItemList(item_ids=np.array(L, dtype=np.int64), ordered=True)
    test = ItemList(item_ids=np.array(T, dtype=np.int64), rating=np.array(gains, dtype=np.float64))
    try:
        with np.errstate(all="ignore"):
            v = float(m.measure_list(recs, test))
        return None if (math.isnan(v) or math.isinf(v)) else v
    except Exception as e:
        return "EXC:" + type(e).__name__

def run(case: dict, lean: Lean) -> Outcome:
    L, T, gains, k, pat, disc = case["recs"], case["test"], case["gains"], case["k"], case["pat"], case["disc"]
    tbl = [rat(float(DISCOUNTS[disc](np.float64(r)))) for r in range(1, 16)]      # the float64 values the code itself sees
    truth = [[i, rat(g)] for i, g in zip(T, gains)]
    ms = _metrics(k, pat, disc)
    corr = True; spec = True; detail = {}; failed = []
    for name, m in ms.items():
        real = _measure(m, L, T, gains)
        model = lean.call("c06.measure", {"metric": name, "k": k, "recs": L, "truth": truth, "disc": tbl, "pat": pat})
        if isinstance(real, str): ok = False
        elif model is None: ok = real is None
        else:
            qf = float(Fraction(model)); ok = real is not None and abs(real - qf) <= TOL * max(1.0, abs(qf))
        detail[name] = {"impl": real, "model": model}
        if not ok: corr = False; failed.append(f"{name}: value differs from definition")
        # consequences, evaluated on the implementation alone
        if isinstance(real, float) and name in NORMALISED and not (-TOL <= real <= 1 + TOL):
            spec = False; failed.append(f"{name}: {real} outside [0, 1]")
    # MeanPopRank against the popularity table of a training dataset, with unknown and never-seen items in the list
    if case.get("pop_counts") and sum(case["pop_counts"]) > 0:
        import pandas as pd
        from lenskit.data import from_interactions_df, DatasetBuilder, ItemList
        from lenskit.metrics.ranking import MeanPopRank
        pc = case["pop_counts"]
        b = DatasetBuilder(from_interactions_df(pd.DataFrame([(1000 + u, i) for i, c in enumerate(pc) for u in range(c)], columns=["user_id", "item_id"])))
        b.add_entities("item", [i for i, c in enumerate(pc) if c == 0], duplicates="update")
        tds = b.build()
        Lp = list(L)
        for j, x in enumerate(case.get("pop_unknown", [])): Lp.insert(min(len(Lp), 2 * j + 1), x)
        try:
            with np.errstate(all="ignore"):
                v = float(MeanPopRank(tds, k).measure_list(ItemList(item_ids=np.array(Lp, dtype=np.int64), ordered=True), ItemList(item_ids=np.array(T, dtype=np.int64))))
            real = None if math.isnan(v) else v
        except Exception as e: real = "EXC:" + type(e).__name__
        model = lean.call("c06.measure", {"metric": "meanpop", "k": k, "recs": Lp, "truth": [], "counts": [[i, c] for i, c in enumerate(pc)]})
        ok = (model is None and real is None) or (isinstance(real, float) and model is not None and abs(real - float(Fraction(model))) <= TOL)
        detail["meanpop"] = {"impl": real, "model": model, "recs": Lp}
        if not ok: corr = False; failed.append("meanpop: value differs from definition (unknown / never-seen items count as 0)")
        if isinstance(real, float) and not (-TOL <= real <= 1 + TOL): spec = False; failed.append(f"meanpop: {real} outside [0, 1]")
    # ideal ranking scores 1 (binary and graded), evaluated on the implementation
    if T:
        order = sorted(range(len(T)), key=lambda j: -gains[j])
        ideal = [T[j] for j in order] + [i for i in range(12) if i not in T][:2]
        for name in ("recall", "rbpn", "ndcg", "ndcg_gain"):
            v = _measure(ms[name], ideal, T, gains)
            if isinstance(v, float) and abs(v - 1.0) > 1e-6:
                spec = False; failed.append(f"{name}: ideal ranking scores {v}")
    # exchanging an irrelevant item with a relevant one ranked below it never lowers a rank-sensitive metric
    rel = [i in T for i in L]
    pairs = [(p, q) for p in range(len(L)) for q in range(p + 1, len(L)) if not rel[p] and rel[q]]
    if pairs:
        p, q = pairs[(len(L) * 7 + len(T)) % len(pairs)]
        S = list(L); S[p], S[q] = S[q], S[p]
        for name in RANK_SENSITIVE:
            a, b = _measure(ms[name], L, T, gains), _measure(ms[name], S, T, gains)
            if isinstance(a, float) and isinstance(b, float) and b < a - 1e-9:
                spec = False; failed.append(f"{name}: swap lowers {a} -> {b}")
    if not corr: spec = spec and all("differs" not in f or True for f in failed)
    classes = []
    if not T: classes.append("empty test")
    if not L: classes.append("empty recommendations")
    if T and not set(T) & set(L): classes.append("disjoint")
    if T and set(T) <= set(L): classes.append("recommendations contain test")
    if k is not None and k < len(L): classes.append("cutoff truncates")
    if k is not None and k < len(T): classes.append("k below |test|")
    if pairs: classes.append("swap available")
    if disc != "log2": classes.append("discount " + disc)
    if any(g == 0 for g in gains): classes.append("zero gain")
    if case.get("pop_unknown"): classes.append("popularity of a list with items unknown to the training data")
    if case.get("pop_counts") and 0 in case["pop_counts"]: classes.append("popularity table with never-seen items")
    key = None
    if not corr and disc == "rank-int" and all(f.split(":")[0] in ("dcg", "ndcg", "dcg_gain", "ndcg_gain") for f in failed):
        key = "DCG with an integer-valued discount function"
    # a value differing from the definition is itself a violation of the property's first clause
    return Outcome(corr, spec and corr, tuple(classes), {"metrics": detail, "failed": failed}, key)

def shrink(case: dict):
    for fld in ("recs", "test"):
        for i in range(len(case[fld])):
            c = dict(case); c[fld] = case[fld][:i] + case[fld][i + 1:]
            if fld == "test": c["gains"] = case["gains"][:i] + case["gains"][i + 1:]
            yield c
    if case["k"] is not None: c = dict(case); c["k"] = None; yield c

SPEC = CheckSpec(
    pid="C06",
    theorems=["LK.Metric.C06_RankMetrics_wsumFrom_swap_mono", "LK.Metric.C06_RankMetrics_ndcg_binary_bounds", "LK.Metric.C06_RankMetrics_recall_bounds",
              "LK.Metric.C06_RankMetrics2_precision_bounds", "LK.Metric.C06_RankMetrics2_hit_values", "LK.Metric.C06_RankMetrics2_recipRank_bounds",
              "LK.Metric.C06_RankMetrics2_firstTrue_spec", "LK.Metric.C06_RankMetrics2_rbp_plain_bounds", "LK.Metric.C06_RankMetrics2_rbp_norm_bounds",
              "LK.Metric.C06_RankMetrics2_ndcg_binary_ideal", "LK.Metric.C06_RankMetrics2_recall_ideal", "LK.Metric.C06_RankMetrics2_rbp_norm_ideal",
              "LK.Metric.C06_RankMetrics2_gains_swap_mono", "LK.Metric.C06_RankMetrics2_gains_replace_mono",
              "LK.Metric.C06_RankMetrics3_ndcg_graded_bounds", "LK.Metric.C06_RankMetrics3_ndcg_graded_ideal"],
    correspondence_ops=["c06.measure"],
    nontrivial_rule="distinct (recs, test, gains, k, patience, discount) reaching ≥1 of: empty test / recs, disjoint, containing, cutoff truncates, k below |test|, swap available, non-default discount, zero gain",
    budgets={"quick": 600, "thorough": 20000}, gen=gen, run=run, shrink=shrink)
