"""C10 — ALS half-steps solve their regularised least-squares problems; FunkSVD follows its update rule bit for bit."""
from __future__ import annotations
import math, random, struct
from fractions import Fraction
import numpy as np
from ..core import CheckSpec, Outcome, Lean, MatLean, rat

_mat = None
def mat():
    global _mat
    if _mat is None: _mat = MatLean()
    return _mat

def bits(x): return struct.unpack("<Q", struct.pack("<d", float(x)))[0]
def unbits(b): return struct.unpack("<d", struct.pack("<Q", int(b)))[0]

def gen(rng: random.Random, tier: str):
    n = {"quick": 30, "thorough": 3000}[tier]
    for k in range(n):
        nu, ni = rng.randint(3, 12), rng.randint(3, 10)
        base_u, base_i = rng.choice([(100, 1000), (0, 0), (0, 1000)])          # zero-based identifiers are identifiers like any other
        rows = [[base_u + u, base_i + i, float(rng.choice([0.5, 1, 2, 3, 3.5, 4, 5]))] for u in range(nu) for i in range(ni) if rng.random() < 0.5]
        if len({r[0] for r in rows}) < 2 or len({r[1] for r in rows}) < 2: continue
        reg = rng.choice([0.01, 0.1, 1.0])
        kind = ["explicit", "implicit", "funksvd"][k % 3]
        yield {"kind": kind, "rows": rows, "nf": rng.randint(2, 4) if kind == "funksvd" and k % 2 else rng.randint(1, 4), "epochs": rng.randint(1, 4), "reg_user": reg, "reg_item": rng.choice([reg, reg * 3]),
               "damping": rng.choice([0, 5]), "weight": rng.choice([1, 10, 40]), "seed": rng.randrange(10**6), "lrate": rng.choice([0.001, 0.01, 0.05]),
               "range": rng.choice([None, [0.5, 5.0], [1.0, 4.0], [2.0, 3.5], [2.0, 3.5]]), "extra_item": rng.random() < 0.3, "extra_user": rng.random() < 0.3}

def _als(case, lean):
    import pandas as pd
    from lenskit.data import from_interactions_df, ItemList, DatasetBuilder
    from lenskit.data.query import RecQuery
    from lenskit.als import BiasedMFScorer, ImplicitMFScorer
    from lenskit.training import TrainingOptions
    explicit = case["kind"] == "explicit"; nf = case["nf"]
    ds = from_interactions_df(pd.DataFrame(case["rows"], columns=["user_id", "item_id", "rating"]))
    if case["extra_item"]:
        b = DatasetBuilder(ds); b.add_entities("item", [99999]); ds = b.build()       # an item nobody interacted with
    if case.get("extra_user"):
        b = DatasetBuilder(ds); b.add_entities("user", [88888]); ds = b.build()       # a user without interactions
    regs = {"user": case["reg_user"], "item": case["reg_item"]}
    if case["reg_user"] == case["reg_item"] and case.get("seed", 0) % 2: regs = case["reg_user"]          # one number for both sides says the same thing
    m = (BiasedMFScorer(embedding_size=nf, epochs=case["epochs"], regularization=regs, damping=case["damping"]) if explicit
         else ImplicitMFScorer(embedding_size=nf, epochs=case["epochs"], regularization=regs, weight=case["weight"], use_ratings=False))
    # observe the training from inside: the initial matrices and the state around every half-step
    init = []; steps = []
    orig_init, orig_half = m.initial_params, m.als_half_epoch
    def spy_init(nrows, ncols, rng_): t = orig_init(nrows, ncols, rng_); init.append(t.clone().numpy().astype("f8")); return t
    def spy_half(epoch, ctx):
        other = ctx.right.clone().numpy().astype("f8"); d = orig_half(epoch, ctx)
        steps.append({"side": ctx.label, "epoch": epoch, "left": ctx.left.clone().numpy().astype("f8"), "other": other}); return d
    m.initial_params = spy_init; m.als_half_epoch = spy_half
    m.train(ds, TrainingOptions(rng=case["seed"]))
    U = m.user_features_.numpy().astype("f8"); I = m.item_features_.numpy().astype("f8")
    R = ds.interactions().matrix().scipy(attribute="rating", layout="csr").toarray(); Mk = ds.interactions().matrix().scipy(layout="csr").toarray() > 0
    failed = []; worst = 0.0
    if explicit:
        bm = m.bias_; resid = R - bm.global_bias - bm.item_biases[None, :] - bm.user_biases[:, None]
    for i in range(I.shape[0]):
        us = np.where(Mk[:, i])[0]
        if len(us) == 0: continue            # rows without data are not updated (they keep their previous values, checked below)
        if explicit:
            out = mat().call("c10.explicit", dict(M=[[rat(v) for v in U[u]] for u in us], r=[rat(resid[u, i]) for u in us], c=rat(case["reg_item"] * len(us)), x=[rat(v) for v in I[i]]))
            scale = max(1.0, float(np.abs(U[us]).max()) ** 2 * len(us))
        else:
            w = case["weight"]
            out = mat().call("c10.implicit", dict(Y=[[rat(v) for v in row] for row in U], p=[rat(1.0 if Mk[u, i] else 0.0) for u in range(U.shape[0])],
                                                  w=[rat(1.0 + w * (1.0 if Mk[u, i] else 0.0)) for u in range(U.shape[0])], c=rat(case["reg_item"]), x=[rat(v) for v in I[i]]))
            scale = max(1.0, float(np.abs(U).max()) ** 2 * U.shape[0] * (1 + w))
        r = max(abs(float(Fraction(v))) for v in out["resid"]) / scale; worst = max(worst, r)
        if r > 1e-5: failed.append(f"item row {i}: normal-equation residual {r:.2e}")
    # the user side, after the last user half-step, solves its system against the item matrix of that moment
    ust = [st for st in steps if st["side"] == "user"]
    if ust:
        Uh, Iprev = ust[-1]["left"], ust[-1]["other"]
        for u in range(Uh.shape[0]):
            its = np.where(Mk[u, :])[0]
            if len(its) == 0: continue
            if explicit:
                out = mat().call("c10.explicit", dict(M=[[rat(v) for v in Iprev[i]] for i in its], r=[rat(resid[u, i]) for i in its], c=rat(case["reg_user"] * len(its)), x=[rat(v) for v in Uh[u]]))
                scale = max(1.0, float(np.abs(Iprev[its]).max()) ** 2 * len(its))
            else:
                w = case["weight"]
                out = mat().call("c10.implicit", dict(Y=[[rat(v) for v in row] for row in Iprev], p=[rat(1.0 if Mk[u, i] else 0.0) for i in range(Iprev.shape[0])],
                                                      w=[rat(1.0 + w * (1.0 if Mk[u, i] else 0.0)) for i in range(Iprev.shape[0])], c=rat(case["reg_user"]), x=[rat(v) for v in Uh[u]]))
                scale = max(1.0, float(np.abs(Iprev).max()) ** 2 * Iprev.shape[0] * (1 + w))
            r = max(abs(float(Fraction(v))) for v in out["resid"]) / scale; worst = max(worst, r)
            if r > 1e-5: failed.append(f"user row {u}: normal-equation residual {r:.2e} after the last user half-step")
    # rows without data keep their previous values through every half-step (i.e. their initial embedding)
    keys = []
    if len(init) == 2:
        I0, U0 = init
        for side, mat_now, mat0, active in (("item", I, I0, Mk.any(axis=0)), ("user", U, U0, Mk.any(axis=1))):
            for k in np.where(~active)[0]:
                if not np.array_equal(mat_now[k], mat0[k]):
                    failed.append(f"{side} row {k} has no data but changed from {mat0[k].round(3).tolist()} to {mat_now[k].round(3).tolist()}")
                    keys.append("ALS rows without data are overwritten (with zeros) instead of keeping their previous values")
    # scores are dot products plus the applicable biases
    items = ItemList(item_ids=list(ds.items.ids()))
    for un, uid in enumerate(ds.users.ids()):
        sc = m(RecQuery(user_id=uid), items).scores()
        for t in range(len(items)):
            want = float(U[un] @ I[t]) + (float(bm.global_bias + bm.item_biases[t] + bm.user_biases[un]) if explicit else 0.0)
            if not math.isnan(sc[t]) and abs(float(sc[t]) - want) > 1e-4 * max(1, abs(want)): failed.append(f"score(user {uid}, item {t}) = {sc[t]}, dot + biases = {want}"); break
    classes = ["als-" + case["kind"]]
    # fold-in: the embedding for a supplied history is the solution of that history's system; the same list is presented twice
    # (a component must not alter the history it is given) and in every array form a caller may use
    import torch
    frnd = random.Random(case["seed"] + 7)
    known = [int(x) for x in ds.items.ids() if Mk[:, ds.items.number(x)].any()]
    hi = frnd.sample(known, min(len(known), frnd.randint(2, 4))); unk = frnd.random() < 0.3
    hr = [float(frnd.choice([0.5, 1, 2, 3, 4.5, 5])) for _ in hi] + ([3.0] if unk else [])
    hids = hi + ([424242] if unk else [])
    form = case.get("hist_form") or ["list", "np32", "np64", "t32", "t64"][case["seed"] % 5]
    rating_in = {"list": lambda: list(hr), "np32": lambda: np.array(hr, dtype="f4"), "np64": lambda: np.array(hr, dtype="f8"),
                 "t32": lambda: torch.tensor(hr, dtype=torch.float32), "t64": lambda: torch.tensor(hr, dtype=torch.float64)}[form]()
    hist = ItemList(item_ids=hids, rating=rating_in)
    classes.append("fold-in history as " + form)
    if unk: classes.append("fold-in history with an unknown item")
    cap = []; orig_nue = m.new_user_embedding
    def spy_nue(user_num, il): out = orig_nue(user_num, il); cap.append(out); return out
    m.new_user_embedding = spy_nue
    quser = frnd.choice([None, int(ds.users.ids()[0]), 777777])
    def fold_resid(Ic, bmc, uf):
        """relative residual of the history's normal equations (over the item matrix `Ic` and bias model `bmc` in force) at `uf`"""
        ref = ItemList(item_ids=hids, rating=np.array(hr, dtype="f8"))
        kn = [k for k, i in enumerate(hids) if i != 424242]; rows_i = [ds.items.number(hids[k]) for k in kn]
        if explicit:
            hb, ubr = bmc.compute_for_items(ref, None, ref)
            out = mat().call("c10.explicit", dict(M=[[rat(v) for v in Ic[t]] for t in rows_i], r=[rat(hr[k] - float(hb[k])) for k in kn], c=rat(case["reg_user"] * len(kn)), x=[rat(v) for v in uf]))
            scale = max(1.0, float(np.abs(Ic[rows_i]).max()) ** 2 * len(kn))
        else:
            w = case["weight"]; inh = set(rows_i)
            out = mat().call("c10.implicit", dict(Y=[[rat(v) for v in row] for row in Ic], p=[rat(1.0 if t in inh else 0.0) for t in range(Ic.shape[0])],
                                                  w=[rat(1.0 + w * (1.0 if t in inh else 0.0)) for t in range(Ic.shape[0])], c=rat(case["reg_user"]), x=[rat(v) for v in uf]))
            scale = max(1.0, float(np.abs(Ic).max()) ** 2 * Ic.shape[0] * (1 + w)); ubr = None
        return max(abs(float(Fraction(v))) for v in out["resid"]) / scale, ubr
    for rep in range(2):
        cap.clear()
        fsc = m(RecQuery(user_id=quser, user_items=hist), items).scores()
        now = [float(x) for x in np.asarray(hist.field("rating"))]
        if now != hr or [int(x) for x in hist.ids()] != hids:
            failed.append(f"presentation {rep + 1}: the supplied history was altered ({hr} -> {now})"); break
        if not cap: failed.append("no embedding was folded in for the supplied history"); break
        uf = cap[0][0].numpy().astype("f8"); ub = cap[0][1]
        r, ub_ref = fold_resid(I, bm if explicit else None, uf); worst = max(worst, r)
        if r > 1e-5: failed.append(f"presentation {rep + 1}: folded-in embedding misses its normal equations by {r:.2e} (history as {form})")
        for t in range(len(items)):
            want = float(uf @ I[t]) + (float(bm.global_bias + bm.item_biases[t] + (ub_ref or 0.0)) if explicit else 0.0)
            if not math.isnan(fsc[t]) and abs(float(fsc[t]) - want) > 1e-4 * max(1, abs(want)): failed.append(f"presentation {rep + 1}: fold-in score of item {t} = {fsc[t]}, dot + biases = {want}"); break
    # the same scorer trained again (another seed, so other item embeddings) and asked to fold the same history in: the embedding solves
    # the system over the embeddings the scorer has NOW — nothing kept from the first training takes part
    if not failed:
        m.initial_params = orig_init; m.als_half_epoch = orig_half
        m.train(ds, TrainingOptions(rng=case["seed"] + 1))
        I2 = m.item_features_.numpy().astype("f8"); cap.clear()
        m(RecQuery(user_id=quser, user_items=hist), items)
        if not cap: failed.append("after retraining: no embedding was folded in for the supplied history")
        else:
            r2, _ = fold_resid(I2, m.bias_ if explicit else None, cap[0][0].numpy().astype("f8")); worst = max(worst, r2)
            if r2 > 1e-5: failed.append(f"after retraining: folded-in embedding misses the normal equations of the retrained model by {r2:.2e}")
        classes.append("fold-in after retraining")
    m.new_user_embedding = orig_nue
    if case["reg_user"] != case["reg_item"]: classes.append("per-side regularisation")
    if case["extra_item"]: classes.append("item without data")
    if case.get("extra_user"): classes.append("user without data")
    return True, failed, classes, {"max_relative_residual": worst, "half_steps_observed": len(steps), "keys": sorted(set(keys))}

def _funk(case, lean):
    import pandas as pd
    import lenskit.funksvd as fs
    from lenskit.data import from_interactions_df
    from lenskit.training import TrainingOptions
    cap = {}; orig = fs.train
    def spy(ctx, params, model, timer):
        cap.update(users=np.array(ctx.users).tolist(), items=np.array(ctx.items).tolist(), ratings=np.array(ctx.ratings).tolist(), bias=np.array(ctx.bias).tolist(),
                   iters=int(params.iter_count), lrate=float(params.lrate), reg=float(params.reg_term), rmin=float(params.rmin), rmax=float(params.rmax),
                   init=float(model.initial_value), nUsers=int(model.user_count), nItems=int(model.item_count), nf=int(model.feature_count))
        return orig(ctx, params, model, timer)
    fs.train = spy
    try:
        ds = from_interactions_df(pd.DataFrame(case["rows"], columns=["user_id", "item_id", "rating"]))
        m = fs.FunkSVDScorer(features=case["nf"], epochs=case["epochs"], learning_rate=case["lrate"], regularization=case["reg_user"], damping=case["damping"],
                             range=tuple(case["range"]) if case["range"] else None)
        m.train(ds, TrainingOptions(rng=case["seed"]))
    finally:
        fs.train = orig
    c = cap
    out = lean.call("c10.funksvd", dict(users=c["users"], items=c["items"], ratings=[bits(x) for x in c["ratings"]], bias=[bits(x) for x in c["bias"]], iters=c["iters"],
                                        lrate=bits(c["lrate"]), reg=bits(c["reg"]), rmin=bits(c["rmin"]), rmax=bits(c["rmax"]), init=bits(c["init"]),
                                        nUsers=c["nUsers"], nItems=c["nItems"], nf=c["nf"]))
    failed = []; worst = 0.0; ident = 0; cells = 0
    for real, mod in ((m.user_features_.ravel(), out["umat"]), (m.item_features_.ravel(), out["imat"])):
        for r, b in zip(real, mod):
            v = unbits(b); cells += 1; ident += bits(r) == int(b)
            rel = abs(r - v) / max(1.0, abs(r)); worst = max(worst, rel)
            if not rel <= 1e-9: failed.append(f"embedding cell {r} vs documented update rule {v}")
    # scores: embedding dot product plus the bias terms (the range clamps the training estimates only) — for every trained user (identifiers here start at 0: a user id is never a truth value)
    from lenskit.data import ItemList
    from lenskit.data.query import RecQuery
    Uf, If = np.asarray(m.user_features_, dtype="f8"), np.asarray(m.item_features_, dtype="f8"); bmf = m.bias_
    cand = ItemList(item_ids=[int(x) for x in ds.items.ids()])
    for u in ds.users.ids():
        un = ds.users.number(u); scf = m(RecQuery(user_id=u), cand).scores()
        for t in range(len(cand)):
            want = float(Uf[un] @ If[t]) + float(bmf.global_bias + bmf.item_biases[t] + bmf.user_biases[un])
            if math.isnan(scf[t]) or abs(float(scf[t]) - want) > 1e-4 * max(1, abs(want)): failed.append(f"score(user {u}, item {t}) = {scf[t]}, dot + biases = {want}"); break
    classes = ["funksvd"] + (["clamped range"] if case["range"] else [])
    return not failed, failed, classes, {"cells": cells, "bit_identical": ident, "max_rel": worst}

def run(case: dict, lean: Lean) -> Outcome:
    corr, failed, classes, info = (_funk if case["kind"] == "funksvd" else _als)(case, lean)
    ks = info.pop("keys", [])
    fk = tuple(ks) if (ks and failed and all("has no data but changed" in f for f in failed)) else None
    return Outcome(corr, not failed, tuple(classes), {"failed": failed[:6], **info}, fk)

def shrink(case: dict):
    for i in range(len(case["rows"])):
        c = dict(case); c["rows"] = case["rows"][:i] + case["rows"][i + 1:]
        if len({r[0] for r in c["rows"]}) >= 2 and len({r[1] for r in c["rows"]}) >= 2: yield c

SPEC = CheckSpec(
    pid="C10",
    theorems=["LK.NormalEq.C10_NormalEq_normalEq_isMin", "LK.NormalEq.C10_NormalEq_normalEq_unique_min", "LK.NormalEq.C10_NormalEq_resid_zero_iff",
              "LK.NormalEqW.C10_NormalEqW_normalEq_isMin", "LK.NormalEqW.C10_NormalEqW_normalEq_unique_min", "LK.NormalEqW.C10_NormalEqW_resid_zero_iff",
              "LK.NormalEqW.C10_NormalEqW_implicit_split", "LK.Funk.C10_FunkSVD_trainFeature_frozen"],
    correspondence_ops=["c10.explicit", "c10.implicit", "c10.funksvd"],
    nontrivial_rule="distinct trainings reaching ≥1 of: explicit / implicit ALS, per-side regularisation, item without data, fold-in histories in five array forms (with an unknown item), FunkSVD (clamped range), zero-based identifiers",
    budgets={"quick": 30, "thorough": 3000}, gen=gen, run=run, shrink=shrink)
