"""C18 — retrain=False is the identity; retraining equals a fresh component trained on the new data; pipelines train each part once."""
from __future__ import annotations
import os, pickle, random
os.environ.setdefault("TQDM_DISABLE", "1")          # the implicit library draws progress bars on stderr
import numpy as np
from ..core import CheckSpec, Outcome, Lean

COMPS = ["bias", "pop", "known", "cand", "hist", "iknn", "uknn", "als", "ials", "funk", "bsvd", "flex-e", "flex-i", "imp-als", "imp-bpr", "pipeline"]
SKIP_ATTRS = ("_timer", "logger", "_log", "config", "delegate")          # (`delegate`: the third-party model object of the implicit bridge; its embeddings are copied onto the component)

def _make(name):
    from lenskit.basic import BiasScorer, PopScorer, UnratedTrainingItemsCandidateSelector, UserTrainingHistoryLookup
    from lenskit.basic.history import KnownRatingScorer
    from lenskit.knn import ItemKNNScorer, UserKNNScorer
    from lenskit.als import BiasedMFScorer, ImplicitMFScorer
    from lenskit.funksvd import FunkSVDScorer
    from lenskit.sklearn.svd import BiasedSVDScorer
    from lenskit.flexmf import FlexMFExplicitScorer, FlexMFImplicitScorer
    return {"bias": lambda: BiasScorer(damping=2), "pop": lambda: PopScorer(), "known": lambda: KnownRatingScorer(), "cand": lambda: UnratedTrainingItemsCandidateSelector(),
            "hist": lambda: UserTrainingHistoryLookup(), "iknn": lambda: ItemKNNScorer(max_nbrs=3, min_nbrs=1), "uknn": lambda: UserKNNScorer(max_nbrs=3, min_nbrs=1),
            "als": lambda: BiasedMFScorer(embedding_size=3, epochs=2), "ials": lambda: ImplicitMFScorer(embedding_size=3, epochs=2), "funk": lambda: FunkSVDScorer(features=2, epochs=2),
            "imp-als": lambda: __import__("lenskit.implicit", fromlist=["ALS"]).ALS(factors=4, iterations=2, random_state=42, num_threads=1, use_gpu=False),
            "imp-bpr": lambda: __import__("lenskit.implicit", fromlist=["BPR"]).BPR(factors=4, iterations=3, random_state=42, num_threads=1, use_gpu=False),
            "bsvd": lambda: BiasedSVDScorer(embedding_size=2), "flex-e": lambda: FlexMFExplicitScorer(embedding_size=2, epochs=1), "flex-i": lambda: FlexMFImplicitScorer(embedding_size=2, epochs=1)}[name]()

import torch
import scipy.sparse as sps
from lenskit.data import Vocabulary
def snap(obj, depth=0, seen=None):
    """canonical deep snapshot of learned state"""
    seen = seen if seen is not None else set()
    if id(obj) in seen or depth > 6: return "<cycle>"
    if isinstance(obj, (int, float, str, bool, type(None))): return obj
    if isinstance(obj, np.ndarray): return ("nd", obj.shape, obj.dtype.str, obj.tobytes())
    if isinstance(obj, torch.Tensor):
        t = obj.detach().cpu()
        if t.is_sparse or t.layout != torch.strided: t = t.to_dense()
        return ("tt", tuple(t.shape), str(t.dtype), t.numpy().tobytes())
    if sps.issparse(obj): return ("sp", obj.shape, obj.toarray().tobytes())
    if isinstance(obj, Vocabulary): return ("vocab", tuple(obj.ids().tolist()))
    if isinstance(obj, (list, tuple)): return tuple(snap(x, depth + 1, seen) for x in obj)
    if isinstance(obj, dict): return tuple(sorted((str(k), snap(v, depth + 1, seen)) for k, v in obj.items()))
    if isinstance(obj, torch.nn.Module): return tuple(sorted((k, snap(v, depth + 1, seen)) for k, v in obj.state_dict().items() if not k.startswith(("u_bias", "i_bias"))))
    if hasattr(obj, "__dict__"):
        seen.add(id(obj))
        return (type(obj).__name__, tuple(sorted((k, snap(v, depth + 1, seen)) for k, v in vars(obj).items() if k not in SKIP_ATTRS and not (k in ("u_bias", "i_bias")))))
    try: return ("pkl", pickle.dumps(obj))
    except Exception: return ("repr", type(obj).__name__)


def gen(rng: random.Random, tier: str):
    reps = {"quick": 1, "thorough": 80}[tier]
    for _ in range(reps):
        for name in COMPS:
            yield {"comp": name, "seed": rng.randrange(10**6), "steps": [rng.choice(["retrain", "skip", "retrain", "skip"]) for _ in range(rng.randint(2, 3))],
                   "same_shape": name.startswith("imp-") or rng.random() < 0.4}
    for _ in range({"quick": 12, "thorough": 1500}[tier]):
        yield {"comp": "pipeline", "seed": rng.randrange(10**6), "steps": []}

def _data(rnd, u0, nu, i0, ni, full=False):
    import pandas as pd
    from lenskit.data import from_interactions_df
    pairs = {(u, i) for u in range(nu) for i in range(ni) if rnd.random() < 0.5}
    if full: pairs |= {(u, u % ni) for u in range(nu)} | {(i % nu, i) for i in range(ni)}          # every user and every item occurs: the shape is exactly nu × ni
    rows = [(u0 + u, i0 + i, float(rnd.choice([1, 2, 3, 4, 5]))) for u, i in sorted(pairs)]
    return from_interactions_df(pd.DataFrame(rows, columns=["user_id", "item_id", "rating"]))

def run(case: dict, lean: Lean) -> Outcome:
    from lenskit.training import TrainingOptions, Trainable
    rnd = random.Random(case["seed"]); failed = []; keys = set(); classes = {"component:" + case["comp"]}
    if case["comp"] == "pipeline":
        from lenskit.pipeline import PipelineBuilder
        from lenskit.data import ItemList
        from lkv_components import RecordingTrainable as Rec
        from lkv_components import fn_ident_items
        kinds = []
        def build():
            b = PipelineBuilder(); prev = b.create_input("items", ItemList); cs = []; kinds.clear()
            for k in range(rnd.randint(2, 6)):
                if rnd.random() < 0.3: prev = b.add_component(f"c{k}", fn_ident_items, items=prev); kinds.append(False)     # a component that cannot be trained
                else: c = Rec(); cs.append(c); prev = b.add_component(f"c{k}", c, items=prev); kinds.append(True)
            return b.build(), cs
        st = rnd.getstate(); p, cs = build(); rnd.setstate(st); p2, cs2 = build()
        d = _data(rnd, 100, 6, 1000, 6); seed = rnd.choice([0, 0, 1, rnd.randrange(10**6), rnd.randrange(10**6)])      # 0 is a seed like any other
        opts0 = TrainingOptions(rng=seed)          # kept: a later call may be handed this very object again
        p.train(d, opts0); p2.train(d, TrainingOptions(rng=seed))
        # the model of the training loop: which nodes are trained, and the spawn key of the seed each one receives
        log = lean.call("c18.train_all", {"nodes": [[k, t] for k, t in enumerate(kinds)], "seeded": True})
        want = [int(np.random.default_rng(np.random.SeedSequence(seed, spawn_key=tuple(e["spawn_key"]))).integers(1 << 30)) for e in log]
        if [e["node"] for e in log] != [k for k, t in enumerate(kinds) if t] or [c.calls[0][0] if c.calls else None for c in cs] != want:
            failed.append("components did not receive the seeds the training-loop model derives (parent seed spawned once per trainable component, in node order)")
        if not cs: return Outcome(not failed, not failed, ("pipeline training", "no trainable component"), {"failed": failed}, None)
        if any(len(c.calls) != 1 for c in cs): failed.append("a trainable component was not trained exactly once")
        if len({c.calls[0][0] for c in cs}) != len(cs): failed.append("components received the same derived seed")
        if [c.calls for c in cs] != [c.calls for c in cs2]: failed.append("pipeline training with one seed is not repeatable")
        if any(c.calls[0][1] != d.interaction_count for c in cs): failed.append("a component was trained on other data")
        # further `Pipeline.train` calls with either setting of `retrain`, any kind of seed and other data: every component's state must
        # come from the call the pipeline-training model says (skip = untouched, retrain = the new data and the seed spawned for it)
        import numpy as _np
        more = [(rnd.choice([True, False, False]), rnd.choice(["none", "int", "int0", "seq", "gen", "reuse"])) for _ in range(rnd.randint(1, 3))]
        more = [(True, sk) if sk == "reuse" else (rt, sk) for rt, sk in more]          # the first call's options object again (its retrain flag is the default, True)
        dsets = [d] + [_data(rnd, 100 + 3 * j, 5 + j, 1000 + j, 6) for j in range(1, len(more) + 1)]
        msteps = [[0, True, True]]; seeds_used = [seed]
        for j, (rt, sk) in enumerate(more, start=1):
            sv = {"none": None, "int": rnd.randrange(1, 10**6), "int0": 0, "seq": _np.random.SeedSequence(rnd.randrange(10**6)), "gen": _np.random.default_rng(rnd.randrange(10**6)), "reuse": seed}[sk]
            seeds_used.append(sv.entropy if sk == "seq" else sv)
            p.train(dsets[j], opts0 if sk == "reuse" else TrainingOptions(rng=sv, retrain=rt))          # a seed is a value: the same object means the same seed, from its start
            msteps.append([j, rt, sk in ("int", "int0", "seq", "reuse")])
        classes_p = ["pipeline training", "repeated pipeline training"] + sorted({("retrain" if rt else "skip") + " with seed kind " + sk for rt, sk in more})
        mstates = lean.call("c18.pipe", {"nodes": [[k, t] for k, t in enumerate(kinds)], "steps": msteps})[-1]
        ti = 0
        for k, t in enumerate(kinds):
            if not t: continue
            c = cs[ti]; ti += 1; origin = mstates[k]
            dj, key_ = origin
            last = c.calls[-1]
            if last[1] != dsets[dj].interaction_count and len({x.interaction_count for x in dsets}) == len(dsets):
                failed.append(f"component c{k}: state comes from a training on {last[1]} interactions, the model says dataset #{dj} ({dsets[dj].interaction_count})")
            if key_ is not None:
                wantd = int(_np.random.default_rng(_np.random.SeedSequence(seeds_used[dj], spawn_key=tuple(key_))).integers(1 << 30))
                if last[0] != wantd: failed.append(f"component c{k}: state was learned with another seed than the one derived for it in training call #{dj}")
            if len(c.seen) != len(msteps): failed.append(f"component c{k} saw {len(c.seen)} training calls, the pipeline was trained {len(msteps)} times")
            elif [r for r, _ in c.seen[1:]] != [rt for rt, _ in more]: failed.append(f"component c{k}: the retrain flag did not reach the component as given: {[r for r, _ in c.seen[1:]]} vs {[rt for rt, _ in more]}")
        return Outcome(not failed, not failed, tuple(classes_p), {"failed": failed}, None)
    if case.get("same_shape"):
        # other users, other items, the same numbers of both: nothing about the shapes tells a component that the data changed
        d = [_data(rnd, 100, 9, 1000, 8, full=True), _data(rnd, 300, 9, 2000, 8, full=True), _data(rnd, 500, 9, 3000, 8, full=True)]
        classes.add("datasets of one shape")
    else: d = [_data(rnd, 100, 10, 1000, 9), _data(rnd, 105, 8, 1004, 11), _data(rnd, 90, 7, 990, 8)]
    a = _make(case["comp"]); cur = 0; a.train(d[0], TrainingOptions(rng=5)); state = snap(a)
    # the guard model: which dataset the component's state must come from after every step
    msteps = [[0, True]]; c0 = 0
    for k, st in enumerate(case["steps"]):
        nx = (c0 + 1 + k) % 3; msteps.append([nx, st != "skip"]); c0 = nx if st != "skip" else c0
    origin = lean.call("c18.guard", {"steps": msteps})
    fresh_state = {}
    def probe(c, dset):
        """what the component answers on the dataset it should now reflect (also exercises any lazily built cache)"""
        from lenskit.data import ItemList
        from lenskit.data.query import RecQuery
        u = int(dset.users.ids()[0]); items = ItemList(item_ids=[int(i) for i in dset.items.ids()] + [424242])
        q = RecQuery(user_id=u, user_items=dset.user_row(u))
        try:
            if case["comp"] == "pop": o = c(items)
            elif case["comp"] == "cand": o = c(q)
            elif case["comp"] == "hist": o = c(q).user_items
            else: o = c(q, items)
            sc = o.scores()
            return ([int(i) for i in o.ids()], None if sc is None else [None if x != x else round(float(x), 5) for x in sc])
        except Exception as e: return "EXC:" + type(e).__name__
    probe(a, d[0])                      # the component is put to use before it is trained again
    for k, st in enumerate(case["steps"]):
        nxt = (cur + 1 + k) % 3; classes.add("step:" + st)
        if origin[k + 1] != (cur if st == "skip" else nxt): failed.append("harness and guard model disagree about the data a state comes from"); keys.add("?guard-model")
        if st == "skip":
            a.train(d[nxt], TrainingOptions(rng=6 + k, retrain=False))
            if snap(a) != state: failed.append(f"step {k}: retrain=False changed the trained model"); keys.add("?skip")
            probe(a, d[cur]); state = snap(a)
        else:
            a.train(d[nxt], TrainingOptions(rng=6 + k, retrain=True)); state = snap(a); cur = nxt
            b = _make(case["comp"]); b.train(d[nxt], TrainingOptions(rng=6 + k))
            if snap(b) != state:
                c = _make(case["comp"]); c.train(d[nxt], TrainingOptions(rng=6 + k))
                if snap(c) != snap(b):
                    failed.append(f"step {k}: two fresh trainings with one seed differ (not reproducible)")
                    keys.add("BiasedSVDScorer ignores the training seed" if case["comp"] == "bsvd" else "?nondeterministic " + case["comp"])
                else:
                    failed.append(f"step {k}: retrained model differs from a fresh one trained on the same data"); keys.add("?stale state " + case["comp"])
            pa, pb = probe(a, d[nxt]), probe(b, d[nxt])
            if pa != pb: failed.append(f"step {k}: after retraining the component answers {str(pa)[:120]}, a fresh one {str(pb)[:120]}"); keys.add("?stale behaviour " + case["comp"])
            state = snap(a)
    return Outcome(not failed, not failed, tuple(sorted(classes)), {"failed": failed[:6]}, tuple(sorted(keys)) if keys else None)

SPEC = CheckSpec(
    pid="C18", theorems=[f"LK.Train.C18_Train_{n}" for n in ["skip_is_identity", "retrain_eq_fresh", "trained_once", "seeds_distinct", "pipe_skip_is_identity", "pipe_retrain_eq_fresh"]], correspondence_ops=["c18.train_all", "c18.guard", "c18.pipe"],
    nontrivial_rule="distinct (component, training sequence) reaching ≥1 of: each trainable component, skip / retrain steps, pipeline training, repeated pipeline training with retrain on / off × seed kinds (none, int, 0, SeedSequence, Generator)",
    budgets={"quick": 14, "thorough": 2600}, gen=gen, run=run, shrink=None)
