"""C04 — every scorer returns its input items, in order, one score each; a score depends only on (query, item)."""
from __future__ import annotations
import math, random
import numpy as np
from fractions import Fraction
from ..core import CheckSpec, Outcome, Lean, rat

SCORERS = ["bias", "pop", "known", "iknn", "iknn-imp", "uknn", "uknn-imp", "als", "ials", "ials-ratings", "funk", "bsvd", "flex-e", "flex-i"]

def _make(name):
    from lenskit.basic import BiasScorer, PopScorer
    from lenskit.basic.history import KnownRatingScorer
    from lenskit.knn import ItemKNNScorer, UserKNNScorer
    from lenskit.als import BiasedMFScorer, ImplicitMFScorer
    from lenskit.funksvd import FunkSVDScorer
    from lenskit.sklearn.svd import BiasedSVDScorer
    from lenskit.flexmf import FlexMFExplicitScorer, FlexMFImplicitScorer
    return {"bias": lambda: BiasScorer(damping=2), "pop": lambda: PopScorer(), "known": lambda: KnownRatingScorer(),
            "iknn": lambda: ItemKNNScorer(max_nbrs=3, min_nbrs=1), "iknn-imp": lambda: ItemKNNScorer(max_nbrs=3, feedback="implicit"),
            "uknn": lambda: UserKNNScorer(max_nbrs=3, min_nbrs=1), "uknn-imp": lambda: UserKNNScorer(max_nbrs=3, feedback="implicit"),
            "als": lambda: BiasedMFScorer(embedding_size=3, epochs=2), "ials": lambda: ImplicitMFScorer(embedding_size=3, epochs=2),
            "ials-ratings": lambda: ImplicitMFScorer(embedding_size=3, epochs=2, use_ratings=True),
            "funk": lambda: FunkSVDScorer(features=3, epochs=2), "bsvd": lambda: BiasedSVDScorer(embedding_size=3),
            "flex-e": lambda: FlexMFExplicitScorer(embedding_size=3, epochs=1), "flex-i": lambda: FlexMFImplicitScorer(embedding_size=3, epochs=1)}[name]()

def gen(rng: random.Random, tier: str):
    reps = {"quick": 1, "thorough": 80}[tier]
    for _ in range(reps):
        nu, ni = rng.randint(8, 14), rng.randint(6, 11)
        UB, IB = rng.choice([(100, 1000), (0, 1000), (0, 0)])          # zero-based identifiers are identifiers like any other
        rows = [[UB + u, IB + i, float(rng.choice([1, 2, 3, 4, 5]))] for u in range(nu) for i in range(ni) if rng.random() < 0.5]
        for name in SCORERS:
            queries = []
            # every scorer meets every (candidate form × number of unknown candidates) combination and every history form at least once
            HISTS = ["train", "custom-long", "none", "custom", "train", "custom-unknown", "only-unknown", "empty"]; off = rng.randrange(len(HISTS))
            for _q in range({"quick": 12, "thorough": 18}[tier]):
                queries.append({"user": rng.choice([UB + u for u in range(nu)] + [999]), "hist": HISTS[(_q + off) % len(HISTS)],
                                "seed": rng.randrange(10**6), "n_known": rng.randint(max(0, ni - 4), ni) if _q % 2 else rng.randint(0, ni), "unknown_items": [1, 0, 2][(_q // 3) % 3],
                                "cand_form": ["ids+vocab", "ids", "nums+vocab"][_q % 3], "unknown_first": _q % 2 == 0})
            yield {"scorer": name, "rows": rows, "train_seed": rng.randrange(10**6), "queries": queries}

_cache = {}
def _trained(case):
    import pandas as pd
    from lenskit.data import from_interactions_df
    from lenskit.training import TrainingOptions
    k = (case["scorer"], case["train_seed"], len(case["rows"]), tuple(case["rows"][0]))
    if k not in _cache:
        _cache.clear()
        ds = from_interactions_df(pd.DataFrame(case["rows"], columns=["user_id", "item_id", "rating"]))
        m = _make(case["scorer"]); m.train(ds, TrainingOptions(rng=case["train_seed"])); _cache[k] = (ds, m)
    return _cache[k]

def _same(a, b, tol=1e-4):
    if math.isnan(a) or math.isnan(b): return math.isnan(a) and math.isnan(b)
    return abs(a - b) <= tol * max(1, abs(a), abs(b))

def run(case: dict, lean: Lean) -> Outcome:
    from lenskit.data import ItemList
    from lenskit.data.query import RecQuery
    name = case["scorer"]; ds, m = _trained(case)
    V = [int(x) for x in ds.items.ids()]; Vpos = {i: k for k, i in enumerate(V)}; failed = []; classes = {"scorer:" + name}; keys = set(); n_model = 0
    call = (lambda qy, il: m(il)) if name == "pop" else (lambda qy, il: m(qy, il))
    for qd in case["queries"]:
        r = random.Random(qd["seed"]); u = qd["user"]; hk = qd["hist"]
        if hk == "train": ui = ds.user_row(u) if u != 999 else None
        elif hk == "custom": hs = r.sample(V, min(3, len(V))); ui = ItemList(item_ids=hs, rating=[4.0, 2.0, 5.0][: len(hs)])
        elif hk == "custom-long": hs = r.sample(V, min(6, len(V))); ui = ItemList(item_ids=hs, rating=[4.0, 2.0, 5.0, 1.0, 3.0, 4.5][: len(hs)])
        elif hk == "custom-unknown": hs = r.sample(V, min(2, len(V))) + [7777]; ui = ItemList(item_ids=hs, rating=[4.0, 2.0, 5.0][: len(hs)])
        elif hk == "only-unknown": hs = [7777, 7778]; ui = ItemList(item_ids=hs, rating=[4.0, 2.0])
        elif hk == "empty": ui = ItemList(item_ids=np.array([], dtype="i8"), rating=np.array([], dtype="f8"))
        else: ui = None
        qy = RecQuery(user_id=u, user_items=ui)
        base = r.sample(V, min(qd["n_known"], len(V))) + [8888, 9999][: qd["unknown_items"]]
        r.shuffle(base)
        if qd.get("unknown_first"): base = [i for i in base if i not in Vpos] + [i for i in base if i in Vpos]     # unknown candidates ahead of the known ones
        perm = base[:]; r.shuffle(perm); sub = base[: max(0, len(base) // 2)]
        classes.add("history:" + hk)
        if u == 999: classes.add("unknown user")
        if qd["unknown_items"]: classes.add("unknown candidate")
        if not base: classes.add("empty candidates")
        cf = qd.get("cand_form", "ids"); classes.add("candidates as " + cf)
        def mk(ids_, **kw):
            # candidate lists as callers build them: bare identifiers, identifiers bound to the training vocabulary, or numbers + vocabulary
            if cf == "ids+vocab": return ItemList(item_ids=np.array(ids_, dtype="i8"), vocabulary=ds.items, **kw)
            if cf == "nums+vocab" and all(i in Vpos for i in ids_): return ItemList(item_nums=np.array([Vpos[i] for i in ids_], dtype="i4"), vocabulary=ds.items, **kw)
            return ItemList(item_ids=np.array(ids_, dtype="i8"), **kw)
        def look(il): return ([int(i) for i in il.ids()], [int(x) for x in il.numbers(vocabulary=ds.items, missing="negative")], None if il.field("extra") is None else il.field("extra").tolist())
        try:
            tag = np.arange(len(base)) * 10
            in1 = mk(base, extra=tag); before = look(in1)
            o1 = call(qy, in1); o2 = call(qy, mk(perm))
            o3 = call(qy, mk(sub)); o4 = call(qy, in1)          # the same list object again: a scorer must not have altered it
            if look(in1) != before: failed.append(f"{hk}: the scorer changed the candidate list it was given"); keys.add("?input-mutated")
        except Exception as e:
            msg = f"{hk} history, user {u}: raised {type(e).__name__}"
            failed.append(msg)
            if name.startswith("ials") and hk == "custom-unknown" and isinstance(e, (KeyError, RuntimeError, IndexError)): keys.add("ImplicitMFScorer raises for a history item unknown to the model")
            else: keys.add("?" + msg)
            continue
        if [int(i) for i in o1.ids()] != base or [int(i) for i in o2.ids()] != perm or [int(i) for i in o3.ids()] != sub: failed.append(f"{hk}: result items differ from the input items / order"); keys.add("?order")
        s1 = o1.scores(); s2 = dict(zip(perm, o2.scores().tolist())) if len(perm) else {}; s3 = dict(zip(sub, o3.scores().tolist())) if len(sub) else {}
        if s1 is None or len(s1) != len(base): failed.append(f"{hk}: not one score per item"); keys.add("?count"); continue
        s1d = dict(zip(base, s1.tolist())) if len(base) else {}
        if len(base) and (o1.field("extra") is None or o1.field("extra").tolist() != tag.tolist()): failed.append(f"{hk}: other fields not preserved"); keys.add("?fields")
        if not all(_same(s1d[i], s2[i]) for i in base): failed.append(f"{hk} user {u}: permuting the candidates changes a score"); keys.add("?perm")
        if not all(_same(s1d[i], s3[i]) for i in sub): failed.append(f"{hk} user {u}: dropping other candidates changes a score"); keys.add("?subset")
        if len(base) and not all(_same(a, b, 0) for a, b in zip(s1.tolist(), o4.scores().tolist())): failed.append(f"{hk}: repeating the call changes the scores"); keys.add("?repeat")
        # an item the model does not know contributes nothing to a history-based score (scorers that use the history items themselves)
        if hk == "custom-unknown" and name in ("iknn", "iknn-imp", "uknn-imp", "ials") and len(base):
            try:
                known_only = ui[np.array([int(i) in Vpos for i in ui.ids()])]
                ref = call(RecQuery(user_id=u, user_items=known_only), mk(base)).scores().tolist()
                if not all(_same(a, b) for a, b in zip(s1.tolist(), ref)):
                    failed.append(f"{hk} user {u}: an unknown item in the history changes the scores"); keys.add("?unknown-history-item")
            except Exception as e:
                failed.append(f"{hk} user {u}: scoring with the known part of the history raised {type(e).__name__}"); keys.add("?unknown-history-item")
        # model-mediated: the list call must be the gather / mask / scatter of the per-item (singleton-call) scores
        try:
            ids_all = sorted(set(base)); Vset = set(V)
            single = {i: float(call(qy, ItemList(item_ids=np.array([i], dtype="i8"))).scores()[0]) for i in ids_all}
            vocab = ids_all if name == "bias" else [i for i in ids_all if i in Vset]
            pred = lean.call("c04.scatter", {"items": base, "vocab": vocab, "table": [None if math.isnan(single[i]) else rat(single[i]) for i in vocab]})
            n_model += 1
            if [p_["id"] for p_ in pred] != base or [p_["pos"] for p_ in pred] != list(range(len(base))): failed.append(f"{hk}: model order differs"); keys.add("?model-order")
            for p_, sc in zip(pred, s1.tolist()):
                want = math.nan if p_["score"] is None else float(Fraction(p_["score"]))
                if not _same(sc, want): failed.append(f"{hk} user {u}: item {p_['id']} scored {sc} in the list but {want} alone (scatter model)"); keys.add("?scatter"); break
        except Exception as e:
            failed.append(f"{hk} user {u}: singleton call raised {type(e).__name__}"); keys.add("?singleton")
        for i in (8888, 9999):
            if i in s1d and not math.isnan(s1d[i]) and name != "bias": failed.append(f"unknown item {i} scored {s1d[i]}"); keys.add("?unknown-item")
    return Outcome(not failed, not failed, tuple(sorted(classes)), {"failed": failed[:8]}, tuple(sorted(keys)) if keys else None)

SPEC = CheckSpec(
    pid="C04", theorems=["LK.Scatter.C04_Scatter_scoreList_eq_map", "LK.Scatter.C04_Scatter_multFirst_eq"], correspondence_ops=["c04.scatter"],
    nontrivial_rule="distinct (scorer, query set) reaching ≥1 of: each shipped scorer, each history form, unknown user, unknown candidate, empty candidates",
    budgets={"quick": 14, "thorough": 1120}, gen=gen, run=run, shrink=None)
