"""C03 — the standard top-N pipeline returns the best-scored candidates (real `topn_pipeline` vs `LK.Rec.recommend`)."""
from __future__ import annotations
import math, random
from fractions import Fraction
import numpy as np
from ..core import CheckSpec, Outcome, Lean, rat

def gen(rng: random.Random, tier: str):
    n = {"quick": 250, "thorough": 6000}[tier]
    for _ in range(n):
        nu, ni = rng.randint(1, 5), rng.randint(2, 9)
        ub, ib = rng.choice([(100, 1000), (100, 1000), (0, 1000), (0, 0)])          # zero-based identifiers are identifiers like any other
        rows = [[ub + u, ib + i] for u in range(nu) for i in range(ni) if rng.random() < 0.4]
        if not rows: continue
        items = sorted({r[1] for r in rows}); users = sorted({r[0] for r in rows})
        pool = items + [5000, 5001]
        vals = rng.sample([x / 4 for x in range(-20, 40)], len(pool))            # distinct scores: ties are outside the claim
        base = [[i, v] for i, v in zip(pool, vals) if rng.random() < 0.85]
        queries = []
        for _k in range(4):
            kind = rng.choice(["id", "id", "query_id", "query_hist", "history", "unknown"])
            hist = rng.sample(pool, rng.randint(0, min(4, len(pool))))
            u = 999 if kind == "unknown" else rng.choice(users + ([None] if kind == "query_hist" else []))
            supplied = rng.sample(pool, rng.randint(0, len(pool))) if rng.random() < 0.4 else None
            queries.append({"kind": kind, "user": u, "hist": hist, "supplied": supplied, "via_op": rng.random() < 0.5})
        yield {"rows": rows, "base": base, "cfg_n": rng.choice([-1, 1, 3, 10, None]), "run_n": rng.choice([None, None, -1, 0, 1, 2, 5, 50]), "queries": queries,
               "predicts": rng.random() < 0.4, "pretrain": rng.random() < 0.3}

def run(case: dict, lean: Lean) -> Outcome:
    import pandas as pd
    from lenskit.data import ItemList, from_interactions_df
    from lenskit.data.query import RecQuery
    from lenskit.pipeline import topn_pipeline
    from lenskit.operations import recommend
    from lkv_components import TableScorer
    ds = from_interactions_df(pd.DataFrame(case["rows"], columns=["user_id", "item_id"]))
    V = [int(x) for x in ds.items.ids()]; users = [int(u) for u in ds.users.ids()]
    base = {int(i): v for i, v in case["base"]}
    cfg_n, run_n = case["cfg_n"], case["run_n"]
    pipe = topn_pipeline(TableScorer(base), n=cfg_n if cfg_n is not None else -1)
    if case.get("pretrain") and len(case["rows"]) >= 2:
        # the pipeline is first trained on an earlier snapshot (every other record) and then trained again, with the default options, on
        # the data the expectations below refer to: what it recommends afterwards is a matter of the data it was last trained on
        early = case["rows"][::2]
        pipe.train(from_interactions_df(pd.DataFrame(early, columns=["user_id", "item_id"])))
    pipe.train(ds)
    trainrows = [[u, [int(x) for x in ds.user_row(u).ids()]] for u in users]
    corr = True; spec = True; classes = set(); detail = []; key = None; other_fail = False
    for qd in case["queries"]:
        kind, u, hist, supplied = qd["kind"], qd["user"], qd["hist"], qd["supplied"]
        harr = ItemList(item_ids=np.array(hist, dtype="i8"))
        if kind in ("id", "unknown"): qin = u; qj = dict(kind="id", user=u)
        elif kind == "query_id": qin = RecQuery(user_id=u); qj = dict(kind="query", user=u, items=None)
        elif kind == "query_hist": qin = RecQuery(user_id=u, user_items=harr); qj = dict(kind="query", user=u, items=hist)
        else: qin = harr; qj = dict(kind="history", items=hist)
        items = None if supplied is None else ItemList(item_ids=np.array(supplied, dtype="i8"))
        try:
            out = recommend(pipe, qin, run_n, items) if qd["via_op"] else pipe.run("recommender", query=qin, items=items, n=run_n)
            real = [[int(i), None if math.isnan(s) else Fraction(float(s))] for i, s in zip(out.ids(), out.scores())] if len(out) else []
            ordered = bool(out.ordered) or not len(out)
        except Exception as e:
            real = "EXC:" + type(e).__name__; ordered = True
        mod = lean.call("c03.recommend", dict(vocab=V, rows=trainrows, base=[[i, rat(v)] for i, v in base.items()], query=qj,
                                             items=supplied, nCfg=cfg_n, nRun=run_n))
        modf = [[i, None if v is None else Fraction(v)] for i, v in mod]
        ok = real == modf and ordered
        detail.append({"query": qd, "impl": real if isinstance(real, str) else [[i, None if v is None else str(v)] for i, v in real], "model": mod})
        classes.add("query:" + kind)
        if case.get("pretrain"): classes.add("pipeline trained before on an earlier snapshot")
        if u == 0: classes.add("user identifier 0")
        if supplied is not None: classes.add("supplied candidates")
        if supplied is not None and set(supplied) & set(hist): classes.add("supplied includes seen item")
        if any(h not in V for h in hist) and kind in ("query_hist", "history"): classes.add("history with unknown item")
        if not isinstance(real, str) and run_n is not None and run_n >= 0 and len(real) == run_n: classes.add("run-time n binds")
        if not ok:
            corr = False; spec = False
            unk = [h for h in hist if h not in V]
            if isinstance(real, str) and real == "EXC:KeyError" and unk and supplied is None and kind in ("query_hist", "history"):
                key = "candidate selector raises KeyError for a history item unknown to training"
            else:
                other_fail = True
    # rating-prediction pipelines: the predictor merges the scorer with the fallback, and asking for several nodes in ONE run
    # (in either order) gives each node the value it has when asked for alone
    if case.get("predicts"):
        dfr = pd.DataFrame([[u, i, float((u * 7 + i * 3) % 5 + 1)] for u, i in case["rows"]], columns=["user_id", "item_id", "rating"])
        dsr = from_interactions_df(dfr)
        pp = topn_pipeline(TableScorer(base), predicts_ratings=True, n=cfg_n if cfg_n is not None else -1); pp.train(dsr)
        def canon(il): return [[int(i), None if (s is None or math.isnan(s)) else round(float(s), 6)] for i, s in zip(il.ids(), il.scores())] if len(il) else []
        classes.add("rating-prediction pipeline")
        for qd in case["queries"][:2]:
            u = qd["user"] if qd["user"] is not None else users[0]
            cand = ItemList(item_ids=np.array(qd["supplied"] if qd["supplied"] else V + [5000], dtype="i8"))
            try:
                alone = {nname: canon(pp.run(nname, query=u, items=cand, n=run_n)) for nname in ("scorer", "fallback-predictor", "rating-predictor", "recommender")}
                for order in (("rating-predictor", "recommender"), ("recommender", "rating-predictor"), ("scorer", "rating-predictor", "recommender")):
                    got = pp.run(order, query=u, items=cand, n=run_n)
                    for nname, il in zip(order, got):
                        if canon(il) != alone[nname]:
                            spec = False; corr = False; other_fail = True
                            detail.append({"joint_run": list(order), "node": nname, "joint": canon(il)[:6], "alone": alone[nname][:6], "user": u})
                # the fallback serves rating predictions only: the recommendations are those of the same pipeline without rating prediction
                # (which the first part compares with the model), i.e. the top of the scoring model's own scores
                plain = canon(pipe.run("recommender", query=u, items=cand, n=run_n))
                if alone["recommender"] != plain:
                    spec = False; corr = False; other_fail = True
                    detail.append({"recommender_of_rating_pipeline": alone["recommender"][:6], "same_pipeline_without_rating_prediction": plain[:6], "user": u})
                prim = dict(map(tuple, alone["scorer"])); back = dict(map(tuple, alone["fallback-predictor"]))
                want = [[i, prim[i] if prim[i] is not None else back[i]] for i, _ in alone["scorer"]]
                if alone["rating-predictor"] != want:
                    spec = False; corr = False; other_fail = True
                    detail.append({"predictor": alone["rating-predictor"][:6], "want_primary_else_fallback": want[:6], "user": u})
            except Exception as e:
                spec = False; corr = False; other_fail = True; detail.append({"predict_pipeline_raised": type(e).__name__ + ": " + str(e)[:80]})
    return Outcome(corr, spec, tuple(sorted(classes)), {"queries": detail}, None if other_fail else key)

def shrink(case: dict):
    if len(case["queries"]) > 1:
        for i in range(len(case["queries"])):
            c = dict(case); c["queries"] = [case["queries"][i]]; yield c
    for i in range(len(case["rows"])):
        c = dict(case); c["rows"] = case["rows"][:i] + case["rows"][i + 1:]
        if c["rows"]: yield c
    for qi, qd in enumerate(case["queries"]):
        for j in range(len(qd["hist"])):
            c = dict(case); q2 = dict(qd); q2["hist"] = qd["hist"][:j] + qd["hist"][j + 1:]; c["queries"] = case["queries"][:qi] + [q2] + case["queries"][qi + 1:]; yield c

SPEC = CheckSpec(
    pid="C03",
    theorems=["LK.TopN.C03_TopN_argtopn_sub", "LK.TopN.C03_TopN_argtopn_nodup", "LK.TopN.C03_TopN_argtopn_sorted", "LK.TopN.C03_TopN_argtopn_length",
              "LK.TopN.C03_TopN_argtopn_optimal", "LK.TopN.C03_TopN_runtime_n_overrides", "LK.Rec.C03_Recommend_query_forms_agree",
              "LK.Rec.C03_Recommend_recommend_spec", "LK.Rec.C03_Recommend_fallbackMerge_spec"],
    correspondence_ops=["c03.recommend"],
    nontrivial_rule="distinct (dataset, score table, n, queries) reaching ≥1 of: each query form, supplied candidates (with seen items), history with unknown item, run-time n binding",
    budgets={"quick": 250, "thorough": 6000}, gen=gen, run=run, shrink=shrink)
