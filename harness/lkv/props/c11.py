"""C11 — seeded operations are reproducible and independent of the global generator, request order, threads and block size."""
from __future__ import annotations
import hashlib, json, os, random, subprocess, sys
import numpy as np
from ..core import CheckSpec, Outcome, Lean

OPS = ["crossfold_records", "sample_records", "sample_records_fallback", "crossfold_users", "sample_users", "sample_users_fallback", "holdout_sample_n", "holdout_sample_frac",
       "negatives", "random_selector", "stochastic_ranker", "softmax_ranker", "user_derived_order", "chunking",
       "train:als", "train:ials", "train:iknn", "train:uknn", "train:funk", "train:flex-e", "train:flex-i", "train:bsvd", "train:bias"]

def gen(rng: random.Random, tier: str):
    reps = {"quick": 1, "thorough": 30}[tier]
    for _ in range(reps):
        for op in OPS:
            yield {"op": op, "seed": rng.randrange(10**6), "data_seed": rng.randrange(10**6), "n": rng.randrange(0, 5_000_000)}
    yield {"op": "string_seeds_across_processes", "seed": rng.randrange(10**6), "data_seed": 1, "hashseeds": {"quick": [1, 2], "thorough": [1, 2, 3, 77, 4242]}[tier]}
    for cfgs in ({"quick": [[1, 1, 250], [4, 2, 3]], "thorough": [[1, 1, 250], [4, 1, 250], [1, 4, 250], [4, 4, 3], [2, 2, 1], [8, 2, 17]]}[tier],):
        yield {"op": "thread_grid", "configs": cfgs, "seed": rng.randrange(10**6), "data_seed": 1}

def _data(seed, nu=14, ni=10, dens=0.45):
    import pandas as pd
    from lenskit.data import from_interactions_df
    r = random.Random(seed)
    rows = [(100 + u, 1000 + i, float(r.choice([1, 2, 3, 4, 5])), r.randint(0, 500)) for u in range(nu) for i in range(ni) if r.random() < dens]
    return from_interactions_df(pd.DataFrame(rows, columns=["user_id", "item_id", "rating", "timestamp"]))

def _h(*arrs):
    import torch
    m = hashlib.sha256()
    for a in arrs:
        if isinstance(a, torch.Tensor): a = (a.to_dense() if a.layout != torch.strided else a).detach().cpu().numpy()
        if hasattr(a, "toarray"): a = a.toarray()
        m.update(np.ascontiguousarray(a).tobytes())
    return m.hexdigest()[:16]

def _split_fp(s): return (sorted((int(k.user_id), tuple(int(i) for i in il.ids())) for k, il in s.test.items()), s.train.interaction_count)

def _result(op, seed, ds, options=None):
    """one seeded execution, reduced to a comparable value"""
    from lenskit import splitting as sp
    from lenskit.data import ItemList
    from lenskit.training import TrainingOptions
    nrec = ds.interaction_count; nus = ds.user_count
    if op == "crossfold_records": return [_split_fp(s) for s in sp.crossfold_records(ds, 3, rng=seed)]
    if op == "sample_records": return [_split_fp(s) for s in sp.sample_records(ds, 5, repeats=3, disjoint=True, rng=seed)]
    if op == "sample_records_fallback": return [_split_fp(s) for s in sp.sample_records(ds, nrec // 2, repeats=3, disjoint=True, rng=seed)]
    if op == "crossfold_users": return [_split_fp(s) for s in sp.crossfold_users(ds, 3, sp.SampleN(2, rng=seed), rng=seed)]
    if op == "sample_users": return [_split_fp(s) for s in sp.sample_users(ds, 3, sp.LastN(2), repeats=2, disjoint=True, rng=seed)]
    if op == "sample_users_fallback": return [_split_fp(s) for s in sp.sample_users(ds, nus // 2 + 1, sp.LastN(2), repeats=3, disjoint=True, rng=seed)]
    if op == "holdout_sample_n": return [int(i) for i in sp.SampleN(2, rng=seed)(ds.user_row(int(ds.users.ids()[0]))).ids()]
    if op == "holdout_sample_frac": return [int(i) for i in sp.SampleFrac(0.5, rng=seed)(ds.user_row(int(ds.users.ids()[1]))).ids()]
    if op == "negatives":
        return np.asarray(ds.interactions().matrix().sample_negatives(np.arange(min(6, nus), dtype=np.int32), n=2, rng=seed)).tolist()
    il = ItemList(item_ids=[int(i) for i in ds.items.ids()], scores=np.linspace(0.5, 3.0, ds.item_count))
    if op == "random_selector":
        from lenskit.basic.random import RandomSelector
        return [int(i) for i in RandomSelector(n=4, rng=seed)(il).ids()]
    if op == "stochastic_ranker":
        from lenskit.stochastic import StochasticTopNRanker
        return [int(i) for i in StochasticTopNRanker(n=4, rng=seed)(il).ids()]
    if op == "softmax_ranker":
        from lenskit.basic.random import SoftmaxRanker
        return [int(i) for i in SoftmaxRanker(n=4, rng=seed)(il).ids()]
    if op.startswith("train:"):
        name = op[6:]
        from lenskit.als import BiasedMFScorer, ImplicitMFScorer
        from lenskit.knn import ItemKNNScorer, UserKNNScorer
        from lenskit.funksvd import FunkSVDScorer
        from lenskit.flexmf import FlexMFExplicitScorer, FlexMFImplicitScorer
        from lenskit.sklearn.svd import BiasedSVDScorer
        from lenskit.basic import BiasScorer
        bs = int(os.environ.get("LKV_BLOCK", "250"))
        m = {"als": lambda: BiasedMFScorer(embedding_size=4, epochs=3), "ials": lambda: ImplicitMFScorer(embedding_size=4, epochs=3),
             "iknn": lambda: ItemKNNScorer(max_nbrs=5, save_nbrs=4, block_size=bs), "uknn": lambda: UserKNNScorer(max_nbrs=5), "funk": lambda: FunkSVDScorer(features=3, epochs=2),
             "flex-e": lambda: FlexMFExplicitScorer(embedding_size=3, epochs=1), "flex-i": lambda: FlexMFImplicitScorer(embedding_size=3, epochs=1),
             "bsvd": lambda: BiasedSVDScorer(embedding_size=3), "bias": lambda: BiasScorer()}[name]()
        m.train(ds, options if options is not None else TrainingOptions(rng=seed))
        arrs = {"als": lambda: (m.user_features_, m.item_features_), "ials": lambda: (m.user_features_, m.item_features_), "iknn": lambda: (m.sim_matrix_,),
                "uknn": lambda: (m.user_vectors_,), "funk": lambda: (m.user_features_, m.item_features_), "flex-e": lambda: (m.model.u_embed.weight, m.model.i_embed.weight),
                "flex-i": lambda: (m.model.u_embed.weight, m.model.i_embed.weight), "bsvd": lambda: (m.user_components_, m.factorization_.components_),
                "bias": lambda: (m.model_.item_biases, m.model_.user_biases)}[name]()
        return _h(*arrs)
    raise ValueError(op)

def run(case: dict, lean: Lean) -> Outcome:
    from lenskit.random import set_global_rng
    op = case["op"]; failed = []; key = None; classes = [op.split(":")[0] if op.startswith("train") else op]
    if op == "chunking":
        from lenskit.parallel.chunking import WorkChunks
        n = case["n"]; real = [int(x) for x in WorkChunks.create(n)]; mod = lean.call("c11.chunk", {"n": n})
        ok = real == mod and (n == 0 or (real[1] > 0))
        return Outcome(real == mod, ok, ("generated chunking", "parallel range" if n >= 100 else "sequential range"), {"impl": real, "model": mod}, None)
    if op == "string_seeds_across_processes":
        # seeds derived from text (string user ids, string keys) must not depend on the interpreter's per-process hash salt
        code = ("import sys, json; sys.path[:0] = json.loads(sys.argv[1]); from lkv.core import quiet_lenskit; quiet_lenskit(); import numpy as np; "
                "from lenskit.random import make_seed; from lenskit.basic.random import RandomSelector; from lenskit.stochastic import StochasticTopNRanker; from lenskit.data import ItemList; "
                "seed = int(sys.argv[2]); il = ItemList(item_ids=list(range(100, 112)), scores=np.linspace(0.5, 4.0, 12)); out = {}; "
                "out['make_seed'] = [int(x) for x in np.random.default_rng(make_seed(seed, 'alice', b'key')).integers(1 << 30, size=3)]; "
                "out['selector'] = {u: [int(i) for i in RandomSelector(n=3, rng=(seed, 'user'))(il, query=u).ids()] for u in ['alice', 'bob', 'u-0017', '']}; "
                "out['ranker'] = {u: [int(i) for i in StochasticTopNRanker(n=3, rng=(seed, 'user'))(il, query=u).ids()] for u in ['alice', 'bob', 'u-0017']}; "
                "print('RESULT ' + json.dumps(out, sort_keys=True))")
        res = {}
        for hs in case["hashseeds"]:
            pr = subprocess.run([sys.executable, "-c", code, json.dumps([q for q in sys.path if q]), str(case["seed"])], env=dict(os.environ, PYTHONHASHSEED=str(hs)), capture_output=True, text=True, timeout=600)
            line = [l for l in pr.stdout.splitlines() if l.startswith("RESULT ")]
            if not line: return Outcome(False, False, tuple(classes + ["raised"]), {"error": pr.stderr[-300:]}, None)
            res[hs] = line[0]
        if len(set(res.values())) != 1: failed.append(f"text-derived seeds differ between interpreter processes (PYTHONHASHSEED {sorted(res)})")
        return Outcome(not failed, not failed, tuple(classes + ["other interpreter processes"]), {"failed": failed, "outputs": {str(k): v[:200] for k, v in res.items()}}, None)
    if op == "thread_grid":
        code = ("import sys, json; sys.path[:0] = json.loads(sys.argv[1]); from lkv.core import quiet_lenskit; quiet_lenskit(); from lkv.props.c11 import _result, _data; "
                "ds = _data(1, 120, 70, 0.15); print('RESULT ' + json.dumps({o: _result('train:' + o, 3, ds) for o in ['als', 'ials', 'iknn', 'funk', 'flex-e', 'flex-i']}))")
        res = {}
        for nt, nb, bs in case["configs"]:
            p = subprocess.run([sys.executable, "-c", code, json.dumps([q for q in sys.path if q])], env=dict(os.environ, LK_NUM_THREADS=str(nt), LK_NUM_BACKEND_THREADS=str(nb), LKV_BLOCK=str(bs)),
                               capture_output=True, text=True, timeout=600)
            line = [l for l in p.stdout.splitlines() if l.startswith("RESULT ")]
            if not line: failed.append(f"training subprocess {nt}x{nb} block {bs} failed: {p.stderr[-200:]}"); continue
            res[(nt, nb, bs)] = json.loads(line[0][7:])
        for name in (next(iter(res.values())) if res else {}):
            if len({r[name] for r in res.values()}) > 1: failed.append(f"{name}: trained model depends on thread count / block size")
        return Outcome(not failed, not failed, ("thread and block-size grid",), {"failed": failed, "configs": case["configs"]}, None)
    ds = _data(case["data_seed"]); seed = case["seed"]
    if op == "user_derived_order":
        from lenskit.basic.random import RandomSelector
        from lenskit.stochastic import StochasticTopNRanker
        from lenskit.data import ItemList
        # user identifiers of every kind a deployment has: ordinary ones, zero, the empty string, text
        il = ItemList(item_ids=[int(i) for i in ds.items.ids()], scores=np.linspace(0.5, 3.0, ds.item_count)); users = [int(u) for u in ds.users.ids()][:4] + [0, "", "u-7", 1]
        r = random.Random(seed)
        for mk in (lambda: RandomSelector(n=3, rng=(seed, "user")), lambda: StochasticTopNRanker(n=3, rng=(seed, "user"))):
            a = mk(); first = {u: [int(i) for i in a(il, query=u).ids()] for u in users}
            b = mk(); order = users[:] * 2; r.shuffle(order); second = {}
            for u in order: second[u] = [int(i) for i in b(il, query=u).ids()]
            if first != second: failed.append(f"{type(a).__name__}: a user's list depends on which requests came before")
        return Outcome(not failed, not failed, tuple(classes), {"failed": failed}, None)
    try:
        set_global_rng(111); np.random.seed(1); a = _result(op, seed, ds)
        set_global_rng(999); np.random.seed(2); _ = _result("crossfold_records", seed + 1, ds); b = _result(op, seed, ds)     # other global state, another seeded call in between
    except Exception as e:
        return Outcome(False, False, tuple(classes + ["raised"]), {"error": type(e).__name__ + ": " + str(e)[:80]}, None)
    finally:
        set_global_rng(None)
    if op.startswith("train:") and not failed:
        # a seed is a value: one options object carrying it, handed to two trainings (and asked for its generator twice), means "start from
        # that seed" each time
        try:
            from lenskit.training import TrainingOptions
            shared = TrainingOptions(rng=seed)
            g1 = shared.random_generator().integers(1 << 30, size=4).tolist(); g2 = shared.random_generator().integers(1 << 30, size=4).tolist()
            if g1 != g2: failed.append("TrainingOptions.random_generator(): two calls on one options object give different streams for the same seed")
            c = _result(op, seed, ds, options=shared); d = _result(op, seed, ds, options=shared)
            if c != d or c != a: failed.append(f"{op}: trainings that share one options object (seed {seed}) differ from each other or from a training with its own")
        except Exception as e:
            failed.append(f"{op}: training with a shared options object raised {type(e).__name__}")
    if a != b:
        failed.append(f"{op}: two executions with seed {seed} differ")
        key = {"sample_users_fallback": "sample_users falls back to crossfold_users without the generator", "train:bsvd": "BiasedSVDScorer ignores the training seed"}.get(op)
    return Outcome(not failed, not failed, tuple(classes), {"failed": failed}, key)

SPEC = CheckSpec(
    pid="C11",
    theorems=["LK.Rng.C11_Rng_sampleRecords_seeded", "LK.Rng.C11_Rng_sampleUsers_seeded", "LK.Rng.C11_Rng_derived_order_independent", "LK.Batch.C11_Batch_fanout_chunk_independent",
              "LK.Gen.Chunking.C11_Chunking_chunk_size_pos", "LK.Gen.Chunking.C11_Chunking_row_in_unique_chunk"],
    correspondence_ops=["c11.chunk"],
    nontrivial_rule="distinct cases reaching ≥1 of: each seeded splitter / holdout / sampler / ranker (incl. fallback paths), user-derived request orders, each trainable model, generated chunking, thread and block-size grid",
    budgets={"quick": 24, "thorough": 700}, gen=gen, run=run, shrink=None)
