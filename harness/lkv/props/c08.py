"""C08 — bias offsets equal the damped-mean formulas; popularity scores are strictly monotone in the interaction count."""
from __future__ import annotations
import math, random, datetime as dt
from fractions import Fraction
import numpy as np
from ..core import CheckSpec, Outcome, Lean, rat

def gen(rng: random.Random, tier: str):
    n = {"quick": 200, "thorough": 5000}[tier]
    for _ in range(n):
        nu, ni = rng.randint(1, 6), rng.randint(1, 6)
        dens = rng.choice([0.3, 0.6, 0.9])
        UB, IB = rng.choice([(100, 1000), (100, 1000), (0, 1000), (0, 0)])          # zero-based identifiers are identifiers like any other
        rows = [[UB + u, IB + i, rng.choice([0.5, 1, 1.5, 2, 2.5, 3, 3.5, 4, 4.5, 5]), rng.randint(0, 100)]
                for u in range(nu) for i in range(ni) if rng.random() < dens]
        if not rows: continue
        rng.shuffle(rows)
        yield {"rows": rows, "damp_user": rng.choice([0, 0, 1, 2.5, 5]), "damp_item": rng.choice([0, 0, 1, 2.5, 10]),
               "hist": [[rng.choice([IB + i for i in range(ni)] + [7777]), float(rng.randint(1, 5))] for _ in range(rng.randint(0, 3))],
               "cutoff": rng.randint(0, 100), "dt_times": rng.random() < 0.6, "dt_unit": rng.choice(["ns", "us", "ms", "s", "ns-utc"]), "const": rng.random() < 0.1, "late_items": rng.random() < 0.35}

def _close(a, b, tol): return abs(a - b) <= tol * max(1.0, abs(a), abs(b))

def run(case: dict, lean: Lean) -> Outcome:
    import pandas as pd
    from lenskit.data import from_interactions_df, ItemList
    from lenskit.data.query import RecQuery
    from lenskit.basic.bias import BiasModel, BiasScorer
    from lenskit.basic.popularity import PopScorer, TimeBoundedPopScore
    rows = [[u, i, (3.0 if case["const"] else r), t] for u, i, r, t in case["rows"]]
    df = pd.DataFrame(rows, columns=["user_id", "item_id", "rating", "timestamp"])
    if case.get("late_items"):
        # the item vocabulary need not be in identifier order: the largest identifiers are registered first, the others arrive with the records
        from lenskit.data import DatasetBuilder
        ids_desc = sorted({int(i) for _, i, _, _ in rows}, reverse=True)
        dsb = DatasetBuilder(); dsb.add_entities("item", np.array(ids_desc[: max(1, len(ids_desc) // 2)], dtype=np.int64))
        dsb.add_interactions("rating", df, entities=["user", "item"], missing="insert", allow_repeats=False, default=True)
        ds = dsb.build()
    else: ds = from_interactions_df(df)
    du, di = case["damp_user"], case["damp_item"]
    uid = {int(u): k for k, u in enumerate(ds.users.ids())}; iid = {int(i): k for k, i in enumerate(ds.items.ids())}
    failed = []; corr = True; classes_extra = []
    # (1) learned offsets vs the model (accumulate-then-divide) and the documented definition
    bm = BiasModel.learn(ds, {"user": du, "item": di})
    # the documented ways of giving the damping say the same thing: a pair (user, item); one number for both; a dictionary that leaves
    # an entity out (no damping for it)
    forms = [("pair", (du, di))] + ([("one number", du)] if du == di else []) + ([("item left out", {"user": du})] if di == 0 else []) + ([("user left out", {"item": di})] if du == 0 else [])
    for label, form in forms:
        alt = BiasModel.learn(ds, form)
        if not (np.allclose(np.asarray(alt.item_biases, dtype=float), np.asarray(bm.item_biases, dtype=float), equal_nan=True) and np.allclose(np.asarray(alt.user_biases, dtype=float), np.asarray(bm.user_biases, dtype=float), equal_nan=True)
                and _close(float(alt.global_bias), float(bm.global_bias), 1e-9)):
            failed.append(f"damping given as {label} ({form!r}) learns other offsets than the dictionary with both entries")
    res = lean.call("c08.bias", dict(ratings=[[uid[u], iid[i], rat(r)] for u, i, r, _ in rows], nUsers=len(uid), nItems=len(iid),
                                     dampUser=rat(du), dampItem=rat(di)))
    g = float(Fraction(res["global"]))
    if not _close(float(bm.global_bias), g, 1e-5): corr = False; failed.append("global offset")
    ib = [float(Fraction(x)) for x in res["itemsDef"]]; ub = [float(Fraction(x)) for x in res["usersDef"]]
    for k, v in enumerate(bm.item_biases):
        if not _close(float(v), ib[k], 1e-4): corr = False; failed.append(f"item offset {k}")
    for k, v in enumerate(bm.user_biases):
        if not _close(float(v), ub[k], 1e-4): corr = False; failed.append(f"user offset {k}")
    if res["items"] != res["itemsDef"] or res["users"] != res["usersDef"]: corr = False; failed.append("model ≠ definition")
    # (2) score assembly on the implementation: sum of the applicable offsets
    sc = BiasScorer(damping=(du if (du == di and case.get("seed", 0) % 2) else {"user": du, "item": di})); sc.train(ds)
    cand = [int(i) for i in ds.items.ids()] + [8888]
    for u in list(uid)[:3] + [4242]:
        out = sc(RecQuery(user_id=u), ItemList(item_ids=cand)).scores()
        for i, s in zip(cand, out):
            want = g + (ib[iid[i]] if i in iid else 0.0) + (ub[uid[u]] if u in uid else 0.0)
            if math.isnan(s) or not _close(float(s), want, 2e-4): failed.append(f"score({u},{i}) = {s}, offsets sum to {want}")
    # (2b) "the sum of the applicable offsets" for every choice of which entities carry offsets: items only (global + item offset), users only
    #      (the user offsets are then damped means of the globally-centred ratings — there is no item offset to take out), neither (the global mean)
    for ents in (("item",), ("user",), ()):
        classes_extra.append("entities: " + ("+".join(ents) or "none"))
        se = BiasScorer(damping={"user": du, "item": di}, entities=list(ents)); se.train(ds)
        ub1 = {}
        if "user" in ents:
            for u in uid:
                rs = [Fraction(r).limit_denominator(1000) - Fraction(g).limit_denominator(10**9) - (Fraction(ib[iid[i]]).limit_denominator(10**9) if "item" in ents else 0) for uu, i, r, _ in rows if uu == u]
                den = len(rs) + Fraction(du).limit_denominator(1000)
                ub1[u] = float(sum(rs) / den) if den != 0 else 0.0
        for u in list(uid)[:3] + [4242]:
            out = se(RecQuery(user_id=u), ItemList(item_ids=cand)).scores()
            for i, s_ in zip(cand, out):
                want = g + (ib[iid[i]] if ("item" in ents and i in iid) else 0.0) + (ub1.get(u, 0.0) if "user" in ents else 0.0)
                if math.isnan(s_) or not _close(float(s_), want, 2e-4): failed.append(f"entities {list(ents)}: score({u},{i}) = {s_}, the applicable offsets sum to {want}")
    # (3) history-based user offset: same damped mean over the supplied ratings
    if case["hist"]:
        hist = list({h[0]: h for h in case["hist"]}.values())
        hl = ItemList(item_ids=[h[0] for h in hist], rating=[h[1] for h in hist])
        offs = [h[1] - g - (ib[iid[h[0]]] if h[0] in iid else 0.0) for h in hist]
        den = len(offs) + du
        want_ub = 0.0 if den == 0 else sum(offs) / den
        out = sc(RecQuery(user_id=list(uid)[0], user_items=hl), ItemList(item_ids=cand)).scores()
        for i, s in zip(cand, out):
            want = g + (ib[iid[i]] if i in iid else 0.0) + want_ub
            if math.isnan(s) or not _close(float(s), want, 2e-4): failed.append(f"history score item {i} = {s}, want {want}")
    # (4) popularity: strictly monotone in the training count, unknown items unscored
    counts = {i: sum(1 for r in rows if r[1] == i) for i in iid}
    for variant in ("count", "rank", "quantile"):
        p = PopScorer(score=variant); p.train(ds)
        s = dict(zip(cand, p(ItemList(item_ids=cand)).scores()))
        if not math.isnan(s[8888]): failed.append(f"pop[{variant}] scores an unknown item")
        for a in iid:
            for b in iid:
                if counts[a] < counts[b] and not s[a] < s[b]: failed.append(f"pop[{variant}] not monotone: count {counts[a]}<{counts[b]} but {s[a]}>={s[b]}")
        if variant == "count" and any(s[i] != counts[i] for i in iid): failed.append("pop[count] ≠ count")
        # the three variants against their model (tie order of the ascending sort taken from pandas' own sort of the same counts)
        items_v = [int(x) for x in ds.items.ids()]; cl = [counts[i] for i in items_v]
        order = [int(x) for x in pd.Series(cl).sort_values().index]
        mp = lean.call("c08.pop", {"counts": cl, "order": order})
        for k_, i in enumerate(items_v):
            want = float(Fraction(mp[variant][k_])) if isinstance(mp[variant][k_], str) else float(mp[variant][k_])
            if not _close(float(s[i]), want, 1e-6): failed.append(f"pop[{variant}] of item {i} = {s[i]}, definition {want}"); corr = False
    # (5) time-bounded popularity counts only interactions after the cutoff, whatever the timestamp type
    key = None
    cut = case["cutoff"]
    d2 = df.copy()
    if case["dt_times"]:
        unit = case.get("dt_unit", "ns")
        d2["timestamp"] = pd.to_datetime(d2["timestamp"], unit="s")
        if unit == "ns-utc": d2["timestamp"] = d2["timestamp"].dt.tz_localize("UTC")          # zone-aware column
        elif unit != "ns": d2["timestamp"] = d2["timestamp"].astype(f"datetime64[{unit}]")     # coarser date-time resolutions
    try:
        tb = TimeBoundedPopScore(cutoff=dt.datetime.fromtimestamp(cut), score="count"); tb.train(from_interactions_df(d2))
        s = dict(zip(cand, tb(ItemList(item_ids=cand)).scores()))
        wantc = {i: sum(1 for r in rows if r[1] == i and r[3] > cut) for i in iid}
        for i in iid:
            if s[i] != wantc[i]: failed.append(f"time-bounded count of {i} = {s[i]}, want {wantc[i]}")
        # the average-rank and cumulative-share variants of the time-bounded scorer: the same definitions, applied to the after-cut-off counts of all training items
        tds = from_interactions_df(d2); items_t = [int(x) for x in tds.items.ids()]; clt = [wantc[i] for i in items_t]
        ordt = [int(x) for x in pd.Series(clt).sort_values().index]
        mpt = lean.call("c08.pop", {"counts": clt, "order": ordt})
        for variant in ("rank", "quantile"):
            if variant == "quantile" and sum(clt) == 0: continue          # 0/0: no share is defined
            tbv = TimeBoundedPopScore(cutoff=dt.datetime.fromtimestamp(cut), score=variant); tbv.train(tds)
            sv = dict(zip(cand, tbv(ItemList(item_ids=cand)).scores()))
            for k_, i in enumerate(items_t):
                w = mpt[variant][k_]; want = float(Fraction(w)) if isinstance(w, str) else float(w)
                if not _close(float(sv[i]), want, 1e-6): failed.append(f"time-bounded pop[{variant}] of item {i} = {sv[i]}, definition over the after-cut-off counts {want}")
            if not math.isnan(sv[8888]): failed.append(f"time-bounded pop[{variant}] scores an unknown item")
    except Exception as e:
        failed.append(f"time-bounded popularity raised {type(e).__name__}")
        if case["dt_times"] and isinstance(e, TypeError) and len(failed) == 1: key = "TimeBoundedPopScore on a date-time timestamp column raises TypeError"
    spec = not failed
    classes = sorted(set(classes_extra))
    if du == 0 and di == 0: classes.append("zero damping")
    if du != di: classes.append("per-entity damping")
    if any(c == 1 for c in counts.values()): classes.append("item with one rating")
    if case["const"]: classes.append("constant ratings")
    if case["hist"]: classes.append("history query")
    if any(h[0] == 7777 for h in case["hist"]): classes.append("history with unknown item")
    if case["dt_times"]: classes.append("date-time timestamps"); classes.append("date-time unit " + case.get("dt_unit", "ns"))
    if len(set(counts.values())) < len(counts): classes.append("tied counts")
    if case.get("late_items"): classes.append("item vocabulary not in identifier order")
    return Outcome(corr, spec and corr, tuple(classes), {"failed": failed[:12], "offsets": {"impl_items": [float(x) for x in bm.item_biases], "def_items": res["itemsDef"]}}, key)

def shrink(case: dict):
    for i in range(len(case["rows"])):
        c = dict(case); c["rows"] = case["rows"][:i] + case["rows"][i + 1:]
        if c["rows"]: yield c
    if case["hist"]: c = dict(case); c["hist"] = []; yield c

SPEC = CheckSpec(
    pid="C08",
    theorems=["LK.Bias.C08_Bias_itemBiases_eq_def", "LK.Bias.C08_Bias_avgRank_strict_mono", "LK.Bias.C08_Bias_count_strict_mono",
              "LK.Bias.C08_Bias2_userBiases_eq_def", "LK.Bias.C08_Bias2_no_ratings_zero", "LK.Bias.C08_Bias2_historyBias_eq_def",
              "LK.Bias.C08_Bias2_score_known", "LK.Bias.C08_Bias2_score_unknown_item"],
    correspondence_ops=["c08.bias", "c08.pop"],
    nontrivial_rule="distinct (ratings, dampings, history, cutoff) reaching ≥1 of: zero / per-entity damping, single-rating item, constant ratings, history (with unknown item), date-time timestamps, tied counts",
    budgets={"quick": 200, "thorough": 5000}, gen=gen, run=run, shrink=shrink)
