"""C01 — dataset identifier↔number bijection, prefix stability, and every interaction view denoting the same records."""
from __future__ import annotations
import random
from fractions import Fraction
import numpy as np
from ..core import CheckSpec, Outcome, Lean, rat

def gen_case(rng):
    U = list(range(100, 100 + rng.randint(2, 8))); I = list(range(10, 10 + rng.randint(2, 8)))
    ops = []
    # start by declaring some entities so that non-insert policies have something to resolve against
    ops.append({"op": "addEntities", "cls": "user", "ids": rng.sample(U, rng.randint(1, len(U))), "dup": "error"})
    ops.append({"op": "addEntities", "cls": "item", "ids": rng.sample(I, rng.randint(1, len(I))), "dup": "error"})
    seen = set(); have_ts = False
    for _ in range(rng.randint(1, 5)):
        r = rng.random()
        if r < 0.2:
            cls = rng.choice(["user", "item"]); pool = U if cls == "user" else I
            ids = [rng.choice(pool + [999, 998]) for _ in range(rng.randint(1, 4))]
            if rng.random() < 0.8: ids = list(dict.fromkeys(ids))
            ops.append({"op": "addEntities", "cls": cls, "ids": ids, "dup": rng.choice(["error", "update"])})
        elif r < 0.7:
            rows = []
            for _ in range(0 if (have_ts and rng.random() < 0.08) else rng.randint(1, 8)):
                u = rng.choice(U + [777]); i = rng.choice(I + [77])
                if (u, i) in seen and rng.random() < 0.9: continue
                seen.add((u, i))
                rows.append({"u": u, "i": i, "r": rat(rng.randint(1, 10) / 2), "t": rng.randint(0, 50)})
            if not rows and not have_ts: continue          # an addition of no records is an addition (once the class exists)
            ops.append({"op": "addInteractions", "rows": rows, "missing": rng.choice(["insert", "filter", "error", "insert"])})
            have_ts = True
        elif r < 0.8:
            if not have_ts: continue
            # boundary-directed: half of the bounds coincide with a timestamp that is in the data
            ts = [r["t"] for o in ops if o["op"] == "addInteractions" for r in o["rows"]] or [0]
            lo = rng.choice([None, rng.randint(0, 50), rng.choice(ts)]); hi = rng.choice([None, rng.randint(0, 50), rng.choice(ts)])
            ops.append({"op": "filterTime", "min": lo, "max": hi})
        elif r < 0.95:
            k = rng.randint(1, 3); mode = rng.choice(["both", "users", "items"])
            us = [rng.choice(U + [777]) for _ in range(k)]; its = [rng.choice(I + [77]) for _ in range(k)]
            ops.append({"op": "remove", "users": us if mode != "items" else None, "items": its if mode != "users" else None})
        else:
            ops.append({"op": "clear"})
    return {"ops": ops}


def gen(rng: random.Random, tier: str):
    n = {"quick": 400, "thorough": 12000}[tier]
    for _ in range(n):
        yield gen_case(rng)

def _build(case):
    import pandas as pd
    from lenskit.data import DatasetBuilder
    from lenskit.diagnostics import DataError
    b = DatasetBuilder()
    b.add_entity_class("user")
    b.add_relationship_class("rating", ["user", "item"], allow_repeats=False, interaction=True)
    errs = []; snapshots = []
    for op in case["ops"]:
        try:
            if op["op"] == "addEntities":
                b.add_entities(op["cls"], np.array(op["ids"], dtype=np.int64), duplicates=op["dup"])
            elif op["op"] == "addInteractions":
                df = pd.DataFrame({"user_id": np.array([r["u"] for r in op["rows"]], dtype=np.int64),
                                   "item_id": np.array([r["i"] for r in op["rows"]], dtype=np.int64),
                                   "rating": np.array([float(Fraction(r["r"])) for r in op["rows"]], dtype=np.float64),
                                   "timestamp": np.array([r["t"] for r in op["rows"]], dtype=np.int64)})
                b.add_interactions("rating", df, missing=op["missing"])
            elif op["op"] == "filterTime":
                b.filter_interactions("rating", min_time=op["min"], max_time=op["max"])
            elif op["op"] == "remove":
                tbl = {}
                if op["users"] is not None: tbl["user_id"] = np.array(op["users"], dtype=np.int64)
                if op["items"] is not None: tbl["item_id"] = np.array(op["items"], dtype=np.int64)
                b.filter_interactions("rating", remove=tbl)
            elif op["op"] == "clear":
                b.clear_relationships("rating")
            errs.append(None)
        except DataError: errs.append("dataError")
        except KeyError: errs.append("keyError")
        except Exception as e: errs.append("other:" + type(e).__name__ + ":" + str(e)[:60])
        # numbers assigned so far (prefix stability is checked across these snapshots)
        snapshots.append({c: [int(x) for x in (b.entity_ids(c) if hasattr(b, "entity_ids") else [])] for c in ()})
    return b.build(), errs

def _views(ds):
    """every interaction view reduced to a sorted list of (user_id, item_id, rating) plus the per-entity counts"""
    users = [int(x) for x in ds.users.ids()]; items = [int(x) for x in ds.items.ids()]
    out = {}
    df = ds.interactions().pandas(ids=True)
    has_r = "rating" in df.columns
    def trip(us, its, rs): return sorted((int(u), int(i), None if r is None else float(r)) for u, i, r in zip(us, its, rs))
    out["table"] = trip(df["user_id"], df["item_id"], df["rating"] if has_r else [None] * len(df))
    if has_r:
        csr = ds.interaction_matrix(format="scipy", layout="csr", field="rating").tocoo()
        out["scipy_csr"] = trip([users[r] for r in csr.row], [items[c] for c in csr.col], csr.data)
        coo = ds.interaction_matrix(format="scipy", layout="coo", field="rating")
        out["scipy_coo"] = trip([users[r] for r in coo.row], [items[c] for c in coo.col], coo.data)
        t = ds.interaction_matrix(format="torch", layout="csr", field="rating").to_sparse_coo().coalesce()
        ix = t.indices().numpy(); out["torch_csr"] = trip([users[r] for r in ix[0]], [items[c] for c in ix[1]], t.values().numpy())
    s = ds.interaction_matrix(format="structure")
    rp = [int(x) for x in s.rowptrs]; ci = [int(x) for x in s.colinds]
    out["structure"] = sorted((users[u], items[ci[k]]) for u in range(len(users)) for k in range(rp[u], rp[u + 1]))
    m_ = ds.interactions().matrix(); coo_s = m_.coo_structure()
    out["coo_structure"] = sorted((users[int(r)], items[int(c)]) for r, c in zip(coo_s.row_numbers, coo_s.col_numbers))
    try: out["nnz"] = {"csr": int(s.nnz), "coo": int(coo_s.nnz), "shape_csr": [int(x) for x in s.shape], "shape_coo": [int(x) for x in coo_s.shape]}
    except Exception as e: out["nnz"] = {"error": type(e).__name__}
    rows = []; rows_n = []; absent = []
    for n_, u in enumerate(users):
        il = ds.user_row(u); il2 = ds.user_row(user_num=n_)
        rs = il.field("rating") if (il is not None and has_r) else None
        if il is None or il2 is None: absent.append(u)            # a known user always has a row (an empty one if inactive)
        if il is not None:
            rows += [(u, int(i), None if rs is None else float(rs[k])) for k, i in enumerate(il.ids())]
        if il2 is not None:
            rs2 = il2.field("rating") if has_r else None
            rows_n += [(u, int(i), None if rs2 is None else float(rs2[k])) for k, i in enumerate(il2.ids())]
    out["user_rows"] = sorted(rows); out["user_rows_by_number"] = sorted(rows_n); out["known_users_without_row"] = absent
    out["unknown_user_row"] = ds.user_row(987654) is None
    us, its = ds.user_stats(), ds.item_stats()
    out["user_counts"] = {int(u): int(c) for u, c in us["count"].items()}
    out["item_counts"] = {int(i): int(c) for i, c in its["count"].items()}
    out["unknown_user"] = ds.users.number(987654, missing=None)
    out["unknown_item_num"] = int(ds.items.numbers([123456], missing="negative")[0])
    return out

def _stats_clauses(ds):
    """per-user / per-item statistics against the record table — on the dataset as it is, and on a copy of its records in which every other
    record has no rating value (an interaction without a rating is still an interaction: it counts, and it has a time)"""
    import warnings, pandas as pd
    from lenskit.data import DatasetBuilder
    out = []
    df = ds.interactions().pandas(ids=True)
    if not len(df) or "rating" not in df.columns or "timestamp" not in df.columns: return out
    users = [int(x) for x in ds.users.ids()]; items = [int(x) for x in ds.items.ids()]
    base = pd.DataFrame({"user_id": df["user_id"].astype("int64"), "item_id": df["item_id"].astype("int64"), "rating": df["rating"].astype("float64"),
                         "timestamp": df["timestamp"].astype("int64")}).reset_index(drop=True)
    for label in ("as built", "with unrated interactions"):
        d2 = base.copy(); target = ds
        if label != "as built":
            d2.loc[d2.index[::2], "rating"] = np.nan
            b = DatasetBuilder(); b.add_entity_class("user"); b.add_relationship_class("rating", ["user", "item"], allow_repeats=False, interaction=True)
            b.add_entities("user", np.array(users, dtype=np.int64)); b.add_entities("item", np.array(items, dtype=np.int64))
            b.add_interactions("rating", d2, missing="error"); target = b.build()
        with warnings.catch_warnings():
            warnings.simplefilter("ignore"); tabs = (("user", "user_id", users, target.user_stats()), ("item", "item_id", items, target.item_stats()))
        for cls, col, ids, st in tabs:
            for e in ids:
                rows = d2[d2[col] == e]; got = st.loc[e]; rated = rows["rating"].dropna()
                want = {"count": len(rows), "rating_count": len(rated)}
                bad = [k for k, w in want.items() if k in st.columns and int(got[k]) != w]
                if "mean_rating" in st.columns and (pd.isna(got["mean_rating"]) != (len(rated) == 0) or (len(rated) and abs(float(got["mean_rating"]) - float(rated.mean())) > 1e-9)): bad.append("mean_rating")
                for k, f in (("first_time", min), ("last_time", max)):
                    if k in st.columns:
                        w = None if not len(rows) else int(f(rows["timestamp"]))
                        g = None if pd.isna(got[k]) else int(pd.Timestamp(got[k]).value if not isinstance(got[k], (int, np.integer)) else got[k])
                        if g != w: bad.append(k)
                if bad: out.append(f"{cls}_stats ({label}): {', '.join(bad)} wrong for {cls} {e}")
    return out[:6]

def run(case: dict, lean: Lean) -> Outcome:
    ds, errs = _build(case)
    if any(isinstance(e, str) and "timestamp column required" in e for e in errs):
        return Outcome(True, True, (), {"skipped": "filter on a table without timestamps"})
    users = [int(x) for x in ds.users.ids()]; items = [int(x) for x in ds.items.ids()]
    m = ds.interactions().matrix(); tbl = m.arrow().to_pydict(); n = len(tbl["user_num"])
    recs = [[tbl["user_num"][k], tbl["item_num"][k],
             None if tbl.get("rating", [None] * n)[k] is None else rat(tbl["rating"][k]), tbl.get("timestamp", [None] * n)[k]] for k in range(n)]
    real = {"errors": errs, "users": users, "items": items, "recs": recs, "rowptrs": [int(x) for x in m.csr_structure().rowptrs]}
    model = lean.call("c01.run_history", {"ops": case["ops"]})
    corr = real == model
    # specification clauses evaluated on the implementation alone
    failed = []; keys = []
    if users != sorted(set(users)) and len(case["ops"]) <= 2: failed.append("one-shot vocabulary not ascending")
    if len(set(users)) != len(users) or len(set(items)) != len(items): failed.append("identifier numbered twice")
    try:
        v = _views(ds)
        ref = v["table"]
        if v["known_users_without_row"]: failed.append(f"known users {v['known_users_without_row']} have no row (an inactive user's row must be empty, not absent)")
        if not v["unknown_user_row"]: failed.append("an unknown user has a row")
        for name in ("scipy_csr", "scipy_coo", "torch_csr", "user_rows", "user_rows_by_number"):
            if name in v and v[name] != ref: failed.append(f"view {name} differs from the record table")
        if v["structure"] != sorted((u, i) for u, i, _ in ref): failed.append("CSR structure differs from the record table")
        if v["coo_structure"] != sorted((u, i) for u, i, _ in ref): failed.append("COO structure differs from the record table")
        if v["nnz"] != {"csr": len(ref), "coo": len(ref), "shape_csr": [len(users), len(items)], "shape_coo": [len(users), len(items)]}:
            failed.append(f"structure sizes wrong: {v['nnz']}"); keys.append("COOStructure.nnz indexes the row numbers like row pointers")
        for u in users:
            if v["user_counts"].get(u, 0) != sum(1 for x in ref if x[0] == u): failed.append(f"user_stats count wrong for {u}")
        for i in items:
            if v["item_counts"].get(i, 0) != sum(1 for x in ref if x[1] == i): failed.append(f"item_stats count wrong for {i}")
        if v["unknown_user"] is not None or v["unknown_item_num"] >= 0: failed.append("unknown identifier mapped to a number")
        failed += _stats_clauses(ds)
        # the table itself must be what the model says the history denotes
        want = sorted((model["users"][r[0]], model["items"][r[1]], None if r[2] is None else float(Fraction(r[2]))) for r in model["recs"])
        if ref != want: failed.append("record table differs from the history's denotation")
    except Exception as e:
        failed.append("view raised " + type(e).__name__ + ": " + str(e)[:80])
    spec = not failed
    classes = []
    kinds = [o["op"] for o in case["ops"]]
    if kinds.count("addEntities") > 2: classes.append("late-added entities")
    if "filterTime" in kinds or "remove" in kinds: classes.append("filter op")
    if "clear" in kinds: classes.append("clear")
    if any(o["op"] == "addInteractions" and not o["rows"] for o in case["ops"]): classes.append("addition of no records")
    if any(o["op"] == "addInteractions" and o["missing"] == "filter" for o in case["ops"]): classes.append("missing=filter")
    if any(e for e in errs): classes.append("error stream")
    act_u = {r[0] for r in recs}
    if len(act_u) < len(users): classes.append("entity without interactions")
    if not recs: classes.append("no records left")
    fk = None
    if failed: fk = tuple(sorted(set(keys))) if (keys and all("structure sizes wrong" in f for f in failed)) else None
    return Outcome(corr, spec, tuple(classes), {"impl": real, "model": model, "failed": failed}, fk)

def shrink(case: dict):
    for i in range(2, len(case["ops"])):
        c = dict(case); c["ops"] = case["ops"][:i] + case["ops"][i + 1:]; yield c
    for i, op in enumerate(case["ops"]):
        if op["op"] == "addInteractions" and len(op["rows"]) > 1:
            for j in range(len(op["rows"])):
                o2 = dict(op); o2["rows"] = op["rows"][:j] + op["rows"][j + 1:]
                c = dict(case); c["ops"] = case["ops"][:i] + [o2] + case["ops"][i + 1:]; yield c

SPEC = CheckSpec(
    pid="C01",
    theorems=[f"LK.DS.C01_Dataset_{n}" for n in ["addEntities_prefix", "addEntities_nodup", "addEntities_complete", "addEntities_oneshot_sorted",
              "number_some_iff", "number_none_iff", "step_prefix", "run_prefix", "number_stable", "newRecs_denote", "newRecs_insert_all",
              "decode_stable", "sortedRecs_perm"]] + [f"LK.DS.C01_Dataset2_{n}" for n in ["rowOf_eq_filter", "rowOf_perm", "rowOf_empty", "rowCount_sorted", "last_ptr_total"]]
             + ["LK.C01_Csr_row_slice", "LK.C01_Csr_rowPtrs_get"],
    correspondence_ops=["c01.run_history"],
    nontrivial_rule="distinct builder histories reaching ≥1 of: late-added entities, filter op, clear, missing=filter, error stream, entity without interactions, no records left",
    budgets={"quick": 400, "thorough": 12000}, gen=gen, run=run, shrink=shrink)
