"""C05 — train/test splitting partitions the data: nothing lost, nothing leaked, options honoured."""
from __future__ import annotations
import json, random
import numpy as np
from ..core import CheckSpec, Outcome, Lean

def gen(rng: random.Random, tier: str):
    n = {"quick": 250, "thorough": 8000}[tier]
    for _ in range(n):
        kind = rng.choice(["array_split", "last_n", "crossfold_records", "sample_records", "crossfold_users", "sample_users", "temporal", "temporal_tz", "temporal_tz"])
        nu, ni = rng.randint(2, 7), rng.randint(2, 7)
        rows = [[100 + u, 1000 + i, float(rng.randint(1, 5)), rng.randint(0, 200)] for u in range(nu) for i in range(ni) if rng.random() < 0.55]
        if len(rows) < 3: continue
        c = {"kind": kind, "rows": rows, "seed": rng.randrange(10**6), "test_only": rng.random() < 0.3}
        if kind == "array_split": c.update(xs=rng.sample(range(50), rng.randint(0, 12)), k=rng.randint(1, 6))
        elif kind == "last_n": c.update(times=rng.sample(range(100), rng.randint(1, 8)), n=rng.randint(0, 9))
        elif kind == "crossfold_records": c.update(k=rng.randint(1, 5))          # one partition: every record is tested, nothing is left to train on
        elif kind == "sample_records": c.update(size=(len(rows) if rng.random() < 0.15 else rng.randint(1, max(1, len(rows) // 2))), repeats=rng.choice([None, 2, 3, 6]), disjoint=rng.random() < 0.6)          # a sample of every record is a sample
        elif kind == "crossfold_users": c.update(k=rng.randint(2, 4), holdout=rng.choice([["sample_n", 1], ["sample_n", 2], ["sample_frac", 0.5], ["last_n", 1], ["last_n", 0], ["last_frac", 0.4], ["last_frac", 0.01], ["sample_n", 50], ["last_n", 50], ["sample_frac", 1.0], ["last_frac", 1.0]]))          # sizes above a user's row count and the whole fraction included
        elif kind == "sample_users": c.update(size=rng.randint(1, nu), repeats=rng.choice([None, 2, 4]), disjoint=rng.random() < 0.6, holdout=rng.choice([["sample_n", 1], ["last_n", 2], ["last_frac", 0.5], ["sample_n", 50], ["last_frac", 1.0], ["sample_frac", 1.0]]))
        elif kind == "temporal_tz":
            # instants are BASE + k half-hours; cut-offs are placed on record times half of the time (boundary), with a form each
            ks = sorted({r[3] for r in rows}); pick = lambda: (rng.choice(ks) if rng.random() < 0.5 else rng.randint(0, 210))
            cuts = sorted({pick() for _ in range(rng.choice([1, 1, 2, 3]))})
            form = lambda: rng.choice(["unix-int", "unix-int", "unix-float", "naive-dt", "iso"])
            c.update(tz=rng.choice(TZS), tcol=rng.choice(["int", "datetime"]), cuts=[[k, form()] for k in cuts],
                     end=rng.choice([None, None, [cuts[-1] + rng.randint(1, 60), form()]]))
        else: c.update(cut=0 if rng.random() < 0.12 else rng.randint(0, 200), end=rng.choice([None, rng.randint(0, 260)]), frac=rng.choice([None, 0.2, 0.5]))          # a cut-off of 0 is a cut-off
        yield c
    # directed: a cut-off of 0 on integer timestamps that start at 0 (relative offsets) — everything is test data, nothing is training data
    for end in (None, 120):
        rows = [[100 + u, 1000 + i, float(rng.randint(1, 5)), rng.choice([0, 0, rng.randint(0, 200)])] for u in range(4) for i in range(4) if rng.random() < 0.7]
        yield {"kind": "temporal", "rows": rows, "seed": rng.randrange(10**6), "test_only": False, "cut": 0, "end": end, "frac": None}
    # directed: dense consecutive integer times and a fraction whose quantile falls between two of them (an interpolated, fractional cut-off)
    for frac in (0.5, 0.3):
        rows = [[100 + u, 1000 + i, float(rng.randint(1, 5)), 4 * u + i] for u in range(4) for i in range(4)]
        yield {"kind": "temporal", "rows": rows, "seed": rng.randrange(10**6), "test_only": False, "cut": 0, "end": None, "frac": frac}

BASE = 1_600_000_000; STEP = 1800
TZS = [["UTC0", 0], ["CST6", -21600], ["IST-5:30", 19800], ["LINT-14", 50400], ["<-03>3", -10800]]      # POSIX TZ strings (no tzdata needed), seconds east of UTC
TZ_KEY = "temporal split: UNIX-second cut-off against a date-time column depends on the process time zone / `end` is not converted"

def _run_temporal_tz(case, lean):
    """split_global_time under a process time zone, with every cut-off form, against both timestamp representations"""
    import os, time, datetime as dt, pandas as pd
    from lenskit.data import from_interactions_df
    from lenskit import splitting as sp
    rows = case["rows"]; tzname, tzoff = case["tz"]; col = "naive" if case["tcol"] == "datetime" else "unix"
    inst = lambda k: BASE + k * STEP
    df = pd.DataFrame([[r[0], r[1], r[2], inst(r[3])] for r in rows], columns=["user_id", "item_id", "rating", "timestamp"])
    if col == "naive": df["timestamp"] = pd.to_datetime(df["timestamp"], unit="s")
    def arg(k, form):
        x = inst(k)
        if form == "unix-int": return x
        if form == "unix-float": return float(x)
        d = dt.datetime(1970, 1, 1) + dt.timedelta(seconds=x)          # the naive (UTC) wall-clock reading of the instant
        return d if form == "naive-dt" else d.isoformat()
    fr = lambda form: "unix" if form.startswith("unix") else "naive"
    cuts = [arg(k, f) for k, f in case["cuts"]]; end = None if case["end"] is None else arg(*case["end"])
    old_tz = os.environ.get("TZ")
    os.environ["TZ"] = tzname; time.tzset()
    try:
        ds = from_interactions_df(df)
        try:
            r = sp.split_global_time(ds, cuts[0] if len(cuts) == 1 else cuts, end)
            splits = [r] if len(cuts) == 1 else list(r)
            key = {(int(u), int(i)): n for n, (u, i) in enumerate(zip(df["user_id"], df["item_id"]))}
            real = []
            for s_ in splits:
                tr = s_.train.interactions().pandas(ids=True)
                real.append({"train": sorted(key[(int(u), int(i))] for u, i in zip(tr["user_id"], tr["item_id"])),
                             "test": sorted(key[(int(k_.user_id), int(i))] for k_, il in s_.test.items() for i in il.ids())})
        except Exception as e:
            real = {"error": type(e).__name__}
    finally:
        if old_tz is None: os.environ.pop("TZ", None)
        else: os.environ["TZ"] = old_tz
        time.tzset()
    margs = {"times": [inst(r[3]) for r in rows], "col": col, "cuts": [[fr(f), inst(k)] for k, f in case["cuts"]],
             "end": None if case["end"] is None else [fr(case["end"][1]), inst(case["end"][0])]}
    canon = lambda m: None if m is None else [{"train": sorted(x["train"]), "test": sorted(x["test"])} for x in m]
    as_is = canon(lean.call("c05.global_time", {**margs, "tz": tzoff, "variant": "asIs"}))
    rep = canon(lean.call("c05.global_time", {**margs, "tz": tzoff, "variant": "repaired"}))
    forms = [fr(f) for _, f in case["cuts"]] + ([] if case["end"] is None else [fr(case["end"][1])])
    in_scope = all(f == "unix" or f == col for f in forms)       # the property quantifies over UNIX seconds and the stored representation
    want = canon(lean.call("c05.global_time", {**margs, "tz": 0, "variant": "repaired"})) if in_scope else rep
    realc = None if isinstance(real, dict) and real.get("error") == "TypeError" else real
    corr = realc in (as_is, rep); spec = (realc == want) if in_scope else True      # outside the claim only the correspondence is checked
    classes = ["temporal_tz", f"column:{case['tcol']}"] + sorted({"cut-off as " + f for _, f in case["cuts"]})
    if tzoff != 0: classes.append("process zone ≠ UTC")
    if case["end"] is not None: classes.append("end given")
    if len(cuts) > 1: classes.append("cut sequence")
    if not in_scope: classes.append("naive cut-off against UNIX column (outside the claim)")
    fk = None
    if not spec:
        fk = TZ_KEY if (realc == as_is and col == "naive" and "unix" in forms) else ("?temporal: " + json.dumps(real)[:80])
    return Outcome(corr, spec, tuple(classes), {"impl": real, "model_as_is": as_is, "model_repaired": rep, "spec": want, "in_scope": in_scope}, fk)

def _holdout(h):
    from lenskit.splitting import SampleN, SampleFrac, LastN, LastFrac
    return {"sample_n": SampleN, "sample_frac": SampleFrac, "last_n": LastN, "last_frac": LastFrac}[h[0]](h[1])

def _trip(df): return sorted((int(u), int(i)) for u, i in zip(df["user_id"], df["item_id"]))

def run(case: dict, lean: Lean) -> Outcome:
    import pandas as pd
    from lenskit.data import from_interactions_df, ItemList
    from lenskit import splitting as sp
    kind = case["kind"]; failed = []; key = None; corr = True; classes = [kind]
    if kind == "array_split":
        real = [list(map(int, p)) for p in np.array_split(np.array(case["xs"], dtype=np.int64), case["k"])]
        corr = real == lean.call("c05.array_split", {"xs": case["xs"], "k": case["k"]})
        return Outcome(corr, corr, tuple(classes), {"impl": real}, None)
    if kind == "last_n":
        times, n = case["times"], case["n"]
        out = sp.LastN(n)(ItemList(item_ids=np.arange(len(times)), timestamp=np.array(times, dtype=np.int64)))
        real = [int(x) for x in out.ids()]
        as_is = lean.call("c05.last_n", {"times": times, "n": n, "variant": "asIs"}); rep = lean.call("c05.last_n", {"times": times, "n": n, "variant": "repaired"})
        corr = real in (as_is, rep); spec = real == rep
        if n == 0: classes.append("zero-sized holdout")
        if n >= len(times): classes.append("n ≥ length")
        return Outcome(corr, spec, tuple(classes), {"impl": real, "as_is": as_is, "repaired": rep},
                       "LastN / LastFrac with a count of zero hold out every row" if (not spec and real == as_is and n == 0) else None)
    if kind == "temporal_tz": return _run_temporal_tz(case, lean)
    df = pd.DataFrame(case["rows"], columns=["user_id", "item_id", "rating", "timestamp"]); ds = from_interactions_df(df)
    allp = _trip(df); to = case["test_only"] and kind != "temporal"      # the temporal splitters have no test_only option
    n_users = df["user_id"].nunique()
    # requests outside the splitters' domain (more folds than units, an empty time window) are not part of the claim
    if (kind == "crossfold_users" and case["k"] > n_users) or (kind == "crossfold_records" and case["k"] > len(allp)) \
            or (kind == "sample_users" and (case["size"] > n_users or (case["repeats"] and case["disjoint"] and case["repeats"] * case["size"] >= n_users and case["repeats"] > n_users))) \
            or (kind == "sample_records" and case["repeats"] and case["disjoint"] and case["repeats"] * case["size"] >= len(allp) and case["repeats"] > len(allp)) or (kind == "temporal" and case["end"] is not None and case["end"] <= case["cut"]):
        return Outcome(True, True, ("out of domain",), {}, None)
    universe = allp
    if kind == "temporal" and case["frac"] is None and case["end"] is not None:
        tm0 = {(r[0], r[1]): r[3] for r in case["rows"]}
        universe = [p for p in allp if tm0[p] < case["end"]]          # records at or after the window's end belong to neither side
    def check_split(s, label, expect_test_users=None):
        test = sorted((int(k.user_id), int(i)) for k, il in s.test.items() for i in il.ids())
        train = _trip(s.train.interactions().pandas(ids=True))
        if len(set(test)) != len(test): failed.append(f"{label}: duplicated test record")
        if not set(test) <= set(allp): failed.append(f"{label}: test record not in the data")
        if set(test) & set(train): failed.append(f"{label}: record both in train and test")
        if to:
            if train: failed.append(f"{label}: test_only requested but a training set of {len(train)} records was built")
        elif sorted(train + test) != universe: failed.append(f"{label}: train ∪ test ≠ data ({len(train)}+{len(test)} vs {len(universe)})")
        if s.test_size != len(test): failed.append(f"{label}: test_size {s.test_size} ≠ {len(test)}")
        try:
            if test and _trip(s.test_df) != test: failed.append(f"{label}: test_df differs from the test collection")
            if not to and _trip(s.train_df) != train: failed.append(f"{label}: train_df differs from the training dataset")
        except Exception as e:
            failed.append(f"{label}: frame view raised {type(e).__name__}")
        return test, train
    try:
        if kind == "crossfold_records":
            splits = list(sp.crossfold_records(ds, case["k"], test_only=to, rng=case["seed"]))
            tests = [check_split(s, f"fold {j}")[0] for j, s in enumerate(splits)]
            if sorted(sum(tests, [])) != allp: failed.append("folds do not test every record exactly once")
            if max(map(len, tests)) - min(map(len, tests)) > 1: failed.append("fold sizes differ by more than one")
        elif kind == "sample_records":
            r = sp.sample_records(ds, case["size"], repeats=case["repeats"], disjoint=case["disjoint"], test_only=to, rng=case["seed"])
            splits = [r] if case["repeats"] is None else list(r)
            tests = [check_split(s, f"sample {j}")[0] for j, s in enumerate(splits)]
            fallback = case["repeats"] is not None and case["disjoint"] and case["repeats"] * case["size"] >= len(allp)
            if fallback: classes.append("oversized request: cross-fold fallback")
            else:
                if any(len(t) != case["size"] for t in tests): failed.append("sample size not honoured")
                if case["disjoint"] and case["repeats"] and len(set(sum(tests, []))) != sum(map(len, tests)): failed.append("disjoint samples overlap")
            if case["repeats"] is None: classes.append("single sample")
        elif kind in ("crossfold_users", "sample_users"):
            h = _holdout(case["holdout"]); classes.append("holdout:" + case["holdout"][0])
            if kind == "crossfold_users": splits = list(sp.crossfold_users(ds, case["k"], h, test_only=to, rng=case["seed"]))
            else:
                r = sp.sample_users(ds, case["size"], h, repeats=case["repeats"], disjoint=case["disjoint"], test_only=to, rng=case["seed"])
                splits = [r] if case["repeats"] is None else list(r)
            users = sorted({u for u, _ in allp}); tested = []
            for j, s in enumerate(splits):
                test, train = check_split(s, f"split {j}")
                tus = sorted({int(k.user_id) for k in s.test.keys()}); tested += tus
                for u in tus:
                    mine = [p for p in allp if p[0] == u]; held = [p for p in test if p[0] == u]
                    hn, hv = case["holdout"]
                    want = {"sample_n": min(hv, len(mine)), "last_n": min(hv, len(mine)), "sample_frac": round(len(mine) * hv), "last_frac": round(len(mine) * hv)}[hn]
                    if len(held) != want: failed.append(f"split {j}: user {u} has {len(held)} of {len(mine)} rows held out, want {want}")
                    if hn.startswith("last") and held:
                        tm = {(r[0], r[1]): r[3] for r in case["rows"]}
                        rest = [p for p in mine if p not in held]
                        if rest and max(tm[p] for p in rest) > min(tm[p] for p in held): failed.append(f"split {j}: user {u}: a training row is later than a held-out row")
            if kind == "crossfold_users" and sorted(tested) != users: failed.append("users are not tested exactly once across the folds")
            if case["holdout"][1] in (0, 0.01): classes.append("zero-sized holdout")
        else:
            if case["frac"] is not None:
                s = sp.split_temporal_fraction(ds, case["frac"]); test, train = check_split(s, "temporal fraction")
                classes.append("temporal fraction")
            else:
                s = sp.split_global_time(ds, case["cut"], case["end"]); test, train = check_split(s, "global time")
                tm = {(r[0], r[1]): r[3] for r in case["rows"]}
                if any(tm[p] >= case["cut"] for p in train): failed.append("training record at or after the cutoff")
                if any(tm[p] < case["cut"] or (case["end"] is not None and tm[p] >= case["end"]) for p in test): failed.append("test record outside the window")
                want = [p for p in allp if tm[p] >= case["cut"] and (case["end"] is None or tm[p] < case["end"])]
                if sorted(test) != sorted(want): failed.append("test set is not exactly the window")
    except Exception as e:
        failed.append(f"{kind} raised {type(e).__name__}: {str(e)[:60]}")
    if to: classes.append("test_only")
    if failed:
        tags = set()
        for f in failed:
            if "train_df" in f or "frame view raised FieldError" in f: tags.add("TTSplit.train_df raises FieldError")
            elif "test_only requested" in f: tags.add("test_only dropped on the single-sample / fallback paths")
            elif "rows held out, want 0" in f: tags.add("LastN / LastFrac with a count of zero hold out every row")
            elif "train ∪ test ≠ data" in f and any("want 0" in g for g in failed): pass     # consequence of the zero-count defect
            else: tags.add("?unclassified: " + f)
        key = tuple(sorted(tags))
    return Outcome(corr, not failed, tuple(classes), {"failed": failed[:8]}, key)

def shrink(case: dict):
    if "rows" in case and case["kind"] not in ("array_split", "last_n"):
        for i in range(len(case["rows"])):
            c = dict(case); c["rows"] = case["rows"][:i] + case["rows"][i + 1:]
            if len(c["rows"]) >= 3: yield c

SPEC = CheckSpec(
    pid="C05",
    theorems=[f"LK.Split.C05_Split_{n}" for n in ["arraySplit_flatten", "arraySplit_length", "arraySplit_each_once", "makePair_partition", "makePair_testOnly",
              "userSplit_other_users", "userSplit_test", "userSplit_no_leak", "temporal_partition", "temporal_train_before", "temporal_test_window",
              "conformCut_tz_independent"]] + ["LK.Split.C05_Split2_lastN_spec"],
    correspondence_ops=["c05.array_split", "c05.last_n", "c05.global_time"],
    nontrivial_rule="distinct cases reaching ≥1 of: each splitter, each holdout, zero-sized holdout, oversized request fallback, single sample, test_only, temporal fraction, temporal split under a process zone ≠ UTC, each cut-off form × column representation, cut sequence, end",
    budgets={"quick": 250, "thorough": 8000}, gen=gen, run=run, shrink=shrink)
