"""Shared machinery: Lean bridge, seeded RNG, outcome bookkeeping, evidence, findings, replays."""
from __future__ import annotations
import json, os, random, subprocess, sys, time, hashlib, traceback
from dataclasses import dataclass, field
from fractions import Fraction
from pathlib import Path
from typing import Any, Callable, Iterable

ROOT = Path(os.environ.get("LKV_ROOT", Path(__file__).resolve().parents[2]))
LEAN_DIR = Path(os.environ.get("LKV_LEAN", ROOT / "lean"))
OUT = Path(os.environ.get("LKV_OUT", ROOT))          # where evidence/ and replays/ are written (self-tests redirect it)
DRIVER = LEAN_DIR / ".lake" / "build" / "bin" / "lkdriver"

TRUSTED_BASE = [
    "Lean 4.33 kernel; axioms propext, Classical.choice, Quot.sound only (audited with #print axioms)",
    "Mathlib v4.33 lemmas used in proof files",
    "this correspondence harness (generators, canonicalisation, tolerance policy, RNG scripting) and the compiled Lean driver",
    "NumPy/pandas/PyArrow/SciPy/PyTorch primitives, Parquet/pickle codecs, concurrent.futures, SHA-256, pydantic JSON writer: modelled, not verified",
]

def quiet_lenskit():
    import logging, warnings
    warnings.simplefilter("ignore")
    logging.disable(logging.CRITICAL)
    import structlog
    structlog.configure(wrapper_class=structlog.make_filtering_bound_logger(logging.CRITICAL))

import contextlib
@contextlib.contextmanager
def silence_fd1():
    """Worker processes of lenskit's pools pretty-print the exceptions of failing tasks on *their* standard output (structlog's
    ExceptionPrettyPrinter), which is the check's own.  Cases that run a pool with a failing task point file descriptor 1 at the null
    device for the duration of the call, so that a check's standard output carries only its own lines."""
    sys.stdout.flush()
    saved = os.dup(1); null = os.open(os.devnull, os.O_WRONLY)
    try:
        os.dup2(null, 1); yield
    finally:
        sys.stdout.flush(); os.dup2(saved, 1); os.close(saved); os.close(null)

def rat(x) -> str:
    try:
        f = Fraction(x)
    except TypeError:
        f = Fraction(float(x))        # NumPy scalars
    return str(f.numerator) if f.denominator == 1 else f"{f.numerator}/{f.denominator}"

def unrat(s: str) -> Fraction:
    return Fraction(s)

class LeanError(RuntimeError):
    pass

class Lean:
    """One driver process per check run; JSON lines in, JSON lines out, strictly in order."""
    def __init__(self, exe: Path = DRIVER):
        if not exe.exists():
            raise LeanError(f"driver not built: {exe} (run setup_cmd)")
        self.p = subprocess.Popen([str(exe)], stdin=subprocess.PIPE, stdout=subprocess.PIPE, text=True, bufsize=1)
        self.n = 0
    def call(self, op: str, args: dict) -> Any:
        self.n += 1
        self.p.stdin.write(json.dumps({"id": self.n, "op": op, "args": args}) + "\n")
        self.p.stdin.flush()
        line = self.p.stdout.readline()
        if not line:
            raise LeanError(f"driver died on op {op}")
        r = json.loads(line)
        if r.get("id") != self.n:
            raise LeanError(f"out-of-order reply for {op}: {r}")
        if "err" in r:
            raise LeanError(f"{op}: {r['err']}")
        return r["ok"]
    def close(self):
        try:
            self.p.stdin.close(); self.p.wait(timeout=5)
        except Exception:
            self.p.kill()

class MatLean(Lean):
    """The interpreted driver (`lake env lean --run MatMain.lean`): operations whose model is a Mathlib term."""
    def __init__(self):
        self.p = subprocess.Popen(["lake", "env", "lean", "--run", "MatMain.lean"], cwd=str(LEAN_DIR), stdin=subprocess.PIPE, stdout=subprocess.PIPE, text=True, bufsize=1)
        self.n = 0

@dataclass
class Outcome:
    """What one case established."""
    corr_ok: bool                      # implementation == model (canonical form)
    spec_ok: bool                      # Lean spec predicate holds of the implementation's output
    classes: tuple[str, ...] = ()      # boundary classes the case reached (Appendix B of DESIGN.md)
    detail: dict = field(default_factory=dict)   # impl / model outputs, failed clause … (goes into the replay)
    finding_key: str | tuple | None = None     # signature(s) used to match known_findings.json

@dataclass
class CheckSpec:
    pid: str
    theorems: list[str]
    correspondence_ops: list[str]
    nontrivial_rule: str
    budgets: dict                      # {"quick": n, "thorough": n}
    gen: Callable[[random.Random, str], Iterable[dict]]
    run: Callable[[dict, Lean], Outcome]
    shrink: Callable[[dict], Iterable[dict]] | None = None

ALLOWED_AXIOMS = {"propext", "Classical.choice", "Quot.sound"}
FORBIDDEN = ["sorry", "admit", "native_decide", "bv_decide", "implemented_by", "unsafe ", "maxHeartbeats 0"]

def audit(theorems: list[str], module: str = "LK.PropsAll") -> dict:
    """`#print axioms` for every property theorem + grep for forbidden tokens. Raises on any deviation."""
    import re, tempfile
    src = f"import {module}\n" + "\n".join(f"#print axioms {t}" for t in theorems) + "\n"
    with tempfile.NamedTemporaryFile("w", suffix=".lean", dir=LEAN_DIR, delete=False) as f:
        f.write(src); tmp = f.name
    try:
        r = subprocess.run(["lake", "env", "lean", tmp], cwd=LEAN_DIR, capture_output=True, text=True, timeout=900)
    finally:
        os.unlink(tmp)
    out = r.stdout + r.stderr
    ok = 0; problems = []
    for t in theorems:
        m = re.search(rf"'{re.escape(t)}' depends on axioms: \[([^\]]*)\]", out)
        if m:
            ax = {a.strip() for a in m.group(1).split(",") if a.strip()}
            if ax <= ALLOWED_AXIOMS: ok += 1
            else: problems.append(f"{t}: axioms {sorted(ax - ALLOWED_AXIOMS)}")
        elif re.search(rf"'{re.escape(t)}' does not depend on any axioms", out): ok += 1
        else: problems.append(f"{t}: not found / did not elaborate")
    for path in list((LEAN_DIR / "LK").rglob("*.lean")) + list((LEAN_DIR / "Driver").rglob("*.lean")):
        for ln, line in enumerate(path.read_text().splitlines(), 1):
            code = line.split("--")[0]
            if any(tok in code for tok in FORBIDDEN) or code.startswith("axiom "):
                problems.append(f"forbidden token at {path.name}:{ln}")
    if problems:
        raise LeanError("audit failed: " + "; ".join(problems[:5]))
    return {"obligations": len(theorems), "discharged": ok}

def _keys(k):
    return () if k is None else ((k,) if isinstance(k, str) else tuple(k))

def _all_known(k, findings) -> bool:
    ks = _keys(k)
    return bool(ks) and all(any(f.get("match") == x for f in findings) for x in ks)

def canon_key(case: dict) -> str:
    return hashlib.sha1(json.dumps(case, sort_keys=True, default=str).encode()).hexdigest()

def load_findings() -> list[dict]:
    p = ROOT / "known_findings.json"
    return json.loads(p.read_text()) if p.exists() else []

def shrink_case(spec: CheckSpec, case: dict, lean: Lean, bad: Callable[[Outcome], bool], limit: int = 200) -> dict:
    if spec.shrink is None:
        return case
    cur = case; steps = 0; progress = True
    while progress and steps < limit:
        progress = False
        for cand in spec.shrink(cur):
            steps += 1
            try:
                if bad(spec.run(cand, lean)):
                    cur = cand; progress = True; break
            except Exception:
                continue
            if steps >= limit: break
    return cur

def _guarded(spec: CheckSpec):
    """`spec.run`, with one safety net: an exception that escapes a check module *from inside lenskit* (the implementation failed where the
    module did not expect it — typically under a change to the code) is an outcome of the case, not a crash of the harness.  An exception
    whose traceback never enters lenskit is the harness's own and propagates (exit 2)."""
    raw = spec.run
    def run(case, lean):
        try:
            return raw(case, lean)
        except LeanError:
            raise
        except Exception as ex:
            frames = [f for f in traceback.extract_tb(ex.__traceback__) if "/lenskit/" in f.filename.replace("\\", "/")]
            if not frames: raise
            where = f"{os.path.basename(frames[-1].filename)}:{frames[-1].name}"
            return Outcome(False, False, ("implementation raised",), {"failed": [f"the implementation raised {type(ex).__name__} in {where}: {str(ex)[:120]}"]}, None)
    return run

def run_check(spec: CheckSpec, tier: str, seed: int, replay: str | None = None, audit: dict | None = None) -> int:
    spec.run = _guarded(spec)
    t0 = time.time()
    rng = random.Random(seed)
    lean = Lean()
    findings = [f for f in load_findings() if f.get("property") == spec.pid and f.get("kind") == "finding"]
    seen: dict[str, tuple[str, ...]] = {}
    class_counts: dict[str, int] = {}
    samples: list = []
    evaluations = 0; violations = 0; known_hits: dict[str, int] = {}
    exit_code = 0; reported: dict[tuple, int] = {}; unlabelled = 0
    MAX_VIOLATIONS = int(os.environ.get("LKV_MAX_VIOLATIONS", "3"))
    corpus_dir = ROOT / "corpus" / spec.pid
    def cases():
        if replay:
            yield json.loads(Path(replay).read_text())["case"]; return
        if corpus_dir.exists():
            for f in sorted(corpus_dir.glob("*.json")):
                yield json.loads(f.read_text())["case"]
        yield from spec.gen(rng, tier)
    try:
        for case in cases():
            evaluations += 1
            out = spec.run(case, lean)
            key = canon_key(case)
            if key not in seen and out.classes:
                seen[key] = out.classes
                for c in out.classes: class_counts[c] = class_counts.get(c, 0) + 1
            if len(samples) < 4 and out.classes:
                samples.append({"case": case, "classes": list(out.classes)})
            if out.corr_ok and out.spec_ok:
                continue
            # a case that reproduces a listed finding needs no shrinking
            # (a case may reproduce several listed findings at once: every one of its keys must be listed)
            if not out.spec_ok and _all_known(out.finding_key, findings):
                for kx in _keys(out.finding_key): known_hits[kx] = known_hits.get(kx, 0) + 1
                continue
            # disagreement or spec failure: shrink, classify, report
            # a shrink step must keep the *same* failure: sliding from an unlisted violation into a listed finding would hide it
            same = lambda o: _keys(o.finding_key) == _keys(out.finding_key)
            small = shrink_case(spec, case, lean, lambda o: ((not o.spec_ok) if not out.spec_ok else (not o.corr_ok)) and same(o))
            out2 = spec.run(small, lean)
            verdict = "violation" if not out2.spec_ok else "no-failing-input-found"
            if verdict == "violation" and _all_known(out2.finding_key, findings):
                for kx in _keys(out2.finding_key): known_hits[kx] = known_hits.get(kx, 0) + 1
                continue
            sig = _keys(out2.finding_key) if verdict == "violation" else ("no-failing-input-found",)
            if sig and sig in reported:                # one replay per distinct failure signature; further cases are counted
                reported[sig] += 1; continue
            if not sig and unlabelled >= 3:
                continue
            if sig: reported[sig] = 1
            else: unlabelled += 1
            violations += 1
            rp = OUT / "replays"; rp.mkdir(exist_ok=True, parents=True)
            path = rp / f"{spec.pid}-{seed}-{violations}.json"
            path.write_text(json.dumps({"property": spec.pid, "tier": tier, "seed": seed, "case": small, "detail": out2.detail,
                                        "verdict": verdict, "theorems": spec.theorems, "correspondence": spec.correspondence_ops,
                                        "signature": list(sig), "known_finding": None}, indent=1, default=str))
            tail = "" if verdict == "violation" else " no-failing-input-found"
            print(f"VIOLATION property={spec.pid} replay={path}{tail}")
            exit_code = 1
            if violations >= MAX_VIOLATIONS: break
        for k, n in known_hits.items():
            f = next(f for f in findings if f["match"] == k)
            print(f"KNOWN-FINDING: property={spec.pid} {f['what']} ({n} cases this run)")
    except LeanError as e:
        print(f"machinery error: {e}", file=sys.stderr); exit_code = 2
    except Exception:
        traceback.print_exc(); exit_code = 2
    finally:
        lean.close()
    ev = {
        "property_id": spec.pid, "tier": tier, "seed": seed, "level": "proof",
        "coverage": {
            "obligations": (audit or {}).get("obligations", len(spec.theorems)),
            "discharged": (audit or {}).get("discharged", 0),
            "checker_cmd": f"cd lean && lake build LK.Props.{spec.pid} lkdriver && lake env lean <#print axioms of the {(audit or {}).get('obligations', len(spec.theorems))} restated theorems of {spec.pid} in props.index>" + (" && lake env leanchecker LK.Props." + spec.pid + " + imports" if tier == "thorough" else ""),
            "trusted_base": TRUSTED_BASE,
            "evaluations": evaluations, "distinct_nontrivial": len(seen), "rule": spec.nontrivial_rule,
            "samples": samples, "traces_validated_against_impl": evaluations,
            "boundary_classes": class_counts, "known_finding_hits": known_hits, "violation_signatures": {" + ".join(k): n for k, n in reported.items()},
            "theorems": spec.theorems, "correspondence_ops": spec.correspondence_ops, "leanchecker": (audit or {}).get("leanchecker"),
            "generated_models": (audit or {}).get("generated"),
        },
        "assumptions": TRUSTED_BASE, "wall_s": round(time.time() - t0, 2), "violations": violations,
    }
    evd = OUT / "evidence"; evd.mkdir(exist_ok=True, parents=True)
    (evd / f"{spec.pid}.json").write_text(json.dumps(ev, indent=1, default=str))
    return exit_code
