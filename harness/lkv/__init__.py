"""lkv — correspondence harness between lenskit (/repo) and the Lean models (see /verif/DESIGN.md)."""
