import argparse, importlib, json, os, subprocess, sys, time
sys.path.insert(0, os.path.dirname(os.path.abspath(__file__)))
from pathlib import Path
from lkv.core import run_check, quiet_lenskit, audit, LeanError, ROOT, LEAN_DIR, OUT

GENERATED_FOR = {"C11", "C12"}        # properties whose theorems mention the generated chunking model

def regenerate(pid):
    """Re-translate `WorkChunks.create` from the lenskit that is importable *now* and rebuild. Returns (status, message)."""
    sys.path.insert(0, str(ROOT / "translate"))
    import py2lean, lenskit.parallel.chunking as ch
    target = LEAN_DIR / "LK" / "Generated" / "Chunking.lean"
    try:
        text = py2lean.translate(ch.__file__, "WorkChunks", "create", "chunkCreate", "LK.Gen.Chunking")
    except Exception as e:
        return "untranslatable", f"{type(e).__name__}: {e}"
    old = target.read_text() if target.exists() else ""
    if text != old: target.write_text(text)
    r = subprocess.run(["lake", "build", f"LK.Props.{pid}", "lkdriver"], cwd=LEAN_DIR, capture_output=True, text=True, timeout=1800)
    if r.returncode != 0:
        bad = [l for l in (r.stdout + r.stderr).splitlines() if "error" in l][:6]
        gen_related = any(("Chunking" in l) or ("C11" in l) or ("C12" in l) for l in bad)
        if text != old and gen_related:
            return "obligation-broken", "\n".join(bad)
        return "build-error", "\n".join(bad)
    return "ok", "regenerated" if text != old else "unchanged"

def guard_pids():
    sys.path.insert(0, str(ROOT / "translate"))
    import py2lean_guards
    return py2lean_guards.SITES

def regenerate_guards(pid):
    """Re-translate the decision logic of the functions listed for `pid` (translate/py2lean_guards.py) from the lenskit importable now
    (and, for C04, the gather / mask / scatter code of the scorers, translate/py2lean_scatter.py).  Returns (status, message, info)."""
    import py2lean_guards, lenskit
    if pid == "C12":
        # what the batch runner registers and what its worker asks of the pipeline, recorded by running them (lkv.props.c12.lean_batch_trace)
        import lkv.props.c12 as c12
        info = {"module": "LK.Gen.BatchTraceC12", "obligations": "LK/Proofs/BatchTraceC12.lean",
                "sites": ["batch/_runner.py:BatchPipelineRunner.recommend / predict / score (registered invocations)", "batch/_runner.py:_run_pipeline (recorded run_all calls)", "batch/__init__.py:recommend (forwarded length)"]}
        target = LEAN_DIR / "LK" / "Generated" / "BatchTraceC12.lean"
        try: text = c12.lean_batch_trace()
        except Exception as e: return "untranslatable", f"the batch runner could not be traced: {type(e).__name__}: {e}", info
        old = target.read_text() if target.exists() else ""
        if text != old: target.write_text(text)
        info["changed_since_last_run"] = text != old
        return "ok", "regenerated" if text != old else "unchanged", info
    if pid == "C15":
        # the file-system steps the real DataContainer.save performs, recorded by running it (lkv.props.c15.lean_save_trace)
        import lkv.props.c15 as c15
        info = {"module": "LK.Gen.SaveTraceC15", "obligations": "LK/Proofs/SaveTraceC15.lean", "sites": ["data/container.py:DataContainer.save (recorded step sequences: over an existing directory, into a fresh one)"]}
        target = LEAN_DIR / "LK" / "Generated" / "SaveTraceC15.lean"
        try: text = c15.lean_save_trace()
        except Exception as e: return "untranslatable", f"the save could not be traced: {type(e).__name__}: {e}", info
        old = target.read_text() if target.exists() else ""
        if text != old: target.write_text(text)
        info["changed_since_last_run"] = text != old
        # …and what an item list puts into its pickled state (translate/py2lean_guards.py)
        gt = LEAN_DIR / "LK" / "Generated" / "GuardsC15.lean"
        try: gtext = py2lean_guards.generate("C15", os.path.dirname(lenskit.__file__))
        except py2lean_guards.Unsupported as e: return "untranslatable", f"ItemList.__getstate__: {e}", info
        gold = gt.read_text() if gt.exists() else ""
        if gtext != gold: gt.write_text(gtext)
        info["pickled_state"] = {"module": "LK.Gen.GuardsC15", "obligations": "LK/Proofs/GuardsC15.lean", "function": "data/items.py:ItemList.__getstate__ / __setstate__", "changed_since_last_run": gtext != gold}
        # …and the native Parquet layout of item-list collections (translate/py2lean_coll.py)
        import py2lean_coll
        ct = LEAN_DIR / "LK" / "Generated" / "CollC15.lean"
        try: ctext = py2lean_coll.translate(os.path.dirname(lenskit.__file__))
        except py2lean_coll.Unsupported as e: return "untranslatable", f"collection layout: {e}", info
        cold = ct.read_text() if ct.exists() else ""
        if ctext != cold: ct.write_text(ctext)
        info["collection_layout"] = {"module": "LK.Gen.CollC15", "obligations": "LK/Proofs/CollC15.lean", "function": "data/collection/_base.py:ItemListCollection.record_batches / save_parquet / load_parquet (native layout)", "changed_since_last_run": ctext != cold}
        return "ok", "regenerated" if (text != old or gtext != gold or ctext != cold) else "unchanged", info
    if pid == "C20":
        import py2lean_neg
        info = {"module": "LK.Gen.NegC20", "obligations": "LK/Proofs/NegC20.lean", "sites": ["data/relationships.py:MatrixRelationshipSet.sample_negatives / _check_negatives / _check_negatives_and_resample → sampleT"]}
        target = LEAN_DIR / "LK" / "Generated" / "NegC20.lean"
        try: text = py2lean_neg.translate(os.path.dirname(lenskit.__file__))
        except py2lean_neg.Unsupported as e: return "untranslatable", str(e), info
        old = target.read_text() if target.exists() else ""
        if text != old: target.write_text(text)
        info["changed_since_last_run"] = text != old
        return "ok", "regenerated" if text != old else "unchanged", info
    if pid == "C17":
        import py2lean_arrow
        info = {"module": "LK.Gen.ArrowC17", "obligations": "LK/Proofs/ArrowC17.lean", "sites": ["data/builder.py:_expand_and_align_list_array → expandAlignT"]}
        target = LEAN_DIR / "LK" / "Generated" / "ArrowC17.lean"
        try: text = py2lean_arrow.translate(os.path.dirname(lenskit.__file__))
        except py2lean_arrow.Unsupported as e: return "untranslatable", str(e), info
        old = target.read_text() if target.exists() else ""
        if text != old: target.write_text(text)
        info["changed_since_last_run"] = text != old
        st = LEAN_DIR / "LK" / "Generated" / "ArrowScalarC17.lean"
        try: stext = py2lean_arrow.translate_scalar(os.path.dirname(lenskit.__file__))
        except py2lean_arrow.Unsupported as e: return "untranslatable", f"add_scalar_attribute: {e}", info
        sold = st.read_text() if st.exists() else ""
        if stext != sold: st.write_text(stext)
        info["sites"].append("data/builder.py:DatasetBuilder.add_scalar_attribute (value placement) → scalarPlaceT")
        # …and the identifier bookkeeping of add_entities (translate/py2lean_ent.py)
        import py2lean_ent
        et = LEAN_DIR / "LK" / "Generated" / "EntC17.lean"
        try: etext = py2lean_ent.translate(os.path.dirname(lenskit.__file__))
        except py2lean_ent.Unsupported as e: return "untranslatable", f"add_entities: {e}", info
        eold = et.read_text() if et.exists() else ""
        if etext != eold: et.write_text(etext)
        info["sites"].append("data/builder.py:DatasetBuilder.add_entities (identifier table and index) → addEntitiesT")
        return "ok", "regenerated" if (text != old or stext != sold or etext != eold) else "unchanged", info
    if pid == "C04":
        import py2lean_scatter
        info = {"module": "LK.Gen.ScatterC04", "obligations": "LK/Proofs/ScatterC04.lean", "sites": [f"{rel}:{cls}.__call__ → {nm}" for rel, cls, nm, *_ in py2lean_scatter.SCORERS]}
        target = LEAN_DIR / "LK" / "Generated" / "ScatterC04.lean"
        try: text = py2lean_scatter.generate(os.path.dirname(lenskit.__file__))
        except py2lean_scatter.Unsupported as e: return "untranslatable", str(e), info
        old = target.read_text() if target.exists() else ""
        if text != old: target.write_text(text)
        info["changed_since_last_run"] = text != old
        return "ok", "regenerated" if text != old else "unchanged", info
    target = LEAN_DIR / "LK" / "Generated" / f"Guards{pid}.lean"
    info = {"module": f"LK.Gen.Guards{pid}", "obligations": f"LK/Proofs/Guards{pid}.lean", "sites": [f"{x['file']}:{(x.get('cls') or '') + '.' + x['fn']} [{x['mode']}] → {x['lean']}" for x in py2lean_guards.SITES[pid]]}
    try:
        text = py2lean_guards.generate(pid, os.path.dirname(lenskit.__file__))
    except py2lean_guards.Unsupported as e:
        return "untranslatable", str(e), info
    old = target.read_text() if target.exists() else ""
    if text != old: target.write_text(text)
    info["changed_since_last_run"] = text != old
    if pid == "C08":
        # the NumPy code of BiasModel.learn, statement by statement (translate/py2lean_np.py)
        import py2lean_np
        nt = LEAN_DIR / "LK" / "Generated" / "NpC08.lean"
        try: ntext = py2lean_np.translate_learn(os.path.dirname(lenskit.__file__))
        except py2lean_np.Unsupported as e: return "untranslatable", f"BiasModel.learn: {e}", info
        nold = nt.read_text() if nt.exists() else ""
        if ntext != nold: nt.write_text(ntext)
        info["numpy_code"] = {"module": "LK.Gen.NpC08", "obligations": "LK/Proofs/NpC08.lean", "function": "basic/bias.py:BiasModel.learn", "changed_since_last_run": ntext != nold}
        # …and BiasModel.compute_for_items, with its branches (translate/py2lean_imp.py)
        import py2lean_imp
        it = LEAN_DIR / "LK" / "Generated" / "ImpC08.lean"
        try: itext = py2lean_imp.translate(os.path.dirname(lenskit.__file__))
        except py2lean_imp.Unsupported as e: return "untranslatable", f"BiasModel.compute_for_items: {e}", info
        iold = it.read_text() if it.exists() else ""
        if itext != iold: it.write_text(itext)
        info["score_assembly"] = {"module": "LK.Gen.ImpC08", "obligations": "LK/Proofs/ImpC08.lean", "function": "basic/bias.py:BiasModel.compute_for_items", "changed_since_last_run": itext != iold}
    if pid == "C05":
        # the holdout methods (translate/py2lean_holdout.py)
        import py2lean_holdout
        ht = LEAN_DIR / "LK" / "Generated" / "HoldoutC05.lean"
        try: htext = py2lean_holdout.generate(os.path.dirname(lenskit.__file__))
        except py2lean_holdout.Unsupported as e: return "untranslatable", f"holdout methods: {e}", info
        hold = ht.read_text() if ht.exists() else ""
        if htext != hold: ht.write_text(htext)
        info["holdouts"] = {"module": "LK.Gen.HoldoutC05", "obligations": "LK/Proofs/HoldoutC05.lean", "function": "splitting/holdout.py: SampleN, SampleFrac, LastN, LastFrac", "changed_since_last_run": htext != hold}
        # …and the record splitters' bookkeeping (translate/py2lean_split.py)
        import py2lean_split
        st_ = LEAN_DIR / "LK" / "Generated" / "SplitC05.lean"
        try: stext = py2lean_split.translate(os.path.dirname(lenskit.__file__))
        except py2lean_split.Unsupported as e: return "untranslatable", f"record splitters: {e}", info
        sold = st_.read_text() if st_.exists() else ""
        if stext != sold: st_.write_text(stext)
        info["record_splitters"] = {"module": "LK.Gen.SplitC05", "obligations": "LK/Proofs/SplitC05.lean", "function": "splitting/records.py: _make_pair, crossfold_records, _disjoint_samples", "changed_since_last_run": stext != sold}
    if pid in ("C14", "C02"):
        # the builder's edit operations (translate/py2lean_build.py)
        import py2lean_build
        bt = LEAN_DIR / "LK" / "Generated" / f"Build{pid}.lean"
        try: btext = py2lean_build.translate(os.path.dirname(lenskit.__file__), pid)
        except py2lean_build.Unsupported as e: return "untranslatable", f"builder edit operations: {e}", info
        bold = bt.read_text() if bt.exists() else ""
        if btext != bold: bt.write_text(btext)
        info["builder_edits"] = {"module": f"LK.Gen.Build{pid}", "obligations": f"LK/Proofs/Build{pid}.lean", "function": "pipeline/builder.py:PipelineBuilder.connect / clear_inputs / replace_component", "changed_since_last_run": btext != bold}
    if pid == "C09":
        # the similarity row of the item-item model (translate/py2lean_sim.py)
        import py2lean_sim
        mt = LEAN_DIR / "LK" / "Generated" / "SimC09.lean"
        try: mtext = py2lean_sim.translate(os.path.dirname(lenskit.__file__))
        except py2lean_sim.Unsupported as e: return "untranslatable", f"_sim_row: {e}", info
        mold = mt.read_text() if mt.exists() else ""
        if mtext != mold: mt.write_text(mtext)
        info["similarity_row"] = {"module": "LK.Gen.SimC09", "obligations": "LK/Proofs/SimC09.lean", "function": "knn/item.py:_sim_row (called from _sim_block)", "changed_since_last_run": mtext != mold}
    if pid == "C01":
        # the CSR row pointers (translate/py2lean_arrow.py translate_rowptrs)
        import py2lean_arrow
        pt = LEAN_DIR / "LK" / "Generated" / "RowPtrsC01.lean"
        try: ptext = py2lean_arrow.translate_rowptrs(os.path.dirname(lenskit.__file__))
        except py2lean_arrow.Unsupported as e: return "untranslatable", f"row pointers: {e}", info
        pold = pt.read_text() if pt.exists() else ""
        if ptext != pold: pt.write_text(ptext)
        info["row_pointers"] = {"module": "LK.Gen.RowPtrsC01", "obligations": "LK/Proofs/RowPtrsC01.lean", "function": "data/relationships.py:MatrixRelationshipSet.__init__ (row pointers)", "changed_since_last_run": ptext != pold}
    if pid == "C19":
        # the `linear` transform of the stochastic ranker (translate/py2lean_imp.py)
        import py2lean_imp
        lt = LEAN_DIR / "LK" / "Generated" / "ImpC19.lean"
        try: ltext = py2lean_imp.translate_linear(os.path.dirname(lenskit.__file__))
        except py2lean_imp.Unsupported as e: return "untranslatable", f"StochasticTopNRanker linear transform: {e}", info
        lold = lt.read_text() if lt.exists() else ""
        if ltext != lold: lt.write_text(ltext)
        info["linear_weights"] = {"module": "LK.Gen.ImpC19", "obligations": "LK/Proofs/ImpC19.lean", "function": "stochastic/_ranker.py:StochasticTopNRanker.__call__ (linear case)", "changed_since_last_run": ltext != lold}
    if pid == "C07":
        # the methods of RMSE / MAE (translate/py2lean_agg.py)
        import py2lean_agg
        gt = LEAN_DIR / "LK" / "Generated" / "AggC07.lean"
        try: gtext = py2lean_agg.generate(os.path.dirname(lenskit.__file__))
        except py2lean_agg.Unsupported as e: return "untranslatable", f"RMSE / MAE: {e}", info
        gold = gt.read_text() if gt.exists() else ""
        if gtext != gold: gt.write_text(gtext)
        info["error_metrics"] = {"module": "LK.Gen.AggC07", "obligations": "LK/Proofs/AggC07.lean", "function": "metrics/predict.py: RMSE / MAE measure_list, compute_list_data, extract_list_metric, global_aggregate", "changed_since_last_run": gtext != gold}
    if pid == "C10":
        # the linear systems the ALS row solvers build (translate/py2lean_als.py)
        import py2lean_als
        at = LEAN_DIR / "LK" / "Generated" / "AlsC10.lean"
        try: atext = py2lean_als.generate(os.path.dirname(lenskit.__file__))
        except py2lean_als.Unsupported as e: return "untranslatable", f"ALS row solvers: {e}", info
        aold = at.read_text() if at.exists() else ""
        if atext != aold: at.write_text(atext)
        info["als_systems"] = {"module": "LK.Gen.AlsC10", "obligations": "LK/Proofs/AlsC10.lean", "function": "als/_explicit.py:_train_solve_row, _train_bias_row_cholesky; als/_implicit.py:_train_new_row, _train_implicit_cholesky_rows, _implicit_otor", "changed_since_last_run": atext != aold}
    if pid == "C06":
        # array_dcg / fixed_dcg, statement by statement (translate/py2lean_np.py)
        import py2lean_np
        nt = LEAN_DIR / "LK" / "Generated" / "NpC06.lean"
        try: ntext = py2lean_np.translate_dcg(os.path.dirname(lenskit.__file__))
        except py2lean_np.Unsupported as e: return "untranslatable", str(e), info
        nold = nt.read_text() if nt.exists() else ""
        if ntext != nold: nt.write_text(ntext)
        info["numpy_code"] = {"module": "LK.Gen.NpC06", "obligations": "LK/Proofs/NpC06.lean", "function": "metrics/ranking/_dcg.py:array_dcg, fixed_dcg", "changed_since_last_run": ntext != nold}
        # measure_list of the list-wise ranking metrics (translate/py2lean_rank.py)
        import py2lean_rank
        rt = LEAN_DIR / "LK" / "Generated" / "RankC06.lean"
        try: rtext = py2lean_rank.generate(os.path.dirname(lenskit.__file__))
        except py2lean_rank.Unsupported as e: return "untranslatable", f"ranking metrics: {e}", info
        rold = rt.read_text() if rt.exists() else ""
        if rtext != rold: rt.write_text(rtext)
        info["ranking_metrics"] = {"module": "LK.Gen.RankC06", "obligations": "LK/Proofs/RankC06.lean", "function": "metrics/ranking: Hit, Precision, Recall, RecipRank, RBP .measure_list", "changed_since_last_run": rtext != rold}
    if pid == "C03":
        # the wiring of the standard pipelines, as lenskit's own builders construct it now (translate/wiring_gen.py)
        import wiring_gen
        wt = LEAN_DIR / "LK" / "Generated" / "WiringC03.lean"
        try: wtext = wiring_gen.generate()
        except Exception as e: return "untranslatable", f"wiring of the standard pipelines could not be extracted: {type(e).__name__}: {e}", info
        wold = wt.read_text() if wt.exists() else ""
        if wtext != wold: wt.write_text(wtext)
        info["wiring"] = {"module": "LK.Gen.WiringC03", "obligations": "LK/Proofs/WiringC03.lean", "changed_since_last_run": wtext != wold}
        # …and the array code of the unrated-items candidate selector (translate/py2lean_cand.py)
        import py2lean_cand
        ct = LEAN_DIR / "LK" / "Generated" / "CandC03.lean"
        try: ctext = py2lean_cand.translate(os.path.dirname(lenskit.__file__))
        except py2lean_cand.Unsupported as e: return "untranslatable", f"UnratedTrainingItemsCandidateSelector.__call__: {e}", info
        cold = ct.read_text() if ct.exists() else ""
        if ctext != cold: ct.write_text(ctext)
        info["candidate_selector"] = {"module": "LK.Gen.CandC03", "obligations": "LK/Proofs/CandC03.lean", "changed_since_last_run": ctext != cold}
    return "ok", "regenerated" if text != old else "unchanged", info

def obligation_broken(pid, why, mod, tier, seed, replay, info):
    """A generated definition no longer meets its obligations (or cannot be translated any more): the property is no longer shown to hold.
    Search for a concrete failing input with the correspondence harness; report what it finds, or the broken obligation itself."""
    print(f"note: a generated proof obligation of {pid} no longer checks ({why[:240]}); searching for a failing input", file=sys.stderr)
    r = subprocess.run(["lake", "build", "lkdriver"], cwd=LEAN_DIR, capture_output=True, text=True, timeout=1800)
    if r.returncode != 0:
        print("machinery error: lake build lkdriver failed", file=sys.stderr); return 2
    rc = run_check(mod.SPEC, tier, seed, replay, {"obligations": len(mod.SPEC.theorems), "discharged": 0, "generated": dict(info, broken=why)})
    if rc != 0: return rc          # the search found failing inputs (reported with replays) — or the machinery failed
    rp = OUT / "replays"; rp.mkdir(exist_ok=True, parents=True)
    path = rp / f"{pid}-obligation.json"
    path.write_text(json.dumps({"property": pid, "obligation": info.get("obligations"), "generated_module": info.get("module"), "sites": info.get("sites"),
                                "reason": why, "verdict": "no-failing-input-found",
                                "note": "the translated decision logic of the listed functions no longer satisfies the theorems of the obligations file; "
                                        "the correspondence harness found no input on which the property fails"}, indent=1))
    print(f"VIOLATION property={pid} replay={path} no-failing-input-found")
    return 1

def search_chunking(pid, why):
    """A generated obligation no longer checks: look for a concrete size on which the fan-out loop misses or repeats a row."""
    from lenskit.parallel.chunking import WorkChunks
    sizes = list(range(0, 5000)) + [10**k + d for k in range(4, 10) for d in (-1, 0, 1)] + [3_999_999, 4_000_000, 4_000_001, 4_001_000]
    failing = None
    for n in sizes:
        if n == 0: continue
        try:
            c = WorkChunks.create(n); cs = int(c.chunk_size)
            if cs <= 0: failing = (n, f"chunk_size = {cs}: range(0, {n}, {cs}) is empty or invalid"); break
            if n <= 200_000:
                covered = [0] * n
                for start in range(0, n, cs):
                    for i in range(start, min(start + cs, n)): covered[i] += 1
                if any(x != 1 for x in covered): failing = (n, "some row is processed zero or several times"); break
        except Exception as e:
            failing = (n, f"WorkChunks.create raised {type(e).__name__}"); break
    rp = OUT / "replays"; rp.mkdir(exist_ok=True, parents=True)
    path = rp / f"{pid}-obligation.json"
    doc = {"property": pid, "obligation": ["LK.Gen.Chunking.C11_Chunking_chunk_size_pos", "LK.Gen.Chunking.C11_Chunking_row_in_unique_chunk"], "reason": why,
           "verdict": "violation" if failing else "no-failing-input-found"}
    if failing: doc["case"] = {"op": "chunking", "n": failing[0]}; doc["detail"] = failing[1]
    path.write_text(json.dumps(doc, indent=1))
    print(f"VIOLATION property={pid} replay={path}" + ("" if failing else " no-failing-input-found"))
    return 1

def main():
    ap = argparse.ArgumentParser(); ap.add_argument("pid"); ap.add_argument("--tier", default=os.environ.get("VERIF_TIER", "quick"))
    ap.add_argument("--replay")
    a = ap.parse_args()
    quiet_lenskit()
    mod = importlib.import_module(f"lkv.props.{a.pid.lower()}")
    seed = int(os.environ.get("VERIF_SEED", "0")); ginfo = None
    if a.pid in guard_pids() or a.pid in ("C04", "C12", "C15", "C17", "C20"):
        gstatus, gmsg, ginfo = regenerate_guards(a.pid)
        if gstatus == "untranslatable":
            sys.exit(obligation_broken(a.pid, "untranslatable: " + gmsg, mod, a.tier, seed, a.replay, ginfo))
    if a.pid in GENERATED_FOR:
        status, msg = regenerate(a.pid)
        if status in ("untranslatable", "obligation-broken"):
            sys.exit(search_chunking(a.pid, f"{status}: {msg}"))
        if status == "build-error":
            if ginfo is not None and any(f"{k}{a.pid}" in msg for k in ("Guards", "Wiring", "Scatter", "Np", "Imp", "Holdout", "Arrow", "Cand", "SaveTrace", "BatchTrace", "Neg", "Als", "Agg", "Rank", "RowPtrs", "Sim", "Split", "Coll", "Build", "Ent")):
                sys.exit(obligation_broken(a.pid, "obligation-broken: " + msg.replace("\n", " | ")[:900], mod, a.tier, seed, a.replay, ginfo))
            print(f"machinery error: lake build failed\n{msg}", file=sys.stderr); sys.exit(2)
    else:
        # incremental build of exactly what this property needs (a no-op takes 0.2 s)
        r = subprocess.run(["lake", "build", f"LK.Props.{a.pid}", "lkdriver"], cwd=LEAN_DIR, capture_output=True, text=True, timeout=1800)
        if r.returncode != 0:
            bad = [l for l in (r.stdout + r.stderr).splitlines() if "error" in l][:8]
            if ginfo is not None and any(any(f"{k}{a.pid}" in l for k in ("Guards", "Wiring", "Scatter", "Np", "Imp", "Holdout", "Arrow", "Cand", "SaveTrace", "BatchTrace", "Neg", "Als", "Agg", "Rank", "RowPtrs", "Sim", "Split", "Coll", "Build", "Ent")) for l in bad):
                sys.exit(obligation_broken(a.pid, "obligation-broken: " + " | ".join(bad)[:900], mod, a.tier, seed, a.replay, ginfo))
            print("machinery error: lake build failed\n" + "\n".join(bad[:6]), file=sys.stderr); sys.exit(2)
    try:
        indexed = [l.split()[1] for l in (LEAN_DIR / "props.index").read_text().splitlines() if l.split() and l.split()[0] == a.pid]
        mod.SPEC.theorems = sorted(set(indexed) | {t for t in mod.SPEC.theorems if "_C" in t or f".{a.pid}_" in t})
        au = audit(mod.SPEC.theorems, f"LK.Props.{a.pid}")
    except LeanError as e:
        print(f"machinery error: {e}", file=sys.stderr); sys.exit(2)
    if a.tier == "thorough" and not a.replay:
        # independent re-check of the compiled proofs of this property (and, transitively, of the project modules they import)
        mods = [f"LK.Props.{a.pid}"]
        src = (LEAN_DIR / "LK" / "Props" / f"{a.pid}.lean").read_text()
        mods += [l.split()[1] for l in src.splitlines() if l.startswith("import LK.")]
        t0 = time.time()
        r = subprocess.run(["lake", "env", "leanchecker"] + mods, cwd=LEAN_DIR, capture_output=True, text=True, timeout=3600)
        if r.returncode != 0:
            print("machinery error: leanchecker rejected " + " ".join(mods) + "\n" + (r.stdout + r.stderr)[-600:], file=sys.stderr); sys.exit(2)
        au["leanchecker"] = {"modules": mods, "seconds": round(time.time() - t0, 1), "ok": True}
    if ginfo is not None: au["generated"] = ginfo
    sys.exit(run_check(mod.SPEC, a.tier, seed, a.replay, au))

if __name__ == "__main__":
    try:
        main()
    except SystemExit:
        raise
    except BaseException:          # a failure of the machinery itself is never a verdict about the property
        import traceback; traceback.print_exc()
        sys.exit(2)
