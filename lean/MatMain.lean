import Driver.Codec
import LK.Proofs.NormalEq
import LK.Proofs.NormalEqW
/-!
Interpreted driver (`lake env lean --run Driver/MatMain.lean`) for the operations whose model is stated
directly over Mathlib matrices, so that what is evaluated is literally the term in the theorem.
-/
open Lean LK.Driver Matrix

namespace LK.Driver.Mat

def ofLists (k n : Nat) (rows : List (List Rat)) : Matrix (Fin k) (Fin n) Rat :=
  Matrix.of (fun i j => (rows.getD i.val []).getD j.val 0)
def ofList (n : Nat) (v : List Rat) : Fin n → Rat := fun j => v.getD j.val 0
def toList {n : Nat} (v : Fin n → Rat) : List Rat := (List.finRange n).map v

def ratList (j : Json) (k : String) : Except String (List Rat) := do (← getArr j k).mapM ratOf
def ratMat (j : Json) (k : String) : Except String (List (List Rat)) := do
  (← getArr j k).mapM (fun r => do (← r.getArr?).toList.mapM ratOf)

def shapeOk (rows : List (List Rat)) (n : Nat) : Bool := rows.all (·.length == n)

def explicitOp (args : Json) : Except String Json := do
  let rows ← ratMat args "M"; let r ← ratList args "r"; let x ← ratList args "x"
  let c ← ratOf (← args.getObjVal? "c")
  let k := rows.length; let n := x.length
  if !(shapeOk rows n) || r.length != k then throw "shape"
  let M := ofLists k n rows
  let res := LK.NormalEq.resid M (ofList k r) c (ofList n x)
  let o := LK.NormalEq.obj M (ofList k r) c (ofList n x)
  pure (Json.mkObj [("resid", Json.arr ((toList res).map ratToJson).toArray), ("obj", ratToJson o)])

def implicitOp (args : Json) : Except String Json := do
  let rows ← ratMat args "Y"; let p ← ratList args "p"; let w ← ratList args "w"; let x ← ratList args "x"
  let c ← ratOf (← args.getObjVal? "c")
  let k := rows.length; let n := x.length
  if !(shapeOk rows n) || p.length != k || w.length != k then throw "shape"
  let M := ofLists k n rows
  let res := LK.NormalEqW.resid M (ofList k p) (ofList k w) c (ofList n x)
  let o := LK.NormalEqW.obj M (ofList k p) (ofList k w) c (ofList n x)
  pure (Json.mkObj [("resid", Json.arr ((toList res).map ratToJson).toArray), ("obj", ratToJson o)])

def dispatch (op : String) (args : Json) : Except String Json :=
  match op with
  | "c10.explicit" => explicitOp args
  | "c10.implicit" => implicitOp args
  | _ => throw s!"unknown op {op}"

partial def loop (hin hout : IO.FS.Stream) : IO Unit := do
  let line ← hin.getLine
  if line.isEmpty then return ()
  let resp : Json := match Json.parse line with
    | .error e => Json.mkObj [("err", Json.str s!"parse: {e}")]
    | .ok j =>
      let id := (j.getObjVal? "id").toOption.getD Json.null
      match (do dispatch (← getStr j "op") (← j.getObjVal? "args")) with
      | .ok v => Json.mkObj [("id", id), ("ok", v)]
      | .error e => Json.mkObj [("id", id), ("err", Json.str e)]
  hout.putStrLn resp.compress
  hout.flush
  loop hin hout

end LK.Driver.Mat

def main : IO Unit := do LK.Driver.Mat.loop (← IO.getStdin) (← IO.getStdout)
