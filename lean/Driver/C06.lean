import Driver.Codec
open Lean LK.Driver LK.Metric

namespace LK.Driver.C06

def truthOf (j : Json) : Except String (List (Nat × Q)) := do
  (← getArr j "truth").mapM (fun e => do
    let a ← e.getArr?
    match a.toList with
    | [i, g] => pure (← i.getNat?, ← ratOf g)
    | _ => throw "bad truth entry")

def run (args : Json) : Except String Json := do
  let metric ← getStr args "metric"
  let k : Option Nat := match getOpt args "k" with | some v => v.getNat?.toOption | none => none
  let L ← natList args "recs"
  let T ← truthOf args
  let discTbl ← match getOpt args "disc" with
    | some v => (← v.getArr?).toList.mapM ratOf
    | none => pure []
  let disc : Nat → Q := fun r => discTbl.getD (r - 1) 1
  let pat ← match getOpt args "pat" with | some v => ratOf v | none => pure (17/20)
  let counts : List (Nat × Nat) ← match getOpt args "counts" with
    | some v => (← v.getArr?).toList.mapM (fun e => do
        match (← e.getArr?).toList with
        | [i, c] => pure (← i.getNat?, ← c.getNat?)
        | _ => throw "bad count")
    | none => pure []
  let r : Option Q := match metric with
    | "meanpop" => meanPopRank k (popQuantile counts) L
    | "hit" => hit k L T
    | "precision" => precision k L T
    | "recall" => recall k L T
    | "recip" => recipRank k L T
    | "rbp" => rbp k pat false L T
    | "rbpn" => rbp k pat true L T
    | "dcg" => dcg k disc true L T
    | "dcg_gain" => dcg k disc false L T
    | "ndcg" => ndcg k disc true L T
    | "ndcg_gain" => ndcg k disc false L T
    | _ => none
  pure (optRatToJson r)

end LK.Driver.C06
