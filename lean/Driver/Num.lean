import Driver.Codec
open Lean LK.Driver

namespace LK.Driver.Num

def natJ (n : Nat) : Json := Json.num (JsonNumber.fromNat n)
def ratList (j : Json) (k : String) : Except String (List Rat) := do (← getArr j k).mapM ratOf

/-! C08 -/
def c08Bias (args : Json) : Except String Json := do
  let rs ← (← getArr args "ratings").mapM (fun e => do
    match (← e.getArr?).toList with
    | [u, i, r] => pure ({ u := ← u.getNat?, i := ← i.getNat?, r := ← ratOf r } : LK.Bias.Rating)
    | _ => throw "bad rating")
  let nU ← getNat args "nUsers"; let nI ← getNat args "nItems"
  let dU ← ratOf (← args.getObjVal? "dampUser"); let dI ← ratOf (← args.getObjVal? "dampItem")
  let ib := LK.Bias.itemBiasesImpl nI dI rs
  let ibf : Nat → Rat := fun i => ib.getD i 0
  let ub := LK.Bias.userBiasesImpl nU dU ibf rs
  pure (Json.mkObj [("global", ratToJson (LK.Bias.globalMean rs)),
    ("items", Json.arr (ib.map ratToJson).toArray), ("users", Json.arr (ub.map ratToJson).toArray),
    ("itemsDef", Json.arr ((List.range nI).map (fun i => ratToJson (LK.Bias.itemBiasDef dI rs i))).toArray),
    ("usersDef", Json.arr ((List.range nU).map (fun u => ratToJson (LK.Bias.userBiasDef dU ibf rs u))).toArray)])

/-- `c08.pop`: counts per item number and the ascending-count order used by the sort → the count / average-rank / cumulative-share scores -/
def c08Pop (args : Json) : Except String Json := do
  let counts ← natList args "counts"
  let order ← natList args "order"
  let idx := List.range counts.length
  pure (Json.mkObj [("count", Json.arr (idx.map (fun i => Json.num (JsonNumber.fromNat (LK.Bias.countOf counts i)))).toArray),
    ("rank", Json.arr (idx.map (fun i => ratToJson (LK.Bias.avgRank counts i))).toArray),
    ("quantile", Json.arr (idx.map (fun i => ratToJson (LK.Bias.quantile counts order i))).toArray)])

/-! C09 -/
def nbrsOf (j : Json) (k : String) : Except String (List LK.KNN.Nbr) := do
  (← getArr j k).mapM (fun e => do
    match (← e.getArr?).toList with
    | [a, s, r] => pure ({ j := ← a.getNat?, sim := ← ratOf s, r := ← ratOf r } : LK.KNN.Nbr)
    | _ => throw "bad nbr")

def c09Item (args : Json) : Except String Json := do
  let nbrs ← nbrsOf args "nbrs"
  let r := LK.KNN.itemScoreImpl (← getBool args "explicit") (← getNat args "k") (← getNat args "minNbrs") nbrs
  let d := LK.KNN.scoreDef (← getBool args "explicit") (← getNat args "k") (← getNat args "minNbrs") nbrs
  pure (Json.mkObj [("impl", optRatToJson r), ("def", optRatToJson d)])

def c09User (args : Json) : Except String Json := do
  let nbrs ← nbrsOf args "nbrs"          -- all qualifying neighbours (j, sim, rating-or-0)
  let rated ← (← getArr args "rated").mapM (·.getNat?)
  let isRated : LK.KNN.Nbr → Bool := fun n => rated.contains n.j
  let e ← getBool args "explicit"; let k ← getNat args "k"; let mn ← getNat args "minNbrs"
  pure (Json.mkObj [("impl", optRatToJson (LK.KNN.userScoreImpl e k mn nbrs isRated)),
                    ("def", optRatToJson (LK.KNN.userScoreDef e k mn nbrs isRated))])

def c09SimRow (args : Json) : Except String Json := do
  let vecs ← (← getArr args "vecs").mapM (fun v => do (← v.getArr?).toList.mapM ratOf)
  let minSim ← ratOf (← args.getObjVal? "minSim")
  let maxN : Option Nat := (getNat args "maxN").toOption
  pure (Json.arr ((List.range vecs.length).map (fun i =>
    Json.arr ((LK.KNN.simRowTrunc vecs minSim maxN i).map (fun js => Json.arr #[natJ js.1, ratToJson js.2])).toArray)).toArray)

/-! C19 -/
def scoreOf (j : Json) : Except String LK.Stoch.Score :=
  match j with
  | Json.null => pure .nan
  | Json.str "inf" => pure .posInf
  | Json.str "-inf" => pure .negInf
  | v => do pure (.fin (← ratOf v))

def c19Rank (args : Json) : Except String Json := do
  let scores ← (← getArr args "scores").mapM scoreOf
  let cfg := (getInt args "nCfg").toOption
  let run := (getInt args "nRun").toOption
  let weights ← ratList args "weights"
  let logu ← ratList args "logu"
  let eps ← ratOf (← args.getObjVal? "eps")
  pure (Json.arr ((LK.Stoch.stochasticRank scores cfg run weights logu eps).map natJ).toArray)

def c19Linear (args : Json) : Except String Json := do
  pure (Json.arr ((LK.Stoch.linearWeights (← ratList args "scores")).map ratToJson).toArray)

def c11Chunk (args : Json) : Except String Json := do
  let (t, s, c) := LK.Gen.Chunking.chunkCreate (← getNat args "n")
  pure (Json.arr #[natJ t, natJ s, natJ c])

end LK.Driver.Num
