import Driver.Codec
open Lean LK.Driver LK.Rec

namespace LK.Driver.C03

def natList (j : Json) : Except String (List Nat) := do (← j.getArr?).toList.mapM (·.getNat?)
def optOf {α} (j : Json) (k : String) (f : Json → Except String α) : Except String (Option α) :=
  match j.getObjVal? k with
  | .ok Json.null => pure none
  | .ok v => do pure (some (← f v))
  | .error _ => pure none

/-- score = base[item] * (1 + |history|); missing base ⇒ no score -/
def mkScore (base : List (Nat × Rat)) (q : Query) (i : Nat) : Option Rat :=
  (base.lookup i).map (fun b => b * (1 + ((q.items.map (·.length)).getD 0 : Nat)))

def recommendOp (args : Json) : Except String Json := do
  let V ← natList (← args.getObjVal? "vocab")
  let rows ← (← getArr args "rows").mapM (fun r => do
    match (← r.getArr?).toList with
    | [u, its] => pure ((← u.getNat?), (← natList its))
    | _ => throw "bad row")
  let base ← (← getArr args "base").mapM (fun r => do
    match (← r.getArr?).toList with
    | [i, s] => pure ((← i.getNat?), (← ratOf s))
    | _ => throw "bad base")
  let qin : QueryIn ← (do
    let qj ← args.getObjVal? "query"
    match (← getStr qj "kind") with
    | "none" => pure QueryIn.none
    | "id" => pure (QueryIn.id (← getNat qj "user"))
    | "history" => pure (QueryIn.history (← natList (← qj.getObjVal? "items")))
    | "query" => pure (QueryIn.query { user := ← optOf qj "user" (·.getNat?), items := ← optOf qj "items" natList })
    | k => throw s!"bad query kind {k}")
  let supplied ← optOf args "items" natList
  let nCfg := (getInt args "nCfg").toOption
  let nRun := (getInt args "nRun").toOption
  let out := recommend V (fun u => rows.lookup u) (mkScore base) qin supplied nCfg nRun
  pure (Json.arr (out.map (fun p => Json.arr #[Json.num (JsonNumber.fromNat p.1), optRatToJson p.2])).toArray)

end LK.Driver.C03
