import Driver.Codec
open Lean LK.Driver LK.Pipe

namespace LK.Driver.C02

def valOf (j : Json) : Except String Val :=
  match j with
  | Json.null => .ok .none
  | _ =>
    match j.getObjVal? "i" with
    | .ok v => do pure (.int (← v.getInt?))
    | .error _ => do pure (.str (← getStr j "s"))

def valToJson : Val → Json
  | .none => Json.null
  | .int n => Json.mkObj [("i", Json.num (JsonNumber.fromInt n))]
  | .str s => Json.mkObj [("s", Json.str s)]

def acceptsOf (kinds : List String) : Val → Bool
  | .none => true
  | .int _ => kinds.contains "int" || kinds.contains "any"
  | .str _ => kinds.contains "str" || kinds.contains "any"

/-- wiring of one component after `LK.Cfg.resolve` (the function the C02/C13 default-resolution theorems are about): parameters are
    named `p0, p1, …`, nodes `n<k>`; explicit sources win, a builder default of the parameter's name fills an unwired one -/
def resolvedSrcs (srcs : List (Option Nat)) (defaults : List (String × Nat)) : List (Option Nat) :=
  let names := (List.range srcs.length).map (fun j => s!"p{j}")
  let explicit : List (String × String) := (names.zip srcs).filterMap (fun ns => ns.2.map (fun k => (ns.1, s!"n{k}")))
  let bc : LK.Cfg.BComp := LK.Cfg.BComp.mk "" "" none names explicit
  let wired := LK.Cfg.resolve (defaults.map (fun nk => (nk.1, s!"n{nk.2}"))) bc
  names.map (fun n => (wired.find? (·.1 == n)).bind (fun e => (e.2.drop 1).toNat?))

def paramOfWith (src : Option Nat) (j : Json) : Except String Param := do
  let kinds ← (← getArr j "accepts").mapM (·.getStr?)
  pure { lzy := ← getBool j "lzy", acceptsNone := ← getBool j "acceptsNone", accepts := acceptsOf kinds, src := src }

def paramOf (j : Json) : Except String Param := do
  let kinds ← (← getArr j "accepts").mapM (·.getStr?)
  let src := match getOpt j "src" with | some v => v.getNat?.toOption | none => none
  pure { lzy := ← getBool j "lzy", acceptsNone := ← getBool j "acceptsNone", accepts := acceptsOf kinds, src := src }

def asInt : Val → Option Int | .int n => some n | _ => none

/-- the component DSL shared with the Python harness -/
def dsl (op : String) (k : Int) : (List Val → Option Nat) × (List Val → Option Val → Except Err Val) :=
  match op with
  | "add" => (fun _ => none, fun args _ =>
      match args.mapM asInt with
      | some ns => .ok (.int (ns.foldl (· + ·) 0))
      | none => .error .type)
  | "const" => (fun _ => none, fun _ _ => .ok (.int k))
  | "constNone" => (fun _ => none, fun _ _ => .ok .none)
  | "ident" => (fun _ => none, fun args _ => match args with | [a] => .ok a | _ => .error .type)
  | "raise" => (fun _ => none, fun _ _ => .error (.comp k.toNat))
  | "sumOpt" => (fun _ => none, fun args _ =>
      .ok (.int (args.foldl (fun acc a => acc + (match a with | .int n => n | _ => 0)) k)))
  | "firstOf" => (fun args => match args with | [Val.none] => some 0 | _ => none,
      fun args lv => match args, lv with
        | [a], none => .ok a
        | [_], some v => .ok v
        | _, _ => .error .type)
  | "lazyIfNeg" => (fun args => match args with | [Val.int n] => if n < 0 then some 0 else none | _ => none,
      fun args lv => match args, lv with
        | [a], none => .ok a
        | [_], some v => .ok v
        | _, _ => .error .type)
  | _ => (fun _ => none, fun _ _ => .error .runtime)

def nodeOf (defaults : List (String × Nat)) (j : Json) : Except String Node := do
  match ← getStr j "kind" with
  | "input" =>
    let kinds ← (← getArr j "accepts").mapM (·.getStr?)
    pure (.input (← getBool j "acceptsNone") (acceptsOf kinds))
  | "literal" => pure (.literal (← valOf (← j.getObjVal? "value")))
  | "comp" =>
    let pjs ← getArr j "params"
    let raw := pjs.map (fun pj => match getOpt pj "src" with | some v => v.getNat?.toOption | none => none)
    let srcs := if defaults.isEmpty then raw else resolvedSrcs raw defaults
    let ps ← (pjs.zip srcs).mapM (fun (pj, s) => paramOfWith s pj)
    let op ← getStr j "op"
    let k := (getInt j "k").toOption.getD 0
    let (sel, fin) := dsl op k
    pure (.comp ps sel fin)
  | k => throw s!"bad node kind {k}"

def errToJson : Err → Json
  | .pipeline => "pipelineError" | .type => "typeError" | .key => "keyError" | .runtime => "runtimeError"
  | .fuel => "fuel" | .comp t => Json.str s!"comp{t}"

def run (args : Json) : Except String Json := do
  let defaults : List (String × Nat) ← match getOpt args "defaults" with
    | some d => (← d.getArr?).toList.mapM (fun e => do
        match (← e.getArr?).toList with
        | [n, k] => pure (← n.getStr?, ← k.getNat?)
        | _ => throw "bad default")
    | none => pure []
  let nodes ← (← getArr args "nodes").mapM (nodeOf defaults)
  let g : Graph := { node := fun n => nodes.getD n (.literal .none) }
  let inputs ← (← getArr args "inputs").mapM valOf
  let ι : Nat → Val := fun n => inputs.getD n .none
  let reqs ← natList args "requests"
  let vt := if (getStr args "variant").toOption == some "repaired" then Variant.repaired else Variant.asIs
  let (r, s) := LK.Pipe.run vt g ι (nodes.length + 2) reqs
  let res := match r with
    | .ok vs => Json.mkObj [("ok", Json.arr (vs.map valToJson).toArray)]
    | .error e => Json.mkObj [("err", errToJson e)]
  pure (Json.mkObj [("valid", Json.bool (validateOk g nodes.length)), ("result", res), ("log", Json.arr (s.log.reverse.map (fun (n : Nat) => Json.num (JsonNumber.fromNat n))).toArray)])

end LK.Driver.C02
