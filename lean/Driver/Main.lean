import Driver.C02
import Driver.C01
import Driver.C06
import Driver.Misc
import Driver.C13
import Driver.Num
import Driver.C16
import Driver.C03
import Driver.Funk
import Driver.C14
open Lean LK.Driver

def handle (op : String) (args : Json) : Except String Json :=
  match op with
  | "c02.run" => LK.Driver.C02.run args
  | "c01.run_history" => LK.Driver.C01.run args
  | "c06.measure" => LK.Driver.C06.run args
  | "c17.add_scalar" => LK.Driver.Misc.c17Scalar args
  | "c05.global_time" => LK.Driver.Misc.c05GlobalTime args
  | "c17.add_list" => LK.Driver.Misc.c17List args
  | "c17.add_dense" => LK.Driver.Misc.c17Dense args
  | "c05.array_split" => LK.Driver.Misc.c05ArraySplit args
  | "c05.last_n" => LK.Driver.Misc.c05LastN args
  | "c20.sample" => LK.Driver.Misc.c20Sample args
  | "c07.global" => LK.Driver.Misc.c07Global args
  | "c04.scatter" => LK.Driver.C04.run args
  | "c12.batch" => LK.Driver.C12.run args
  | "c18.train_all" => LK.Driver.C18.run args
  | "c18.guard" => LK.Driver.C18.guard args
  | "c18.pipe" => LK.Driver.C18.pipe args
  | "c14.run" => LK.Driver.C14.run args
  | "c13.canon_json" => LK.Driver.C13.canon args
  | "c15.crash" => LK.Driver.Misc.c15Crash args
  | "c10.funksvd" => LK.Driver.Funk.trainOp args
  | "c03.recommend" => LK.Driver.C03.recommendOp args
  | "c15.arrow_rt" => LK.Driver.C16.arrowRtOp args
  | "c15.getstate" => LK.Driver.C16.getstateOp args
  | "c16.run" => LK.Driver.C16.run args
  | "c11.chunk" => LK.Driver.Num.c11Chunk args
  | "c08.pop" => LK.Driver.Num.c08Pop args
  | "c08.bias" => LK.Driver.Num.c08Bias args
  | "c09.item_score" => LK.Driver.Num.c09Item args
  | "c09.user_score" => LK.Driver.Num.c09User args
  | "c09.sim_rows" => LK.Driver.Num.c09SimRow args
  | "c19.rank" => LK.Driver.Num.c19Rank args
  | "c19.linear" => LK.Driver.Num.c19Linear args
  | _ => throw "bad-op"

partial def loop (h : IO.FS.Stream) (out : IO.FS.Stream) : IO Unit := do
  let line ← h.getLine
  if line.isEmpty then return ()
  let resp : Json :=
    match Json.parse line with
    | .error e => Json.mkObj [("err", Json.str s!"parse: {e}")]
    | .ok j =>
      let id := (j.getObjVal? "id").toOption.getD Json.null
      match (do let op ← (← j.getObjVal? "op").getStr?; let a ← j.getObjVal? "args"; handle op a) with
      | .ok r => Json.mkObj [("id", id), ("ok", r)]
      | .error e => Json.mkObj [("id", id), ("err", Json.str e)]
  out.putStrLn resp.compress
  out.flush
  loop h out

def main : IO Unit := do loop (← IO.getStdin) (← IO.getStdout)
