import Driver.Codec
open Lean LK.Driver
open LK.Cfg (BState BComp InputSpec Variant canonJson buildCfg)

namespace LK.Driver.C13

def optStr (j : Json) (k : String) : Option String := match getOpt j k with | some v => v.getStr?.toOption | none => none

def strPairs (j : Json) (k : String) : Except String (List (String × String)) := do
  (← getArr j k).mapM (fun e => do
    match (← e.getArr?).toList with
    | [a, b] => pure (← a.getStr?, ← b.getStr?)
    | _ => throw "bad pair")

def bstateOf (args : Json) : Except String BState := do
  let inputs ← (← getArr args "inputs").mapM (fun i => do
    let types ← match getOpt i "types" with
      | some v => do pure (some (← (← v.getArr?).toList.mapM (·.getStr?)))
      | none => pure none
    pure ({ name := ← getStr i "name", types := types } : InputSpec))
  let comps ← (← getArr args "comps").mapM (fun c => do
    pure ({ name := ← getStr c "name", code := ← getStr c "code", config := optStr c "config",
            params := ← (← getArr c "params").mapM (·.getStr?), edges := ← strPairs c "edges" } : BComp))
  let lits ← (← getArr args "literals").mapM (fun l => do
    pure (← getStr l "name", ← getStr l "encoding", ← getStr l "value"))
  pure { name := optStr args "name", version := optStr args "version", inputs := inputs, comps := comps,
         aliases := ← strPairs args "aliases", defaults := ← strPairs args "defaults",
         default := optStr args "default", literals := lits }

def canon (args : Json) : Except String Json := do
  let b ← bstateOf args
  let vt := if (getStr args "variant").toOption == some "repaired" then Variant.repaired else Variant.asIs
  pure (Json.str (canonJson (buildCfg vt b)))

end LK.Driver.C13
