import Driver.Codec
open Lean LK.Driver

/-! C14 / C12 / C18 / C04 driver ops: the heap model of pipeline wiring, the batch collector, the training guard, the scatter idiom -/
namespace LK.Driver.C14
open LK.Heap

def wiringJ (w : World) (o : Obj) : Json :=
  Json.mkObj [("kind", Json.str (if o.kind = .pipe then "pipe" else "builder")),
    ("wiring", Json.arr (o.edges.map (fun (c, a) =>
      Json.arr #[Json.str c, Json.arr ((w.heap.cell a).map (fun (k, v) => Json.arr #[Json.str k, Json.str v])).toArray])).toArray)]

def worldJ (w : World) : Json := Json.arr (w.objs.map (wiringJ w)).toArray

def kvs (j : Json) : Except String Dict := do
  (← j.getArr?).toList.mapM (fun e => do
    match (← e.getArr?).toList with
    | [k, v] => pure (← k.getStr?, ← v.getStr?)
    | _ => throw "bad kv")

def opOf (j : Json) : Except String Op := do
  match ← getStr j "op" with
  | "modify" => pure (.modify (← getNat j "p"))
  | "connect" => pure (.connect (← getNat j "b") (← getStr j "comp") (← getStr j "k") (← getStr j "v"))
  | "clear" => pure (.clearInputs (← getNat j "b") (← getStr j "comp"))
  | "build" => pure (.build (← getNat j "b"))
  | o => throw s!"bad heap op {o}"

/-- the initial world: one pipeline whose wiring dicts are allocated one by one -/
def initWorld (wiring : List (String × Dict)) : World :=
  let (h, es) := wiring.foldl (fun (acc : Heap × List (String × Nat)) (cd : String × Dict) =>
    let (h', a) := acc.1.alloc cd.2
    (h', acc.2 ++ [(cd.1, a)])) (({ cell := fun _ => [], next := 0 } : Heap), [])
  { heap := h, objs := [{ kind := .pipe, edges := es }] }

def run (args : Json) : Except String Json := do
  let deep ← getBool args "deep"
  let wiring ← (← getArr args "init").mapM (fun e => do
    match (← e.getArr?).toList with
    | [c, d] => pure (← c.getStr?, ← kvs d)
    | _ => throw "bad init")
  let ops ← (← getArr args "ops").mapM opOf
  let w0 := initWorld wiring
  let (_, trace) := ops.foldl (fun (acc : World × List Json) op =>
    let w' := step deep acc.1 op
    (w', acc.2 ++ [worldJ w'])) (w0, [worldJ w0])
  pure (Json.arr trace.toArray)

end LK.Driver.C14
