import Driver.Codec
open Lean LK.Driver

/-! C14 / C12 / C18 / C04 driver ops: the heap model of pipeline wiring, the batch collector, the training guard, the scatter idiom -/
namespace LK.Driver.C14
open LK.Heap

def wiringJ (w : World) (o : Obj) : Json :=
  Json.mkObj [("kind", Json.str (if o.kind = .pipe then "pipe" else "builder")),
    ("wiring", Json.arr (o.edges.map (fun (c, a) =>
      Json.arr #[Json.str c, Json.arr ((w.heap.cell a).map (fun (k, v) => Json.arr #[Json.str k, Json.str v])).toArray])).toArray)]

def worldJ (w : World) : Json := Json.arr (w.objs.map (wiringJ w)).toArray

def kvs (j : Json) : Except String Dict := do
  (← j.getArr?).toList.mapM (fun e => do
    match (← e.getArr?).toList with
    | [k, v] => pure (← k.getStr?, ← v.getStr?)
    | _ => throw "bad kv")

def opOf (j : Json) : Except String Op := do
  match ← getStr j "op" with
  | "modify" => pure (.modify (← getNat j "p"))
  | "connect" => pure (.connect (← getNat j "b") (← getStr j "comp") (← getStr j "k") (← getStr j "v"))
  | "clear" => pure (.clearInputs (← getNat j "b") (← getStr j "comp"))
  | "build" => pure (.build (← getNat j "b"))
  | o => throw s!"bad heap op {o}"

/-- the initial world: one pipeline whose wiring dicts are allocated one by one -/
def initWorld (wiring : List (String × Dict)) : World :=
  let (h, es) := wiring.foldl (fun (acc : Heap × List (String × Nat)) (cd : String × Dict) =>
    let (h', a) := acc.1.alloc cd.2
    (h', acc.2 ++ [(cd.1, a)])) (({ cell := fun _ => [], next := 0 } : Heap), [])
  { heap := h, objs := [{ kind := .pipe, edges := es }] }

def run (args : Json) : Except String Json := do
  let deep ← getBool args "deep"
  let wiring ← (← getArr args "init").mapM (fun e => do
    match (← e.getArr?).toList with
    | [c, d] => pure (← c.getStr?, ← kvs d)
    | _ => throw "bad init")
  let ops ← (← getArr args "ops").mapM opOf
  let w0 := initWorld wiring
  let (_, trace) := ops.foldl (fun (acc : World × List Json) op =>
    let w' := step deep acc.1 op
    (w', acc.2 ++ [worldJ w'])) (w0, [worldJ w0])
  pure (Json.arr trace.toArray)

end LK.Driver.C14

namespace LK.Driver.C04
open LK.Scatter

/-- `c04.scatter`: items (ids), vocab (known ids in number order), table (per number: rational string or null) -/
def run (args : Json) : Except String Json := do
  let items ← natList args "items"
  let vocab ← natList args "vocab"
  let table ← (← getArr args "table").mapM (fun j => match j with | Json.null => pure none | v => do pure (some (← ratOf v)))
  let multFirst := (getBool args "mult_first").toOption.getD false
  let num (i : Nat) : Option Nat := let k := vocab.idxOf i; if k < vocab.length then some k else none
  let tbl (k : Nat) : Option Rat := (table.getD k none)
  let L : List (Item Nat) := items.zipIdx.map (fun (i, pos) => { id := i, fields := pos })
  let out := if multFirst then scoreListMultFirst num tbl vocab.length L else scoreList num tbl L
  pure (Json.arr (out.map (fun it => Json.mkObj [("id", Json.num (JsonNumber.fromNat it.id)), ("pos", Json.num (JsonNumber.fromNat it.fields)), ("score", optRatToJson it.score)])).toArray)

end LK.Driver.C04

namespace LK.Driver.C12
open LK.Batch

/-- `c12.batch`: keys, outcomes (a number per task = its result's tag, null = the task raises), a completion order -/
def run (args : Json) : Except String Json := do
  let keys ← (← getArr args "keys").mapM (·.getInt?)
  let outs ← (← getArr args "outcomes").mapM (fun j => match j with | Json.null => pure none | v => do pure (some (← v.getNat?)))
  let order ← natList args "order"
  let tasks : List (Int × Nat) := keys.zipIdx
  let f (i : Nat) : Except Nat Nat := match outs.getD i none with | some v => .ok v | none => .error i
  let show_ (r : Except Err (List (Int × Nat))) : Json := match r with
    | .ok l => Json.mkObj [("ok", Json.arr (l.map (fun (k, v) => Json.arr #[Json.num (JsonNumber.fromInt k), Json.num (JsonNumber.fromNat v)])).toArray)]
    | .error (.task i) => Json.mkObj [("error", Json.num (JsonNumber.fromNat i))]
    | .error .missing => Json.mkObj [("error", Json.str "missing")]
  pure (Json.mkObj [("batch", show_ (batch tasks f order)), ("sequential", show_ (sequential tasks f))])

end LK.Driver.C12

namespace LK.Driver.C18
open LK.Train

/-- `c18.train_all`: nodes = [[index, trainable]…], seeded? → per trained component the spawn key of the seed it receives -/
def run (args : Json) : Except String Json := do
  let nodes ← (← getArr args "nodes").mapM (fun e => do
    match (← e.getArr?).toList with
    | [n, t] => pure (← n.getNat?, ← t.getBool?)
    | _ => throw "bad node")
  let seeded ← getBool args "seeded"
  let log := trainAll nodes (if seeded then some { entropy := 0, key := [], spawned := 0 } else none)
  pure (Json.arr (log.map (fun (n, s) => Json.mkObj [("node", Json.num (JsonNumber.fromNat n)),
    ("spawn_key", match s with | some c => Json.arr (c.key.map (fun k => Json.num (JsonNumber.fromNat k))).toArray | none => Json.null)])).toArray)

/-- `c18.guard`: a sequence of (dataset tag, retrain flag) steps on one component → the dataset tag its state comes from after each step -/
def guard (args : Json) : Except String Json := do
  let steps ← (← getArr args "steps").mapM (fun e => do
    match (← e.getArr?).toList with
    | [d, r] => pure (← d.getNat?, ← r.getBool?)
    | _ => throw "bad step")
  let (_, tr) := steps.foldl (fun (acc : Comp Nat × List Json) (dr : Nat × Bool) =>
    let c := train (fun d => d) acc.1 dr.1 dr.2
    (c, acc.2 ++ [match c.learned with | some d => Json.num (JsonNumber.fromNat d) | none => Json.null])) (({ learned := none } : Comp Nat), [])
  pure (Json.arr tr.toArray)

/-- `c18.pipe`: nodes = [[index, trainable]…] (all untrained), steps = [[dataset tag, retrain?, seeded?]…] → after every `Pipeline.train`
    call, per node, what its state was learned from: null or [dataset tag, spawn key of its seed | null] -/
def pipe (args : Json) : Except String Json := do
  let nodes ← (← getArr args "nodes").mapM (fun e => do
    match (← e.getArr?).toList with
    | [n, t] => pure (← n.getNat?, ← t.getBool?)
    | _ => throw "bad node")
  let steps ← (← getArr args "steps").mapM (fun e => do
    match (← e.getArr?).toList with
    | [d, r, sd] => pure (← d.getNat?, ← r.getBool?, ← sd.getBool?)
    | _ => throw "bad step")
  let learn : Option SeedSeq → Nat → Nat × Option (List Nat) := fun sd d => (d, sd.map (·.key))
  let init : List (Comp (Nat × Option (List Nat)) × Bool) := nodes.map (fun (_, t) => ({ learned := none }, t))
  let show1 (st : List (Comp (Nat × Option (List Nat)) × Bool)) : Json :=
    Json.arr (st.map (fun (c, _) => match c.learned with
      | none => Json.null
      | some (d, k) => Json.arr #[Json.num (JsonNumber.fromNat d),
          match k with | some ks => Json.arr (ks.map (fun k => Json.num (JsonNumber.fromNat k))).toArray | none => Json.null])).toArray
  let (_, tr) := steps.foldl (fun (acc : List (Comp (Nat × Option (List Nat)) × Bool) × List Json) (st : Nat × Bool × Bool) =>
    let nxt := pipeTrain learn acc.1 st.1 st.2.1 (if st.2.2 then some { entropy := 0, key := [], spawned := 0 } else none)
    (nxt, acc.2 ++ [show1 nxt])) (init, [])
  pure (Json.arr tr.toArray)

end LK.Driver.C18
