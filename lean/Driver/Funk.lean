import Driver.Codec
import LK.Model.FunkSVD
open Lean LK.Driver LK.Funk

namespace LK.Driver.Funk

/-- floats travel as their IEEE-754 bit patterns (decimal naturals) so that nothing is rounded on the way -/
def bitsOf (j : Json) : Except String Float := do pure (Float.ofBits (← j.getNat?).toUInt64)
def bitsArr (j : Json) (k : String) : Except String (Array Float) := do (← j.getObjVal? k).getArr? >>= (·.mapM bitsOf)
def toBitsJ (x : Float) : Json := Json.num (JsonNumber.fromNat x.toBits.toNat)

def trainOp (args : Json) : Except String Json := do
  let users ← (← (← args.getObjVal? "users").getArr?).mapM (·.getNat?)
  let items ← (← (← args.getObjVal? "items").getArr?).mapM (·.getNat?)
  let ratings ← bitsArr args "ratings"
  let bias ← bitsArr args "bias"
  if users.size != items.size || users.size != ratings.size || users.size != bias.size then throw "shape"
  let samples := (Array.range users.size).map (fun k =>
    ({ user := users.getD k 0, item := items.getD k 0, rating := ratings.getD k 0.0 } : Sample))
  let p : Params := { iters := ← getNat args "iters", lrate := ← bitsOf (← args.getObjVal? "lrate"),
                      reg := ← bitsOf (← args.getObjVal? "reg"), rmin := ← bitsOf (← args.getObjVal? "rmin"),
                      rmax := ← bitsOf (← args.getObjVal? "rmax") }
  let m := train p (← bitsOf (← args.getObjVal? "init")) (← getNat args "nUsers") (← getNat args "nItems") (← getNat args "nf") samples bias
  pure (Json.mkObj [("umat", Json.arr (m.umat.map toBitsJ)), ("imat", Json.arr (m.imat.map toBitsJ))])

end LK.Driver.Funk
