import Driver.Codec
open Lean LK.Driver LK.IL

namespace LK.Driver.C16

abbrev ILN := IL Nat Int

def natList (j : Json) : Except String (List Nat) := do (← j.getArr?).toList.mapM (·.getNat?)
def intList (j : Json) : Except String (List Int) := do (← j.getArr?).toList.mapM (·.getInt?)
def optOf {α} (j : Json) (k : String) (f : Json → Except String α) : Except String (Option α) :=
  match j.getObjVal? k with
  | .ok Json.null => pure none
  | .ok v => do pure (some (← f v))
  | .error _ => pure none

def errTag : Err → String
  | .runtime => "runtime" | .key => "key" | .index => "index" | .type => "type" | .value => "value" | .attribute => "attribute"

def natJ (n : Nat) : Json := Json.num (JsonNumber.fromNat n)
def intJ (n : Int) : Json := Json.num (JsonNumber.fromInt n)

def resJ {α} (f : α → Json) : Except Err α → Json
  | .ok v => Json.mkObj [("ok", f v)]
  | .error e => Json.mkObj [("err", Json.str (errTag e))]

def stepCopy (il : ILN) (r : Except Err ILN) : Except String (ILN × Json) :=
  match r with
  | .ok il' => pure (il', Json.str "ok")
  | .error e => pure (il, Json.mkObj [("err", Json.str (errTag e))])

def stepOp (vt : Variant) (il : ILN) (op : Json) : Except String (ILN × Json) := do
  let kind ← getStr op "op"
  match kind with
  | "ids" => pure (cacheIds il, resJ (fun l => Json.arr (l.map natJ).toArray) (idsOf il))
  | "numbers" =>
    let alt ← optOf op "vocab" natList
    let missing := if (← getStr op "missing") == "error" then Missing.error else Missing.negative
    let r := numbersOf il alt missing
    -- the cache is only filled on the own-vocabulary path
    let il' := match alt with
      | some a => if il.vocab = some a then cacheNums il else cacheIds il
      | none => cacheNums il
    pure (il', resJ (fun l => Json.arr (l.map intJ).toArray) r)
  | "getitem" =>
    let sel ← natList (← op.getObjVal? "sel")
    let style := (getStr op "style").toOption.getD "idx"
    -- index arrays and masks reject positions beyond the end (`IndexError`); slices clamp
    if style != "slice" && sel.any (fun k => decide (il.len ≤ k)) then pure (il, Json.mkObj [("err", Json.str "index")])
    else pure (getitem il (sel.filter (fun k => decide (k < il.len))), Json.str "ok")
  | "withvocab" =>
    let v2 ← natList (← op.getObjVal? "vocab")
    match withVocab vt il v2 with
    | .ok il' => pure (il', Json.str "ok")
    | .error e => pure (il, Json.mkObj [("err", Json.str (errTag e))])
  | "fields" =>
    pure (il, Json.mkObj (il.fields.map (fun nf => (nf.1, Json.arr (nf.2.map intJ).toArray))))
  | "len" => pure (il, natJ il.len)
  | "ranks" => pure (cacheRanks il, match ranksOf il with | some r => Json.arr (r.map natJ).toArray | none => Json.null)
  | "copyids" => stepCopy il (copyIds vt il (← natList (← op.getObjVal? "ids")))
  | "copynums" => stepCopy il (copyNums vt il (← intList (← op.getObjVal? "nums")))
  | "copyboth" => stepCopy il (copyBoth vt il (← natList (← op.getObjVal? "ids")) (← intList (← op.getObjVal? "nums")))
  | "copyidsvocab" =>
    let r := copyIdsVocab vt il (← natList (← op.getObjVal? "ids")) (← natList (← op.getObjVal? "vocab"))
    -- as it stands the failing constructor has already asked the source for its identifiers, which fills the source's cache
    match vt, r with
    | .asIs, .error .attribute => pure (cacheIds il, Json.mkObj [("err", Json.str "attribute")])
    | _, _ => stepCopy il r
  | "setordered" => pure (setOrdered il (← (← op.getObjVal? "flag").getBool?), Json.str "ok")
  | "dropfield" => pure (dropField il (← getStr op "name"), Json.str "ok")
  | "setfield" => stepCopy il (setField il (← getStr op "name") (← intList (← op.getObjVal? "vals")))
  | _ => throw s!"unknown op {kind}"

def initIL (init : Json) : Except String ILN := do
  let fields ← (← getArr init "fields").mapM (fun f => do
    pure ((← getStr f "name"), (← intList (← f.getObjVal? "vals"))))
  pure { len := ← getNat init "len", ids := ← optOf init "ids" natList, nums := ← optOf init "nums" intList,
         vocab := ← optOf init "vocab" natList, fields := fields, ordered := (getBool init "ordered").toOption.getD false }

/-- `c15.getstate`: the pickled state of an item list (identifiers, numbers, flag, length, field names) or the error class -/
def getstateOp (args : Json) : Except String Json := do
  let vt := if (getStr args "variant").toOption == some "repaired" then Variant.repaired else Variant.asIs
  let il ← initIL (← args.getObjVal? "init")
  match getstate vt il with
  | .error e => pure (Json.mkObj [("err", Json.str (errTag e))])
  | .ok s => pure (Json.mkObj [("ordered", Json.bool s.ordered), ("len", natJ s.len),
      ("ids", match s.ids with | some i => Json.arr (i.map natJ).toArray | none => Json.null),
      ("numbers", match s.numbers with | some n => Json.arr (n.map intJ).toArray | none => Json.null),
      ("fields", Json.arr (s.fields.map (fun nf => Json.str nf.1)).toArray)])

/-- `c15.arrow_rt`: `from_arrow(to_arrow(il))` — what comes back, or the error class -/
def arrowRtOp (args : Json) : Except String Json := do
  let il ← initIL (← args.getObjVal? "init")
  match arrowRT il with
  | .error e => pure (Json.mkObj [("err", Json.str (errTag e))])
  | .ok o => pure (Json.mkObj [("len", natJ o.len), ("ordered", Json.bool o.ordered),
      ("ids", match o.ids with | some i => Json.arr (i.map natJ).toArray | none => Json.null),
      ("fields", Json.arr (o.fields.map (fun nf => Json.str nf.1)).toArray)])

def run (args : Json) : Except String Json := do
  let vt := if (getStr args "variant").toOption == some "repaired" then Variant.repaired else Variant.asIs
  let il ← initIL (← args.getObjVal? "init")
  let ops ← getArr args "ops"
  let (_, outs) ← ops.foldlM (fun (st : ILN × List Json) op => do
    let (il', o) ← stepOp vt st.1 op
    pure (il', o :: st.2)) (il, [])
  pure (Json.arr outs.reverse.toArray)

end LK.Driver.C16
