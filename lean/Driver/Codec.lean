import Lean.Data.Json
import LK.Models
/-! JSON codecs shared by the driver ops. -/
open Lean

namespace LK.Driver

def getNat (j : Json) (k : String) : Except String Nat := do (← j.getObjVal? k).getNat?
def getInt (j : Json) (k : String) : Except String Int := do (← j.getObjVal? k).getInt?
def getBool (j : Json) (k : String) : Except String Bool := do (← j.getObjVal? k).getBool?
def getStr (j : Json) (k : String) : Except String String := do (← j.getObjVal? k).getStr?
def getArr (j : Json) (k : String) : Except String (List Json) := do pure (← (← j.getObjVal? k).getArr?).toList
def getOpt (j : Json) (k : String) : Option Json :=
  match j.getObjVal? k with
  | .ok Json.null => none
  | .ok v => some v
  | .error _ => none

def natList (j : Json) (k : String) : Except String (List Nat) := do (← getArr j k).mapM (·.getNat?)

/-- rationals travel as strings "p/q" or "p" -/
def parseRat (s : String) : Except String Rat :=
  match s.splitOn "/" with
  | [p] => match p.toInt? with | some n => .ok (n : Rat) | none => .error s!"bad rat {s}"
  | [p, q] =>
    match p.toInt?, q.toNat? with
    | some n, some d => if d = 0 then .error "zero denominator" else .ok ((n : Rat) / (d : Rat))
    | _, _ => .error s!"bad rat {s}"
  | _ => .error s!"bad rat {s}"

def ratOf (j : Json) : Except String Rat := do parseRat (← j.getStr?)
def ratToJson (q : Rat) : Json := Json.str (if q.den = 1 then toString q.num else s!"{q.num}/{q.den}")
def optRatToJson : Option Rat → Json | some q => ratToJson q | none => Json.null

end LK.Driver
