import Driver.Codec
open Lean LK.Driver

namespace LK.Driver.Misc

def natJ (n : Nat) : Json := Json.num (JsonNumber.fromNat n)
def intJ (n : Int) : Json := Json.num (JsonNumber.fromInt n)
def optStrJ : Option String → Json | some s => Json.str s | none => Json.null

/-! C17 -/
def pairsStr (j : Json) (k : String) : Except String (List (Nat × String)) := do
  (← getArr j k).mapM (fun e => do
    match (← e.getArr?).toList with
    | [r, v] => pure (← r.getNat?, ← v.getStr?)
    | _ => throw "bad pair")

def c17Scalar (args : Json) : Except String Json := do
  let n ← getNat args "n"
  let ps ← pairsStr args "pairs"
  let vt := if (getStr args "variant").toOption == some "repaired" then LK.Attr.Variant.repaired else LK.Attr.Variant.asIs
  pure (Json.arr ((LK.Attr.addScalar vt n ps).map optStrJ).toArray)

def c17List (args : Json) : Except String Json := do
  let n ← getNat args "n"
  let ps ← (← getArr args "pairs").mapM (fun e => do
    match (← e.getArr?).toList with
    | [r, v] => pure (← r.getNat?, ← (← v.getArr?).toList.mapM (·.getStr?))
    | _ => throw "bad pair")
  let lead := match getArr args "lead" with | .ok l => (l.mapM (fun (x : Json) => x.getStr?)).toOption.getD [] | .error _ => []
  let vt := if (getStr args "variant").toOption == some "asIs" then LK.Attr.Variant.asIs else LK.Attr.Variant.repaired
  let col := LK.Attr.expandAlignRaw vt n lead ps
  pure (Json.arr ((List.range n).map (fun r => match col.get r with
    | some l => Json.arr (l.map Json.str).toArray | none => Json.null)).toArray)

def c17Dense (args : Json) : Except String Json := do
  let n ← getNat args "n"
  let ps ← (← getArr args "pairs").mapM (fun e => do
    match (← e.getArr?).toList with
    | [r, Json.null] => pure (← r.getNat?, (none : Option (List String)))
    | [r, v] => pure (← r.getNat?, some (← (← v.getArr?).toList.mapM (·.getStr?)))
    | _ => throw "bad pair")
  let vt := if (getStr args "variant").toOption == some "repaired" then LK.Attr.Variant.repaired else LK.Attr.Variant.asIs
  let col := LK.Attr.addDense vt n ps
  let layout := match col with | .fixed _ => "fixed" | .listy _ => "list"
  let registered := match vt, col with | .asIs, .fixed _ => false | _, _ => true     -- the as-is fast path returns before the ColumnSpec is stored
  pure (Json.mkObj [("layout", Json.str layout), ("registered", Json.bool registered), ("rows", Json.arr ((List.range n).map (fun r => match col.get r with
    | some l => Json.arr (l.map Json.str).toArray | none => Json.null)).toArray)])

/-! C05 -/
def c05ArraySplit (args : Json) : Except String Json := do
  let xs ← natList args "xs"; let k ← getNat args "k"
  pure (Json.arr ((LK.Split.arraySplit xs k).map (fun p => Json.arr (p.map natJ).toArray)).toArray)

def c05LastN (args : Json) : Except String Json := do
  let times ← (← getArr args "times").mapM (·.getInt?)
  let n ← getNat args "n"
  let vt := if (getStr args "variant").toOption == some "repaired" then LK.Split.Variant.repaired else LK.Split.Variant.asIs
  pure (Json.arr ((LK.Split.lastN vt times n).map natJ).toArray)

def c05GlobalTime (args : Json) : Except String Json := do
  let times ← (← getArr args "times").mapM (·.getInt?)
  let tz ← getInt args "tz"
  let reprOf (s : String) : LK.Split.TRepr := if s == "naive" then .naive else .unix
  let col := reprOf (← getStr args "col")
  let pairOf (e : Json) : Except String (LK.Split.TRepr × Int) := do
    match (← e.getArr?).toList with
    | [f, x] => pure (reprOf (← f.getStr?), ← x.getInt?)
    | _ => throw "bad cut"
  let cuts ← (← getArr args "cuts").mapM pairOf
  let endT ← match getOpt args "end" with | none => pure none | some e => do pure (some (← pairOf e))
  let vt := if (getStr args "variant").toOption == some "repaired" then LK.Split.Variant.repaired else LK.Split.Variant.asIs
  let recs : List (LK.Split.IRec Nat) := (List.range times.length).map (fun k => { u := 0, i := k, t := times.getD k 0, a := k })
  match LK.Split.splitGlobalTime vt tz col recs cuts endT with
  | none => pure Json.null
  | some ss => pure (Json.arr (ss.map (fun s => Json.mkObj [("train", Json.arr (s.1.map (fun r => natJ r.a)).toArray),
      ("test", Json.arr (s.2.map (fun r => natJ r.a)).toArray)])).toArray)

/-! C20 -/
def c20Sample (args : Json) : Except String Json := do
  let nCols ← getNat args "nCols"
  let obs ← (← getArr args "observed").mapM (fun e => do
    match (← e.getArr?).toList with
    | [r, c] => pure (← r.getNat?, ← c.getNat?)
    | _ => throw "bad pair")
  let stored ← natList args "storedCols"
  let rows ← natList args "rows"
  let draws ← (← getArr args "draws").mapM (fun d => do (← d.getArr?).toList.mapM (·.getNat?))
  let attempts ← getNat args "attempts"
  let w := if (← getStr args "weighting") == "uniform" then LK.Neg.Weighting.uniform else LK.Neg.Weighting.popular
  let m : LK.Neg.Mat := { nCols := nCols, observed := obs, storedCols := stored }
  match LK.Neg.sampleVerified m w attempts rows draws with
  | none => throw "bad-draws"
  | some o => pure (Json.mkObj [("cols", Json.arr (o.cols.map natJ).toArray), ("warned", Json.bool o.warned),
      ("unused", natJ o.rest.length)])

/-! C07 -/
def pairOf (j : Json) : Except String LK.Pred.Pair := do
  match (← j.getArr?).toList with
  | [p, t] =>
    let p' ← (match p with | Json.null => pure none | v => do pure (some (← ratOf v)))
    let t' ← (match t with | Json.null => pure none | v => do pure (some (← ratOf v)))
    pure (p', t')
  | _ => throw "bad pair"

def c07Global (args : Json) : Except String Json := do
  let lists ← (← getArr args "lists").mapM (fun l => do (← l.getArr?).toList.mapM pairOf)
  let sq ← getBool args "sq"
  let vt := if (getStr args "variant").toOption == some "repaired" then LK.Pred.Variant.repaired else LK.Pred.Variant.asIs
  let disp (k : String) : LK.Pred.Disp := if (getStr args k).toOption == some "error" then .error else .ignore
  for l in lists do
    match LK.Pred.align (disp "ms") (disp "mt") l with
    | .error .missingScores => return Json.mkObj [("error", Json.str "missing scores")]
    | .error .missingTruth => return Json.mkObj [("error", Json.str "missing truth")]
    | .ok _ => pure ()
  let data := lists.map (LK.Pred.listData vt sq)
  pure (Json.mkObj [
    ("per_list", Json.arr (data.map (fun d => optRatToJson (LK.Pred.extract d))).toArray),
    ("direct", Json.arr (lists.map (fun l => optRatToJson (LK.Pred.measureList sq l))).toArray),
    ("global", optRatToJson (LK.Pred.globalAgg vt (!sq) data))])

end LK.Driver.Misc

namespace LK.Driver.Misc
open LK.Persist in
def c15Crash (args : Json) : Except String Json := do
  let fname (j : Json) : Except String LK.Persist.FName := do
    let s ← j.getStr?
    if s == "schema.json" then pure .schema
    else if s == "summary.md" then pure .summary
    else if s.endsWith ".parquet" then pure (.table (s.dropRight 8))
    else throw s!"bad file name {s}"
  let oldT ← (← getArr args "old").mapM (·.getStr?)
  let newT ← (← getArr args "new").mapM (·.getStr?)
  let old : LK.Persist.DSd := { tag := 1, tables := oldT }
  let new : LK.Persist.DSd := { tag := 2, tables := newT }
  let k ← getNat args "k"
  let torn ← getBool args "torn"
  let fresh ← getBool args "fresh"
  let delOrder ← if fresh then pure [] else (← getArr args "delOrder").mapM fname
  let dir :=
    if fresh then LK.Persist.crash none (LK.Persist.saveFresh new) k torn
    else LK.Persist.crash (some (LK.Persist.filesOf old)) (LK.Persist.saveSteps delOrder new) k torn
  let total := if fresh then (LK.Persist.saveFresh new).length else (delOrder.length + 2 + (LK.Persist.writeSteps new).length)
  let verdict := match LK.Persist.load dir with
    | .fail => "fail"
    | .ds d tags => if d == new && tags.all (· == 2) then "new" else if d == old && tags.all (· == 1) then "old" else "mix"
  pure (Json.mkObj [("verdict", Json.str verdict), ("steps", natJ total)])
end LK.Driver.Misc
