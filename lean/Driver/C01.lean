import Driver.Codec
open Lean LK.Driver LK.DS

namespace LK.Driver.C01

abbrev Attrs := Option Rat × Option Int

def rowOfJson (j : Json) : Except String (Int × Int × Attrs) := do
  let u ← getInt j "u"; let i ← getInt j "i"
  let r ← match getOpt j "r" with | some v => do pure (some (← ratOf v)) | none => pure none
  let t := match getOpt j "t" with | some v => v.getInt?.toOption | none => none
  pure (u, i, (r, t))

def optIntList (j : Json) (k : String) : Except String (Option (List Int)) :=
  match getOpt j k with
  | none => pure none
  | some v => do pure (some (← (← v.getArr?).toList.mapM (·.getInt?)))

def opOf (j : Json) : Except String (Op Int Attrs) := do
  match ← getStr j "op" with
  | "addEntities" =>
    let c := if (← getStr j "cls") == "user" then Cls.user else Cls.item
    let ids ← (← getArr j "ids").mapM (·.getInt?)
    let dup := if (← getStr j "dup") == "update" then Dup.update else Dup.error
    pure (.addEntities c ids dup)
  | "addInteractions" =>
    let rows ← (← getArr j "rows").mapM rowOfJson
    let m := match (← getStr j "missing") with | "insert" => Missing.insert | "filter" => Missing.filter | _ => Missing.error
    pure (.addInteractions rows m)
  | "filterTime" =>
    let lo := match getOpt j "min" with | some v => v.getInt?.toOption | none => none
    let hi := match getOpt j "max" with | some v => v.getInt?.toOption | none => none
    pure (.filterTime lo hi)
  | "remove" => pure (.remove { users := ← optIntList j "users", items := ← optIntList j "items" })
  | "clear" => pure .clear
  | k => throw s!"bad op {k}"

def errJson : Option Err → Json
  | none => Json.null | some .dataError => "dataError" | some .keyError => "keyError" | some .valueError => "valueError"

def intJ (n : Int) : Json := Json.num (JsonNumber.fromInt n)
def natJ (n : Nat) : Json := Json.num (JsonNumber.fromNat n)

def run (args : Json) : Except String Json := do
  let ops ← (← getArr args "ops").mapM opOf
  let le : Int → Int → Bool := fun a b => decide (a ≤ b)
  let tm : Attrs → Option Int := fun a => a.2
  let init : Builder Int Attrs := { users := [], items := [], recs := [] }
  let (b, errs) := ops.foldl (fun (acc : Builder Int Attrs × List (Option Err)) op =>
      let (b', e) := step le tm acc.1 op
      (b', e :: acc.2)) (init, [])
  let recs := sortedRecs b
  pure (Json.mkObj [
    ("errors", Json.arr (errs.reverse.map errJson).toArray),
    ("users", Json.arr (b.users.map intJ).toArray),
    ("items", Json.arr (b.items.map intJ).toArray),
    ("recs", Json.arr (recs.map (fun r => Json.arr #[natJ r.u, natJ r.i, optRatToJson r.a.1,
        (match r.a.2 with | some t => intJ t | none => Json.null)])).toArray),
    ("rowptrs", Json.arr ((rowPtrs b).map natJ).toArray)])

end LK.Driver.C01
