/-!
# C10 — FunkSVD: feature-by-feature stochastic gradient descent (core Lean only, IEEE doubles)

Mirrors `lenskit.funksvd._feature_loop`, `_train_feature`, `train`: one feature at a time, all samples
in the given (already shuffled) order, prediction clamped to the rating range, the running estimate
updated and clamped after each feature, untrained features contributing `init²` each through `trail`.
Matrices are row-major `Array Float`s of size `n × nf`.
-/
namespace LK.Funk

structure Params where
  iters : Nat
  lrate : Float
  reg : Float
  rmin : Float
  rmax : Float

structure Sample where
  user : Nat
  item : Nat
  rating : Float

structure Model where
  nf : Nat
  umat : Array Float
  imat : Array Float

def clamp (p : Params) (x : Float) : Float :=
  if x < p.rmin then p.rmin else if x > p.rmax then p.rmax else x

/-- one sample of `_feature_loop` -/
def sgdStep (p : Params) (f : Nat) (trail : Float) (m : Model) (s : Sample) (est : Float) : Model :=
  let ui := s.user * m.nf + f
  let ii := s.item * m.nf + f
  let ufv := m.umat.getD ui 0.0
  let ifv := m.imat.getD ii 0.0
  let pred := clamp p (est + ufv * ifv + trail)
  let error := s.rating - pred
  let ufd := (error * ifv - p.reg * ufv) * p.lrate
  let ifd := (error * ufv - p.reg * ifv) * p.lrate
  { m with umat := m.umat.setIfInBounds ui (ufv + ufd), imat := m.imat.setIfInBounds ii (ifv + ifd) }

/-- one pass over all samples -/
def featureLoop (p : Params) (f : Nat) (trail : Float) (samples : Array Sample) (est : Array Float) (m : Model) : Model :=
  (List.range samples.size).foldl (fun m k =>
    match samples[k]? with
    | some s => sgdStep p f trail m s (est.getD k 0.0)
    | none => m) m

def trainFeature (p : Params) (f : Nat) (trail : Float) (samples : Array Sample) (est : Array Float) (m : Model) : Model :=
  (List.range p.iters).foldl (fun m _ => featureLoop p f trail samples est m) m

/-- estimate update after a feature: add its contribution, clamp with `maximum` then `minimum` -/
def updateEst (p : Params) (f : Nat) (samples : Array Sample) (est : Array Float) (m : Model) : Array Float :=
  (Array.range samples.size).map (fun k =>
    match samples[k]? with
    | some s =>
      let e := est.getD k 0.0 + m.umat.getD (s.user * m.nf + f) 0.0 * m.imat.getD (s.item * m.nf + f) 0.0
      let e := if e < p.rmin then p.rmin else e          -- np.maximum(est, rmin)
      if e > p.rmax then p.rmax else e                    -- np.minimum(est, rmax)
    | none => 0.0)

def train (p : Params) (init : Float) (nUsers nItems nf : Nat) (samples : Array Sample) (bias : Array Float) : Model :=
  let m0 : Model := { nf := nf, umat := Array.replicate (nUsers * nf) init, imat := Array.replicate (nItems * nf) init }
  ((List.range nf).foldl (fun (st : Model × Array Float) f =>
    let trail := init * init * (Float.ofNat (nf - f - 1))
    let m := trainFeature p f trail samples st.2 st.1
    (m, updateEst p f samples st.2 m)) (m0, bias)).1

end LK.Funk
