/-!
# C18 — training guard and `Pipeline.train` (core Lean only)

A component's learned state is everything `train` assigns; `learn d` is what a fresh component
learns from dataset `d` (with the given options).  `Pipeline.train` walks the component nodes in
order, spawning one child seed per trainable component from the supplied seed sequence.
-/
namespace LK.Train

structure Comp (σ : Type) where
  learned : Option σ

/-- the common shape of every `train()`: skip if already trained and retraining is off,
    otherwise replace the whole learned state -/
def train {δ σ} (learn : δ → σ) (c : Comp σ) (d : δ) (retrain : Bool) : Comp σ :=
  if c.learned.isSome ∧ retrain = false then c else { learned := some (learn d) }

/-- `numpy.random.SeedSequence`: entropy, spawn key, number of children spawned so far -/
structure SeedSeq where
  entropy : Nat
  key : List Nat
  spawned : Nat
deriving DecidableEq, Repr

/-- `seed.spawn(1)[0]` -/
def spawn (s : SeedSeq) : SeedSeq × SeedSeq :=
  ({ s with spawned := s.spawned + 1 }, { entropy := s.entropy, key := s.key ++ [s.spawned], spawned := 0 })

/-- `Pipeline.train`: the (component, seed handed to it) log, in node order -/
def trainAll : List (Nat × Bool) → Option SeedSeq → List (Nat × Option SeedSeq)
  | [], _ => []
  | (n, trainable) :: rest, seed =>
    if trainable then
      match seed with
      | none => (n, none) :: trainAll rest none
      | some s => let (s', child) := spawn s; (n, some child) :: trainAll rest (some s')
    else trainAll rest seed

/-- `Pipeline.train` on the components' states: every trainable component is trained on `d` with the caller's retrain flag and the
    seed spawned for it (`learn seed d` is what a fresh component learns); other components are passed over -/
def pipeTrain {δ σ} (learn : Option SeedSeq → δ → σ) : List (Comp σ × Bool) → δ → Bool → Option SeedSeq → List (Comp σ × Bool)
  | [], _, _, _ => []
  | (c, false) :: rest, d, r, seed => (c, false) :: pipeTrain learn rest d r seed
  | (c, true) :: rest, d, r, none => (train (learn none) c d r, true) :: pipeTrain learn rest d r none
  | (c, true) :: rest, d, r, some s =>
    (train (learn (some (spawn s).2)) c d r, true) :: pipeTrain learn rest d r (some (spawn s).1)

end LK.Train
