/-!
# Item lists on a heap: which field dictionary a derived list writes to

`ItemList(source, **fields)` starts from `self.__dict__.update(source.__dict__)` — the new list shares every attribute object with
its source — and then binds `_fields` to a dictionary of its own.  The model keeps one heap cell per field dictionary (field name ↦
identity of the array), so that "the source is unchanged" is a statement about cells, not about values.  `fresh = true` is the
discipline the code follows (`eff_fields = source._fields | fields`, `self._fields = {}`, no in-place change of a shared object —
the three facts `LK/Generated/GuardsC14.lean` reads off the constructor on every run); `fresh = false` is what the constructor would
do if it edited the dictionary it shares with the source.
-/
namespace LK.ItemListHeap

abbrev Cell := List (String × Nat)

/-- `source._fields | fields`, then the entries given as `False` removed: later entries win, removed names disappear -/
def effective (base : Cell) (adds : Cell) (drops : List String) : Cell :=
  ((base.filter (fun kv => !(adds.map Prod.fst).contains kv.1)) ++ adds).filter (fun kv => !drops.contains kv.1)

/-- one derivation: the heap afterwards and the cell of the new list -/
def derive (fresh : Bool) (h : List Cell) (src : Nat) (adds : Cell) (drops : List String) : List Cell × Nat :=
  let new := effective (h.getD src []) adds drops
  if fresh then (h ++ [new], h.length) else (h.set src new, src)

structure Op where
  src : Nat
  adds : Cell
  drops : List String

def run (fresh : Bool) (h : List Cell) (ops : List Op) : List Cell :=
  ops.foldl (fun h o => (derive fresh h o.src o.adds o.drops).1) h

end LK.ItemListHeap
