import LK.Prelude.Basic
/-!
# C02 — `PipelineRunner` (core Lean only)

Nodes are numbered.  A component has parameters in signature order; each is wired to a source node
or unwired, is eager or lazy (`Lazy[T]`), and accepts `None` or not.  A component consults at most
one of its lazy parameters, chosen by `sel` from the eager argument values (this covers
`fallback_on_none` / `use_first_of` and `FallbackScorer`); `fin` computes the result.
`Variant.asIs` reproduces the runner as it stands (a node that bailed out as *not required* is marked
finished without state, and a later request raises `KeyError`); `Variant.repaired` returns `None`
/ raises `PipelineError` instead.
-/
namespace LK.Pipe

inductive Val | none | int (n : Int) | str (s : String)
deriving DecidableEq, Repr, Inhabited

inductive Err | pipeline | type | key | runtime | fuel | comp (tag : Nat)
deriving DecidableEq, Repr

abbrev Name := Nat

structure Param where
  lzy : Bool
  acceptsNone : Bool
  accepts : Val → Bool            -- run-time type check for non-None values
  src : Option Name

inductive Node
  | input (acceptsNone : Bool) (accepts : Val → Bool)
  | literal (v : Val)
  | comp (params : List Param) (sel : List Val → Option Nat) (fin : List Val → Option Val → Except Err Val)

structure Graph where
  node : Name → Node

inductive Status | pending | inProgress | finished | failed
deriving DecidableEq, Repr

structure RS where
  status : Name → Status
  state : Name → Option Val
  log : List Name

def RS.init : RS := { status := fun _ => .pending, state := fun _ => Option.none, log := [] }
def RS.setSt (s : RS) (n : Name) (x : Status) : RS :=
  { s with status := fun m => if m = n then x else s.status m }
def RS.put (s : RS) (n : Name) (v : Val) : RS :=
  { s with state := fun m => if m = n then some v else s.state m }
def RS.logged (s : RS) (n : Name) : RS := { s with log := n :: s.log }

inductive Variant | asIs | repaired deriving DecidableEq, Repr

/-- what a consumer sees: a value, or "no value" (the node bailed out because it was not required) -/
abbrev Res := Except Err (Option Val)

def paramOk (p : Param) (v : Val) : Bool := if v = .none then p.acceptsNone else p.accepts v

/-- eager parameters resolved so far, plus the lazy ones deferred -/
structure Args where
  eager : List Val
  lazies : List (Param × Name × Bool)     -- (param, source, required-at-get)
  unwiredLazy : Nat := 0

/-- the parameter loop of `_run_component`, over an arbitrary "run a source node" function;
    `none` result = bail out -/
def runParamsWith (rn : Name → Bool → RS → Res × RS) :
    List Param → Bool → List Val → List (Param × Name × Bool) → RS →
      Except Err (Option (List Val × List (Param × Name × Bool))) × RS
  | [], _, eager, lazies, s => (.ok (some (eager.reverse, lazies.reverse)), s)
  | p :: ps, required, eager, lazies, s =>
    match p.src with
    | Option.none =>
      if p.lzy then runParamsWith rn ps required (Val.none :: eager) lazies s
      else if !p.acceptsNone ∧ !required then (.ok Option.none, s)
      else if !p.acceptsNone then (.error .pipeline, s)
      else runParamsWith rn ps required (Val.none :: eager) lazies s
    | some src =>
      let ireq := required && !p.acceptsNone
      if p.lzy then runParamsWith rn ps required eager ((p, src, ireq) :: lazies) s
      else
        match rn src ireq s with
        | (.error e, s) => (.error e, s)
        | (.ok r, s) =>
          let v := r.getD .none
          if v = .none ∧ !p.acceptsNone ∧ !required then (.ok Option.none, s)
          else if !paramOk p v then
            (if v = .none then (.error .pipeline, s) else (.error .type, s))
          else runParamsWith rn ps required (v :: eager) lazies s

/-- the component body: consult at most one lazy input (`DeferredRun.get`), then compute -/
def forceLazy (rn : Name → Bool → RS → Res × RS) (sel : List Val → Option Nat)
    (eager : List Val) (lazies : List (Param × Name × Bool)) (s : RS) : Except Err (Option Val) × RS :=
  match sel eager with
  | Option.none => (.ok Option.none, s)
  | some j =>
    match lazies[j]? with
    | Option.none => (.ok Option.none, s)
    | some (p, src, ireq) =>
      match rn src ireq s with
      | (.error e, s) => (.error e, s)
      | (.ok r, s) =>
        let v := r.getD .none
        if paramOk p v then (.ok (some v), s) else (.error .type, s)

/-- `PipelineRunner.run(node, required=…)` -/
def runNode (vt : Variant) (g : Graph) (ι : Name → Val) : Nat → Name → Bool → RS → Res × RS
  | 0, _, _, s => (.error .fuel, s)
  | fuel + 1, n, required, s =>
    match s.status n with
    | .finished =>
      match vt with
      | .asIs =>
        match s.state n with
        | some v => (.ok (some v), s)
        | Option.none => (.error .key, s)
      | .repaired =>
        match s.state n with
        | some v =>
          -- an input is re-validated against *this* request's `required` flag
          match g.node n with
          | .input an _ => if v = .none ∧ required ∧ !an then (.error .pipeline, s) else (.ok (some v), s)
          | _ => (.ok (some v), s)
        | Option.none => if required then (.error .pipeline, s) else (.ok Option.none, s)
    | .inProgress => (.error .pipeline, s)
    | .failed => (.error .runtime, s)
    | .pending =>
      let s := s.setSt n .inProgress
      match g.node n with
      | .literal v => (.ok (some v), (s.put n v).setSt n .finished)
      | .input an acc =>
        let v := ι n
        if v = .none ∧ required ∧ !an then (.error .pipeline, s.setSt n .failed)
        else if v ≠ .none ∧ !acc v then (.error .type, s.setSt n .failed)
        else (.ok (some v), (s.put n v).setSt n .finished)
      | .comp params sel fin =>
        match runParamsWith (fun m r t => runNode vt g ι fuel m r t) params required [] [] s with
        | (.error e, s) => (.error e, s.setSt n .failed)
        | (.ok Option.none, s) =>
          -- bailed out: finished, but no state
          let s := s.setSt n .finished
          if required then (.error .key, s) else (.ok Option.none, s)
        | (.ok (some (eager, lazies)), s) =>
          let s := s.logged n
          match forceLazy (fun m r t => runNode vt g ι fuel m r t) sel eager lazies s with
          | (.error e, s) => (.error e, s.setSt n .failed)
          | (.ok lv, s) =>
            match fin eager lv with
            | .error e => (.error e, s.setSt n .failed)
            | .ok v => (.ok (some v), (s.put n v).setSt n .finished)


/-- `Pipeline.run(nodes…)`: a fresh runner, each requested node required, results in request order -/
def runAll (vt : Variant) (g : Graph) (ι : Name → Val) (fuel : Nat) : List Name → RS → Except Err (List Val) × RS
  | [], s => (.ok [], s)
  | n :: ns, s =>
    match runNode vt g ι fuel n true s with
    | (.error e, s) => (.error e, s)
    | (.ok r, s) =>
      match r with
      | Option.none => (.error .key, s)
      | some v =>
        match runAll vt g ι fuel ns s with
        | (.error e, s) => (.error e, s)
        | (.ok vs, s) => (.ok (v :: vs), s)

def run (vt : Variant) (g : Graph) (ι : Name → Val) (fuel : Nat) (reqs : List Name) : Except Err (List Val) × RS :=
  runAll vt g ι fuel reqs RS.init

end LK.Pipe

namespace LK.Pipe

/-! ### denotational semantics: the graph as a pure dataflow program (no memo, no status) -/

def denParamsWith (dn : Name → Bool → Res) :
    List Param → Bool → List Val → List (Param × Name × Bool) →
      Except Err (Option (List Val × List (Param × Name × Bool)))
  | [], _, eager, lazies => .ok (some (eager.reverse, lazies.reverse))
  | p :: ps, required, eager, lazies =>
    match p.src with
    | Option.none =>
      if p.lzy then denParamsWith dn ps required (Val.none :: eager) lazies
      else if !p.acceptsNone ∧ !required then .ok Option.none
      else if !p.acceptsNone then .error .pipeline
      else denParamsWith dn ps required (Val.none :: eager) lazies
    | some src =>
      let ireq := required && !p.acceptsNone
      if p.lzy then denParamsWith dn ps required eager ((p, src, ireq) :: lazies)
      else
        match dn src ireq with
        | .error e => .error e
        | .ok r =>
          let v := r.getD .none
          if v = .none ∧ !p.acceptsNone ∧ !required then .ok Option.none
          else if !paramOk p v then (if v = .none then .error .pipeline else .error .type)
          else denParamsWith dn ps required (v :: eager) lazies

def denForce (dn : Name → Bool → Res) (sel : List Val → Option Nat)
    (eager : List Val) (lazies : List (Param × Name × Bool)) : Except Err (Option Val) :=
  match sel eager with
  | Option.none => .ok Option.none
  | some j =>
    match lazies[j]? with
    | Option.none => .ok Option.none
    | some (p, src, ireq) =>
      match dn src ireq with
      | .error e => .error e
      | .ok r =>
        let v := r.getD .none
        if paramOk p v then .ok (some v) else .error .type

def denote (g : Graph) (ι : Name → Val) : Nat → Name → Bool → Res
  | 0, _, _ => .error .fuel
  | fuel + 1, n, required =>
    match g.node n with
    | .literal v => .ok (some v)
    | .input an acc =>
      let v := ι n
      if v = .none ∧ required ∧ !an then .error .pipeline
      else if v ≠ .none ∧ !acc v then .error .type
      else .ok (some v)
    | .comp params sel fin =>
      match denParamsWith (fun m r => denote g ι fuel m r) params required [] [] with
      | .error e => .error e
      | .ok Option.none => if required then .error .key else .ok Option.none
      | .ok (some (eager, lazies)) =>
        match denForce (fun m r => denote g ι fuel m r) sel eager lazies with
        | .error e => .error e
        | .ok lv =>
          match fin eager lv with
          | .error e => .error e
          | .ok v => .ok (some v)

end LK.Pipe
