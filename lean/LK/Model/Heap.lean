/-!
# C14 — aliasing between pipelines and the builders derived from them (core Lean only)

A heap of mutable wiring dictionaries.  Objects (pipelines, builders) hold *addresses*.
`deep = false` is `PipelineBuilder.from_pipeline` as it stands (the builder stores the pipeline's own
`inputs` dicts); `deep = true` copies them.  `connect` mutates a dict in place, exactly like the code.
-/
namespace LK.Heap

-- addresses are natural numbers
abbrev Dict := List (String × String)

structure Heap where
  cell : Nat → Dict
  next : Nat

def Heap.set (h : Heap) (a : Nat) (d : Dict) : Heap := { h with cell := fun b => if b = a then d else h.cell b }
def Heap.alloc (h : Heap) (d : Dict) : Heap × Nat := ({ cell := fun b => if b = h.next then d else h.cell b, next := h.next + 1 }, h.next)

def dictSet (d : Dict) (k v : String) : Dict := (k, v) :: d.filter (·.1 != k)

inductive Kind | pipe | builder deriving DecidableEq, Repr
structure Obj where
  kind : Kind
  edges : List (String × Nat)       -- component name ↦ address of its wiring dict

structure World where
  heap : Heap
  objs : List Obj

inductive Op
  | modify (p : Nat)
  | connect (b : Nat) (comp k v : String)
  | clearInputs (b : Nat) (comp : String)
  | build (b : Nat)

def lookupE (es : List (String × Nat)) (c : String) : Option Nat := (es.find? (·.1 == c)).map (·.2)
def setE (es : List (String × Nat)) (c : String) (a : Nat) : List (String × Nat) := (c, a) :: es.filter (·.1 != c)

/-- copy every wiring dict into fresh cells -/
def copyEdges (h : Heap) : List (String × Nat) → Heap × List (String × Nat)
  | [] => (h, [])
  | (c, a) :: es =>
    let (h1, a') := h.alloc (h.cell a)
    let (h2, es') := copyEdges h1 es
    (h2, (c, a') :: es')

def setObj (os : List Obj) (i : Nat) (o : Obj) : List Obj := os.set i o

/-- `deep = false` is the code as it stands (from_pipeline aliases the dicts); `true` is the repaired discipline -/
def step (deep : Bool) (w : World) : Op → World
  | .modify p =>
    match w.objs[p]? with
    | some o =>
      if o.kind = .pipe then
        if deep then
          let (h, es) := copyEdges w.heap o.edges
          { heap := h, objs := w.objs ++ [{ kind := .builder, edges := es }] }
        else { w with objs := w.objs ++ [{ kind := .builder, edges := o.edges }] }
      else w
    | none => w
  | .connect b comp k v =>
    match w.objs[b]? with
    | some o =>
      if o.kind = .builder then
        match lookupE o.edges comp with
        | some a => { w with heap := w.heap.set a (dictSet (w.heap.cell a) k v) }
        | none =>
          let (h, a) := w.heap.alloc [(k, v)]
          { heap := h, objs := setObj w.objs b { o with edges := setE o.edges comp a } }
      else w
    | none => w
  | .clearInputs b comp =>
    match w.objs[b]? with
    | some o =>
      if o.kind = .builder then
        let (h, a) := w.heap.alloc []
        { heap := h, objs := setObj w.objs b { o with edges := setE o.edges comp a } }
      else w
    | none => w
  | .build b =>
    match w.objs[b]? with
    | some o =>
      if o.kind = .builder then
        let (h, es) := copyEdges w.heap o.edges          -- build_config deep-copies the wiring
        { heap := h, objs := w.objs ++ [{ kind := .pipe, edges := es }] }
      else w
    | none => w

def observe (w : World) (i : Nat) : Option (List (String × Dict)) :=
  (w.objs[i]?).map (fun o => o.edges.map (fun (c, a) => (c, w.heap.cell a)))

def runOps (deep : Bool) (w : World) (ops : List Op) : World := ops.foldl (step deep) w


end LK.Heap
