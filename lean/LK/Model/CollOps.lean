/-!
# Operations the generated model of the native collection layout is written in (core Lean only)

`chunked` is `more_itertools.chunked`; a `Batch` is one Arrow record batch of the native layout — its key column and its `items`
column; a file is the list of batches written, and reading it (`ParquetDataset.read`) concatenates the columns, so that a position
in the `items` column is a position in the whole table.
-/
namespace LK.CollOps

/-- `more_itertools.chunked(xs, n)`: lists of `n` elements, the last one shorter; nothing at all for `n = 0` (the first empty
    take equals the sentinel).  The fuel is the length of the input, which suffices for `n ≥ 1`. -/
def chunkedAux {α} (n : Nat) : Nat → List α → List (List α)
  | 0, _ => []
  | fuel + 1, xs => if xs.isEmpty then [] else xs.take n :: chunkedAux n fuel (xs.drop n)

def chunked {α} (n : Nat) (xs : List α) : List (List α) :=
  if n = 0 then [] else chunkedAux n xs.length xs

structure Batch (κ μ : Type) where
  keys : List κ
  items : List μ

def readKeys {κ μ} (file : List (Batch κ μ)) : List κ := file.flatMap (·.keys)
def readItems {κ μ} (file : List (Batch κ μ)) : List μ := file.flatMap (·.items)

/-- Python's `enumerate` -/
def enumerate {α} (xs : List α) : List (Nat × α) := xs.zipIdx.map (fun p => (p.2, p.1))

end LK.CollOps
