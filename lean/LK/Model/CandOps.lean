/-!
# C03 — array operations of the unrated-items candidate selector (core Lean only)
-/
namespace LK.CandOps

/-- `x >= 0` -/
def geZero (xs : List Int) : List Bool := xs.map (fun x => decide (0 ≤ x))
/-- `x[mask]` on an integer array -/
def indexMaskInt : List Int → List Bool → List Int
  | x :: xs, true :: m => x :: indexMaskInt xs m
  | _ :: xs, false :: m => indexMaskInt xs m
  | _, _ => []
/-- `x[mask]` -/
def indexMask {α} : List α → List Bool → List α
  | x :: xs, true :: m => x :: indexMask xs m
  | _ :: xs, false :: m => indexMask xs m
  | _, _ => []
/-- `mask[idx] = False`; a negative index would count from the end of the array, as in NumPy -/
def setFalseAt (mask : List Bool) (idx : List Int) : List Bool :=
  idx.foldl (fun acc i => if 0 ≤ i then acc.set i.toNat false else acc.set (acc.length - i.natAbs) false) mask

end LK.CandOps
