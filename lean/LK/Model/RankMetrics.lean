/-!
# C06 — ranking metrics (core Lean only, exact rationals)

Items are natural numbers; a recommendation list `L` is a list of distinct items in rank order;
the truth `T` is a list of (item, gain) pairs with distinct items.  Undefined results (NaN in the
implementation) are `none`.  `disc r` is the discount value at rank `r ≥ 1` (e.g. the float
`log2 r` as an exact rational); `pat` is the RBP patience.
The functions mirror the shape of the NumPy code (mask → cumulative positions → dot products).
-/
namespace LK.Metric

abbrev Q := Rat

def truncate {α} (k : Option Nat) (L : List α) : List α :=
  match k with
  | none => L
  | some k => if L.length > k then L.take k else L

def gainOf (T : List (Nat × Q)) (i : Nat) : Option Q := (T.find? (·.1 == i)).map (·.2)
def isRel (T : List (Nat × Q)) (i : Nat) : Bool := (gainOf T i).isSome

/-- indicator vector `np.isin(recs, test)` over the truncated list -/
def good (k : Option Nat) (L : List Nat) (T : List (Nat × Q)) : List Bool := (truncate k L).map (isRel T)

def countTrue (bs : List Bool) : Nat := (bs.filter id).length

def qdiv (a b : Q) : Option Q := if b = 0 then none else some (a / b)

def hit (k : Option Nat) (L : List Nat) (T : List (Nat × Q)) : Option Q :=
  if T.isEmpty then none else some (if (good k L T).any id then 1 else 0)

def precision (k : Option Nat) (L : List Nat) (T : List (Nat × Q)) : Option Q :=
  let g := good k L T
  if g.isEmpty then none else some ((countTrue g : Q) / (g.length : Q))

/-- `min(|T|, k)` — the largest number of relevant items a list cut at `k` can hold -/
def nrelCap (k : Option Nat) (T : List (Nat × Q)) : Nat :=
  match k with | some k => if k < T.length then k else T.length | none => T.length

def recall (k : Option Nat) (L : List Nat) (T : List (Nat × Q)) : Option Q :=
  qdiv (countTrue (good k L T) : Q) (nrelCap k T : Q)

def firstTrue : List Bool → Option Nat
  | [] => none
  | true :: _ => some 0
  | false :: bs => (firstTrue bs).map (· + 1)

def recipRank (k : Option Nat) (L : List Nat) (T : List (Nat × Q)) : Option Q :=
  if T.isEmpty then none else
    match firstTrue (good k L T) with
    | some p => some (1 / ((p : Q) + 1))
    | none => some 0

/-- `Σ_p w(start+p) · x_p` -/
def wsumFrom (w : Nat → Q) : Nat → List Q → Q
  | _, [] => 0
  | s, x :: xs => w s * x + wsumFrom w (s + 1) xs

def powQ (a : Q) : Nat → Q
  | 0 => 1
  | n + 1 => a * powQ a n

def indicator (bs : List Bool) : List Q := bs.map (fun b => if b then 1 else 0)

def rbp (k : Option Nat) (pat : Q) (normalize : Bool) (L : List Nat) (T : List (Nat × Q)) : Option Q :=
  if T.isEmpty then none else
    let g := good k L T
    let s := wsumFrom (powQ pat) 0 (indicator g)
    if normalize then
      let m := min T.length g.length
      qdiv s (wsumFrom (powQ pat) 0 (List.replicate m 1))
    else some (s * (1 - pat))

/-- reciprocal of the discount clamped at 1 — `np.maximum(disc, 1)`, `np.reciprocal` -/
def dweight (disc : Nat → Q) (p : Nat) : Q := 1 / (if disc (p + 1) < 1 then 1 else disc (p + 1))

def arrayDcg (disc : Nat → Q) (scores : List Q) : Q := wsumFrom (dweight disc) 0 scores
def fixedDcg (disc : Nat → Q) (n : Nat) : Q := wsumFrom (dweight disc) 0 (List.replicate n 1)

def gainsOf (binary : Bool) (k : Option Nat) (L : List Nat) (T : List (Nat × Q)) : List Q :=
  (truncate k L).map (fun i => match gainOf T i with
    | some g => if binary then 1 else g
    | none => 0)

def dcg (k : Option Nat) (disc : Nat → Q) (binary : Bool) (L : List Nat) (T : List (Nat × Q)) : Option Q :=
  some (arrayDcg disc (gainsOf binary k L T))

/-- insertion sort, descending -/
def insDesc (x : Q) : List Q → List Q
  | [] => [x]
  | y :: ys => if y < x then x :: y :: ys else y :: insDesc x ys
def sortDesc : List Q → List Q
  | [] => []
  | x :: xs => insDesc x (sortDesc xs)

def ndcg (k : Option Nat) (disc : Nat → Q) (binary : Bool) (L : List Nat) (T : List (Nat × Q)) : Option Q :=
  let realized := arrayDcg disc (gainsOf binary k L T)
  let ideal :=
    if binary then fixedDcg disc (nrelCap k T)
    else
      let gs := sortDesc (T.map (·.2))
      arrayDcg disc (match k with | some k => gs.take k | none => gs)
  qdiv realized ideal

/-- `MeanPopRank`: mean of the items' popularity quantiles (0 for unseen items) -/
def meanPopRank (k : Option Nat) (rankOf : Nat → Q) (L : List Nat) : Option Q :=
  let l := truncate k L
  if l.isEmpty then none else some (((l.map rankOf).foldl (· + ·) 0) / (l.length : Q))

/-- the popularity quantile `MeanPopRank` assigns: average rank among the items with a positive count, divided by
    their number; 0 for items with no interactions and for items the training data does not know -/
def popQuantile (counts : List (Nat × Nat)) (i : Nat) : Q :=
  match counts.find? (fun p => p.1 == i) with
  | none => 0
  | some (_, c) =>
    if c = 0 then 0
    else
      let pos := counts.filter (fun p => 0 < p.2)
      let less := (pos.filter (fun p => p.2 < c)).length
      let eq := (pos.filter (fun p => p.2 == c)).length
      ((less : Q) + ((eq : Q) + 1) / 2) / (pos.length : Q)

end LK.Metric
