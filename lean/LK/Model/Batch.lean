import LK.Prelude.Basic
/-!
# C12 — ordered collection of parallel results; C11 — chunked fan-out (core Lean only)

`Executor.map` contract (assumed): workers complete submitted tasks in an arbitrary order; the caller
receives result *i* only after results *0..i-1*, i.e. results are delivered by submission index.
We model completion as an arbitrary list of (index, result) events and the collector as slot filling.
-/
namespace LK.Batch

inductive Err | task (i : Nat) | missing deriving DecidableEq, Repr

/-- store every completed result in its submission slot -/
def fill {β} (n : Nat) (events : List (Nat × β)) : List (Option β) :=
  (List.range n).map (fun i => (events.find? (fun e => e.1 == i)).map (·.2))

/-- deliver in submission order; the first failed or missing slot surfaces as an error -/
def deliver {β} : List (Option (Except Nat β)) → Nat → Except Err (List β)
  | [], _ => .ok []
  | none :: _, _ => .error .missing
  | some (.error _) :: _, i => .error (.task i)
  | some (.ok b) :: rest, i =>
    match deliver rest (i + 1) with
    | .ok bs => .ok (b :: bs)
    | .error e => .error e

/-- `BatchPipelineRunner.run`: attach each result to its key, in input order -/
def batch {κ α β} (tasks : List (κ × α)) (f : α → Except Nat β) (order : List Nat) : Except Err (List (κ × β)) :=
  let events := order.filterMap (fun i => (tasks[i]?).map (fun t => (i, f t.2)))
  match deliver (fill tasks.length events) 0 with
  | .ok bs => .ok (List.zipWith (fun t b => (t.1, b)) tasks bs)
  | .error e => .error e

/-- the sequential reference: one single-query operation per key, in turn -/
def sequential {κ α β} (tasks : List (κ × α)) (f : α → Except Nat β) : Except Err (List (κ × β)) :=
  match deliver (tasks.map (fun t => some (f t.2))) 0 with
  | .ok bs => .ok (List.zipWith (fun t b => (t.1, b)) tasks bs)
  | .error e => .error e

/-! ### chunked fan-out (ALS half-steps, similarity blocks) -/

/-- `for start in range(0, n, c)`: process rows chunk by chunk and concatenate in chunk order -/
def fanout {β} (f : Nat → β) (n c : Nat) : Nat → Nat → List β
  | 0, _ => []
  | fuel + 1, start =>
    if start < n then
      (List.range' start (min c (n - start))).map f ++ fanout f n c fuel (start + c)
    else []

end LK.Batch
