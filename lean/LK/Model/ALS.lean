/-!
# C10 — the per-row linear systems of the ALS half-steps (core Lean only, exact rationals)

Vectors are lists of rationals; the other side's embeddings for the row's observed columns are the
rows of `M`.  Explicit: `A = MᵀM + λ·n·I`, `b = Mᵀ r`.  Implicit (Hu–Koren–Volinsky):
`A = YᵀY + λI + Mᵀ diag(c − 1) M`, `b = Mᵀ c` with `c = 1 + weight·value` on the observed columns.
-/
namespace LK.ALS

abbrev Q := Rat
abbrev Vec := List Q
abbrev Mat := List Vec

def sumQ (xs : List Q) : Q := xs.foldr (· + ·) 0
def dot (a b : Vec) : Q := sumQ (List.zipWith (· * ·) a b)
def matVec (A : Mat) (x : Vec) : Vec := A.map (fun row => dot row x)
def vadd (a b : Vec) : Vec := List.zipWith (· + ·) a b
def vsub (a b : Vec) : Vec := List.zipWith (· - ·) a b
def smul (c : Q) (a : Vec) : Vec := a.map (c * ·)
def zeros (n : Nat) : Vec := List.replicate n 0
def outer (a b : Vec) : Mat := a.map (fun x => b.map (x * ·))
def madd (A B : Mat) : Mat := List.zipWith vadd A B
def ident (n : Nat) : Mat := (List.range n).map (fun i => (List.range n).map (fun j => if i = j then 1 else 0))
def mscale (c : Q) (A : Mat) : Mat := A.map (smul c)
def mzero (n : Nat) : Mat := List.replicate n (zeros n)

/-- `Σ_j w_j · m_j m_jᵀ` -/
def gram (nf : Nat) (M : Mat) (w : Vec) : Mat :=
  (List.zip M w).foldl (fun acc mw => madd acc (mscale mw.2 (outer mw.1 mw.1))) (mzero nf)

/-- `Σ_j w_j · m_j` -/
def wsumRows (nf : Nat) (M : Mat) (w : Vec) : Vec :=
  (List.zip M w).foldl (fun acc mw => vadd acc (smul mw.2 mw.1)) (zeros nf)

/-- explicit half-step system for one row with observed columns' embeddings `M` and values `r` -/
def explicitSystem (nf : Nat) (reg : Q) (M : Mat) (r : Vec) : Mat × Vec :=
  (madd (gram nf M (M.map (fun _ => 1))) (mscale (reg * (M.length : Q)) (ident nf)), wsumRows nf M r)

/-- implicit half-step system; `Y` = all embeddings of the other side, `M` = those of the observed columns,
    `vals` = weight · value on the observed columns -/
def implicitSystem (nf : Nat) (reg : Q) (Y M : Mat) (vals : Vec) : Mat × Vec :=
  (madd (madd (gram nf Y (Y.map (fun _ => 1))) (mscale reg (ident nf))) (gram nf M vals),
   wsumRows nf M (vals.map (· + 1)))

/-- residual `A x − b` -/
def residual (sys : Mat × Vec) (x : Vec) : Vec := vsub (matVec sys.1 x) sys.2

end LK.ALS
