import LK.Model.KNN
import LK.Model.ArrayOps
import LK.Model.ArrowOps
/-!
# C09 — the torch operations `_sim_row`, `_sim_block` and `_sim_blocks` (knn/item.py) are written in (core Lean only)

`translate/py2lean_sim.py` turns the statements of `_sim_row` into these combinators one by one (`LK.Gen.SimC09.simRowT`);
`LK/Proofs/SimC09.lean` proves the result equal to the model's `simRowTrunc`, about which the C09 theorems are stated.
Tensors are lists of exact rationals; index tensors are lists of naturals.
-/
namespace LK.TorchOps
open LK LK.KNN

/-- `torch.mv(matrix, row)` -/
def mv (m : List (List Q)) (row : List Q) : List Q := m.map (fun v => dot v row)
/-- `x[i] = c` -/
def setAt (xs : List Q) (i : Nat) (c : Q) : List Q := xs.set i c
/-- `x >= c` -/
def geScalar (xs : List Q) (c : Q) : List Bool := xs.map (fun x => decide (c ≤ x))
/-- positions paired with values -/
def enum {α} (xs : List α) : List (Nat × α) := (List.range xs.length).zip xs
/-- `torch.nonzero(mask)[:, 0]` -/
def nonzero (mask : List Bool) : List Nat := LK.ArrayOps.indexMask (List.range mask.length) mask
/-- `torch.topk(vals, k, sorted=False)` — the positions of the `k` largest values (among exactly tied values torch's choice is
    unspecified; the model takes the earliest, and the property allows any) -/
def topkIdx (vals : List Q) (k : Nat) : List Nat :=
  ((sortBy (fun (a b : Nat × Q) => decide (b.2 ≤ a.2)) (enum vals)).take k).map (·.1)
/-- `x[idx]` with an index tensor -/
def takeIdx {α} (xs : List α) (d : α) (idx : List Nat) : List α := idx.map (fun j => xs.getD j d)
/-- `torch.argsort(x)` (ascending) -/
def argsort (xs : List Nat) : List Nat := (sortBy (fun (a b : Nat × Nat) => decide (a.2 ≤ b.2)) (enum xs)).map (·.1)
/-- `torch.clamp(x, lo, hi)` -/
def clamp (xs : List Q) (lo hi : Q) : List Q := xs.map (fun x => if x < lo then lo else if hi < x then hi else x)
/-- `range(start, stop, step)` with a positive step, counted out with `fuel` (`stop` elements always suffice) -/
def pyRangeStep (stop step : Nat) : Nat → Nat → List Nat
  | 0, _ => []
  | fuel + 1, start => if start < stop then start :: pyRangeStep stop step fuel (start + step) else []
/-- `range(start, stop)` -/
def pyRange (start stop : Nat) : List Nat := List.range' start (stop - start)
/-- `torch.cumsum(x, 0)` -/
def cumsum (xs : List Nat) : List Nat := LK.ArrowOps.cumsum xs

/-- a floating-point division whose `0/0` (`NaN`) is "no score" -/
def divQ (num den : Q) : Option Q := if den = 0 then none else some (num / den)

end LK.TorchOps
