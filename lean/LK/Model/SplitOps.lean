import LK.Model.Split
/-!
# C05 — the NumPy operations the record splitters are written in (core Lean only)
-/
namespace LK.SplitOps

/-- `mask[idx] = True` -/
def setTrueAt (mask : List Bool) (idx : List Nat) : List Bool := idx.foldl (fun acc r => acc.set r true) mask
/-- `xs[start:end]` for non-negative bounds -/
def pySlice {α} (xs : List α) (start stop : Nat) : List α := (xs.drop start).take (stop - start)

end LK.SplitOps
