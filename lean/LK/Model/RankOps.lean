import LK.Model.RankMetrics
/-!
# C06 — the NumPy operations the list-wise ranking metrics are written in (core Lean only)
-/
namespace LK.RankOps
open LK.Metric

/-- `np.nonzero(b)[0]`: the positions of the true entries -/
def trueIdxFrom : Nat → List Bool → List Nat
  | _, [] => []
  | s, true :: bs => s :: trueIdxFrom (s + 1) bs
  | s, false :: bs => trueIdxFrom (s + 1) bs
def trueIdx (bs : List Bool) : List Nat := trueIdxFrom 0 bs
/-- `np.power(a, np.arange(n))` -/
def powers (a : Q) (n : Nat) : List Q := (List.range' 0 n).map (powQ a)
/-- `x[mask]` -/
def indexMask {α} : List α → List Bool → List α
  | x :: xs, true :: m => x :: indexMask xs m
  | _ :: xs, false :: m => indexMask xs m
  | _, _ => []
/-- `np.sum(a)` -/
def sumQs (xs : List Q) : Q := xs.foldr (· + ·) 0

end LK.RankOps
