import LK.Model.RankMetrics
/-!
# C06 — the NumPy operations the list-wise ranking metrics are written in (core Lean only)
-/
namespace LK.RankOps
open LK.Metric

/-- `np.nonzero(b)[0]`: the positions of the true entries -/
def trueIdxFrom : Nat → List Bool → List Nat
  | _, [] => []
  | s, true :: bs => s :: trueIdxFrom (s + 1) bs
  | s, false :: bs => trueIdxFrom (s + 1) bs
def trueIdx (bs : List Bool) : List Nat := trueIdxFrom 0 bs
/-- `np.power(a, np.arange(n))` -/
def powers (a : Q) (n : Nat) : List Q := (List.range' 0 n).map (powQ a)
/-- `x[mask]` -/
def indexMask {α} : List α → List Bool → List α
  | x :: xs, true :: m => x :: indexMask xs m
  | _ :: xs, false :: m => indexMask xs m
  | _, _ => []
/-- `np.sum(a)` -/
def sumQs (xs : List Q) : Q := xs.foldr (· + ·) 0

/-! a pandas Series indexed by item: a list of (item, value) pairs -/
/-- `s.reindex(items, fill_value=0).values` -/
def reindex0 (S : List (Nat × Q)) (items : List Nat) : List Q := items.map (fun i => (gainOf S i).getD 0)
/-- insertion of a pair into a list sorted by decreasing value (stable) -/
def insPairDesc (x : Nat × Q) : List (Nat × Q) → List (Nat × Q)
  | [] => [x]
  | y :: ys => if y.2 < x.2 then x :: y :: ys else y :: insPairDesc x ys
/-- `s.sort_values(ascending=False)` -/
def seriesSortDesc : List (Nat × Q) → List (Nat × Q)
  | [] => []
  | x :: xs => insPairDesc x (seriesSortDesc xs)
/-- `s.nlargest(n=k)` -/
def seriesNLargest (k : Nat) (S : List (Nat × Q)) : List (Nat × Q) := (seriesSortDesc S).take k
/-- `s.values` -/
def seriesValues (S : List (Nat × Q)) : List Q := S.map (·.2)
/-- `np.zeros_like(x)` -/
def zerosLike {α} (xs : List α) : List Q := xs.map (fun _ => 0)
/-- `a[mask] = c` -/
def maskAssign (xs : List Q) (m : List Bool) (c : Q) : List Q := List.zipWith (fun x b => if b then c else x) xs m
/-- `s.mean()` -/
def meanQ (xs : List Q) : Q := sumQs xs / (xs.length : Q)

end LK.RankOps
