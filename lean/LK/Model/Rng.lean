/-!
# C11 — which generator each stochastic step consults (core Lean only)

`random_generator(seed)` gives a fresh generator for a seed and the process-global generator for `None`.
Each seeded operation is modelled by the list of generators its internal steps draw from, following the
code's plumbing (including the fallback paths).  An operation's output is a function of the draws it
makes, so "every consulted generator is the fresh one of the supplied seed" is exactly independence from
the global generator and from earlier calls.
-/
namespace LK.Rng

inductive Gen | fresh (seed : Nat) | global deriving DecidableEq, Repr
inductive Variant | asIs | repaired deriving DecidableEq, Repr

def resolve : Option Nat → Gen
  | some s => .fresh s
  | none => .global

/-- `crossfold_records(data, k, rng=…)`: one shuffle -/
def crossfoldRecords (rng : Option Nat) : List Gen := [resolve rng]

/-- `sample_records(…, rng=…)`: a choice / a shuffle / several choices, or the cross-fold fallback (forwards `rng`) -/
def sampleRecords (rng : Option Nat) (repeats : Option Nat) (disjoint fallback : Bool) : List Gen :=
  match repeats with
  | none => [resolve rng]
  | some r =>
    if disjoint ∧ fallback then crossfoldRecords rng
    else if disjoint then [resolve rng] else List.replicate r (resolve rng)

/-- `crossfold_users(data, k, method, rng=…)`: one shuffle (holdout methods carry their own generator) -/
def crossfoldUsers (rng : Option Nat) : List Gen := [resolve rng]

/-- `sample_users(…, rng=…)`: as it stands the cross-fold fallback is called *without* `rng` -/
def sampleUsers (v : Variant) (rng : Option Nat) (repeats : Option Nat) (disjoint fallback : Bool) : List Gen :=
  match repeats with
  | none => [resolve rng]
  | some r =>
    if disjoint ∧ fallback then (match v with | .asIs => crossfoldUsers none | .repaired => crossfoldUsers rng)
    else if disjoint then [resolve rng] else List.replicate r (resolve rng)

/-- a ranker with a user-derived seed: the generator of a request depends on (base seed, user) only -/
def derived (base user : Nat) : Gen := .fresh (base * 1000003 + user)     -- stands for `make_seed(base, user)`

def serveRequests (base : Nat) (users : List Nat) : List (Nat × Gen) := users.map (fun u => (u, derived base u))

end LK.Rng
