import LK.Model.TopN
/-!
# C03 — the standard top-N / prediction pipelines as one function (core Lean only)

`history-lookup → candidate-selector | supplied items → scorer → ranker`, plus the item-level fallback
merger of the rating-prediction pipelines.  Items and users are numbers; the scorer is a function
from (query, item) to an optional score.
-/
namespace LK.Rec

abbrev Q := Rat

structure Query where
  user : Option Nat
  items : Option (List Nat)           -- the user's history, if the query carries one
deriving DecidableEq, Repr

inductive QueryIn | none | id (u : Nat) | query (q : Query) | history (items : List Nat)

/-- `RecQuery.create` -/
def createQuery : QueryIn → Query
  | .none => { user := Option.none, items := Option.none }
  | .id u => { user := some u, items := Option.none }
  | .query q => q
  | .history h => { user := Option.none, items := some h }

/-- `UserTrainingHistoryLookup.__call__`: fill the history from the training matrix only when the query has none -/
def historyLookup (trainRow : Nat → Option (List Nat)) (q : Query) : Query :=
  match q.user with
  | Option.none => q
  | some u => match q.items with
    | some _ => q
    | Option.none => { q with items := trainRow u }

/-- `use_first_of('candidates', items, UnratedTrainingItemsCandidateSelector)` -/
def candidates (V : List Nat) (q : Query) (supplied : Option (List Nat)) : List Nat :=
  match supplied with
  | some s => s
  | Option.none => match q.items with
    | Option.none => V
    | some h => V.filter (fun i => !h.contains i)

/-- the whole `recommender` node: candidate items with their scores, best first, at most `n` -/
def recommend (V : List Nat) (trainRow : Nat → Option (List Nat)) (score : Query → Nat → Option Q)
    (qin : QueryIn) (supplied : Option (List Nat)) (nCfg nRun : Option Int) : List (Nat × Option Q) :=
  let q := historyLookup trainRow (createQuery qin)
  let c := candidates V q supplied
  let scores := c.map (score q)
  (LK.TopN.rank scores nCfg nRun).filterMap (fun p => (c[p]?).map (fun i => (i, score q i)))

/-- `FallbackScorer`: the primary score where there is one, the fallback's elsewhere -/
def fallbackMerge (primary fallback : Nat → Option Q) (items : List Nat) : List (Nat × Option Q) :=
  items.map (fun i => (i, match primary i with | some s => some s | Option.none => fallback i))

end LK.Rec
