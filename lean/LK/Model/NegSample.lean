/-!
# C20 — `MatrixRelationshipSet.sample_negatives` (core Lean only)

Random draws are an explicit input: each `rng.choice(..., size=k)` consumes one list of `k`
numbers from `draws`.  `decode` turns a raw draw into a column number: identity for uniform
weighting, lookup in the stored column array for popularity weighting.
-/
namespace LK.Neg

structure Mat where
  nCols : Nat
  observed : List (Nat × Nat)      -- (row, col) pairs present in the matrix
  storedCols : List Nat            -- the column array of the sorted table (popularity draws index it)

inductive Weighting | uniform | popular deriving DecidableEq, Repr

def isObs (m : Mat) (r c : Nat) : Bool := m.observed.contains (r, c)

def decode (m : Mat) (w : Weighting) (x : Nat) : Nat :=
  match w with
  | .uniform => x
  | .popular => m.storedCols.getD x 0

/-- `columns[non_neg] = new` : walk the mask, consuming replacements in order -/
def scatter : List Nat → List Bool → List Nat → List Nat
  | c :: cs, false :: bs, new => c :: scatter cs bs new
  | _ :: cs, true :: bs, n :: new => n :: scatter cs bs new
  | c :: cs, true :: bs, [] => c :: scatter cs bs []
  | cs, [], _ => cs
  | [], _, _ => []

def selectRows : List Nat → List Bool → List Nat
  | r :: rs, true :: bs => r :: selectRows rs bs
  | _ :: rs, false :: bs => selectRows rs bs
  | _, _ => []

structure Out where
  cols : List Nat
  warned : Bool
  rest : List (List Nat)
deriving DecidableEq, Repr

mutual
/-- one `sample_negatives(rows, verify=True, max_attempts=a)` call in 1-D mode -/
def sampleVerified (m : Mat) (w : Weighting) : Nat → List Nat → List (List Nat) → Option Out
  | _, _, [] => none
  | a, rows, d :: ds =>
    if d.length ≠ rows.length then none
    else resample m w a rows (d.map (decode m w)) ds

/-- `_check_negatives_and_resample` -/
def resample (m : Mat) (w : Weighting) : Nat → List Nat → List Nat → List (List Nat) → Option Out
  | 0, rows, cols, ds =>
    let bad := List.zipWith (isObs m) rows cols
    some { cols := cols, warned := bad.any id, rest := ds }
  | a + 1, rows, cols, ds =>
    let bad := List.zipWith (isObs m) rows cols
    if bad.any id then
      match sampleVerified m w a (selectRows rows bad) ds with
      | none => none
      | some o => some { cols := scatter cols bad o.cols, warned := o.warned, rest := o.rest }
    else some { cols := cols, warned := false, rest := ds }
end

/-- the combined key used for the membership index: `(row << 32) + col` -/
def combine (r c : Nat) : Nat := r * 2 ^ 32 + c

end LK.Neg
