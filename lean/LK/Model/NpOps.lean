import LK.Model.Bias
/-!
# C08 — the NumPy operations `BiasModel.learn` is written in (core Lean only)

`translate/py2lean_np.py` turns the statements of `BiasModel.learn` into these combinators one by one (`LK.Gen.NpC08.biasLearn`);
`LK/Proofs/NpC08.lean` proves the result equal to the accumulation model `itemBiasesImpl` / `userBiasesImpl`, which
`LK/Proofs/Bias*.lean` prove equal to the documented damped means.
-/
namespace LK.NpOps
open LK.Bias

abbrev Q := Rat

/-- `float(np.mean(a))` -/
def npMean (xs : List Q) : Q := sumQ xs / (xs.length : Q)
/-- `a - s` with a scalar -/
def npSubScalar (xs : List Q) (c : Q) : List Q := xs.map (fun x => x - c)
/-- `np.full(n, c)` -/
def npFull (n : Nat) (c : Q) : List Q := List.replicate n c
/-- `np.zeros(n)` -/
def npZeros (n : Nat) : List Q := List.replicate n 0
/-- `np.add.at(arr, idx, vals)`: unbuffered, so repeated indices accumulate -/
def npAddAt (arr : List Q) (idx : List Nat) (vals : List Q) : List Q :=
  (List.zip idx vals).foldl (fun acc iv => acc.set iv.1 (acc.getD iv.1 0 + iv.2)) arr
/-- `np.add.at(arr, idx, c)` with a scalar -/
def npAddAtScalar (arr : List Q) (idx : List Nat) (c : Q) : List Q := npAddAt arr idx (idx.map (fun _ => c))
/-- `np.divide(a, b, out=out, where=b > 0)`: positions where the condition fails keep what `out` held -/
def npDivideWhere (a b out : List Q) : List Q :=
  List.zipWith (fun (ab : Q × Q) o => if ab.2 > 0 then ab.1 / ab.2 else o) (List.zip a b) out
/-- `arr[idx]` -/
def npGather (arr : List Q) (idx : List Nat) : List Q := idx.map (fun i => arr.getD i 0)
/-- `a - b`, element by element -/
def npSub (a b : List Q) : List Q := List.zipWith (fun x y => x - y) a b

/-- `np.arange(1, n + 1)` -/
def npArange1 (n : Nat) : List Nat := List.range' 1 n
/-- an elementwise function of an integer array -/
def npApply (f : Nat → Q) (xs : List Nat) : List Q := xs.map f
/-- `np.maximum(a, c)` -/
def npMaximumScalar (xs : List Q) (c : Q) : List Q := xs.map (fun x => max x c)
/-- `np.reciprocal(a)` -/
def npReciprocal (xs : List Q) : List Q := xs.map (fun x => 1 / x)
/-- `np.dot(a, b)` of two vectors -/
def npDot (a b : List Q) : Q := sumQ (List.zipWith (fun x y => x * y) a b)
/-- `np.sum(a)` -/
def npSum (xs : List Q) : Q := sumQ xs

/-- `np.bincount(idx, minlength=n)` for indices below `n`: how often each of `0 … n−1` occurs -/
def npBincount (idx : List Nat) (n : Nat) : List Q := (List.range n).map (fun j => ((idx.filter (fun i => i == j)).length : Q))
/-- `a + b`, element by element -/
def npAdd (a b : List Q) : List Q := List.zipWith (fun x y => x + y) a b
/-- `a + s` / `a += s` with a scalar -/
def npAddScalar (xs : List Q) (c : Q) : List Q := xs.map (fun x => x + c)
/-- `table[idx]` with integer indices: a negative index counts from the end of the table, as in NumPy -/
def npGatherInt (tbl : List Q) (idx : List Int) : List Q :=
  idx.map (fun i => if 0 ≤ i then tbl.getD i.toNat 0 else tbl.getD (tbl.length - i.natAbs) 0)
/-- `s[mask] += v` -/
def npAddMask : List Q → List Bool → List Q → List Q
  | [], _, _ => []
  | s :: ss, [], _ => s :: ss
  | s :: ss, false :: m, vs => s :: npAddMask ss m vs
  | s :: ss, true :: m, [] => s :: npAddMask ss m []
  | s :: ss, true :: m, v :: vs => (s + v) :: npAddMask ss m vs
/-- `s[mask] -= v` -/
def npSubMask : List Q → List Bool → List Q → List Q
  | [], _, _ => []
  | s :: ss, [], _ => s :: ss
  | s :: ss, false :: m, vs => s :: npSubMask ss m vs
  | s :: ss, true :: m, [] => s :: npSubMask ss m []
  | s :: ss, true :: m, v :: vs => (s - v) :: npSubMask ss m vs

/-- `np.min(a)` / `np.max(a)` (0 for an empty array, which the callers exclude) -/
def npMin : List Q → Q
  | [] => 0
  | x :: xs => xs.foldl (fun a b => if b < a then b else a) x
def npMax : List Q → Q
  | [] => 0
  | x :: xs => xs.foldl (fun a b => if a < b then b else a) x
/-- `a / s` / `a /= s` with a scalar -/
def npDivScalar (xs : List Q) (c : Q) : List Q := xs.map (fun x => x / c)
/-- `a * c` with a scalar -/
def npMulScalar (xs : List Q) (c : Q) : List Q := xs.map (fun x => x * c)
/-- `a / b`, element by element (`a /= b`) -/
def npDiv (a b : List Q) : List Q := List.zipWith (fun x y => x / y) a b
/-- `np.ones_like(a)` -/
def npOnesLike (xs : List Q) : List Q := xs.map (fun _ => 1)

end LK.NpOps
