/-!
# C03 / C19 — `lenskit.stats.argtopn` and `TopNRanker` (core Lean only)

`argtopn(xs, n)`: positions of the non-missing scores, best first, at most `n` of them
(`n < 0` ⇒ all).  NaN is modelled as `none`.  Tie order is whatever the sort yields
(the implementation's tie order is unspecified; specs are stated up to ties).
-/
namespace LK.TopN

abbrev Score := Option Rat

def geB (scores : List Score) (a b : Nat) : Bool :=
  match scores.getD a none, scores.getD b none with
  | some x, some y => decide (y ≤ x)
  | some _, none => true
  | none, some _ => false
  | none, none => true

def validPositions (scores : List Score) : List Nat :=
  (List.range scores.length).filter (fun p => (scores.getD p none).isSome)

def argtopn (scores : List Score) (n : Int) : List Nat :=
  if n = 0 then []
  else
    let sorted := (validPositions scores).mergeSort (geB scores)
    if n < 0 then sorted else sorted.take n.toNat

/-- `TopNRanker.__call__`: run-time `n` wins; otherwise the configured one; `None`/0 ⇒ -1 -/
def effectiveN (cfg run : Option Int) : Int :=
  match run with
  | some n => n
  | none => match cfg with
    | some c => if c = 0 then -1 else c
    | none => -1

def rank (scores : List Score) (cfg run : Option Int) : List Nat := argtopn scores (effectiveN cfg run)

end LK.TopN
