import LK.Model.Scatter
/-!
# C04 — the NumPy / torch array operations a scorer's gather-mask-scatter code uses (core Lean only)

`translate/py2lean_scatter.py` turns the statements of a scorer's `__call__` into these combinators one by one, so the generated
definition follows the code's own steps: item numbers with −1 for unknown items, the `>= 0` mask, boolean-mask indexing, a gather
from the model's table (a negative index would *wrap around* — `wrap` stands for whatever the end of the table holds), a NaN-filled
result array and the masked assignment.
-/
namespace LK.ArrayOps
open LK.Scatter

/-- `items.numbers(vocabulary=…, missing="negative")` -/
def numbersNeg {φ} (num : Nat → Option Nat) (L : List (Item φ)) : List Int :=
  L.map (fun it => match num it.id with | some k => (k : Int) | none => -1)

/-- `x >= 0` -/
def geZero (xs : List Int) : List Bool := xs.map (fun x => decide (0 ≤ x))

/-- `x[mask]` -/
def indexMask {α} : List α → List Bool → List α
  | x :: xs, true :: m => x :: indexMask xs m
  | _ :: xs, false :: m => indexMask xs m
  | _, _ => []

/-- `table[idx]` (row-wise products applied to the gathered rows are part of `tbl`); a negative index reads `wrap` -/
def gather (tbl : Nat → Option Rat) (wrap : Option Rat) (idx : List Int) : List (Option Rat) :=
  idx.map (fun i => if 0 ≤ i then tbl i.toNat else wrap)

/-- `np.full(n, nan)` -/
def fullNan (n : Nat) : List (Option Rat) := List.replicate n none

/-- `s[mask] = vals` -/
def setMask : List (Option Rat) → List Bool → List (Option Rat) → List (Option Rat)
  | [], _, _ => []
  | s :: ss, [], _ => s :: ss
  | s :: ss, false :: m, vs => s :: setMask ss m vs
  | s :: ss, true :: m, [] => s :: setMask ss m []
  | _ :: ss, true :: m, v :: vs => v :: setMask ss m vs

/-- `ItemList(items, scores=s)` -/
def withScores {φ} (L : List (Item φ)) (s : List (Option Rat)) : List (Item φ) :=
  List.zipWith (fun it sc => { it with score := sc }) L s

end LK.ArrayOps
