import LK.Model.PredictMetrics
/-!
# C07 — pandas series with missing values (core Lean only)
A series is a list of optional rationals (`none` = NaN).  Arithmetic propagates missing values; `sum`, `count` and `mean` skip them, as
pandas does.
-/
namespace LK.SeriesOps
open LK.Pred

abbrev Q := Rat

/-- `a - b` -/
def serSub (a b : List (Option Q)) : List (Option Q) :=
  List.zipWith (fun x y => match x, y with | some p, some t => some (p - t) | _, _ => none) a b
/-- `a * b` -/
def serMul (a b : List (Option Q)) : List (Option Q) :=
  List.zipWith (fun x y => match x, y with | some p, some t => some (p * t) | _, _ => none) a b
/-- `np.abs(a)` -/
def serAbs (a : List (Option Q)) : List (Option Q) := a.map (Option.map absQ)
/-- `np.sum(a)` on a series: missing values are skipped -/
def serSum (a : List (Option Q)) : Q := sumQ (a.filterMap id)
/-- `a.count()`: the number of values that are not missing -/
def serCount (a : List (Option Q)) : Nat := (a.filterMap id).length
/-- `np.mean(a)` on a series: the mean of the values that are not missing, NaN when there is none -/
def serMean (a : List (Option Q)) : Option Q :=
  if serCount a > 0 then some (serSum a / (serCount a : Q)) else none
/-- the sum of a plain list of numbers (an accumulation loop) -/
def serSumQ (xs : List Q) : Q := sumQ xs
/-- the element Python's loop variables stay bound to after a loop over a non-empty list -/
def lastOf (xs : List (Q × Nat)) : Q × Nat := xs.getLast?.getD (0, 0)

end LK.SeriesOps
