import LK.Model.NegSample
/-!
# C20 — the pair index of the interaction matrix (core Lean only)
`rc_index.get_indexer_for(nums)`: the position of a (row, column) pair among the stored pairs, −1 when it is not stored.
-/
namespace LK.Neg

def pairLoc (m : Mat) (r c : Nat) : Int :=
  let k := m.observed.idxOf (r, c)
  if k < m.observed.length then (k : Int) else -1

end LK.Neg
