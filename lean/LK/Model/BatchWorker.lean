/-!
# C12 — what a batch worker asks of the pipeline (core Lean only)

An invocation names the component to run, the output it is filed under, whether the key's test items are passed as `items`, and extra
pipeline inputs (here: integers or `None`, e.g. `n`).  `workerCalls` is the sequence of `pipeline.run_all` calls the worker makes for
one key: one per invocation, each with exactly its own inputs.
-/
namespace LK.BatchWorker

inductive Arg | user | testItems | int (k : Int) | none
deriving DecidableEq, Repr

structure Inv where
  comp : String
  output : String
  testItems : Bool
  extra : List (String × Arg)
deriving DecidableEq, Repr

structure Call where
  nodes : List String
  inputs : List (String × Arg)      -- sorted by name
deriving DecidableEq, Repr

def insertArg (p : String × Arg) : List (String × Arg) → List (String × Arg)
  | [] => [p]
  | q :: qs => if p.1 < q.1 then p :: q :: qs else if p.1 = q.1 then p :: qs else q :: insertArg p qs

/-- the inputs of one invocation: the user of the key (if it has one), the test items (if the invocation takes them), then the
    invocation's own extra inputs (which override on a name clash, as `dict.update` does) -/
def callOf (hasUser : Bool) (inv : Inv) : Call :=
  let base := (if hasUser then [("query", Arg.user)] else []) ++ (if inv.testItems then [("items", Arg.testItems)] else [])
  { nodes := [inv.comp], inputs := (base ++ inv.extra).foldl (fun acc p => insertArg p acc) [] }

def workerCalls (hasUser : Bool) (invs : List Inv) : List Call := invs.map (callOf hasUser)

/-- what the runner's `recommend(n=…)`, `predict()`, `score()` register -/
def recommendInv (n : Arg) : Inv := { comp := "recommender", output := "recommendations", testItems := false, extra := [("n", n)] }
def predictInv : Inv := { comp := "rating-predictor", output := "predictions", testItems := true, extra := [] }
def scoreInv : Inv := { comp := "scorer", output := "scores", testItems := true, extra := [] }

end LK.BatchWorker
