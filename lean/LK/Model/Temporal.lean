import LK.Model.Split
/-!
# C05 — temporal splitting with cut-off conversion (core Lean only)

`split_global_time(data, time, end)`: every cut-off (and `end`) arrives either as UNIX seconds or as a naive
date-time; the timestamp column is stored either as UNIX numbers or as naive (UTC) date-times.  All instants are
modelled as `Int` seconds on the UTC axis; `tz` is the process's zone offset (seconds east of UTC), which enters
through `datetime.fromtimestamp(x)` (naive **local** wall clock = `x + tz`) and `naive.timestamp()` (reads the naive
value as local: `x - tz`).

* as it stands: `_make_time` sends UNIX seconds through `fromtimestamp` (local); for a numeric column the result goes
  back through `.timestamp()` (local again — the two cancel); for a date-time column the local wall clock is compared
  with the naive UTC column — off by `tz`.  `end` is not converted at all: a representation mismatch raises `TypeError`.
* repaired: every cut-off *and* `end` is expressed in the column's representation; UNIX seconds never pass through the
  local zone.
-/
namespace LK.Split

inductive TRepr | unix | naive deriving DecidableEq, Repr

/-- the value compared with the column for a cut-off `x` given in form `given` against a column stored as `col` -/
def conformCutV (v : Variant) (tz : Int) (col given : TRepr) (x : Int) : Int :=
  match v, col, given with
  | _, .unix, .unix => x                    -- as-is: `fromtimestamp` then `.timestamp()` cancel; repaired: untouched
  | _, .naive, .naive => x
  | _, .unix, .naive => x - tz              -- a naive date-time against UNIX numbers is read as local time (both)
  | .asIs, .naive, .unix => x + tz          -- local wall clock compared with naive-UTC values
  | .repaired, .naive, .unix => x

/-- `end`: as it stands it is used raw, so a form different from the column's cannot be compared (`none` = TypeError) -/
def conformEndV (v : Variant) (tz : Int) (col given : TRepr) (x : Int) : Option Int :=
  match v with
  | .asIs => if col = given then some x else none
  | .repaired => some (conformCutV .repaired tz col given x)

/-- all the splits of one call: split `i` tests `[cutᵢ, cutᵢ₊₁)`; the last one `[cut, end)` -/
def temporalSplits {β} (recs : List (IRec β)) : List Int → Option Int → List (List (IRec β) × List (IRec β))
  | [], _ => []
  | [c], e => [temporalSplit recs c e]
  | c :: c' :: cs, e => temporalSplit recs c (some c') :: temporalSplits recs (c' :: cs) e

/-- the whole call; `none` = the call raises -/
def splitGlobalTime {β} (v : Variant) (tz : Int) (col : TRepr) (recs : List (IRec β))
    (cuts : List (TRepr × Int)) (endT : Option (TRepr × Int)) : Option (List (List (IRec β) × List (IRec β))) :=
  let cs := cuts.map (fun c => conformCutV v tz col c.1 c.2)
  match endT with
  | none => some (temporalSplits recs cs none)
  | some (g, x) =>
    match conformEndV v tz col g x with
    | none => none
    | some e => some (temporalSplits recs cs (some e))

end LK.Split
