import LK.Model.Pipeline
/-!
# C02 — `PipelineBuilder.validate`: cyclic wirings are rejected when the pipeline is built (core Lean only)

The builder sorts the wiring topologically and refuses a graph with a cycle.  Modelled as Kahn-style rounds over the `N` declared
nodes: a node is *marked* in a round when every node it is wired to was marked in an earlier round; the graph is accepted when all
`N` nodes are marked after `N` rounds.
-/
namespace LK.Pipe

def srcs (g : Graph) (n : Name) : List Name :=
  match g.node n with
  | .comp ps _ _ => ps.filterMap (·.src)
  | _ => []

def markRound (g : Graph) (N : Nat) (marked : List Name) : List Name :=
  (List.range N).filter (fun n => (srcs g n).all (fun m => marked.contains m))

def markIter (g : Graph) (N : Nat) : Nat → List Name
  | 0 => []
  | k + 1 => markRound g N (markIter g N k)

/-- `validate()` accepts the wiring -/
def validateOk (g : Graph) (N : Nat) : Bool := (List.range N).all (fun n => (markIter g N N).contains n)

end LK.Pipe
