import LK.Model.ItemList
/-!
# C15 — pickling an item list (`__getstate__` / `__setstate__`), core Lean only

The pickled state holds the ordering flag, the length, the identifiers (stored ones, or resolved through the vocabulary), the numbers
(stored ones, or resolved through the vocabulary) and the fields; the vocabulary itself and the ranks cache are not pickled.
`Variant.asIs`: numbers are resolved with `missing="error"`, so a list holding an identifier its vocabulary does not know cannot be
pickled (`KeyError`); `Variant.repaired`: unknown identifiers get the negative marker.
-/
namespace LK.IL
variable {ι : Type} [DecidableEq ι]

structure PState (ι φ : Type) where
  ordered : Bool
  len : Nat
  ids : Option (List ι)
  numbers : Option (List Int)
  fields : List (String × List φ)

def stateIds {φ} (il : IL ι φ) : Except Err (Option (List ι)) :=
  match il.ids with
  | some i => .ok (some i)
  | none =>
    match il.vocab with
    | some _ => (match idsOf il with | .ok i => .ok (some i) | .error e => .error e)
    | none => .ok none

def stateNums {φ} (vt : Variant) (il : IL ι φ) : Except Err (Option (List Int)) :=
  match il.nums with
  | some n => .ok (some n)
  | none =>
    match il.vocab with
    | some _ =>
      (match numbersOf il none (match vt with | .asIs => .error | .repaired => .negative) with
        | .ok n => .ok (some n) | .error e => .error e)
    | none => .ok none

def getstate {φ} (vt : Variant) (il : IL ι φ) : Except Err (PState ι φ) :=
  match stateIds il with
  | .error e => .error e
  | .ok i =>
    match stateNums vt il with
    | .error e => .error e
    | .ok n => .ok { ordered := il.ordered, len := il.len, ids := i, numbers := n, fields := il.fields }

def setstate {φ} (s : PState ι φ) : IL ι φ :=
  { len := s.len, ids := s.ids, nums := s.numbers, vocab := none, fields := s.fields, ordered := s.ordered, ranks := none }

def pickleRT {φ} (vt : Variant) (il : IL ι φ) : Except Err (IL ι φ) :=
  match getstate vt il with
  | .ok s => .ok (setstate s)
  | .error e => .error e

end LK.IL
