import LK.Prelude.Sort
/-!
# C08 — bias model and popularity scores (core Lean only, exact rationals)

Ratings are (user number, item number, value) triples.  `learn` mirrors `BiasModel.learn`:
global mean; per-item accumulation of globally centred ratings over (count + damping);
per-user accumulation of the item-centred residuals.  The `…Def` functions are the documented formulas.
-/
namespace LK.Bias

abbrev Q := Rat
structure Rating where
  u : Nat
  i : Nat
  r : Q

def sumQ (xs : List Q) : Q := xs.foldr (· + ·) 0

def globalMean (rs : List Rating) : Q := sumQ (rs.map (·.r)) / (rs.length : Q)

/-- `np.add.at(acc, idx, vals)` over a dense array of length `n` -/
def addAt (n : Nat) (init : Q) (idx : List Nat) (vals : List Q) : List Q :=
  (List.zip idx vals).foldl (fun acc iv => acc.set iv.1 (acc.getD iv.1 0 + iv.2)) (List.replicate n init)

/-- `np.divide(sums, counts, out=zeros, where=counts > 0)` -/
def safeDiv (s c : Q) : Q := if c > 0 then s / c else 0

def itemBiasesImpl (nItems : Nat) (damp : Q) (rs : List Rating) : List Q :=
  let g := globalMean rs
  let counts := addAt nItems damp (rs.map (·.i)) (rs.map (fun _ => 1))
  let sums := addAt nItems 0 (rs.map (·.i)) (rs.map (fun x => x.r - g))
  List.zipWith safeDiv sums counts

def userBiasesImpl (nUsers : Nat) (damp : Q) (ib : Nat → Q) (rs : List Rating) : List Q :=
  let g := globalMean rs
  let counts := addAt nUsers damp (rs.map (·.u)) (rs.map (fun _ => 1))
  let sums := addAt nUsers 0 (rs.map (·.u)) (rs.map (fun x => x.r - g - ib x.i))
  List.zipWith safeDiv sums counts

/-- the documented damped means -/
def itemBiasDef (damp : Q) (rs : List Rating) (i : Nat) : Q :=
  let g := globalMean rs
  let mine := rs.filter (fun x => x.i == i)
  safeDiv (sumQ (mine.map (fun x => x.r - g))) ((mine.length : Q) + damp)

def userBiasDef (damp : Q) (ib : Nat → Q) (rs : List Rating) (u : Nat) : Q :=
  let g := globalMean rs
  let mine := rs.filter (fun x => x.u == u)
  safeDiv (sumQ (mine.map (fun x => x.r - g - ib x.i))) ((mine.length : Q) + damp)

/-- user offset recomputed from a query history (item number if known, rating) -/
def historyBias (g : Q) (damp : Q) (ib : Nat → Q) (hist : List (Option Nat × Q)) : Q :=
  let offs := hist.map (fun h => h.2 - g - (match h.1 with | some i => ib i | none => 0))
  let den := (offs.length : Q) + damp
  if den = 0 then 0 else sumQ offs / den

/-- `compute_for_items`: global + item offset (0 if unknown) + user offset -/
def score (g : Q) (ib : Nat → Q) (userBias : Q) (item : Option Nat) : Q :=
  g + (match item with | some i => ib i | none => 0) + userBias

/-! ### popularity -/

def countOf (counts : List Nat) (i : Nat) : Nat := counts.getD i 0

/-- pandas `rank(method="average")`: 1 + #smaller + (#equal − 1)/2 -/
def avgRank (counts : List Nat) (i : Nat) : Q :=
  let c := countOf counts i
  let smaller := (counts.filter (fun x => decide (x < c))).length
  let equal := (counts.filter (fun x => x == c)).length
  (smaller : Q) + ((equal : Q) + 1) / 2

/-- cumulative share in ascending-count order; `order` is the position list produced by the sort -/
def quantile (counts : List Nat) (order : List Nat) (i : Nat) : Q :=
  let upto := order.take (order.idxOf i + 1)
  let total := (counts.foldr (· + ·) 0 : Nat)
  ((upto.map (countOf counts)).foldr (· + ·) 0 : Nat) / (total : Q)

end LK.Bias
