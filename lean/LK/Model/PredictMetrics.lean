/-!
# C07 — RMSE / MAE decomposition and `RunAnalysis` (core Lean only)

An aligned list is a list of (prediction?, truth?) pairs — the outer join of `align_scores`.
`sq = true` is the squared error (RMSE before the root), `false` the absolute error (MAE).
`Variant.asIs` keeps the two slips of the code as it stands: the per-list count is the length of the
aligned frame (including ignored pairs) and MAE's run-level guard looks at the *last* list only.
-/
namespace LK.Pred

abbrev Q := Rat
inductive Variant | asIs | repaired deriving DecidableEq, Repr
inductive Disp | error | ignore deriving DecidableEq, Repr
inductive Err | missingScores | missingTruth deriving DecidableEq, Repr

abbrev Pair := Option Q × Option Q

def absQ (x : Q) : Q := if x < 0 then -x else x
def errOf (sq : Bool) (p t : Q) : Q := if sq then (p - t) * (p - t) else absQ (p - t)

/-- `align_scores` dispositions over the outer-joined pairs -/
def align (ms mt : Disp) (pairs : List Pair) : Except Err (List Pair) :=
  if ms = .error ∧ pairs.any (fun pt => pt.1.isNone && pt.2.isSome) then .error .missingScores
  else if mt = .error ∧ pairs.any (fun pt => pt.1.isSome && pt.2.isNone) then .error .missingTruth
  else .ok pairs

def both (pairs : List Pair) : List (Q × Q) :=
  pairs.filterMap (fun pt => match pt with | (some p, some t) => some (p, t) | _ => none)

def sumQ (xs : List Q) : Q := xs.foldr (· + ·) 0

/-- `compute_list_data`: (Σ error, n) -/
def listData (v : Variant) (sq : Bool) (pairs : List Pair) : Q × Nat :=
  let b := both pairs
  (sumQ (b.map (fun pt => errOf sq pt.1 pt.2)),
   match v with | .asIs => pairs.length | .repaired => b.length)

/-- `extract_list_metric` / the definition: mean error over the usable pairs (the root is taken by the caller) -/
def extract (d : Q × Nat) : Option Q := if d.2 > 0 then some (d.1 / (d.2 : Q)) else none

/-- `measure_list` (pandas `mean` skips missing values) -/
def measureList (sq : Bool) (pairs : List Pair) : Option Q := extract (listData .repaired sq pairs)

/-- `global_aggregate` -/
def globalAgg (v : Variant) (mae : Bool) (vals : List (Q × Nat)) : Option Q :=
  let tot : Q := sumQ (vals.map (·.1))
  let n : Nat := (vals.map (·.2)).foldr (· + ·) 0
  match v, mae with
  | .asIs, true =>
    -- `if n > 0` refers to the loop variable: the last list's count
    match vals.getLast? with
    | some l => if l.2 > 0 then some (tot / (n : Q)) else none
    | none => none
  | _, _ => if n > 0 then some (tot / (n : Q)) else none

/-! ### run analysis -/

structure Metric where
  label : String
  default : Option Q
  f : List Pair → Option Q                      -- the metric's own per-list value

/-- per-list table: one row per output list; no value when the projected test list is missing -/
def measure {κ} [DecidableEq κ] (proj : κ → κ) (outputs : List (κ × List Pair)) (tests : List κ)
    (metrics : List Metric) : List (κ × List (Option Q)) :=
  outputs.map (fun kl =>
    (kl.1, if tests.contains (proj kl.1) then metrics.map (fun m => m.f kl.2) else metrics.map (fun _ => none)))

def fillRow (v : Variant) (fill : Bool) (metrics : List Metric) (row : List (Option Q)) : List (Option Q) :=
  match v with
  | .asIs => List.zipWith (fun m x => match x with | some y => some y | none => m.default) metrics row
  | .repaired =>
    if fill then List.zipWith (fun m x => match x with | some y => some y | none => m.default) metrics row else row

def mean (xs : List Q) : Option Q := if xs.isEmpty then none else some (sumQ xs / (xs.length : Q))

end LK.Pred
