import LK.Model.ItemList
/-!
# C15 — `ItemList.to_arrow` / `ItemList.from_arrow` (table form), core Lean only

`arrow_types` describes the columns: `item_id` when identifiers are stored or a vocabulary can supply them, `rank` when the list is
ordered, then one column per field — but **no column at all for an empty list** (`if len(self) == 0: return types`).  `from_arrow`
insists on an `item_id` (or `item_num`) column, takes a `rank` column as the ordering, and keeps the other columns as fields.
-/
namespace LK.IL
variable {ι : Type} [DecidableEq ι]

structure ATable (ι φ : Type) where
  nrows : Nat
  ids : Option (List ι)                 -- the `item_id` column
  ranks : Option (List Nat)             -- the `rank` column
  fields : List (String × List φ)

def toArrow {φ} (il : IL ι φ) : Except Err (ATable ι φ) :=
  if il.len = 0 then .ok { nrows := 0, ids := none, ranks := none, fields := [] }
  else
    let idsE : Except Err (Option (List ι)) :=
      match il.ids, il.vocab with
      | some i, _ => .ok (some i)
      | none, some _ => (match idsOf il with | .ok i => .ok (some i) | .error e => .error e)
      | none, none => .ok none
    match idsE with
    | .error e => .error e
    | .ok i => .ok { nrows := il.len, ids := i, ranks := if il.ordered then some (il.ranks.getD ((List.range il.len).map (· + 1))) else none,
                     fields := il.fields }

def fromArrow {φ} (t : ATable ι φ) : Except Err (IL ι φ) :=
  match t.ids with
  | none => .error .type                 -- "data table must have at least one of item_id, item_num columns"
  | some i =>
    .ok { len := i.length, ids := some i, nums := none, vocab := none, fields := t.fields, ordered := t.ranks.isSome, ranks := t.ranks }

def arrowRT {φ} (il : IL ι φ) : Except Err (IL ι φ) :=
  match toArrow il with
  | .ok t => fromArrow t
  | .error e => .error e

end LK.IL
