/-!
# C05 — models of the splitting primitives (core Lean only)

Mirrors `np.array_split`, `_make_pair` (boolean mask over the record frame), the fold loops of
`crossfold_records` / `crossfold_users`, and the holdout index selections.
Random choices (the shuffled index array, the sampled positions) are explicit inputs.
-/
namespace LK.Split

/-- `np.array_split(xs, k)`: the first `n % k` parts get `n / k + 1` elements, the rest `n / k`. -/
def splitSizes (n k : Nat) : List Nat :=
  (List.range k).map (fun i => n / k + (if i < n % k then 1 else 0))

def splitBy {α} : List Nat → List α → List (List α)
  | [], _ => []
  | s :: ss, xs => xs.take s :: splitBy ss (xs.drop s)

def arraySplit {α} (xs : List α) (k : Nat) : List (List α) := splitBy (splitSizes xs.length k) xs

/-- `_make_pair`: `mask[test_is] = True`; test = rows with mask, train = complement (or empty). -/
def maskOf (n : Nat) (testIdx : List Nat) : List Bool := (List.range n).map (fun i => decide (i ∈ testIdx))

def selectMask {α} : List α → List Bool → List α
  | x :: xs, true :: m => x :: selectMask xs m
  | _ :: xs, false :: m => selectMask xs m
  | _, _ => []

structure Pair (α : Type) where
  train : List α
  test : List α

def makePair {α} (recs : List α) (testIdx : List Nat) (testOnly : Bool) : Pair α :=
  let m := maskOf recs.length testIdx
  { test := selectMask recs m,
    train := if testOnly then [] else selectMask recs (m.map not) }

/-- `crossfold_records`: shuffle `arange n`, split into `k` index sets, one pair per set. -/
def crossfoldRecords {α} (recs : List α) (perm : List Nat) (k : Nat) (testOnly : Bool) : List (Pair α) :=
  (arraySplit perm k).map (fun ts => makePair recs ts testOnly)

end LK.Split

namespace LK.Split

/-- Python slice `xs[-n:]` (note: `xs[-0:]` is the whole list) -/
def lastSlice {α} (xs : List α) (n : Nat) : List α :=
  if n = 0 then xs else xs.drop (xs.length - n)

/-- repaired selection of the last `n` elements (`xs[len-n:]`) -/
def lastTake {α} (xs : List α) (n : Nat) : List α := xs.drop (xs.length - n)

/-- insertion of an index into an index list sorted by key (stable) -/
def insertByKey (key : Nat → Int) (i : Nat) : List Nat → List Nat
  | [] => [i]
  | j :: js => if key i < key j then i :: j :: js else j :: insertByKey key i js

/-- stable argsort of positions `0..n-1` by a key -/
def argsortBy (key : Nat → Int) (n : Nat) : List Nat :=
  (List.range n).foldr (fun i acc => insertByKey key i acc) []

inductive Variant | asIs | repaired deriving DecidableEq, Repr

/-- `LastN.__call__`: all rows if `len ≤ n`, otherwise positions `argsort(time)[-n:]` -/
def lastN (v : Variant) (times : List Int) (n : Nat) : List Nat :=
  let len := times.length
  if len ≤ n then List.range len
  else
    let order := argsortBy (fun i => times.getD i 0) len
    match v with
    | .asIs => lastSlice order n
    | .repaired => lastTake order n

end LK.Split

namespace LK.Split

structure IRec (β : Type) where
  u : Nat
  i : Nat
  t : Int
  a : β

/-- a user's matrix row: that user's records, in matrix (item) order -/
def rowOf {β} (recs : List (IRec β)) (u : Nat) : List (IRec β) := recs.filter (fun r => r.u == u)

/-- `_make_split`: hold out `pick (row u)` for every test user, anti-join the held-out pairs out of training -/
def userSplit {β} (recs : List (IRec β)) (testUsers : List Nat) (pick : Nat → List (IRec β) → List (IRec β)) :
    List (Nat × List (IRec β)) × List (IRec β) :=
  let test := testUsers.map (fun u => (u, pick u (rowOf recs u)))
  let pairs := test.flatMap (fun ut => ut.2.map (fun r => (r.u, r.i)))
  (test, recs.filter (fun r => !pairs.contains (r.u, r.i)))

/-- `split_global_time` with cut-offs already converted to the stored representation -/
def temporalSplit {β} (recs : List (IRec β)) (cut : Int) (next : Option Int) : List (IRec β) × List (IRec β) :=
  (recs.filter (fun r => decide (r.t < cut)),
   recs.filter (fun r => decide (cut ≤ r.t) && (match next with | some e => decide (r.t < e) | none => true)))

/-- `datetime.fromtimestamp(x)` read back as a naive UTC wall-clock value: shifts by the zone offset -/
def conformCut (tzOffset : Int) (storedIsDatetime givenIsUnix : Bool) (x : Int) : Int :=
  if storedIsDatetime && givenIsUnix then x + tzOffset else x

end LK.Split
