import LK.Model.Attr
/-!
# C17 — the NumPy / Arrow operations `_expand_and_align_list_array` is written in (core Lean only)

`translate/py2lean_arrow.py` turns the statements of the function into these combinators (`LK.Gen.ArrowC17.expandAlignT`);
`LK/Proofs/ArrowC17.lean` proves the result equal to the model's `expandAlign`, for which `list_readback` is proved.
-/
namespace LK.ArrowOps
open LK.Attr

/-- `lists.is_valid()` -/
def isValid {β} (lists : List (Option β)) : List Bool := lists.map Option.isSome
/-- `np.all(mask)` -/
def npAll (m : List Bool) : Bool := m.all id
/-- `x[mask]` -/
def indexMask {α} : List α → List Bool → List α
  | x :: xs, true :: m => x :: indexMask xs m
  | _ :: xs, false :: m => indexMask xs m
  | _, _ => []
/-- `lists.drop_null()` (also the reading of a list array known to hold no null) -/
def dropNull {β} (lists : List (Option β)) : List β := lists.filterMap id
/-- `np.any(np.diff(np.argsort(rows)) < 0)` is false exactly when the rows are already in ascending order (they are distinct) -/
def ascending : List Nat → Bool
  | [] => true
  | [_] => true
  | a :: b :: rest => decide (a < b) && ascending (b :: rest)
/-- `order = np.argsort(rows)`; `lists.take(order)`, `rows[order]`: both arrays reordered by ascending row -/
def sortByRows {β} (rows : List Nat) (lists : List β) : List Nat × List β :=
  let q := sortPairs (rows.zip lists)
  (q.map (·.1), q.map (·.2))
/-- `sizes = np.zeros(n + 1)`; `sizes[rows + 1] = lens` -/
def scatterLens (n : Nat) (rows : List Nat) (lens : List Nat) : List Nat :=
  (List.zip (rows.map (· + 1)) lens).foldl (fun acc jv => acc.set jv.1 jv.2) (List.replicate (n + 1) 0)
/-- `np.cumsum(a)` -/
def cumsumFrom : Nat → List Nat → List Nat
  | _, [] => []
  | acc, x :: xs => (acc + x) :: cumsumFrom (acc + x) xs
def cumsum (xs : List Nat) : List Nat := cumsumFrom 0 xs
/-- `mask = np.ones(n, bool)`; `mask[rows] = False` -/
def scatterFalse (n : Nat) (rows : List Nat) : List Bool :=
  rows.foldl (fun acc r => acc.set r false) (List.replicate n true)
/-- `lists.value_lengths()` -/
def valueLengths {α} (lists : List (List α)) : List Nat := lists.map List.length
/-- `pa.ListArray.from_arrays(offsets, flat, mask=mask)`: `mask` marks the null entries -/
def fromArrays {α} (offsets : List Nat) (flat : List α) (mask : List Bool) : ListCol α :=
  { offsets := offsets, values := flat, valid := mask.map (fun b => !b) }

/-- `values.take(np.argsort(nums, kind="stable"))`: the values in ascending order of their row numbers -/
def takeSortedByRows {β} (nums : List Nat) (vals : List β) : List β := (sortPairs (nums.zip vals)).map (·.2)
/-- `mask = np.zeros(n, bool)`; `mask[nums] = True` -/
def scatterTrue (n : Nat) (nums : List Nat) : List Bool :=
  nums.foldl (fun acc r => acc.set r true) (List.replicate n false)

/-- `np.bincount(x, minlength=n)` for values below `n` -/
def bincount (xs : List Nat) (n : Nat) : List Nat := (List.range n).map (fun r => xs.count r)

/-- the distinct values of a column, in order of first appearance -/
def distinct : List Nat → List Nat
  | [] => []
  | x :: xs => x :: (distinct xs).filter (fun y => y != x)
/-- `pc.value_counts(col)`: each distinct value with the number of times it occurs -/
def valueCounts (xs : List Nat) : List (Nat × Nat) := (distinct xs).map (fun v => (v, xs.count v))

end LK.ArrowOps
