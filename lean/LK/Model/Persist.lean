/-!
# C15 — `DataContainer.save` / `load` under interruption (core Lean only)

Directory contents are a list of (file name, content).  A dataset is identified by a tag (standing
for its schema text and table bytes) and its table names.  `save` = remove every old entry (in an
arbitrary order), remove the directory, create it, write `schema.json`, one file per table,
`summary.md`.  A crash keeps the first `k` steps; if it tears the write in flight that file is
left truncated.  `load` parses the schema, then reads every table the schema names.
-/
namespace LK.Persist

abbrev TName := String

structure DSd where
  tag : Nat
  tables : List TName
deriving DecidableEq, Repr

inductive FName | schema | table (t : TName) | summary
deriving DecidableEq, Repr

inductive Content
  | schema (d : DSd)
  | table (tag : Nat)
  | summary
  | trunc
deriving DecidableEq, Repr

abbrev Files := List (FName × Content)
abbrev Dir := Option Files

def lookup : Files → FName → Option Content
  | [], _ => none
  | (m, c) :: fs, n => if m = n then some c else lookup fs n

inductive Loaded | fail | ds (d : DSd) (tableTags : List Nat)
deriving DecidableEq, Repr

def tableTag (fs : Files) (t : TName) : Option Nat :=
  match lookup fs (.table t) with
  | some (.table g) => some g
  | _ => none

def load : Dir → Loaded
  | none => .fail
  | some fs =>
    match lookup fs .schema with
    | some (.schema d) =>
      let tags := d.tables.map (tableTag fs)
      if tags.all Option.isSome then .ds d (tags.filterMap id) else .fail
    | _ => .fail

/-- "loads as exactly dataset `d`": its schema and every table from `d` itself -/
def isExactly (d : DSd) : Loaded → Prop
  | .ds d' tags => d' = d ∧ ∀ g ∈ tags, g = d.tag
  | .fail => False

def filesOf (d : DSd) : Files :=
  (FName.schema, Content.schema d) :: (d.tables.map (fun t => (FName.table t, Content.table d.tag)))
    ++ [(FName.summary, Content.summary)]

inductive Step
  | rm (n : FName)
  | rmdir
  | mkdir
  | write (n : FName) (c : Content)
deriving DecidableEq, Repr

def apply : Dir → Step → Dir
  | some fs, .rm n => some (fs.filter (fun e => !(e.1 == n)))
  | some _, .rmdir => none
  | none, .mkdir => some []
  | some fs, .write n c => some ((n, c) :: fs.filter (fun e => !(e.1 == n)))
  | d, _ => d

def writeSteps (new : DSd) : List Step := (filesOf new).map (fun e => Step.write e.1 e.2)

/-- save over an existing directory whose entries are removed in the order `delOrder` -/
def saveSteps (delOrder : List FName) (new : DSd) : List Step :=
  delOrder.map Step.rm ++ [Step.rmdir, Step.mkdir] ++ writeSteps new

/-- save into a path that does not exist yet -/
def saveFresh (new : DSd) : List Step := Step.mkdir :: writeSteps new

def crash (start : Dir) (steps : List Step) (k : Nat) (torn : Bool) : Dir :=
  let d := (steps.take k).foldl apply start
  if torn then
    match steps[k]? with
    | some (.write n _) => apply d (.write n .trunc)
    | _ => d
  else d

/-- a (hypothetical) in-place save that skips the removal: used only to show the model can see mixtures -/
def saveInPlace (new : DSd) : List Step := writeSteps new

end LK.Persist
