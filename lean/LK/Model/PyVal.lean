/-!
# Python `int | None` values and the operators the translated guards use (core Lean only)

`translate/py2lean_guards.py` turns the decision logic of selected lenskit functions (which of `None`, a run-time value, a
configured value wins; which branch of an `if / elif` chain is taken) into Lean definitions over these values on every run.
An object-valued variable (a query, a table, an item list) is carried as `Option Int` too: `none` is Python's `None`, and the
integer is the object's truth value carrier (its length), so that `if x:` and `if x is not None:` are different functions —
the difference the hand-written specifications are about.
-/
namespace LK.Py

abbrev V := Option Int

/-- Python truthiness: `None` and `0` (an empty container) are false -/
def truthy : V → Bool
  | none => false
  | some k => k != 0

/-- `a or b` -/
def por (a b : V) : V := if truthy a then a else b
/-- `a and b` -/
def pand (a b : V) : V := if truthy a then b else a

/-- ordering comparisons; Python raises `TypeError` when an operand is `None` — the translated sites only compare behind a
    `None` test, and the totalisation (false) is recorded as an assumption of the translation -/
def lt (a b : V) : Bool := match a, b with | some x, some y => decide (x < y) | _, _ => false
def le (a b : V) : Bool := match a, b with | some x, some y => decide (x ≤ y) | _, _ => false
def gt (a b : V) : Bool := lt b a
def ge (a b : V) : Bool := le b a
def pmin (a b : V) : V := match a, b with | some x, some y => some (min x y) | _, _ => none
def pmax (a b : V) : V := match a, b with | some x, some y => some (max x y) | _, _ => none

end LK.Py
