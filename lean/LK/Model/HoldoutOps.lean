import LK.Model.Split
/-!
# C05 — the operations the holdout methods are written in (core Lean only)
-/
namespace LK.HoldoutOps

/-- `np.argsort(col)`: positions by ascending key (the model's stable `argsortBy`; the order among equal keys is outside the claim) -/
def npArgsort (times : List Int) : List Nat := LK.Split.argsortBy (fun i => times.getD i 0) times.length

/-- Python's `xs[k:]` for an integer `k`: a negative start counts from the end (and is clipped at the beginning) -/
def pySliceFrom {α} (xs : List α) (k : Int) : List α :=
  if 0 ≤ k then xs.drop k.toNat else xs.drop (xs.length - k.natAbs)

end LK.HoldoutOps
