import LK.Prelude.Sort
/-!
# C17 — entity attribute placement (core Lean only)

`add_scalar_attribute`: `mask[nums] = True`; `pc.replace_with_mask(nulls, mask, values)` fills the
`True` slots **in mask order** with the values **in input order**.
`_expand_and_align_list_array`: sort the (row, list) pairs by row, write the list lengths at
`row+1`, cumulative-sum them into offsets, and read the flattened child values through them.
-/
namespace LK.Attr

inductive Variant | asIs | repaired deriving DecidableEq, Repr

def replaceWithMask {α} : List Bool → List α → List (Option α)
  | [], _ => []
  | false :: m, vs => none :: replaceWithMask m vs
  | true :: m, [] => none :: replaceWithMask m []
  | true :: m, v :: vs => some v :: replaceWithMask m vs

def maskFrom (k len : Nat) (nums : List Nat) : List Bool :=
  (List.range' k len).map (fun i => decide (i ∈ nums))

def sortPairs {α} (ps : List (Nat × α)) : List (Nat × α) := sortBy (fun a b => decide (a.1 ≤ b.1)) ps

/-- scalar attribute column for a table of `n` rows; `ps` = (row number, value) in input order -/
def addScalar {α} (v : Variant) (n : Nat) (ps : List (Nat × α)) : List (Option α) :=
  match v with
  | .asIs => replaceWithMask (maskFrom 0 n (ps.map (·.1))) (ps.map (·.2))
  | .repaired =>
    let qs := sortPairs ps
    replaceWithMask (maskFrom 0 n (qs.map (·.1))) (qs.map (·.2))

/-- what was supplied for row `r` -/
def supplied {α} (ps : List (Nat × α)) (r : Nat) : Option α := (ps.find? (·.1 == r)).map (·.2)

/-- list-shaped column: offsets / flattened values / validity, as Arrow stores it -/
structure ListCol (α : Type) where
  offsets : List Nat
  values : List α
  valid : List Bool

def rowSize {α} (ps : List (Nat × List α)) (r : Nat) : Nat := ((ps.find? (·.1 == r)).map (·.2.length)).getD 0

/-- `_expand_and_align_list_array(out_len, rows, lists)` after null entries were dropped -/
def expandAlign {α} (outLen : Nat) (ps : List (Nat × List α)) : ListCol α :=
  let qs := sortPairs ps
  { offsets := (List.range (outLen + 1)).map (fun r => ((List.range r).map (rowSize qs)).sum),
    values := (qs.map (·.2)).flatten,
    valid := (List.range outLen).map (fun r => decide (r ∈ qs.map (·.1))) }

/-- The list array handed to `_expand_and_align_list_array` may be a *slice* of a longer Arrow array: its child
    buffer then starts with `lead` elements that belong to the part sliced away.  The unrepaired code reads
    `lists.values` (the whole child buffer) unless it had to `take`/`drop_null` first (which compacts the array);
    the repaired code reads `lists.flatten()`. -/
def expandAlignRaw {α} (v : Variant) (outLen : Nat) (lead : List α) (ps : List (Nat × List α)) : ListCol α :=
  let c := expandAlign outLen ps
  match v with
  | .repaired => c
  | .asIs =>
    if (sortPairs ps).map (·.1) == ps.map (·.1) then { c with values := lead ++ c.values } else c

/-- reading entry `r` of a list column -/
def ListCol.get {α} (c : ListCol α) (r : Nat) : Option (List α) :=
  if c.valid.getD r false then
    some ((c.values.drop (c.offsets.getD r 0)).take (c.offsets.getD (r + 1) 0 - c.offsets.getD r 0))
  else none

/-! ### dense vector layout (`_add_dense_vector_attribute`)

`ps` = (row number, optional vector) in input order.  When every table row receives a non-null vector the code
keeps a fixed-size-list array: the unrepaired code returns `values` **as supplied** (input order), the repaired code
`values.take(argsort(rows))`.  Otherwise the vectors are cast to a list array and go through `expandAlign`
(null entries dropped first). -/
inductive VecCol (α : Type) where
  | fixed (rows : List (Option (List α)))
  | listy (c : ListCol α)

def dropNulls {β} (ps : List (Nat × Option β)) : List (Nat × β) :=
  ps.filterMap (fun p => p.2.map (fun l => (p.1, l)))

def fullCover {α} (n : Nat) (ps : List (Nat × Option α)) : Bool :=
  (List.range n).all (fun r => decide (r ∈ ps.map (·.1))) && ps.all (·.2.isSome)

def addDense {α} (v : Variant) (n : Nat) (ps : List (Nat × Option (List α))) : VecCol α :=
  if fullCover n ps then
    match v with
    | .asIs => .fixed (ps.map (·.2))
    | .repaired => .fixed ((sortPairs ps).map (·.2))
  else .listy (expandAlign n (dropNulls ps))

def VecCol.get {α} (c : VecCol α) (r : Nat) : Option (List α) :=
  match c with
  | .fixed rows => (rows[r]?).join
  | .listy c => c.get r

end LK.Attr
