import LK.Model.TopN
/-!
# C19 — `RandomSelector`, `StochasticTopNRanker`, `SoftmaxRanker` (core Lean only)

Random draws are inputs: `picks` for `rng.choice(len, n, replace=False)`; `logu` for
`np.log(rng.uniform(0, 1, N))` (one value per *eligible* item, as exact rationals of the floats).
Scores: `none` = NaN, and ±∞ are separate constructors because the stochastic ranker keeps only finite scores.
-/
namespace LK.Stoch

abbrev Q := Rat
inductive Score | nan | posInf | negInf | fin (q : Q) deriving DecidableEq, Repr

def Score.isFinite : Score → Bool | .fin _ => true | _ => false
def Score.notNan : Score → Bool | .nan => false | _ => true

def cfgN (cfg : Option Int) : Int := match cfg with | some c => if c = 0 then -1 else c | none => -1

/-- the requested length: a run-time `n ≥ 0` wins; `None`/negative ⇒ the configured one -/
def chosenN (cfg run : Option Int) : Int :=
  match run with
  | some r => if r < 0 then cfgN cfg else r
  | none => cfgN cfg

def clampN (n : Int) (N : Nat) : Nat := if n < 0 ∨ n > N then N else n.toNat

/-- effective length -/
def effN (cfg run : Option Int) (N : Nat) : Nat := clampN (chosenN cfg run) N

/-- the number of items `RandomSelector.__call__` picks: a run-time `n` wins (a negative one means all), else the configured one -/
def randomK (len : Nat) (cfg run : Option Int) : Nat :=
  let n : Int := match run with | some r => r | none => (match cfg with | some c => if c = 0 then -1 else c | none => -1)
  if n < 0 then len else min n.toNat len

/-- `RandomSelector.__call__` -/
def randomSelect (len : Nat) (cfg run : Option Int) (picks : List Nat) : List Nat :=
  let k : Nat := randomK len cfg run
  if k > 0 then picks.take k else []

inductive Transform | softmax | linear | none deriving DecidableEq, Repr

def minQ : List Q → Q
  | [] => 0
  | x :: xs => xs.foldl (fun a b => if b < a then b else a) x
def maxQ : List Q → Q
  | [] => 0
  | x :: xs => xs.foldl (fun a b => if a < b then b else a) x
def sumQ (xs : List Q) : Q := xs.foldr (· + ·) 0

/-- min–max rescaling to probabilities, uniform when the range (or the total) is degenerate -/
def linearWeights (scores : List Q) : List Q :=
  let lb := minQ scores
  let r := maxQ scores - lb
  let shifted := scores.map (· - lb)
  let uniform := scores.map (fun _ => 1 / (scores.length : Q))
  if r > 0 then
    let scaled := shifted.map (· / r)
    let tot := sumQ scaled
    if tot > 0 then scaled.map (· / tot) else uniform
  else uniform

/-- softmax from a table of `exp(s_i − max)` values supplied by the caller -/
def softmaxWeights (expTbl : List Q) : List Q := expTbl.map (· / sumQ expTbl)

/-- exponential-race keys: `log u / max(w, ε)`; larger is better -/
def keys (logu : List Q) (weights : List Q) (eps : Q) : List Q :=
  List.zipWith (fun l w => l / (if w < eps then eps else w)) logu weights

/-- `StochasticTopNRanker.__call__`: positions (into the original list) of the ranking -/
def stochasticRank (scores : List Score) (cfg run : Option Int) (weights : List Q) (logu : List Q) (eps : Q) : List Nat :=
  let eligible := (List.range scores.length).filter (fun p => (scores.getD p .nan).isFinite)
  let N := eligible.length
  if N = 0 then [] else
    let n := effN cfg run N
    let ks := keys logu weights eps
    (LK.TopN.argtopn (ks.map some) (n : Int)).filterMap (fun j => eligible[j]?)

/-- the scores as the ranker sees them: a raw value per item and whether it is finite -/
def scoresOf (raw : List Q) (finite : List Bool) : List Score := List.zipWith (fun q v => if v then Score.fin q else Score.nan) raw finite

/-- a finite score times the scale; nothing for the others -/
def finScaled (scale : Q) : Score → Option Q
  | .fin q => some (q * scale)
  | _ => none

/-- `StochasticTopNRanker.__call__` for the `linear` / identity transforms, from the raw scores: the finite scores times the configured
    scale are what the transform starts from -/
def stochasticCall (linear : Bool) (raw : List Q) (finite : List Bool) (scale : Q) (cfg run : Option Int) (logu : List Q) (eps : Q) : List Nat :=
  let scaled := (scoresOf raw finite).filterMap (finScaled scale)
  let weights := if linear then linearWeights scaled else scaled
  stochasticRank (scoresOf raw finite) cfg run weights logu eps

end LK.Stoch
