import LK.Prelude.Sort
/-!
# C13 — pipeline configuration document and its canonical JSON text (core Lean only)

`build_config`: default connections resolved, each component's wiring sorted by parameter name,
aliases sorted, inputs/components/literals in declaration order; `hash_config` = SHA-256 of
`model_dump_json(exclude_none=True)` with the hash field unset.  Component settings and literal
values are opaque JSON text produced by pydantic's own writer.
-/
namespace LK.Cfg

inductive Json
  | null
  | str (s : String)
  | raw (text : String)                    -- opaque, already-rendered JSON (settings, literal values)
  | arr (xs : List Json)
  | obj (kvs : List (String × Json))

def escape (s : String) : String :=
  s.foldl (fun acc c => if c = '"' then acc ++ "\\\"" else if c = '\\' then acc ++ "\\\\" else acc.push c) ""

mutual
def render : Json → String
  | .null => "null"
  | .str s => "\"" ++ escape s ++ "\""
  | .raw t => t
  | .arr xs => "[" ++ renderList xs ++ "]"
  | .obj kvs => "{" ++ renderFields kvs ++ "}"
def renderList : List Json → String
  | [] => ""
  | [x] => render x
  | x :: xs => render x ++ "," ++ renderList xs
def renderFields : List (String × Json) → String
  | [] => ""
  | [(k, v)] => "\"" ++ escape k ++ "\":" ++ render v
  | (k, v) :: kvs => "\"" ++ escape k ++ "\":" ++ render v ++ "," ++ renderFields kvs
end

structure InputSpec where
  name : String
  types : Option (List String)
deriving DecidableEq, Repr

structure CompSpec where
  code : String
  config : Option String                   -- opaque JSON text of the settings, `none` = no config
  inputs : List (String × String)          -- parameter ↦ source node, sorted by parameter
deriving DecidableEq, Repr

structure Cfg where
  name : Option String
  version : Option String
  inputs : List InputSpec
  components : List (String × CompSpec)
  aliases : List (String × String)
  default : Option String
  literals : List (String × String × String)   -- name ↦ (encoding, opaque value text)
deriving DecidableEq, Repr

def optField (k : String) (v : Option Json) : List (String × Json) :=
  match v with | some j => [(k, j)] | none => []

def strMap (kvs : List (String × String)) : Json := .obj (kvs.map (fun kv => (kv.1, Json.str kv.2)))

/-- `model_dump_json(exclude_none=True)` of the configuration without its hash -/
def toJson (c : Cfg) : Json :=
  .obj ([("meta", Json.obj (optField "name" (c.name.map Json.str) ++ optField "version" (c.version.map Json.str))),
         ("inputs", Json.arr (c.inputs.map (fun i =>
            Json.obj ([("name", Json.str i.name)] ++ optField "types" (i.types.map (fun ts => Json.arr (ts.map Json.str))))))),
         ("components", Json.obj (c.components.map (fun nc =>
            (nc.1, Json.obj ([("code", Json.str nc.2.code)] ++ optField "config" (nc.2.config.map Json.raw)
                              ++ [("inputs", strMap nc.2.inputs)]))))),
         ("aliases", strMap c.aliases)]
        ++ optField "default" (c.default.map Json.str)
        ++ [("literals", Json.obj (c.literals.map (fun l =>
              (l.1, Json.obj [("encoding", Json.str l.2.1), ("value", Json.raw l.2.2)]))))])

def canonJson (c : Cfg) : String := render (toJson c)

/-! ### the builder side -/

structure BComp where
  name : String
  code : String
  config : Option String
  params : List String                       -- the component's parameter names (signature order)
  edges : List (String × String)             -- explicit wiring, in declaration order

structure BState where
  name : Option String
  version : Option String
  inputs : List InputSpec
  comps : List BComp
  aliases : List (String × String)           -- declaration order
  defaults : List (String × String)          -- builder-level default connections
  default : Option String
  literals : List (String × String × String)

def leKey (a b : String × String) : Bool := decide (a.1 ≤ b.1)

/-- explicit connections first, builder-level defaults otherwise -/
def resolve (defaults : List (String × String)) (c : BComp) : List (String × String) :=
  c.edges ++ (c.params.filterMap (fun p =>
    if (c.edges.map (·.1)).contains p then none
    else (defaults.find? (·.1 == p)).map (fun d => (p, d.2))))

inductive Variant | asIs | repaired deriving DecidableEq, Repr

def sortStrings (xs : List String) : List String := sortBy (fun a b => decide (a ≤ b)) xs

def compOut (defaults : List (String × String)) (c : BComp) : String × CompSpec :=
  (c.name, { code := c.code, config := c.config, inputs := sortBy leKey (resolve defaults c) })

def compIn (nc : String × CompSpec) : BComp :=
  { name := nc.1, code := nc.2.code, config := nc.2.config, params := nc.2.inputs.map (·.1), edges := nc.2.inputs }

def sortTypes (i : InputSpec) : InputSpec := { i with types := i.types.map sortStrings }

def buildCfg (v : Variant) (b : BState) : Cfg :=
  { name := b.name, version := b.version,
    inputs := match v with
      | .asIs => b.inputs                     -- set iteration order, whatever it was
      | .repaired => b.inputs.map sortTypes,
    components := b.comps.map (compOut b.defaults),
    aliases := sortBy leKey b.aliases,
    default := b.default,
    literals := match v with
      | .asIs => b.literals                   -- node creation order, whatever it was
      | .repaired => sortBy (fun a b => decide (a.1 ≤ b.1)) b.literals }

/-- `from_config` (repaired: restores name and version) followed by nothing else -/
def fromCfg (v : Variant) (c : Cfg) : BState :=
  { name := match v with | .asIs => none | .repaired => c.name,
    version := match v with | .asIs => none | .repaired => c.version,
    inputs := c.inputs,
    comps := c.components.map compIn,
    aliases := c.aliases, defaults := [], default := c.default, literals := c.literals }

end LK.Cfg
