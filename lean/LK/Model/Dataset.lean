import LK.Prelude.Sort
/-!
# C01 — `DatasetBuilder` / `MatrixRelationshipSet` (core Lean only)

Identifiers are any type `ι` with a decidable total order `le` (ints or strings in the driver).
Entity numbers are list positions.  The interaction class has two entity classes (user, item);
attribute values are an opaque payload `β` with a time accessor for the window filter.
-/
namespace LK.DS

variable {ι β : Type} [DecidableEq ι]

inductive Err | dataError | keyError | valueError deriving DecidableEq, Repr
inductive Dup | error | update deriving DecidableEq, Repr
inductive Missing | insert | filter | error deriving DecidableEq, Repr

/-- sorted, de-duplicated copy (Arrow `unique().sort()`) -/
def dedup : List ι → List ι
  | [] => []
  | x :: xs => if x ∈ xs then dedup xs else x :: dedup xs

def uniqueSorted (le : ι → ι → Bool) (xs : List ι) : List ι := sortBy le (dedup xs)

structure Rec (β : Type) where
  u : Nat
  i : Nat
  a : β

structure Builder (ι β : Type) where
  users : List ι
  items : List ι
  recs : List (Rec β)

def number (v : List ι) (x : ι) : Option Nat :=
  let k := v.idxOf x
  if k < v.length then some k else none

/-- `add_entities(cls, ids, duplicates=…)` on one vocabulary -/
def addEntities (le : ι → ι → Bool) (v : List ι) (src : List ι) (dup : Dup) : Except Err (List ι) :=
  let ids := uniqueSorted le src
  if ids.length < src.length then .error .dataError
  else
    let fresh := ids.filter (fun x => decide (x ∉ v))
    if fresh.length < ids.length ∧ dup = .error then .error .dataError
    else .ok (v ++ fresh)

/-- `add_entities(..., duplicates="update")` as used by `missing="insert"`; never fails on de-duplicated input -/
def ensure (le : ι → ι → Bool) (v : List ι) (ids : List ι) : List ι :=
  match addEntities le v (dedup ids) .update with
  | .ok v' => v'
  | .error _ => v

inductive Cls | user | item deriving DecidableEq, Repr

structure RemoveTbl (ι : Type) where
  users : Option (List ι)        -- `user_id` column, if present
  items : Option (List ι)        -- `item_id` column, if present

inductive Op (ι β : Type)
  | addEntities (c : Cls) (ids : List ι) (dup : Dup)
  | addInteractions (rows : List (ι × ι × β)) (missing : Missing)
  | filterTime (minT maxT : Option Int)
  | remove (tbl : RemoveTbl ι)
  | clear

/-- the records `add_interactions` appends: rows whose two identifiers resolve, with their numbers -/
def newRecs (users items : List ι) (rows : List (ι × ι × β)) : List (Rec β) :=
  (rows.zip ((rows.map (fun r => number users r.1)).zip (rows.map (fun r => number items r.2.1)))).filterMap
    (fun (r, un, inn) => match un, inn with
      | some u, some i => some { u := u, i := i, a := r.2.2 }
      | _, _ => none)

def hasDupPair (rs : List (Rec β)) : Bool :=
  match rs with
  | [] => false
  | r :: rs => rs.any (fun s => s.u == r.u && s.i == r.i) || hasDupPair rs

/-- one builder operation; on error the builder keeps whatever had been changed before the failure,
    exactly like the Python object -/
def step (le : ι → ι → Bool) (tm : β → Option Int) (b : Builder ι β) : Op ι β → Builder ι β × Option Err
  | .addEntities c ids dup =>
    match c with
    | .user => match addEntities le b.users ids dup with
      | .ok v => ({ b with users := v }, none)
      | .error e => (b, some e)
    | .item => match addEntities le b.items ids dup with
      | .ok v => ({ b with items := v }, none)
      | .error e => (b, some e)
  | .addInteractions rows missing =>
    -- users first
    let b1 : Builder ι β :=
      if missing = .insert then { b with users := ensure le b.users (rows.map (·.1)) } else b
    let unums := rows.map (fun r => number b1.users r.1)
    if missing = .error ∧ unums.any Option.isNone then (b1, some .dataError) else
    let b2 : Builder ι β :=
      if missing = .insert then { b1 with items := ensure le b1.items (rows.map (·.2.1)) } else b1
    let inums := rows.map (fun r => number b2.items r.2.1)
    if missing = .error ∧ inums.any Option.isNone then (b2, some .dataError) else
    let all := b2.recs ++ newRecs b2.users b2.items rows
    if hasDupPair all then (b2, some .dataError) else ({ b2 with recs := all }, none)
  | .filterTime minT maxT =>
    let keep (r : Rec β) : Bool :=
      match tm r.a with
      | none => false
      | some t => (match minT with | some lo => decide (lo ≤ t) | none => true) &&
                  (match maxT with | some hi => decide (t < hi) | none => true)
    if minT.isNone && maxT.isNone then (b, none) else ({ b with recs := b.recs.filter keep }, none)
  | .remove tbl =>
    let rowsU := tbl.users.map (fun us => us.map (number b.users))
    let rowsI := tbl.items.map (fun is => is.map (number b.items))
    let hit (r : Rec β) : Bool :=
      match rowsU, rowsI with
      | some us, some is => (us.zip is).any (fun (u, i) => u == some r.u && i == some r.i)
      | some us, none => us.any (fun u => u == some r.u)
      | none, some is => is.any (fun i => i == some r.i)
      | none, none => false
    ({ b with recs := b.recs.filter (fun r => !hit r) }, none)
  | .clear => ({ b with recs := [] }, none)

def run (le : ι → ι → Bool) (tm : β → Option Int) (b : Builder ι β) (ops : List (Op ι β)) : Builder ι β :=
  ops.foldl (fun b op => (step le tm b op).1) b

/-- the built matrix view: records sorted by (row, col) -/
def sortedRecs (b : Builder ι β) : List (Rec β) :=
  sortBy (fun r s => decide (r.u < s.u ∨ (r.u = s.u ∧ r.i ≤ s.i))) b.recs

def rowCount (rs : List (Rec β)) (u : Nat) : Nat := (rs.filter (fun r => r.u == u)).length
def rowPtrs (b : Builder ι β) : List Nat :=
  (List.range (b.users.length + 1)).map (fun u => ((List.range u).map (rowCount (sortedRecs b))).sum)
def colCount (rs : List (Rec β)) (i : Nat) : Nat := (rs.filter (fun r => r.i == i)).length

def rowOf (b : Builder ι β) (u : Nat) : List (Rec β) :=
  let p := rowPtrs b
  ((sortedRecs b).drop (p.getD u 0)).take (p.getD (u + 1) 0 - p.getD u 0)

end LK.DS
