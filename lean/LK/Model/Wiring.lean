import LK.Model.Recommend
/-!
# C03 — evaluating the *wiring* of the standard pipelines (core Lean only)

`LK.Gen.WiringC03` (regenerated on every run from the pipelines that `topn_pipeline` / `predict_pipeline` actually build) lists, for
every component node, the class or function it runs and where each of its inputs comes from.  `evalNode` evaluates a node of such a
graph with every component replaced by its model: the history lookup, the unrated-items selector, the first-available component,
a scorer (any function of query and item), the fallback merge and the top-N ranker.  The theorems of `LK.Proofs.WiringC03` say that
the value of the `recommender` / `rating-predictor` node is the hand-written `LK.Rec.recommend` / `LK.Rec.fallbackMerge` — so the
model the C03 theorems are about is the denotation of the wiring lenskit builds, not a reading of it.
-/
namespace LK.Wiring
open LK.Rec

/-- (node name, code, [(parameter, source node)]) -/
abbrev Graph := List (String × String × List (String × String))

inductive Value
  | none
  | qin (q : QueryIn)
  | query (q : Query)
  | items (l : List Nat)
  | scored (l : List (Nat × Option Q))
  | len (n : Option Int)

structure Env where
  V : List Nat
  trainRow : Nat → Option (List Nat)
  score : Query → Nat → Option Q            -- the scoring model placed in the pipeline
  fallback : Query → Nat → Option Q         -- the fallback rating predictor
  qin : QueryIn
  supplied : Option (List Nat)
  nCfg : Option Int
  nRun : Option Int

def lookupNode (g : Graph) (name : String) : Option (String × List (String × String)) :=
  (g.find? (·.1 == name)).map (·.2)

def resolveAlias (aliases : List (String × String)) (name : String) : String :=
  match aliases.find? (·.1 == name) with
  | some (_, tgt) => tgt
  | Option.none => name

/-- the ranker applied to a scored list: positions chosen by `LK.TopN.rank`, items and scores kept together -/
def rankScored (l : List (Nat × Option Q)) (nCfg nRun : Option Int) : List (Nat × Option Q) :=
  (LK.TopN.rank (l.map (·.2)) nCfg nRun).filterMap (fun p => l[p]?)

def mergeScored (p b : List (Nat × Option Q)) : List (Nat × Option Q) :=
  p.map (fun (i, s) => (i, match s with | some v => some v | Option.none => ((b.find? (·.1 == i)).bind (·.2))))

def evalNode (g : Graph) (aliases : List (String × String)) (env : Env) : Nat → String → Value
  | 0, _ => .none
  | fuel + 1, name0 =>
    let name := resolveAlias aliases name0
    match lookupNode g name with
    | Option.none =>          -- a pipeline input
      if name == "query" then .qin env.qin
      else if name == "items" then (match env.supplied with | some s => .items s | Option.none => .none)
      else if name == "n" then .len env.nRun
      else .none
    | some (code, ins) =>
      let arg (p : String) : Value := match ins.find? (·.1 == p) with
        | some (_, src) => evalNode g aliases env fuel src
        | Option.none => .none
      if code == "UserTrainingHistoryLookup" then
        (match arg "query" with | .qin q => .query (historyLookup env.trainRow (createQuery q)) | _ => .none)
      else if code == "UnratedTrainingItemsCandidateSelector" then
        (match arg "query" with
          | .query q => .items (match q.items with | Option.none => env.V | some h => env.V.filter (fun i => !h.contains i))
          | _ => .none)
      else if code == "fallback_on_none" then
        (match arg "primary" with | .none => arg "fallback" | v => v)
      else if code == "SCORER" then
        (match arg "query", arg "items" with | .query q, .items c => .scored (c.map (fun i => (i, env.score q i))) | _, _ => .none)
      else if code == "FALLBACK" then
        (match arg "query", arg "items" with | .query q, .items c => .scored (c.map (fun i => (i, env.fallback q i))) | _, _ => .none)
      else if code == "FallbackScorer" then
        (match arg "primary", arg "backup" with | .scored p, .scored b => .scored (mergeScored p b) | _, _ => .none)
      else if code == "TopNRanker" then
        (match arg "items", arg "n" with
          | .scored l, .len n => .scored (rankScored l env.nCfg n)
          | .scored l, .none => .scored (rankScored l env.nCfg Option.none)
          | _, _ => .none)
      else .none

end LK.Wiring
