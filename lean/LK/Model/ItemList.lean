/-!
# C16 — `ItemList` construction, lazy identifier/number resolution, subsetting (core Lean only)

An item list stores identifiers and/or numbers, an optional vocabulary, fields of equal length and an
ordering flag; `ids()` / `numbers()` resolve the missing side lazily through the vocabulary and cache it.
`Variant.asIs` keeps the constructor as it stands (a replaced vocabulary leaves stale numbers);
`Variant.repaired` drops the numbers derived from the old vocabulary.
-/
namespace LK.IL

variable {ι : Type} [DecidableEq ι]

inductive Err | runtime | key | index | type | value | attribute deriving DecidableEq, Repr
inductive Variant | asIs | repaired deriving DecidableEq, Repr

abbrev Vocab (ι : Type) := List ι

def numberOf (v : Vocab ι) (x : ι) : Int :=
  let k := v.idxOf x
  if k < v.length then (k : Int) else -1

structure IL (ι φ : Type) where
  len : Nat
  ids : Option (List ι)
  nums : Option (List Int)
  vocab : Option (Vocab ι)
  fields : List (String × List φ)
  ordered : Bool
  ranks : Option (List Nat) := none        -- the `_ranks` cache (filled by `ranks()`, copied by the copy constructor)

/-- `ItemList.ids()`: stored identifiers, or numbers mapped through the vocabulary (negative or out of range ⇒ `IndexError`) -/
def idsOf {φ} (il : IL ι φ) : Except Err (List ι) :=
  match il.ids with
  | some i => .ok i
  | none =>
    match il.vocab, il.nums with
    | some v, some n =>
      if n.any (fun k => k < 0 ∨ (v.length : Int) ≤ k) then .error .index
      else .ok (n.filterMap (fun k => v[k.toNat]?))
    | _, _ => .error .runtime

/-- state after `ids()` filled its cache -/
def cacheIds {φ} (il : IL ι φ) : IL ι φ :=
  match il.ids, idsOf il with
  | none, .ok i => { il with ids := some i }
  | _, _ => il

inductive Missing | error | negative deriving DecidableEq, Repr

/-- `ItemList.numbers(vocabulary=alt, missing=…)` -/
def numbersOf {φ} (il : IL ι φ) (alt : Option (Vocab ι)) (missing : Missing) : Except Err (List Int) :=
  let check (n : List Int) : Except Err (List Int) :=
    if missing = .error ∧ n.any (· < 0) then .error .key else .ok n
  match alt with
  | some a =>
    if il.vocab = some a then
      (match il.nums with
        | some n => check n
        | none => match il.ids with
          | some i => check (i.map (numberOf a))
          | none => .error .runtime)
    else
      match idsOf il with
      | .ok i => check (i.map (numberOf a))
      | .error e => .error e
  | none =>
    match il.nums with
    | some n => check n
    | none =>
      match il.vocab, il.ids with
      | some v, some i => check (i.map (numberOf v))
      | _, _ => .error .runtime

def cacheNums {φ} (il : IL ι φ) : IL ι φ :=
  match il.nums, il.vocab, il.ids with
  | none, some v, some i => { il with nums := some (i.map (numberOf v)) }
  | _, _, _ => il

/-- selection by positions (index arrays, masks and slices all reduce to a position list) -/
def pick {α} (l : List α) (sel : List Nat) : List α := sel.filterMap (fun k => l[k]?)

/-- `ItemList.__getitem__` -/
def getitem {φ} (il : IL ι φ) (sel : List Nat) : IL ι φ :=
  { len := sel.length,
    ids := il.ids.map (fun i => pick i sel),
    nums := il.nums.map (fun n => pick n sel),
    vocab := il.vocab,
    fields := il.fields.map (fun nf => (nf.1, pick nf.2 sel)),
    ordered := il.ordered,
    ranks := none }

/-- `ItemList(source, vocabulary=v2)` -/
def withVocab {φ} (vt : Variant) (src : IL ι φ) (v2 : Vocab ι) : Except Err (IL ι φ) :=
  match vt with
  | .asIs => .ok { src with vocab := some v2 }
  | .repaired =>
    if src.vocab = some v2 then .ok src
    else
      match src.vocab, src.nums with
      | some _, some _ =>
        -- numbers that index another vocabulary are stale: keep the identifiers they stood for, drop the numbers
        match idsOf src with
        | .ok i => .ok { src with vocab := some v2, ids := some i, nums := none }
        | .error e => .error e
      | _, _ => .ok { src with vocab := some v2 }      -- no vocabulary before, or no numbers: nothing can be stale

/-! ### ranks and the copy constructor `ItemList(source, item_ids=…, item_nums=…, vocabulary=…, field=…)`

The constructor starts from a copy of the source's `__dict__` (caches included) and then overrides.
`Variant.asIs` is the constructor as it stands:
* a replaced identifier / number array of another length keeps the source's cached ranks;
* `item_ids` **and** `item_nums` given together: the numbers branch deletes the identifiers whenever the *source* had some —
  including the ones just supplied;
* `item_ids` together with a different `vocabulary`, source numbers cached: the numbers are deleted twice (`AttributeError`).
`Variant.repaired` keeps what the caller supplied and drops only what is stale. -/

/-- `ItemList.ranks()` for an ordered list (fills the cache) -/
def ranksOf {φ} (il : IL ι φ) : Option (List Nat) :=
  if il.ordered then some (il.ranks.getD ((List.range il.len).map (· + 1))) else none

def cacheRanks {φ} (il : IL ι φ) : IL ι φ :=
  if il.ordered then { il with ranks := some (il.ranks.getD ((List.range il.len).map (· + 1))) } else il

/-- `ItemList(src, ordered=flag)`: the copy carries the flag it was given (the ranks cache is copied with everything else) -/
def setOrdered {φ} (src : IL ι φ) (flag : Bool) : IL ι φ := { src with ordered := flag }

def fieldsFit {φ} (fields : List (String × List φ)) (n : Nat) : Bool := fields.all (fun nf => nf.2.length == n)

def keepRanks {φ} (vt : Variant) (src : IL ι φ) (n : Nat) : Option (List Nat) :=
  match vt with
  | .asIs => src.ranks
  | .repaired => if n = src.len then src.ranks else none

/-- `ItemList(src, item_ids=x)` -/
def copyIds {φ} (vt : Variant) (src : IL ι φ) (x : List ι) : Except Err (IL ι φ) :=
  if fieldsFit src.fields x.length then
    .ok { src with ids := some x, nums := none, len := x.length, ranks := keepRanks vt src x.length }
  else .error .type

/-- `ItemList(src, item_nums=y)`: the new numbers are checked against the length copied from the source -/
def copyNums {φ} (vt : Variant) (src : IL ι φ) (y : List Int) : Except Err (IL ι φ) :=
  if y.length = src.len then .ok { src with nums := some y, ids := none, ranks := keepRanks vt src y.length }
  else .error .type

/-- `ItemList(src, item_ids=x, item_nums=y)` -/
def copyBoth {φ} (vt : Variant) (src : IL ι φ) (x : List ι) (y : List Int) : Except Err (IL ι φ) :=
  if y.length ≠ x.length then .error .type
  else if !fieldsFit src.fields x.length then .error .type
  else
    let keepIds : Bool := match vt with | .asIs => src.ids.isNone | .repaired => true
    .ok { src with ids := if keepIds then some x else none, nums := some y, len := x.length, ranks := keepRanks vt src x.length }

/-- `ItemList(src, item_ids=x, vocabulary=v2)` -/
def copyIdsVocab {φ} (vt : Variant) (src : IL ι φ) (x : List ι) (v2 : Vocab ι) : Except Err (IL ι φ) :=
  match vt with
  | .asIs =>
    if src.vocab.isSome ∧ src.vocab ≠ some v2 ∧ src.nums.isSome then
      -- the vocabulary branch already dropped the numbers (after resolving the source's identifiers); the identifier branch drops them again
      match idsOf src with
      | .ok _ => .error .attribute
      | .error e => .error e
    else if fieldsFit src.fields x.length then
      .ok { src with ids := some x, nums := none, vocab := some v2, len := x.length, ranks := src.ranks }
    else .error .type
  | .repaired =>
    if fieldsFit src.fields x.length then
      .ok { src with ids := some x, nums := none, vocab := some v2, len := x.length, ranks := keepRanks .repaired src x.length }
    else .error .type

/-- `ItemList(src, name=False)` / `ItemList(src, name=values)` -/
def dropField {φ} (src : IL ι φ) (name : String) : IL ι φ := { src with fields := src.fields.filter (·.1 != name) }
def setField {φ} (src : IL ι φ) (name : String) (vals : List φ) : Except Err (IL ι φ) :=
  if vals.length = src.len then .ok { src with fields := (src.fields.filter (·.1 != name)) ++ [(name, vals)] } else .error .type

/-- alignment invariant -/
def Aligned {φ} (il : IL ι φ) : Prop :=
  (∀ i, il.ids = some i → i.length = il.len) ∧
  (∀ n, il.nums = some n → n.length = il.len) ∧
  (∀ nf ∈ il.fields, nf.2.length = il.len) ∧
  (∀ v i n, il.vocab = some v → il.ids = some i → il.nums = some n → n = i.map (numberOf v))

end LK.IL
