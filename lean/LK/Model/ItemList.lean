/-!
# C16 — `ItemList` construction, lazy identifier/number resolution, subsetting (core Lean only)

An item list stores identifiers and/or numbers, an optional vocabulary, fields of equal length and an
ordering flag; `ids()` / `numbers()` resolve the missing side lazily through the vocabulary and cache it.
`Variant.asIs` keeps the constructor as it stands (a replaced vocabulary leaves stale numbers);
`Variant.repaired` drops the numbers derived from the old vocabulary.
-/
namespace LK.IL

variable {ι : Type} [DecidableEq ι]

inductive Err | runtime | key | index | type | value deriving DecidableEq, Repr
inductive Variant | asIs | repaired deriving DecidableEq, Repr

abbrev Vocab (ι : Type) := List ι

def numberOf (v : Vocab ι) (x : ι) : Int :=
  let k := v.idxOf x
  if k < v.length then (k : Int) else -1

structure IL (ι φ : Type) where
  len : Nat
  ids : Option (List ι)
  nums : Option (List Int)
  vocab : Option (Vocab ι)
  fields : List (String × List φ)
  ordered : Bool

/-- `ItemList.ids()`: stored identifiers, or numbers mapped through the vocabulary (negative or out of range ⇒ `IndexError`) -/
def idsOf {φ} (il : IL ι φ) : Except Err (List ι) :=
  match il.ids with
  | some i => .ok i
  | none =>
    match il.vocab, il.nums with
    | some v, some n =>
      if n.any (fun k => k < 0 ∨ (v.length : Int) ≤ k) then .error .index
      else .ok (n.filterMap (fun k => v[k.toNat]?))
    | _, _ => .error .runtime

/-- state after `ids()` filled its cache -/
def cacheIds {φ} (il : IL ι φ) : IL ι φ :=
  match il.ids, idsOf il with
  | none, .ok i => { il with ids := some i }
  | _, _ => il

inductive Missing | error | negative deriving DecidableEq, Repr

/-- `ItemList.numbers(vocabulary=alt, missing=…)` -/
def numbersOf {φ} (il : IL ι φ) (alt : Option (Vocab ι)) (missing : Missing) : Except Err (List Int) :=
  let check (n : List Int) : Except Err (List Int) :=
    if missing = .error ∧ n.any (· < 0) then .error .key else .ok n
  match alt with
  | some a =>
    if il.vocab = some a then
      (match il.nums with
        | some n => check n
        | none => match il.ids with
          | some i => check (i.map (numberOf a))
          | none => .error .runtime)
    else
      match idsOf il with
      | .ok i => check (i.map (numberOf a))
      | .error e => .error e
  | none =>
    match il.nums with
    | some n => check n
    | none =>
      match il.vocab, il.ids with
      | some v, some i => check (i.map (numberOf v))
      | _, _ => .error .runtime

def cacheNums {φ} (il : IL ι φ) : IL ι φ :=
  match il.nums, il.vocab, il.ids with
  | none, some v, some i => { il with nums := some (i.map (numberOf v)) }
  | _, _, _ => il

/-- selection by positions (index arrays, masks and slices all reduce to a position list) -/
def pick {α} (l : List α) (sel : List Nat) : List α := sel.filterMap (fun k => l[k]?)

/-- `ItemList.__getitem__` -/
def getitem {φ} (il : IL ι φ) (sel : List Nat) : IL ι φ :=
  { len := sel.length,
    ids := il.ids.map (fun i => pick i sel),
    nums := il.nums.map (fun n => pick n sel),
    vocab := il.vocab,
    fields := il.fields.map (fun nf => (nf.1, pick nf.2 sel)),
    ordered := il.ordered }

/-- `ItemList(source, vocabulary=v2)` -/
def withVocab {φ} (vt : Variant) (src : IL ι φ) (v2 : Vocab ι) : Except Err (IL ι φ) :=
  match vt with
  | .asIs => .ok { src with vocab := some v2 }
  | .repaired =>
    if src.vocab = some v2 then .ok src
    else
      match idsOf src with
      | .ok i => .ok { src with vocab := some v2, ids := some i, nums := none }
      | .error e =>
        -- a list that only carries numbers and no vocabulary keeps its numbers
        match src.vocab with
        | none => .ok { src with vocab := some v2 }
        | some _ => .error e

/-- alignment invariant -/
def Aligned {φ} (il : IL ι φ) : Prop :=
  (∀ i, il.ids = some i → i.length = il.len) ∧
  (∀ n, il.nums = some n → n.length = il.len) ∧
  (∀ nf ∈ il.fields, nf.2.length = il.len) ∧
  (∀ v i n, il.vocab = some v → il.ids = some i → il.nums = some n → n = i.map (numberOf v))

end LK.IL
