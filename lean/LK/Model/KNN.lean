import LK.Prelude.Sort
/-!
# C09 — neighbourhood scoring of the item-based and user-based k-NN scorers (core Lean only)

A neighbour carries its identity, its similarity to the target and the (mean-centred) rating it
contributes.  `scoreDef` is the documented formula: among the qualifying neighbours take the `k` most
similar, none if fewer than `minNbrs` qualify; weighted average (explicit) or sum of similarities
(implicit).  The `…Impl` functions follow the two code paths of each scorer.
-/
namespace LK.KNN

abbrev Q := Rat
structure Nbr where
  j : Nat
  sim : Q
  r : Q
deriving DecidableEq, Repr

def leDesc (a b : Nbr) : Bool := decide (b.sim ≤ a.sim)
def sumQ (xs : List Q) : Q := xs.foldr (· + ·) 0

def aggregate (explicit : Bool) (ns : List Nbr) : Option Q :=
  let tot := sumQ (ns.map (·.sim))
  if explicit then (if tot = 0 then none else some (sumQ (ns.map (fun n => n.sim * n.r)) / tot))
  else some tot

def scoreDef (explicit : Bool) (k minNbrs : Nat) (nbrs : List Nbr) : Option Q :=
  if nbrs.length < minNbrs then none else aggregate explicit ((sortBy leDesc nbrs).take k)

/-- `ItemKNNScorer.__call__`: neighbourhoods that fit are used whole (sparse fast path), larger ones are
    densified and truncated with `topk` -/
def itemScoreImpl (explicit : Bool) (k minNbrs : Nat) (nbrs : List Nbr) : Option Q :=
  if nbrs.length < minNbrs then none
  else if nbrs.length ≤ k then aggregate explicit nbrs
  else aggregate explicit ((sortBy leDesc nbrs).take k)

/-- `score_items_with_neighbors`: all qualifying neighbours are sorted once by similarity; for an item
    the raters are picked in that order and entries past the first `k` are zeroed -/
def userScoreImpl (explicit : Bool) (k minNbrs : Nat) (allNbrs : List Nbr) (rated : Nbr → Bool) : Option Q :=
  let raters := (sortBy leDesc allNbrs).filter rated
  if raters.length < minNbrs then none else aggregate explicit (raters.take k)

def userScoreDef (explicit : Bool) (k minNbrs : Nat) (allNbrs : List Nbr) (rated : Nbr → Bool) : Option Q :=
  scoreDef explicit k minNbrs (allNbrs.filter rated)

/-! ### similarity rows -/

def dot (a b : List Q) : Q := sumQ (List.zipWith (· * ·) a b)

/-- one row of the item–item model: threshold, no self-similarity, clamp to 1 -/
def simRow (vecs : List (List Q)) (minSim : Q) (i : Nat) : List (Nat × Q) :=
  (List.range vecs.length).filterMap (fun j =>
    let s := dot (vecs.getD i []) (vecs.getD j [])
    if j ≠ i ∧ minSim ≤ s then some (j, if 1 < s then 1 else s) else none)

end LK.KNN

namespace LK.KNN

def leSim (a b : Nat × Q) : Bool := decide (b.2 ≤ a.2)
def leCol (a b : Nat × Q) : Bool := decide (a.1 ≤ b.1)

/-- `_sim_row` with `max_nbrs` (stored-neighbour limit): keep the `maxN` most similar entries, in column order -/
def simRowTrunc (vecs : List (List Q)) (minSim : Q) (maxN : Option Nat) (i : Nat) : List (Nat × Q) :=
  let row := simRow vecs minSim i
  match maxN with
  | some k => if 0 < k ∧ k < row.length then sortBy leCol ((sortBy leSim row).take k) else row
  | none => row

end LK.KNN
