/-!
# C04 — the gather / mask / scatter idiom shared by every scorer (core Lean only)

`nums = items.numbers(vocabulary=…, missing="negative")`, `mask = nums >= 0`,
`scores = full(n, nan)`, `scores[mask] = table[nums[mask]]`, result = input list with the score field replaced.
-/
namespace LK.Scatter

structure Item (φ : Type) where
  id : Nat
  fields : φ                      -- every other field of the row (rating, rank, extras …)
  score : Option Rat := none

/-- `scores[mask] = vals` : walk the mask, consuming the compacted values in order -/
def scatterMask {α} : List Bool → List α → List (Option α)
  | [], _ => []
  | false :: m, vs => none :: scatterMask m vs
  | true :: m, [] => none :: scatterMask m []
  | true :: m, v :: vs => some v :: scatterMask m vs

/-- the scorer skeleton: `num` resolves an item id against the training vocabulary, `tbl` is the
    model's per-number score (possibly missing) -/
def scoreList {φ} (num : Nat → Option Nat) (tbl : Nat → Option Rat) (L : List (Item φ)) : List (Item φ) :=
  let nums := L.map (fun it => num it.id)
  let mask := nums.map Option.isSome
  let compact := nums.filterMap id                    -- nums[mask]
  let vals := compact.map tbl                         -- table[nums[mask]]  (an entry may itself be missing)
  let scattered := scatterMask mask vals
  List.zipWith (fun it s => { it with score := s.bind id }) L scattered

/-- the `implicit` bridge's shortcut: multiply first against *all* items, then pick the wanted rows -/
def scoreListMultFirst {φ} (num : Nat → Option Nat) (tbl : Nat → Option Rat) (nItems : Nat) (L : List (Item φ)) : List (Item φ) :=
  let nums := L.map (fun it => num it.id)
  let mask := nums.map Option.isSome
  let compact := nums.filterMap id
  let all := (List.range nItems).map tbl              -- scores of every training item
  let vals := compact.map (fun k => (all.getD k none))
  let scattered := scatterMask mask vals
  List.zipWith (fun it s => { it with score := s.bind id }) L scattered

end LK.Scatter
