import LK.Model.Persist
/-! GENERATED on every run of `./check C15` (harness/lkv/props/c15.py `lean_save_trace`): the file-system steps the real
`DataContainer.save` performed — over a directory holding another dataset, and into a fresh directory — recorded at the
file-system primitives (remove / rmdir / mkdir / every file opened for writing); do not edit. -/
namespace LK.Gen.SaveTraceC15
open LK.Persist

def oldDs : DSd := { tag := 1, tables := ["item", "rating", "user", "tag"] }
def newDs : DSd := { tag := 2, tables := ["item", "rating", "user"] }
def delOrder : List FName := [FName.table "item", FName.table "rating", FName.schema, FName.summary, FName.table "tag", FName.table "user"]

def observedOverExisting : List Step :=
  [Step.rm (FName.table "item"),
   Step.rm (FName.table "rating"),
   Step.rm (FName.schema),
   Step.rm (FName.summary),
   Step.rm (FName.table "tag"),
   Step.rm (FName.table "user"),
   Step.rmdir,
   Step.mkdir,
   Step.write (FName.schema) (Content.schema newDs),
   Step.write (FName.table "item") (Content.table 2),
   Step.write (FName.table "rating") (Content.table 2),
   Step.write (FName.table "user") (Content.table 2),
   Step.write (FName.summary) (Content.summary)]

def observedFresh : List Step :=
  [Step.mkdir,
   Step.write (FName.schema) (Content.schema newDs),
   Step.write (FName.table "item") (Content.table 2),
   Step.write (FName.table "rating") (Content.table 2),
   Step.write (FName.table "user") (Content.table 2),
   Step.write (FName.summary) (Content.summary)]

end LK.Gen.SaveTraceC15
