import LK.Model.BatchWorker
/-! GENERATED on every run of `./check C12` (harness/lkv/props/c12.py `lean_batch_trace`): recorded from the running code; do not edit. -/
namespace LK.Gen.BatchTraceC12
open LK.BatchWorker

/-- registered by `runner.recommend(n=0); runner.predict(); runner.score()` -/
def observedInvocations : List Inv :=
  [{ comp := "recommender", output := "recommendations", testItems := false, extra := [("n", Arg.int (0))] },
   { comp := "rating-predictor", output := "predictions", testItems := true, extra := [] },
   { comp := "scorer", output := "scores", testItems := true, extra := [] }]

/-- the `run_all` calls of `_run_pipeline` for one user key with those invocations -/
def observedCalls : List Call :=
  [{ nodes := ["recommender"], inputs := [("n", Arg.int (0)), ("query", Arg.user)] },
   { nodes := ["rating-predictor"], inputs := [("items", Arg.testItems), ("query", Arg.user)] },
   { nodes := ["scorer"], inputs := [("items", Arg.testItems), ("query", Arg.user)] }]

/-- …for a key `(user_id, seq)` that carries more than the user -/
def observedCallsCompositeKey : List Call :=
  [{ nodes := ["recommender"], inputs := [("n", Arg.int (0)), ("query", Arg.user)] },
   { nodes := ["rating-predictor"], inputs := [("items", Arg.testItems), ("query", Arg.user)] },
   { nodes := ["scorer"], inputs := [("items", Arg.testItems), ("query", Arg.user)] }]

/-- …for a user whose test list is empty -/
def observedCallsEmptyTest : List Call :=
  [{ nodes := ["recommender"], inputs := [("n", Arg.int (0)), ("query", Arg.user)] },
   { nodes := ["rating-predictor"], inputs := [("items", Arg.testItems), ("query", Arg.user)] },
   { nodes := ["scorer"], inputs := [("items", Arg.testItems), ("query", Arg.user)] }]

/-- …and for a key without a user -/
def observedCallsNoUser : List Call :=
  [{ nodes := ["recommender"], inputs := [("n", Arg.int (0))] },
   { nodes := ["rating-predictor"], inputs := [("items", Arg.testItems)] },
   { nodes := ["scorer"], inputs := [("items", Arg.testItems)] }]

/-- the output names the worker filed its results under -/
def observedOutputs : List String := ["recommendations", "predictions", "scores"]

/-- what `batch.recommend(pipe, users, n)` registers for n = None, 0, 3 -/
def observedForwarding : List (List Inv) :=
  [[{ comp := "recommender", output := "recommendations", testItems := false, extra := [("n", Arg.none)] }],
   [{ comp := "recommender", output := "recommendations", testItems := false, extra := [("n", Arg.int (0))] }],
   [{ comp := "recommender", output := "recommendations", testItems := false, extra := [("n", Arg.int (3))] }]]

end LK.Gen.BatchTraceC12
