/-! Small shared instances. -/
namespace LK

instance instDecEqExcept {ε α : Type} [DecidableEq ε] [DecidableEq α] : DecidableEq (Except ε α)
  | .ok a, .ok b => if h : a = b then isTrue (by rw [h]) else isFalse (by intro h'; cases h'; exact h rfl)
  | .error a, .error b => if h : a = b then isTrue (by rw [h]) else isFalse (by intro h'; cases h'; exact h rfl)
  | .ok _, .error _ => isFalse (by intro h; cases h)
  | .error _, .ok _ => isFalse (by intro h; cases h)

end LK
