/-!
Structural (insertion) sort used by all models.

`List.mergeSort` is defined by well-founded recursion and does not reduce under `decide`, so
counterexample witnesses over models that sort could not be kernel-checked.  Insertion sort is
structurally recursive, stable, and its two facts (permutation, sortedness) are proved here once.
-/
namespace LK

variable {α : Type}

/-- insert `x` after every element `y` with `le y x` (stable) -/
def insertBy (le : α → α → Bool) (x : α) : List α → List α
  | [] => [x]
  | y :: ys => if le y x then y :: insertBy le x ys else x :: y :: ys

def sortBy (le : α → α → Bool) : List α → List α
  | [] => []
  | x :: xs => insertBy le x (sortBy le xs)

theorem insertBy_perm (le : α → α → Bool) (x : α) (l : List α) : (insertBy le x l).Perm (x :: l) := by
  induction l with
  | nil => exact List.Perm.refl _
  | cons y ys ih =>
    simp only [insertBy]
    split
    · exact ((ih.cons y).trans (List.Perm.swap x y ys))
    · exact List.Perm.refl _

theorem sortBy_perm (le : α → α → Bool) (l : List α) : (sortBy le l).Perm l := by
  induction l with
  | nil => exact List.Perm.refl _
  | cons x xs ih => exact (insertBy_perm le x _).trans (ih.cons x)

theorem sortBy_length (le : α → α → Bool) (l : List α) : (sortBy le l).length = l.length :=
  (sortBy_perm le l).length_eq

theorem mem_sortBy (le : α → α → Bool) (l : List α) (a : α) : a ∈ sortBy le l ↔ a ∈ l :=
  (sortBy_perm le l).mem_iff

theorem insertBy_pairwise (le : α → α → Bool)
    (trans : ∀ a b c, le a b → le b c → le a c) (total : ∀ a b, le a b || le b a)
    (x : α) (l : List α) (h : l.Pairwise (fun a b => le a b)) :
    (insertBy le x l).Pairwise (fun a b => le a b) := by
  induction l with
  | nil => simp [insertBy]
  | cons y ys ih =>
    have hy : ∀ b ∈ ys, le y b := (List.pairwise_cons.mp h).1
    have hys := (List.pairwise_cons.mp h).2
    simp only [insertBy]
    split
    · rename_i hyx
      refine List.pairwise_cons.mpr ⟨?_, ih hys⟩
      intro b hb
      have hb' := (insertBy_perm le x ys).mem_iff.mp hb
      simp only [List.mem_cons] at hb'
      rcases hb' with rfl | hb'
      · exact hyx
      · exact hy b hb'
    · rename_i hyx
      have hxy : le x y := by
        have := total y x
        simp only [Bool.or_eq_true] at this
        rcases this with h' | h'
        · exact absurd h' hyx
        · exact h'
      refine List.pairwise_cons.mpr ⟨?_, h⟩
      intro b hb
      simp only [List.mem_cons] at hb
      rcases hb with rfl | hb
      · exact hxy
      · exact trans x y b hxy (hy b hb)

theorem sortBy_pairwise (le : α → α → Bool)
    (trans : ∀ a b c, le a b → le b c → le a c) (total : ∀ a b, le a b || le b a) (l : List α) :
    (sortBy le l).Pairwise (fun a b => le a b) := by
  induction l with
  | nil => simp [sortBy]
  | cons x xs ih => exact insertBy_pairwise le trans total x _ ih

end LK

namespace LK
variable {α : Type}

/-- two strictly sorted lists with the same elements are equal -/
theorem eq_of_perm_of_strict (lt : α → α → Prop) (irrefl : ∀ a, ¬ lt a a) (asymm : ∀ a b, lt a b → ¬ lt b a) :
    ∀ (l l' : List α), l.Pairwise lt → l'.Pairwise lt → l.Perm l' → l = l' := by
  intro l
  induction l with
  | nil => intro l' _ _ hp; exact (List.Perm.nil_eq hp)
  | cons a as ih =>
    intro l' hs hs' hp
    cases l' with
    | nil => exact absurd hp.length_eq (by simp)
    | cons b bs =>
      have ha := List.pairwise_cons.mp hs
      have hb := List.pairwise_cons.mp hs'
      have hab : a = b := by
        have ha_in : a ∈ b :: bs := hp.mem_iff.mp List.mem_cons_self
        have hb_in : b ∈ a :: as := hp.mem_iff.mpr List.mem_cons_self
        rcases List.mem_cons.mp ha_in with h | h
        · exact h
        · rcases List.mem_cons.mp hb_in with h' | h'
          · exact h'.symm
          · exact absurd (ha.1 b h') (asymm b a (hb.1 a h))
      subst hab
      congr 1
      exact ih bs ha.2 hb.2 (List.Perm.cons_inv hp)

/-- sorting is insensitive to the order of the input when keys are distinct -/
theorem sortBy_perm_eq (le : α → α → Bool)
    (trans : ∀ a b c, le a b → le b c → le a c) (total : ∀ a b, le a b || le b a)
    (antisymm : ∀ a b, le a b → le b a → a = b)
    (l l' : List α) (hnd : l.Nodup) (hp : l.Perm l') : sortBy le l = sortBy le l' := by
  have hnd' : l'.Nodup := hp.nodup_iff.mp hnd
  have s1 := sortBy_pairwise le trans total l
  have s2 := sortBy_pairwise le trans total l'
  have n1 : (sortBy le l).Nodup := (sortBy_perm le l).nodup_iff.mpr hnd
  have n2 : (sortBy le l').Nodup := (sortBy_perm le l').nodup_iff.mpr hnd'
  have st1 : (sortBy le l).Pairwise (fun a b => le a b = true ∧ a ≠ b) := s1.and n1
  have st2 : (sortBy le l').Pairwise (fun a b => le a b = true ∧ a ≠ b) := s2.and n2
  apply eq_of_perm_of_strict (fun a b => le a b = true ∧ a ≠ b)
  · intro a h; exact h.2 rfl
  · intro a b h h'; exact h.2 (antisymm a b h.1 h'.1)
  · exact st1
  · exact st2
  · exact ((sortBy_perm le l).trans hp).trans (sortBy_perm le l').symm

end LK

namespace LK
variable {α : Type}

/-- a strictly ascending list is a fixed point of the sort -/
theorem sortBy_of_strict (le : α → α → Bool) (l : List α) (h : l.Pairwise (fun a b => le b a = false)) :
    sortBy le l = l := by
  induction l with
  | nil => rfl
  | cons x xs ih =>
    have hx := (List.pairwise_cons.mp h).1
    rw [sortBy, ih (List.pairwise_cons.mp h).2]
    cases xs with
    | nil => rfl
    | cons y ys =>
      simp only [insertBy]
      rw [hx y List.mem_cons_self]
      simp
end LK

namespace LK
variable {α : Type}

/-- inserting into a sorted list commutes with filtering -/
theorem filter_insertBy (le : α → α → Bool)
    (trans : ∀ a b c, le a b → le b c → le a c) (total : ∀ a b, le a b || le b a)
    (p : α → Bool) (x : α) (l : List α) (hs : l.Pairwise (fun a b => le a b)) :
    (insertBy le x l).filter p = if p x then insertBy le x (l.filter p) else l.filter p := by
  induction l with
  | nil => by_cases hp : p x <;> simp [insertBy, hp]
  | cons y ys ih =>
    have hy : ∀ b ∈ ys, le y b := (List.pairwise_cons.mp hs).1
    have ih' := ih (List.pairwise_cons.mp hs).2
    simp only [insertBy]
    by_cases hyx : le y x
    · simp only [hyx, if_true, List.filter_cons]
      by_cases hpy : p y
      · simp only [hpy, if_true, ih']
        by_cases hpx : p x
        · simp [hpx, insertBy, hyx]
        · simp [hpx]
      · simp only [hpy, ih']
        rfl
    · -- x goes in front of y; nothing later is ≤ x either
      have hxy : le x y := by
        have := total y x; simp only [Bool.or_eq_true] at this
        rcases this with h | h
        · exact absurd h hyx
        · exact h
      have hnone : ∀ b ∈ ys, le b x = false := by
        intro b hb
        cases hbx : le b x with
        | false => rfl
        | true => exact absurd (trans y b x (hy b hb) hbx) hyx
      rw [if_neg hyx]
      by_cases hpx : p x
      · by_cases hpy : p y
        · have hyxF : le y x = false := by simpa using hyx
          simp [List.filter_cons, hpx, hpy, insertBy, hyxF]
        · have hpyF : p y = false := by simpa using hpy
          simp only [List.filter_cons, hpx, hpyF, if_true, Bool.false_eq_true, if_false]
          cases hf : ys.filter p with
          | nil => simp [insertBy]
          | cons z zs =>
            have hz : z ∈ ys := (List.mem_filter.mp (by rw [hf]; exact List.mem_cons_self)).1
            simp [insertBy, hnone z hz]
      · have hpxF : p x = false := by simpa using hpx
        simp [List.filter_cons, hpxF]

/-- **a stable sort commutes with filtering** -/
theorem filter_sortBy (le : α → α → Bool)
    (trans : ∀ a b c, le a b → le b c → le a c) (total : ∀ a b, le a b || le b a)
    (p : α → Bool) (l : List α) : (sortBy le l).filter p = sortBy le (l.filter p) := by
  induction l with
  | nil => rfl
  | cons x xs ih =>
    simp only [sortBy]
    rw [filter_insertBy le trans total p x _ (sortBy_pairwise le trans total xs), ih]
    by_cases hp : p x <;> simp [hp, List.filter_cons, sortBy]

end LK

namespace LK
variable {α : Type}

/-- two sorted lists with the same elements are equal when `le` is antisymmetric *on those elements* -/
theorem eq_of_perm_of_sorted_on (le : α → α → Bool) :
    ∀ (l l' : List α), (∀ a ∈ l, ∀ b ∈ l, le a b → le b a → a = b) →
      l.Pairwise (fun a b => le a b) → l'.Pairwise (fun a b => le a b) → l.Perm l' → l = l' := by
  intro l
  induction l with
  | nil => intro l' _ _ _ hp; exact (List.Perm.nil_eq hp)
  | cons a as ih =>
    intro l' hanti hs hs' hp
    cases l' with
    | nil => exact absurd hp.length_eq (by simp)
    | cons b bs =>
      have ha := List.pairwise_cons.mp hs
      have hb := List.pairwise_cons.mp hs'
      have ha_in : a ∈ b :: bs := hp.mem_iff.mp List.mem_cons_self
      have hb_in : b ∈ a :: as := hp.mem_iff.mpr List.mem_cons_self
      have hab : a = b := by
        rcases List.mem_cons.mp ha_in with h | h
        · exact h
        · rcases List.mem_cons.mp hb_in with h' | h'
          · exact h'.symm
          · exact hanti a List.mem_cons_self b hb_in (ha.1 b h') (hb.1 a h)
      subst hab
      congr 1
      exact ih bs (fun x hx y hy => hanti x (List.mem_cons_of_mem _ hx) y (List.mem_cons_of_mem _ hy)) ha.2 hb.2
        (List.Perm.cons_inv hp)

theorem sortBy_perm_eq_on (le : α → α → Bool)
    (trans : ∀ a b c, le a b → le b c → le a c) (total : ∀ a b, le a b || le b a)
    (l l' : List α) (hanti : ∀ a ∈ l, ∀ b ∈ l, le a b → le b a → a = b) (hp : l.Perm l') :
    sortBy le l = sortBy le l' := by
  apply eq_of_perm_of_sorted_on le
  · intro a ha b hb; exact hanti a ((mem_sortBy le l a).mp ha) b ((mem_sortBy le l b).mp hb)
  · exact sortBy_pairwise le trans total l
  · exact sortBy_pairwise le trans total l'
  · exact ((sortBy_perm le l).trans hp).trans (sortBy_perm le l').symm

end LK
