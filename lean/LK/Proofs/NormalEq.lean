import Mathlib.Data.Matrix.Mul
import Mathlib.LinearAlgebra.Matrix.DotProduct
import Mathlib.Tactic.Ring
import Mathlib.Tactic.Linarith
import Mathlib.Tactic.Positivity
import Mathlib.Tactic.Abel

/-! C10 — a solution of the normal equations is the unique minimiser of the regularised least-squares objective. -/
namespace LK.NormalEq
open Matrix

variable {m n : Type} [Fintype m] [Fintype n] [DecidableEq n]
variable {K : Type} [Field K] [LinearOrder K] [IsStrictOrderedRing K]

/-- regularised least-squares objective of one ALS row: ‖r − M x‖² + c‖x‖² -/
def obj (M : Matrix m n K) (r : m → K) (c : K) (x : n → K) : K :=
  (r - M *ᵥ x) ⬝ᵥ (r - M *ᵥ x) + c * (x ⬝ᵥ x)

/-- the normal equations the code solves: (MᵀM + c I) x = Mᵀ r -/
def NormalEq (M : Matrix m n K) (r : m → K) (c : K) (x : n → K) : Prop :=
  (Mᵀ * M + c • (1 : Matrix n n K)) *ᵥ x = Mᵀ *ᵥ r

omit [DecidableEq n] in
theorem sub_dot_self (u b : n → K) : (u - b) ⬝ᵥ (u - b) = u ⬝ᵥ u - 2 * (b ⬝ᵥ u) + b ⬝ᵥ b := by
  simp only [sub_dotProduct, dotProduct_sub, dotProduct_comm u b]; ring
omit [DecidableEq n] in
theorem add_dot_self (u b : n → K) : (u + b) ⬝ᵥ (u + b) = u ⬝ᵥ u + 2 * (b ⬝ᵥ u) + b ⬝ᵥ b := by
  simp only [add_dotProduct, dotProduct_add, dotProduct_comm u b]; ring
omit [DecidableEq n] in
theorem dot_self_nonneg (v : n → K) : 0 ≤ v ⬝ᵥ v :=
  Finset.sum_nonneg (fun i _ => mul_self_nonneg (v i))

theorem obj_diff (M : Matrix m n K) (r : m → K) (c : K) (x h : n → K) :
    obj M r c (x + h) - obj M r c x
      = 2 * (h ⬝ᵥ ((Mᵀ * M + c • (1 : Matrix n n K)) *ᵥ x - Mᵀ *ᵥ r))
        + ((M *ᵥ h) ⬝ᵥ (M *ᵥ h) + c * (h ⬝ᵥ h)) := by
  have e1 : h ⬝ᵥ (Mᵀ * M) *ᵥ x = (M *ᵥ h) ⬝ᵥ (M *ᵥ x) := by
    rw [← mulVec_mulVec, dotProduct_mulVec, vecMul_transpose]
  have e2 : h ⬝ᵥ Mᵀ *ᵥ r = (M *ᵥ h) ⬝ᵥ r := by
    rw [dotProduct_mulVec, vecMul_transpose]
  have e3 : h ⬝ᵥ ((Mᵀ * M + c • (1 : Matrix n n K)) *ᵥ x - Mᵀ *ᵥ r)
      = (M *ᵥ h) ⬝ᵥ (M *ᵥ x) + c * (h ⬝ᵥ x) - (M *ᵥ h) ⬝ᵥ r := by
    rw [dotProduct_sub, add_mulVec, dotProduct_add, e1, e2, smul_mulVec, one_mulVec,
      dotProduct_smul, smul_eq_mul]
  rw [e3]
  unfold obj
  rw [mulVec_add]
  set a := M *ᵥ x
  set b := M *ᵥ h
  have c1 : (r - (a + b)) ⬝ᵥ (r - (a + b))
      = (r - a) ⬝ᵥ (r - a) - 2 * (b ⬝ᵥ (r - a)) + b ⬝ᵥ b := by
    rw [← sub_sub]; exact sub_dot_self (r - a) b
  have c3 : b ⬝ᵥ (r - a) = b ⬝ᵥ r - b ⬝ᵥ a := dotProduct_sub b r a
  rw [c1, add_dot_self x h, c3]
  ring

/-- a solution of the normal equations is a global minimiser (c ≥ 0) -/
theorem normalEq_isMin (M : Matrix m n K) (r : m → K) (c : K) (hc : 0 ≤ c) (x : n → K)
    (hx : NormalEq M r c x) (y : n → K) : obj M r c x ≤ obj M r c y := by
  have h := obj_diff M r c x (y - x)
  rw [add_sub_cancel] at h
  unfold NormalEq at hx
  rw [hx, sub_self, dotProduct_zero, mul_zero, zero_add] at h
  have h1 : 0 ≤ (M *ᵥ (y - x)) ⬝ᵥ (M *ᵥ (y - x)) := dot_self_nonneg _
  have h2 : 0 ≤ (y - x) ⬝ᵥ (y - x) := dot_self_nonneg _
  have : 0 ≤ obj M r c y - obj M r c x := by rw [h]; positivity
  linarith

/-- and it is the only one when c > 0 -/
theorem normalEq_unique_min (M : Matrix m n K) (r : m → K) (c : K) (hc : 0 < c) (x : n → K)
    (hx : NormalEq M r c x) (y : n → K) (hy : obj M r c y ≤ obj M r c x) : y = x := by
  have h := obj_diff M r c x (y - x)
  rw [add_sub_cancel] at h
  unfold NormalEq at hx
  rw [hx, sub_self, dotProduct_zero, mul_zero, zero_add] at h
  have h1 : 0 ≤ (M *ᵥ (y - x)) ⬝ᵥ (M *ᵥ (y - x)) := dot_self_nonneg _
  have h2 : 0 ≤ (y - x) ⬝ᵥ (y - x) := dot_self_nonneg _
  have h3 : c * ((y - x) ⬝ᵥ (y - x)) ≤ 0 := by linarith
  have h4 : (y - x) ⬝ᵥ (y - x) = 0 := by
    have : (y - x) ⬝ᵥ (y - x) ≤ 0 := by
      by_contra hn
      push Not at hn
      have := mul_pos hc hn
      linarith
    exact le_antisymm this h2
  have := dotProduct_self_eq_zero.mp h4
  exact sub_eq_zero.mp this

#print axioms normalEq_unique_min

end LK.NormalEq

namespace LK.NormalEq
open Matrix
variable {m n : Type} [Fintype m] [Fintype n] [DecidableEq n]
variable {K : Type} [Field K]

/-- executable residual; zero exactly when the normal equations hold -/
def resid (M : Matrix m n K) (r : m → K) (c : K) (x : n → K) : n → K :=
  (Mᵀ * M + c • (1 : Matrix n n K)) *ᵥ x - Mᵀ *ᵥ r

theorem resid_zero_iff [LinearOrder K] [IsStrictOrderedRing K] (M : Matrix m n K) (r : m → K) (c : K) (x : n → K) :
    resid M r c x = 0 ↔ NormalEq M r c x := by
  unfold resid NormalEq; exact sub_eq_zero
end LK.NormalEq
