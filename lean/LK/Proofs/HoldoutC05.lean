import LK.Generated.HoldoutC05
/-!
# C05 — the holdout methods, as translated from the source, are the model's
-/
set_option linter.unusedSimpArgs false
namespace LK.HoldoutOps
open LK.Split LK.Gen.HoldoutC05

theorem argsort_length (times : List Int) : (npArgsort times).length = times.length := by
  unfold npArgsort argsortBy
  generalize (fun i => times.getD i 0) = key
  have ins : ∀ (i : Nat) (l : List Nat), (insertByKey key i l).length = l.length + 1 := by
    intro i l
    induction l with
    | nil => rfl
    | cons j js ih => simp only [insertByKey]; split <;> simp [ih]
  have : ∀ (l : List Nat), (l.foldr (fun i acc => insertByKey key i acc) []).length = l.length := by
    intro l
    induction l with
    | nil => rfl
    | cons a l ih => simp only [List.foldr_cons, ins, ih, List.length_cons]
  rw [this, List.length_range]

/-- **C05:** `LastN.__call__` is the model's (repaired) `lastN`: every row when there are at most `n`, otherwise the `n` latest — in
    particular none when `n = 0` -/
theorem lastNCall_eq (times : List Int) (n : Nat) : lastNCall times n = lastN .repaired times n := by
  unfold lastNCall lastN
  by_cases h : times.length ≤ n
  · simp [h]
  · simp only [h, if_false]
    have hl := argsort_length times
    have hk : (0 : Int) ≤ ((npArgsort times).length : Int) - (n : Int) := by omega
    have e : argsortBy (fun i => times.getD i 0) times.length = npArgsort times := rfl
    rw [e]
    simp only [pySliceFrom, hk, if_true, lastTake]
    congr 1
    omega

/-- `LastFrac.__call__`: the `nFrac` latest rows (all of them when `nFrac` exceeds their number) -/
theorem lastFracCall_eq (times : List Int) (k : Nat) (hk : k ≤ times.length) :
    lastFracCall times k = lastTake (argsortBy (fun i => times.getD i 0) times.length) k := by
  unfold lastFracCall
  have hl := argsort_length times
  have h0 : (0 : Int) ≤ ((npArgsort times).length : Int) - (k : Int) := by omega
  have e : argsortBy (fun i => times.getD i 0) times.length = npArgsort times := rfl
  rw [e]
  simp only [pySliceFrom, h0, if_true, lastTake]
  congr 1
  omega

/-- `SampleN.__call__`: every row when there are at most `n`, otherwise exactly the positions the generator picked -/
theorem sampleNCall_spec (times : List Int) (n : Nat) (picks : List Nat) :
    sampleNCall times n picks = (if times.length ≤ n then List.range times.length else picks) := by
  unfold sampleNCall; split <;> rfl

theorem sampleFracCall_spec (times : List Int) (k : Nat) (picks : List Nat) : sampleFracCall times k picks = picks := rfl

end LK.HoldoutOps
