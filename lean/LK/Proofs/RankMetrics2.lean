import LK.Proofs.RankMetrics
/-! C06 — metric-level consequences: ranges, ideal rankings, swaps. -/
namespace LK.Metric

/-! ### ranges -/

theorem precision_bounds (k : Option Nat) (L : List Nat) (T : List (Nat × Q)) (v : Q)
    (h : precision k L T = some v) : 0 ≤ v ∧ v ≤ 1 := by
  simp only [precision] at h
  by_cases he : (good k L T).isEmpty
  · simp [he] at h
  · simp only [he] at h
    simp only [Bool.false_eq_true, if_false, Option.some.injEq] at h
    subst h
    have hlen : 0 < (good k L T).length := by
      cases hg : good k L T with
      | nil => simp [hg] at he
      | cons _ _ => simp
    have hpos : (0 : Q) < ((good k L T).length : Q) := by exact_mod_cast hlen
    have hc : ((countTrue (good k L T) : Nat) : Q) ≤ ((good k L T).length : Q) := by
      exact_mod_cast countTrue_le_length _
    exact ⟨by positivity, by rw [div_le_one hpos]; exact hc⟩

theorem hit_values (k : Option Nat) (L : List Nat) (T : List (Nat × Q)) (v : Q)
    (h : hit k L T = some v) : v = 0 ∨ v = 1 := by
  simp only [hit] at h
  by_cases he : T.isEmpty
  · simp [he] at h
  · simp only [he, Bool.false_eq_true, if_false, Option.some.injEq] at h
    subst h
    by_cases ha : (good k L T).any id <;> simp [ha]

theorem recipRank_bounds (k : Option Nat) (L : List Nat) (T : List (Nat × Q)) (v : Q)
    (h : recipRank k L T = some v) : 0 ≤ v ∧ v ≤ 1 := by
  simp only [recipRank] at h
  by_cases he : T.isEmpty
  · simp [he] at h
  · simp only [he, Bool.false_eq_true, if_false] at h
    cases hf : firstTrue (good k L T) with
    | none => simp [hf] at h; subst h; norm_num
    | some p =>
      simp only [hf, Option.some.injEq] at h
      subst h
      have hp : (0 : Q) ≤ (p : Q) := by positivity
      have h1 : (0 : Q) < (p : Q) + 1 := by linarith
      constructor
      · positivity
      · rw [div_le_one h1]; linarith

/-- the first relevant position really is the first: nothing before it is relevant, it is -/
theorem firstTrue_spec (bs : List Bool) (p : Nat) (h : firstTrue bs = some p) :
    bs[p]? = some true ∧ ∀ j, j < p → bs[j]? = some false := by
  induction bs generalizing p with
  | nil => simp [firstTrue] at h
  | cons b bs ih =>
    cases b with
    | true =>
      simp only [firstTrue, Option.some.injEq] at h
      subst h
      exact ⟨by simp, by intro j hj; omega⟩
    | false =>
      simp only [firstTrue, Option.map_eq_some_iff] at h
      obtain ⟨p', hp', rfl⟩ := h
      obtain ⟨h1, h2⟩ := ih p' hp'
      refine ⟨by simpa using h1, ?_⟩
      intro j hj
      cases j with
      | zero => simp
      | succ j => simpa using h2 j (by omega)

theorem firstTrue_none (bs : List Bool) (h : firstTrue bs = none) : ∀ b ∈ bs, b = false := by
  induction bs with
  | nil => simp
  | cons b bs ih =>
    cases b with
    | true => simp [firstTrue] at h
    | false =>
      simp only [firstTrue, Option.map_eq_none_iff] at h
      intro x hx
      rcases List.mem_cons.mp hx with rfl | hx
      · rfl
      · exact ih h x hx

/-! ### geometric weights -/

theorem powQ_nonneg (a : Q) (ha : 0 ≤ a) (n : Nat) : 0 ≤ powQ a n := by
  induction n with
  | zero => simp [powQ]
  | succ n ih => simp only [powQ]; positivity

theorem powQ_antitone (a : Q) (ha0 : 0 ≤ a) (ha1 : a ≤ 1) (m n : Nat) (h : m ≤ n) : powQ a n ≤ powQ a m := by
  induction n with
  | zero =>
    have : m = 0 := by omega
    subst this; exact le_refl _
  | succ n ih =>
    rcases Nat.lt_or_ge m (n + 1) with hlt | hge
    · have h1 := ih (by omega)
      have h2 : powQ a (n + 1) ≤ powQ a n := by
        simp only [powQ]
        have := powQ_nonneg a ha0 n
        nlinarith
      linarith
    · have : m = n + 1 := by omega
      subst this; exact le_refl _

/-- closed form of the geometric prefix: `(1 − a) · Σ_{s ≤ r < s+n} a^r = a^s − a^(s+n)` -/
theorem geom_prefix (a : Q) (s n : Nat) :
    wsumFrom (powQ a) s (List.replicate n 1) * (1 - a) = powQ a s - powQ a (s + n) := by
  induction n generalizing s with
  | zero => simp [wsumFrom]
  | succ n ih =>
    simp only [List.replicate_succ, wsumFrom, mul_one]
    have h := ih (s + 1)
    have e : s + 1 + n = s + (n + 1) := by omega
    rw [e] at h
    have hp : powQ a (s + 1) = a * powQ a s := rfl
    rw [add_mul, h, hp]; ring

theorem indicator_le_ones (w : Nat → Q) (hw : ∀ p, 0 ≤ w p) (s : Nat) (bs : List Bool) :
    wsumFrom w s (indicator bs) ≤ wsumFrom w s (List.replicate bs.length 1) := by
  induction bs generalizing s with
  | nil => simp [indicator, wsumFrom]
  | cons b bs ih =>
    simp only [indicator, List.map_cons, wsumFrom, List.length_cons, List.replicate_succ, mul_one] at ih ⊢
    have := ih (s + 1)
    have := hw s
    cases b <;> simp <;> linarith

theorem indicator_nonneg (w : Nat → Q) (hw : ∀ p, 0 ≤ w p) (s : Nat) (bs : List Bool) :
    0 ≤ wsumFrom w s (indicator bs) := by
  apply wsumFrom_nonneg _ _ _ hw
  intro x hx
  simp only [indicator, List.mem_map] at hx
  obtain ⟨b, _, rfl⟩ := hx
  cases b <;> norm_num

/-- **C06 (plain RBP ∈ [0, 1])** for patience in [0, 1] -/
theorem rbp_plain_bounds (k : Option Nat) (pat : Q) (h0 : 0 ≤ pat) (h1 : pat ≤ 1) (L : List Nat) (T : List (Nat × Q))
    (v : Q) (h : rbp k pat false L T = some v) : 0 ≤ v ∧ v ≤ 1 := by
  simp only [rbp] at h
  by_cases he : T.isEmpty
  · simp [he] at h
  · simp only [he, Bool.false_eq_true, if_false, Option.some.injEq] at h
    subst h
    have hw := powQ_nonneg pat h0
    have hs := indicator_nonneg (powQ pat) hw 0 (good k L T)
    have hle := indicator_le_ones (powQ pat) hw 0 (good k L T)
    have hg := geom_prefix pat 0 (good k L T).length
    have hpn := hw (0 + (good k L T).length)
    have hp0 : powQ pat 0 = 1 := rfl
    have h1p : 0 ≤ 1 - pat := by linarith
    constructor
    · exact mul_nonneg hs h1p
    · have := mul_le_mul_of_nonneg_right hle h1p
      rw [hg, hp0] at this
      linarith

/-- **C06 (normalised RBP ∈ [0, 1])** -/
theorem rbp_norm_bounds (k : Option Nat) (pat : Q) (h0 : 0 ≤ pat) (h1 : pat ≤ 1) (L : List Nat) (T : List (Nat × Q))
    (hL : L.Nodup) (v : Q) (h : rbp k pat true L T = some v) : 0 ≤ v ∧ v ≤ 1 := by
  simp only [rbp] at h
  by_cases he : T.isEmpty
  · simp [he] at h
  · simp only [he, Bool.false_eq_true, if_false, if_true, qdiv] at h
    by_cases hz : wsumFrom (powQ pat) 0 (List.replicate (min T.length (good k L T).length) 1) = 0
    · simp [hz] at h
    · simp only [hz, if_false, Option.some.injEq] at h
      subst h
      have hw := powQ_nonneg pat h0
      have hanti : ∀ a b, a ≤ b → powQ pat b ≤ powQ pat a := fun a b hab => powQ_antitone pat h0 h1 a b hab
      have hs := indicator_nonneg (powQ pat) hw 0 (good k L T)
      have hm := masked_le_prefix (powQ pat) hanti 0 (good k L T)
      have hc : countTrue (good k L T) ≤ min T.length (good k L T).length :=
        Nat.le_min.mpr ⟨countTrue_good_le k L T hL, countTrue_le_length _⟩
      have hp := prefix_mono (powQ pat) hw 0 _ _ hc
      have hden_nonneg : 0 ≤ wsumFrom (powQ pat) 0 (List.replicate (min T.length (good k L T).length) 1) :=
        wsumFrom_nonneg _ _ _ hw (by intro x hx; simp [List.mem_replicate] at hx; rw [hx.2]; norm_num)
      have hpos := lt_of_le_of_ne hden_nonneg (Ne.symm hz)
      exact ⟨div_nonneg hs hden_nonneg, by rw [div_le_one hpos]; exact le_trans hm hp⟩

/-! ### ideal rankings -/

theorem wsumFrom_zeros (w : Nat → Q) (s d : Nat) : wsumFrom w s (List.replicate d 0) = 0 := by
  induction d generalizing s with
  | zero => simp [wsumFrom]
  | succ d ih => simp only [List.replicate_succ, wsumFrom, mul_zero, zero_add]; exact ih (s + 1)

theorem indicator_prefix (w : Nat → Q) (s c d : Nat) :
    wsumFrom w s (indicator (List.replicate c true ++ List.replicate d false)) = wsumFrom w s (List.replicate c 1) := by
  induction c generalizing s with
  | zero =>
    simp only [List.replicate_zero, List.nil_append, wsumFrom, indicator, List.map_replicate]
    simpa using wsumFrom_zeros w s d
  | succ c ih =>
    simp only [List.replicate_succ, List.cons_append, indicator, List.map_cons, wsumFrom, if_true] at ih ⊢
    rw [ih]

theorem countTrue_prefix (c d : Nat) : countTrue (List.replicate c true ++ List.replicate d false) = c := by
  simp [countTrue, List.filter_append]

/-- a ranking is ideal at `k` when its first `min(|T|, k)` entries are relevant and nothing after them is -/
def Ideal (k : Option Nat) (L : List Nat) (T : List (Nat × Q)) : Prop :=
  ∃ d, good k L T = List.replicate (nrelCap k T) true ++ List.replicate d false

/-- **C06 (ideal ⇒ 1):** binary nDCG of an ideal ranking -/
theorem ndcg_binary_ideal (k : Option Nat) (disc : Nat → Q) (L : List Nat) (T : List (Nat × Q))
    (hI : Ideal k L T) (v : Q) (h : ndcg k disc true L T = some v) : v = 1 := by
  obtain ⟨d, hd⟩ := hI
  simp only [ndcg, if_true, qdiv] at h
  by_cases hz : fixedDcg disc (nrelCap k T) = 0
  · simp [hz] at h
  · simp only [hz, if_false, Option.some.injEq] at h
    subst h
    rw [gainsOf_binary, hd]
    unfold arrayDcg
    rw [indicator_prefix]
    exact div_self hz

theorem recall_ideal (k : Option Nat) (L : List Nat) (T : List (Nat × Q))
    (hI : Ideal k L T) (v : Q) (h : recall k L T = some v) : v = 1 := by
  obtain ⟨d, hd⟩ := hI
  simp only [recall, qdiv] at h
  by_cases hz : ((nrelCap k T : Nat) : Q) = 0
  · simp [hz] at h
  · simp only [hz, if_false, Option.some.injEq] at h
    subst h
    rw [hd, countTrue_prefix]
    exact div_self hz

/-- normalised RBP of an ideal ranking that is at least as long as the relevant set allows -/
theorem rbp_norm_ideal (k : Option Nat) (pat : Q) (L : List Nat) (T : List (Nat × Q))
    (hI : Ideal k L T) (hlen : min T.length (good k L T).length = nrelCap k T) (v : Q)
    (h : rbp k pat true L T = some v) : v = 1 := by
  obtain ⟨d, hd⟩ := hI
  simp only [rbp] at h
  by_cases he : T.isEmpty
  · simp [he] at h
  · simp only [he, Bool.false_eq_true, if_false, if_true, qdiv, hlen] at h
    by_cases hz : wsumFrom (powQ pat) 0 (List.replicate (nrelCap k T) 1) = 0
    · simp [hz] at h
    · simp only [hz, if_false, Option.some.injEq] at h
      subst h
      rw [hd, indicator_prefix]
      exact div_self hz

/-! ### swaps at the metric level -/

theorem map_swapAt {α β} (f : α → β) (l : List α) (p q : Nat) (hp : p < l.length) (hq : q < l.length) :
    (swapAt l p q hp hq).map f = swapAt (l.map f) p q (by simpa using hp) (by simpa using hq) := by
  simp [swapAt, List.map_set]

/-- **C06 (swap, inside the evaluated prefix):** exchanging the entry at `p` with a better one at `q > p`
    never lowers a weighted-gain metric with antitone weights -/
theorem gains_swap_mono (w : Nat → Q) (hanti : ∀ a b, a ≤ b → w b ≤ w a) (f : Nat → Q) (l : List Nat)
    (p q : Nat) (hp : p < l.length) (hq : q < l.length) (hpq : p < q) (hg : f l[p] ≤ f l[q]) :
    wsumFrom w 0 (l.map f) ≤ wsumFrom w 0 ((swapAt l p q hp hq).map f) := by
  rw [map_swapAt]
  apply wsumFrom_swap_mono w 0 (l.map f) p q (by simpa using hp) (by simpa using hq) hpq
  · simpa using hanti p q (Nat.le_of_lt hpq)
  · simpa using hg

/-- **C06 (swap, across the cutoff):** replacing the entry at `p` by a better item never lowers it either -/
theorem gains_replace_mono (w : Nat → Q) (hw : ∀ p, 0 ≤ w p) (f : Nat → Q) (l : List Nat)
    (p : Nat) (hp : p < l.length) (x : Nat) (hg : f l[p] ≤ f x) :
    wsumFrom w 0 (l.map f) ≤ wsumFrom w 0 ((l.set p x).map f) := by
  rw [List.map_set, wsumFrom_set w 0 (l.map f) p (by simpa using hp)]
  have : 0 ≤ w (0 + p) * (f x - (l.map f)[p]'(by simpa using hp)) := by
    apply mul_nonneg (hw _)
    simp only [List.getElem_map]; linarith
  linarith

#print axioms precision_bounds
#print axioms recipRank_bounds
#print axioms rbp_plain_bounds
#print axioms rbp_norm_bounds
#print axioms ndcg_binary_ideal
#print axioms recall_ideal
#print axioms rbp_norm_ideal
#print axioms gains_swap_mono
#print axioms gains_replace_mono
end LK.Metric
