import LK.Model.Temporal
import LK.Proofs.Split
/-! # C05 — temporal splitting: zone independence of the repaired conversion, windows of a cut sequence -/
namespace LK.Split

/-- **C05 (time zones):** for a cut-off given as UNIX seconds, or in the column's own representation, the repaired
    conversion does not depend on the process's zone -/
theorem conformCutV_tz_independent (tz : Int) (col given : TRepr) (x : Int) (h : given = .unix ∨ given = col) :
    conformCutV .repaired tz col given x = conformCutV .repaired 0 col given x := by
  cases col <;> cases given <;> simp [conformCutV] at h ⊢

/-- … and it is the instant itself -/
theorem conformCutV_exact (tz : Int) (col given : TRepr) (x : Int) (h : given = .unix ∨ given = col) :
    conformCutV .repaired tz col given x = x := by
  cases col <;> cases given <;> simp [conformCutV] at h ⊢

theorem conformEndV_repaired_some (tz : Int) (col given : TRepr) (x : Int) :
    ∃ e, conformEndV .repaired tz col given x = some e := ⟨_, rfl⟩

/-- as it stands the zone leaks in exactly one configuration (UNIX seconds against a date-time column) … -/
theorem conformCutV_asIs_partial (tz : Int) (col given : TRepr) (x : Int) (h : given = .unix ∨ given = col)
    (hne : ¬ (col = .naive ∧ given = .unix)) : conformCutV .asIs tz col given x = x := by
  cases col <;> cases given <;> simp [conformCutV] at h hne ⊢
example : conformCutV .asIs (-21600) .naive .unix 100 ≠ 100 := by decide
/-- … and an `end` in another representation than the column makes the call raise -/
example : conformEndV .asIs 0 .naive .unix 100 = none := by decide

theorem splitGlobalTime_tz_independent {β} (tz : Int) (col : TRepr) (recs : List (IRec β))
    (cuts : List (TRepr × Int)) (endT : Option (TRepr × Int))
    (hc : ∀ c ∈ cuts, c.1 = .unix ∨ c.1 = col) (he : ∀ e, endT = some e → e.1 = .unix ∨ e.1 = col) :
    splitGlobalTime .repaired tz col recs cuts endT = splitGlobalTime .repaired 0 col recs cuts endT := by
  have hcs : cuts.map (fun c => conformCutV .repaired tz col c.1 c.2) = cuts.map (fun c => conformCutV .repaired 0 col c.1 c.2) :=
    List.map_congr_left (fun c hcm => conformCutV_tz_independent tz col c.1 c.2 (hc c hcm))
  unfold splitGlobalTime
  cases endT with
  | none => simp only [hcs]
  | some e =>
    obtain ⟨g, x⟩ := e
    simp only [conformEndV, hcs, conformCutV_tz_independent tz col g x (he (g, x) rfl)]

/-- every split of a cut sequence: training = strictly before its cut -/
theorem temporalSplits_train {β} (recs : List (IRec β)) : ∀ (cs : List Int) (e : Option Int) (i : Nat) (c : Int),
    cs[i]? = some c → ∃ s, (temporalSplits recs cs e)[i]? = some s ∧ s.1 = recs.filter (fun r => decide (r.t < c))
  | [], _, i, c, h => by simp at h
  | [c0], e, i, c, h => by
    cases i with
    | zero => simp at h; subst h; exact ⟨_, rfl, rfl⟩
    | succ i => simp at h
  | c0 :: c1 :: cs, e, i, c, h => by
    cases i with
    | zero => simp at h; subst h; exact ⟨temporalSplit recs c0 (some c1), by simp [temporalSplits], rfl⟩
    | succ i =>
      have := temporalSplits_train recs (c1 :: cs) e i c (by simpa using h)
      obtain ⟨s, hs, hs'⟩ := this
      exact ⟨s, by simpa [temporalSplits] using hs, hs'⟩

/-- every split of a cut sequence: test = the window from its cut to the next cut (or `end` for the last) -/
theorem temporalSplits_test {β} (recs : List (IRec β)) : ∀ (cs : List Int) (e : Option Int) (i : Nat) (c : Int),
    cs[i]? = some c → ∃ s, (temporalSplits recs cs e)[i]? = some s ∧
      s.2 = (temporalSplit recs c (match cs[i+1]? with | some c' => some c' | none => e)).2
  | [], _, i, c, h => by simp at h
  | [c0], e, i, c, h => by
    cases i with
    | zero => simp at h; subst h; exact ⟨_, rfl, by simp⟩
    | succ i => simp at h
  | c0 :: c1 :: cs, e, i, c, h => by
    cases i with
    | zero => simp at h; subst h; exact ⟨temporalSplit recs c0 (some c1), by simp [temporalSplits], by simp⟩
    | succ i =>
      have := temporalSplits_test recs (c1 :: cs) e i c (by simpa using h)
      obtain ⟨s, hs, hs'⟩ := this
      exact ⟨s, by simpa [temporalSplits] using hs, by simpa using hs'⟩

theorem temporalSplits_length {β} (recs : List (IRec β)) : ∀ (cs : List Int) (e : Option Int),
    (temporalSplits recs cs e).length = cs.length
  | [], _ => rfl
  | [_], _ => rfl
  | _ :: c1 :: cs, e => by simp [temporalSplits, temporalSplits_length recs (c1 :: cs) e]

#print axioms splitGlobalTime_tz_independent
#print axioms temporalSplits_test
end LK.Split
