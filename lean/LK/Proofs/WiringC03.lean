import LK.Model.Wiring
import LK.Generated.WiringC03
/-!
# C03 — the hand-written recommendation model is the denotation of the wiring lenskit builds
(`LK.Gen.WiringC03` is regenerated from `topn_pipeline` / `predict_pipeline` on every run of `./check C03`.)
-/
set_option linter.unusedSimpArgs false
namespace LK.Wiring
open LK.Rec LK.Gen.WiringC03

theorem rankScored_map (c : List Nat) (f : Nat → Option Q) (nCfg nRun : Option Int) :
    rankScored (c.map (fun i => (i, f i))) nCfg nRun
      = (LK.TopN.rank (c.map f) nCfg nRun).filterMap (fun p => (c[p]?).map (fun i => (i, f i))) := by
  unfold rankScored
  simp [List.map_map, Function.comp_def]

theorem find_in_tagged (c : List Nat) (f : Nat → Option Q) (i : Nat) (h : i ∈ c) :
    (c.map (fun j => (j, f j))).find? (fun x => x.1 == i) = some (i, f i) := by
  induction c with
  | nil => cases h
  | cons a c ih =>
    by_cases ha : a = i
    · subst ha; simp [List.find?]
    · have : i ∈ c := by
        cases h with
        | head => exact absurd rfl ha
        | tail _ h' => exact h'
      simp [List.find?, ha, ih this]

theorem mergeScored_map (c : List Nat) (f g : Nat → Option Q) :
    mergeScored (c.map (fun i => (i, f i))) (c.map (fun i => (i, g i))) = fallbackMerge f g c := by
  unfold mergeScored fallbackMerge
  rw [List.map_map]
  apply List.map_congr_left
  intro i hi
  simp only [Function.comp]
  rw [find_in_tagged c g i hi]
  cases f i <;> rfl

/-- the query the components see, and the candidate items -/
def theQuery (env : Env) : Query := historyLookup env.trainRow (createQuery env.qin)
def theCandidates (env : Env) : List Nat := candidates env.V (theQuery env) env.supplied

/-- **C03:** the `recommender` node of the pipeline `topn_pipeline(scorer)` builds evaluates to the model's `recommend` -/
theorem topn_recommender (env : Env) :
    evalNode topn topnAliases env 6 "recommender"
      = .scored (recommend env.V env.trainRow env.score env.qin env.supplied env.nCfg env.nRun) := by
  cases hs : env.supplied with
  | none =>
    simp [evalNode, topn, topnAliases, lookupNode, resolveAlias, hs, rankScored_map, recommend, candidates]
    generalize historyLookup env.trainRow (createQuery env.qin) = q
    obtain ⟨u, it⟩ := q
    cases it <;> rfl
  | some sup =>
    simp [evalNode, topn, topnAliases, lookupNode, resolveAlias, hs, rankScored_map, recommend, candidates]

/-- **C03:** with rating prediction and a fallback configured, the recommendations are *unchanged* — the ranker reads the scoring model's
    own scores, not the merged predictions -/
theorem topnPred_recommender (env : Env) :
    evalNode topnPred topnPredAliases env 6 "recommender"
      = .scored (recommend env.V env.trainRow env.score env.qin env.supplied env.nCfg env.nRun) := by
  cases hs : env.supplied with
  | none =>
    simp [evalNode, topnPred, topnPredAliases, lookupNode, resolveAlias, hs, rankScored_map, recommend, candidates]
    generalize historyLookup env.trainRow (createQuery env.qin) = q
    obtain ⟨u, it⟩ := q
    cases it <;> rfl
  | some sup =>
    simp [evalNode, topnPred, topnPredAliases, lookupNode, resolveAlias, hs, rankScored_map, recommend, candidates]

/-- **C03:** …and the rating predictions are the model's `fallbackMerge` over the candidate items: the primary model's score where it has
    one, the fallback's elsewhere -/
theorem topnPred_rating_predictor (env : Env) :
    evalNode topnPred topnPredAliases env 6 "rating-predictor"
      = .scored (fallbackMerge (env.score (theQuery env)) (env.fallback (theQuery env)) (theCandidates env)) := by
  cases hs : env.supplied with
  | none =>
    simp [evalNode, topnPred, topnPredAliases, lookupNode, resolveAlias, hs, mergeScored_map, theQuery, theCandidates, candidates]
    generalize historyLookup env.trainRow (createQuery env.qin) = q
    obtain ⟨u, it⟩ := q
    cases it <;> rfl
  | some sup =>
    simp [evalNode, topnPred, topnPredAliases, lookupNode, resolveAlias, hs, mergeScored_map, theQuery, theCandidates, candidates]

/-- `predicts_ratings="raw"`: the rating predictions are the scoring model's own scores -/
theorem topnRaw_rating_predictor (env : Env) :
    evalNode topnRaw topnRawAliases env 6 "rating-predictor"
      = .scored ((theCandidates env).map (fun i => (i, env.score (theQuery env) i))) := by
  cases hs : env.supplied with
  | none =>
    simp [evalNode, topnRaw, topnRawAliases, lookupNode, resolveAlias, hs, theQuery, theCandidates, candidates]
    generalize historyLookup env.trainRow (createQuery env.qin) = q
    obtain ⟨u, it⟩ := q
    cases it <;> rfl
  | some sup =>
    simp [evalNode, topnRaw, topnRawAliases, lookupNode, resolveAlias, hs, theQuery, theCandidates, candidates]

/-- `predict_pipeline`: predictions for exactly the supplied items, primary model first, fallback elsewhere -/
theorem predict_rating_predictor (env : Env) (s : List Nat) (hs : env.supplied = some s) :
    evalNode predict predictAliases env 6 "rating-predictor"
      = .scored (fallbackMerge (env.score (theQuery env)) (env.fallback (theQuery env)) s) := by
  simp [evalNode, predict, predictAliases, lookupNode, resolveAlias, hs, mergeScored_map, theQuery]

end LK.Wiring
