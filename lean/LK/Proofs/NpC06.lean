import LK.Generated.NpC06
import LK.Model.RankMetrics
/-!
# C06 — `array_dcg` / `fixed_dcg`, as translated from the source, are the model's `arrayDcg` / `fixedDcg`
(rank discounts clamped below at 1, so that no rank weighs more than the first)
-/
namespace LK.NpOps
open LK.Bias LK.Gen.NpC06

theorem max_one (d : Q) : max d 1 = (if d < 1 then 1 else d) := by
  by_cases h : d < 1
  · simp [h, Rat.max_def, Rat.le_of_lt h]
  · simp only [h, if_false, Rat.max_def]
    by_cases h2 : d ≤ 1
    · have : d = 1 := Rat.le_antisymm h2 (Rat.not_lt.mp h)
      simp [this]
    · simp [h2]

theorem dot_weights (g : Nat → Q) (s : Nat) (xs : List Q) :
    sumQ (List.zipWith (fun x y => x * y) xs ((List.range' (s + 1) xs.length).map g))
      = LK.Metric.wsumFrom (fun p => g (p + 1)) s xs := by
  induction xs generalizing s with
  | nil => rfl
  | cons x xs ih =>
    simp only [List.length_cons, List.range'_succ, List.map_cons, List.zipWith_cons_cons, sumQ, List.foldr_cons, LK.Metric.wsumFrom]
    have := ih (s + 1)
    simp only [sumQ] at this
    rw [this, Rat.mul_comm]

/-- **C06:** the translated `array_dcg` is the model's `arrayDcg` -/
theorem arrayDcgT_eq (disc : Nat → Q) (scores : List Q) : arrayDcgT disc scores = LK.Metric.arrayDcg disc scores := by
  unfold arrayDcgT LK.Metric.arrayDcg
  simp only [npArange1, npApply, npMaximumScalar, npReciprocal, npDot, List.map_map]
  have := dot_weights (fun r => 1 / max (disc r) 1) 0 scores
  simp only [Nat.zero_add, Function.comp_def] at this ⊢
  rw [this]
  congr 1
  funext p
  simp [LK.Metric.dweight, max_one]

theorem sum_as_dot (ws : List Q) : sumQ ws = sumQ (List.zipWith (fun x y => x * y) (List.replicate ws.length 1) ws) := by
  induction ws with
  | nil => rfl
  | cons w ws ih => simp only [List.length_cons, List.replicate_succ, List.zipWith_cons_cons, sumQ, List.foldr_cons, Rat.one_mul] at ih ⊢; rw [← ih]

/-- **C06:** the translated `fixed_dcg` is the model's `fixedDcg` — the same weights as `array_dcg`, on `n` gains of 1 -/
theorem fixedDcgT_eq (disc : Nat → Q) (n : Nat) : fixedDcgT disc n = LK.Metric.fixedDcg disc n := by
  unfold fixedDcgT LK.Metric.fixedDcg
  simp only [npArange1, npApply, npMaximumScalar, npReciprocal, npSum, List.map_map]
  have h := dot_weights (fun r => 1 / max (disc r) 1) 0 (List.replicate n 1)
  simp only [Nat.zero_add, List.length_replicate, Function.comp_def] at h ⊢
  rw [sum_as_dot]
  simp only [List.length_map, List.length_range']
  rw [h]
  congr 1
  funext p
  simp [LK.Metric.dweight, max_one]

end LK.NpOps
