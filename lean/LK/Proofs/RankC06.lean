import LK.Generated.RankC06
import Mathlib.Tactic.Ring
import Mathlib.Tactic.Linarith
import Mathlib.Data.Rat.Cast.Order
/-!
# C06 — `measure_list` of Hit, Precision, Recall, RecipRank and RBP, as translated from the source, are the model's metrics
-/
set_option linter.unusedSimpArgs false
namespace LK.RankOps
open LK.Metric LK.Gen.RankC06

theorem len_zero_iff {α} (T : List α) : (T.length = 0) ↔ T.isEmpty = true := by
  cases T <;> simp

/-- **C06:** hit -/
theorem hitT_eq (k : Option Nat) (L : List Nat) (T : List (Nat × Q)) : hitT k L T = hit k L T := by
  unfold hitT hit good
  by_cases h : T.isEmpty = true
  · simp [h, (len_zero_iff T).mpr h]
  · have : ¬ (T.length = 0) := fun h0 => h ((len_zero_iff T).mp h0)
    simp [h, this]

/-- **C06:** precision -/
theorem precisionT_eq (k : Option Nat) (L : List Nat) (T : List (Nat × Q)) : precisionT k L T = precision k L T := by
  unfold precisionT precision good
  simp only [List.length_map]
  by_cases h : (truncate k L).length = 0
  · have : (truncate k L) = [] := List.eq_nil_of_length_eq_zero h
    simp [h, this]
  · have hne : ¬ ((truncate k L).map (isRel T)).isEmpty = true := by
      intro he; apply h; cases hh : truncate k L <;> simp_all
    have hq : ((((truncate k L).length : Nat) : Q) ≠ 0) := by exact_mod_cast h
    simp [h, hne, qdiv, hq]

/-- **C06:** recall -/
theorem recallT_eq (k : Option Nat) (L : List Nat) (T : List (Nat × Q)) : recallT k L T = recall k L T := by
  unfold recallT recall good nrelCap
  cases k with
  | none => rfl
  | some kk =>
    first
      | rfl
      | (have h1 : min T.length kk = (if kk < T.length then kk else T.length) := by
           by_cases h : kk < T.length
           · simp [h]; omega
           · simp [h]; omega
         have h2 : min kk T.length = (if kk < T.length then kk else T.length) := by rw [Nat.min_comm]; exact h1
         simp only [h1, h2])

theorem firstTrue_trueIdxFrom (s : Nat) (bs : List Bool) : (trueIdxFrom s bs).head? = (firstTrue bs).map (· + s) := by
  induction bs generalizing s with
  | nil => rfl
  | cons b bs ih =>
    cases b
    · simp only [trueIdxFrom, firstTrue, ih (s + 1), Option.map_map]
      cases firstTrue bs <;> simp [Function.comp]; omega
    · simp [trueIdxFrom, firstTrue]

/-- **C06:** reciprocal rank -/
theorem recipRankT_eq (k : Option Nat) (L : List Nat) (T : List (Nat × Q)) : recipRankT k L T = recipRank k L T := by
  unfold recipRankT recipRank good
  by_cases h : T.isEmpty = true
  · simp [h, (len_zero_iff T).mpr h]
  · have hT : ¬ (T.length = 0) := fun h0 => h ((len_zero_iff T).mp h0)
    simp only [h, hT, if_false, Bool.false_eq_true]
    have hf := firstTrue_trueIdxFrom 0 ((truncate k L).map (isRel T))
    simp only [Nat.add_zero, Option.map_id', id] at hf
    cases hft : firstTrue ((truncate k L).map (isRel T)) with
    | none =>
      have : trueIdx ((truncate k L).map (isRel T)) = [] := by
        unfold trueIdx; rw [hft] at hf; cases hx : trueIdxFrom 0 ((truncate k L).map (isRel T)) <;> simp_all
      simp [this]
    | some p =>
      rw [hft] at hf
      unfold trueIdx
      cases hx : trueIdxFrom 0 ((truncate k L).map (isRel T)) with
      | nil => simp [hx] at hf
      | cons a as =>
        simp only [hx, List.head?_cons, Option.map_some, Option.some.injEq] at hf
        have hp : ((p : Q) + 1) ≠ 0 := by positivity
        subst hf
        simp [qdiv, hp]

/-! ### rank-biased precision -/

theorem masked_powers (a : Q) (s : Nat) (g : List Bool) :
    sumQs (indexMask ((List.range' s g.length).map (powQ a)) g) = wsumFrom (powQ a) s (indicator g) := by
  induction g generalizing s with
  | nil => rfl
  | cons b g ih =>
    have e := ih (s + 1)
    cases b
    · simp only [List.length_cons, List.range'_succ, List.map_cons, indexMask, indicator, wsumFrom, Bool.false_eq_true, if_false]
      simp only [indicator] at e
      rw [e]; ring
    · simp only [List.length_cons, List.range'_succ, List.map_cons, indexMask, indicator, wsumFrom, if_true, sumQs, List.foldr_cons]
      simp only [indicator, sumQs] at e
      rw [e]; ring

theorem take_powers (a : Q) (s n m : Nat) (h : m ≤ n) :
    sumQs (((List.range' s n).map (powQ a)).take m) = wsumFrom (powQ a) s (List.replicate m 1) := by
  induction m generalizing s n with
  | zero => simp [sumQs, wsumFrom]
  | succ m ih =>
    cases n with
    | zero => omega
    | succ n =>
      simp only [List.range'_succ, List.map_cons, List.take_succ_cons, List.replicate_succ, wsumFrom, sumQs, List.foldr_cons]
      have := ih (s + 1) n (by omega)
      simp only [sumQs] at this
      rw [this]; ring

/-- **C06:** rank-biased precision, plain and normalised -/
theorem rbpT_eq (k : Option Nat) (pat : Q) (normalize : Bool) (L : List Nat) (T : List (Nat × Q)) :
    rbpT k pat normalize L T = rbp k pat normalize L T := by
  unfold rbpT rbp good
  by_cases h : T.isEmpty = true
  · simp [h, (len_zero_iff T).mpr h]
  · have hT : ¬ (T.length = 0) := fun h0 => h ((len_zero_iff T).mp h0)
    simp only [h, hT, if_false, Bool.false_eq_true]
    have hlen : (truncate k L).length = ((truncate k L).map (isRel T)).length := by simp
    have hs : sumQs (indexMask (powers pat (truncate k L).length) ((truncate k L).map (isRel T)))
        = wsumFrom (powQ pat) 0 (indicator ((truncate k L).map (isRel T))) := by
      unfold powers; rw [hlen]; exact masked_powers pat 0 _
    cases normalize
    · simp only [Bool.false_eq_true, if_false, hs]
    · simp only [if_true, hs]
      have hm : sumQs ((powers pat (truncate k L).length).take (min T.length (truncate k L).length))
          = wsumFrom (powQ pat) 0 (List.replicate (min T.length ((truncate k L).map (isRel T)).length) 1) := by
        unfold powers
        rw [take_powers pat 0 _ _ (Nat.min_le_right _ _)]
        simp
      rw [hm]

/-! ### nDCG -/

theorem insPairDesc_values (x : Nat × Q) (l : List (Nat × Q)) :
    seriesValues (insPairDesc x l) = insDesc x.2 (seriesValues l) := by
  induction l with
  | nil => rfl
  | cons y ys ih =>
    simp only [insPairDesc, seriesValues, List.map_cons, insDesc]
    split
    · rfl
    · simp only [List.map_cons]; rw [← seriesValues, ih]; rfl

/-- the values of a series sorted by decreasing value are the sorted values -/
theorem seriesSortDesc_values (S : List (Nat × Q)) : seriesValues (seriesSortDesc S) = sortDesc (S.map (·.2)) := by
  induction S with
  | nil => rfl
  | cons x xs ih => simp only [seriesSortDesc, insPairDesc_values, ih, List.map_cons, sortDesc]

theorem seriesNLargest_values (k : Nat) (S : List (Nat × Q)) : seriesValues (seriesNLargest k S) = (sortDesc (S.map (·.2))).take k := by
  have h := seriesSortDesc_values S
  unfold seriesValues at h
  unfold seriesNLargest seriesValues
  rw [List.map_take, h]

theorem maskAssign_zeros (items : List Nat) (T : List (Nat × Q)) :
    maskAssign (zerosLike items) (items.map (isRel T)) 1 = items.map (fun i => match gainOf T i with | some _ => 1 | none => 0) := by
  unfold maskAssign zerosLike
  induction items with
  | nil => rfl
  | cons i is ih =>
    simp only [List.map_cons, List.zipWith_cons_cons, ih]
    congr 1
    unfold isRel
    cases gainOf T i <;> simp

/-- **C06 (nDCG, binary and graded):** the realised DCG of the truncated list over the DCG of the ideal list — `min(|test|, k)` ones for
    binary gains, the `k` largest gains in decreasing order for graded ones.  (`k = 0` is excluded: the code's `if self.k` treats it
    as "no cut-off" for the ideal list while the recommendation list is cut to nothing.) -/
theorem ndcgT_eq (k : Option Nat) (hk : ∀ kk, k = some kk → 1 ≤ kk) (disc : Nat → Q) (gainGiven : Bool) (L : List Nat) (T : List (Nat × Q)) :
    ndcgT k disc gainGiven L T = ndcg k disc (!gainGiven) L T := by
  have hs : ∀ kq : Option Nat, reindex0 T (truncate kq L) = (truncate kq L).map (fun i => match gainOf T i with | some g => g | none => 0) := by
    intro kq
    unfold reindex0
    apply List.map_congr_left
    intro i _
    cases gainOf T i <;> rfl
  cases k with
  | none =>
    unfold ndcgT ndcg gainsOf nrelCap
    cases gainGiven
    · simp only [Bool.false_eq_true, if_false, Bool.not_false, if_true, maskAssign_zeros] <;> rfl
    · simp only [if_true, Bool.not_true, Bool.false_eq_true, if_false, hs, seriesSortDesc_values] <;> rfl
  | some kk =>
    have h1 := hk kk rfl
    have h0 : kk ≠ 0 := by omega
    unfold ndcgT ndcg gainsOf nrelCap
    cases gainGiven
    · simp only [Bool.false_eq_true, if_false, Bool.not_false, if_true, maskAssign_zeros, h0, ne_eq, not_false_eq_true, true_and] <;> rfl
    · simp only [if_true, Bool.not_true, Bool.false_eq_true, if_false, hs, seriesNLargest_values, h0, ne_eq, not_false_eq_true] <;> rfl

/-! ### MeanPopRank -/

theorem foldl_add_eq_sumQs (xs : List Q) (a : Q) : xs.foldl (· + ·) a = a + sumQs xs := by
  induction xs generalizing a with
  | nil => simp [sumQs]
  | cons x xs ih => simp only [List.foldl_cons, ih, sumQs, List.foldr_cons]; ring

/-- **C06 (MeanPopRank):** the mean popularity rank of the truncated list, unknown items counting 0 — the model's `meanPopRank`
    with the rank table read as a look-up with default 0 -/
theorem meanPopRankT_eq (k : Option Nat) (R : List (Nat × Q)) (L : List Nat) (T : List (Nat × Q)) :
    meanPopRankT k R L T = meanPopRank k (fun i => (gainOf R i).getD 0) L := by
  unfold meanPopRankT meanPopRank
  by_cases h : (truncate k L).length = 0
  · have : (truncate k L).isEmpty = true := by
      cases hl : truncate k L with
      | nil => rfl
      | cons a l => rw [hl] at h; simp at h
    simp [h, this]
  · have : (truncate k L).isEmpty = false := by
      cases hl : truncate k L with
      | nil => rw [hl] at h; simp at h
      | cons a l => rfl
    simp only [h, if_false, this, Bool.false_eq_true, meanQ, reindex0, List.length_map, foldl_add_eq_sumQs, zero_add]

end LK.RankOps
