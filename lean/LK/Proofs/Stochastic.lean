import LK.Model.Stochastic
import LK.Proofs.TopN
namespace LK.Stoch
open LK.TopN

theorem clampN_le (n : Int) (N : Nat) : clampN n N ≤ N := by
  unfold clampN
  split
  · exact Nat.le_refl _
  · omega

theorem effN_le (cfg run : Option Int) (N : Nat) : effN cfg run N ≤ N := clampN_le _ _

theorem runtime_n_overrides (cfg : Option Int) (r : Int) (N : Nat) (hr : 0 ≤ r) :
    effN cfg (some r) N = clampN r N := by
  have : ¬ r < 0 := by omega
  simp [effN, chosenN, this]

/-- **C19 (validity of the stochastic ranking):** only eligible (finite-score) positions, no repeats,
    at most the requested number — for every vector of random draws -/
theorem stochasticRank_valid (scores : List Score) (cfg run : Option Int) (weights logu : List Q) (eps : Q) :
    (∀ p ∈ stochasticRank scores cfg run weights logu eps, p < scores.length ∧ (scores.getD p .nan).isFinite = true) ∧
    (stochasticRank scores cfg run weights logu eps).Nodup := by
  unfold stochasticRank
  simp only
  split
  · exact ⟨by intro p hp; simp at hp, List.nodup_nil⟩
  · have hel : ((List.range scores.length).filter (fun p => (scores.getD p .nan).isFinite)).Nodup :=
      List.Pairwise.filter _ List.nodup_range
    refine ⟨?_, ?_⟩
    · intro p hp
      obtain ⟨j, _, hj⟩ := List.mem_filterMap.mp hp
      have := List.mem_of_getElem? hj
      have := List.mem_filter.mp this
      exact ⟨List.mem_range.mp this.1, this.2⟩
    · -- distinct positions of a duplicate-free list are distinct elements
      have hnd := argtopn_nodup ((keys logu weights eps).map some)
        ((effN cfg run ((List.range scores.length).filter (fun p => (scores.getD p .nan).isFinite)).length : Nat) : Int)
      generalize argtopn _ _ = idxs at hnd ⊢
      generalize (List.range scores.length).filter (fun p => (scores.getD p .nan).isFinite) = el at hel ⊢
      induction idxs with
      | nil => exact List.nodup_nil
      | cons j js ih =>
        have hj := List.nodup_cons.mp hnd
        simp only [List.filterMap_cons]
        cases hget : el[j]? with
        | none => exact ih hj.2
        | some x =>
          simp only
          refine List.nodup_cons.mpr ⟨?_, ih hj.2⟩
          intro hx
          obtain ⟨j', hj', hget'⟩ := List.mem_filterMap.mp hx
          have hjl := (List.getElem?_eq_some_iff.mp hget)
          have hjl' := (List.getElem?_eq_some_iff.mp hget')
          have : j = j' := (List.getElem_inj hel).mp (hjl.2.trans hjl'.2.symm)
          subst this
          exact hj.1 hj'

theorem stochasticRank_length_le (scores : List Score) (cfg run : Option Int) (weights logu : List Q) (eps : Q) :
    (stochasticRank scores cfg run weights logu eps).length ≤
      ((List.range scores.length).filter (fun p => (scores.getD p .nan).isFinite)).length := by
  unfold stochasticRank
  simp only
  split
  · simp
  · refine Nat.le_trans (List.length_filterMap_le _ _) ?_
    rw [argtopn_length]
    split
    · rename_i h; omega
    · exact Nat.le_trans (Nat.min_le_left _ _) (by simpa using effN_le cfg run _)

#print axioms stochasticRank_valid
end LK.Stoch
