import LK.Generated.GuardsC03
import LK.Model.TopN
import LK.Model.Recommend
/-!
# C03 — the translated decision logic of `TopNRanker.__call__` and `UserTrainingHistoryLookup.__call__` is the model's
-/
set_option linter.unusedSimpArgs false
namespace LK.Gen.GuardsC03

/-- the list length the ranker uses is the model's `effectiveN`: a run-time value — any value, 0 and negatives included — overrides the
    configured one; an absent or zero configured value means "unlimited" -/
theorem topnN_eq_effectiveN (run cfg : Option Int) : topnN run cfg = some (LK.TopN.effectiveN cfg run) := by
  cases run with
  | some r => simp [topnN, LK.TopN.effectiveN]
  | none =>
    cases cfg with
    | none => simp [topnN, LK.TopN.effectiveN, LK.Py.por, LK.Py.truthy]
    | some c =>
      by_cases hc : c = 0
      · simp [topnN, LK.TopN.effectiveN, LK.Py.por, LK.Py.truthy, hc]
      · simp [topnN, LK.TopN.effectiveN, LK.Py.por, LK.Py.truthy, hc]

/-- a length given at run time overrides the configured one -/
theorem topnN_runtime_overrides (k : Int) (cfg : Option Int) : topnN (some k) cfg = some k := by
  rw [topnN_eq_effectiveN]; rfl

/-- the history the lookup component hands on, in the shape of the model's `historyLookup`: untouched without a user identifier or when
    the query already carries a history; the training row otherwise — for every identifier, 0 included -/
theorem historyItems_spec (hist uid row : LK.Py.V) :
    historyItems hist uid row = (match uid with | none => hist | some _ => (match hist with | some h => some h | none => row)) := by
  cases uid <;> cases hist <;> simp [historyItems, LK.Py.truthy]

/-- the translated lookup refines the model's `historyLookup` (histories encoded by any function `enc`) -/
theorem historyItems_refines (enc : List Nat → Int) (trainRow : Nat → Option (List Nat)) (q : LK.Rec.Query) :
    ((LK.Rec.historyLookup trainRow q).items).map enc
      = historyItems (q.items.map enc) (q.user.map (fun u => (u : Int))) ((q.user.bind trainRow).map enc) := by
  rw [historyItems_spec]
  obtain ⟨user, items⟩ := q
  cases user <;> cases items <;> simp [LK.Rec.historyLookup]


/-! ### `argtopn` -/

/-- nothing is ranked exactly for `n = 0` (the model's first test) -/
theorem argtopnZero_iff (n : Int) : argtopnZeroBranch n = 0 ↔ n = 0 := by simp [argtopnZeroBranch]

/-- items without a score are set aside exactly when there is one (the model ranks `validPositions` only) -/
theorem argtopnInvalid_iff (b : Bool) : argtopnInvalidBranch b = 0 ↔ b = true := by cases b <;> simp [argtopnInvalidBranch]

/-- the partial sort is taken exactly for `0 ≤ n < N` (`n = 0` has left before); a negative `n` and an `n ≥ N` rank everything — the
    model's `if n < 0 then sorted else sorted.take n` (taking `n ≥ N` of `N` is everything) -/
theorem argtopnPartial_iff (n N : Int) (hn : n ≠ 0) : argtopnPartialBranch n N = 0 ↔ (0 ≤ n ∧ n < N) := by
  simp only [argtopnPartialBranch, LK.Py.ge, LK.Py.le, LK.Py.lt, LK.Py.gt]
  by_cases h : (0 ≤ n ∧ n < N)
  · have h1 : 0 < n := by omega
    simp [h.1, h.2, h1]
  · have hor : n < 0 ∨ N ≤ n := by omega
    rcases hor with hneg | hge
    · simp [show ¬ (0 ≤ n) by omega, show ¬ (0 < n) by omega]
    · simp [show ¬ (n < N) by omega]


/-- `topn_pipeline(…, predicts_ratings=…)`: `"raw"` — a truthy value — selects the predictor *without* a fallback (0); any other truthy
    value the predictor with the bias fallback (1); a falsy one no predictor (2) -/
theorem topnPredicts_dispatch (k : Int) (hk : k ≠ 0) :
    topnPredictsBranch true (some k) = 0 ∧ topnPredictsBranch false (some k) = 1 ∧ topnPredictsBranch false none = 2 ∧ topnPredictsBranch false (some 0) = 2 := by
  simp [topnPredictsBranch, LK.Py.truthy, hk]

end LK.Gen.GuardsC03
