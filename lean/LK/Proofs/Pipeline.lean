import LK.Model.Pipeline
namespace LK.Pipe

/-! ### the probe graph: `opt(p = needs, q = needs)` with input `a` absent -/
def anyVal : Val → Bool := fun _ => true

def gProbe : Graph where
  node
    | 0 => .input true anyVal                                              -- a : int | None
    | 1 => .comp [{ lzy := false, acceptsNone := false, accepts := anyVal, src := some 0 }]    -- needs(x: int = a)
              (fun _ => Option.none)
              (fun args _ => match args with | [.int x] => .ok (.int (x + 1)) | _ => .error .type)
    | 2 => .comp [{ lzy := false, acceptsNone := true, accepts := anyVal, src := some 1 },    -- opt(p, q : int | None = needs)
                  { lzy := false, acceptsNone := true, accepts := anyVal, src := some 1 }]
              (fun _ => Option.none)
              (fun args _ => match args with
                | [p, q] => .ok (.int ((match p with | .int x => x | _ => 0) + (match q with | .int x => x | _ => 0) + 100))
                | _ => .error .type)
    | _ => .literal .none

/-- the runner as it stands answers `KeyError` … -/
example : (run .asIs gProbe (fun _ => .none) 5 [2]).1 = .error .key := by decide
/-- … where the dataflow reading of the graph gives 100; the repaired memo lookup agrees with it -/
example : denote gProbe (fun _ => .none) 5 2 true = .ok (some (.int 100)) := by decide
example : (run .repaired gProbe (fun _ => .none) 5 [2]).1 = .ok [.int 100] := by decide
example : (run .repaired gProbe (fun n => if n = 0 then .int 3 else .none) 5 [2, 1]).1 = .ok [.int 108, .int 4] := by decide
/-- each component ran once -/
example : (run .repaired gProbe (fun n => if n = 0 then .int 3 else .none) 5 [2, 1]).2.log = [2, 1] := by decide

end LK.Pipe

namespace LK.Pipe

/-- acyclicity witness: every wired source has a smaller rank -/
structure Ranked (g : Graph) where
  rank : Name → Nat
  edge : ∀ n params sel fin, g.node n = .comp params sel fin →
    ∀ p ∈ params, ∀ src, p.src = some src → rank src < rank n

/-- every deferred entry comes from a wired parameter of the list -/
def LaziesFrom (params : List Param) (lazies : List (Param × Name × Bool)) : Prop :=
  ∀ e ∈ lazies, e.1 ∈ params ∧ e.1.src = some e.2.1

theorem denParamsWith_congr (dn dn' : Name → Bool → Res) (ps : List Param)
    (h : ∀ p ∈ ps, ∀ src, p.src = some src → ∀ r, dn src r = dn' src r)
    (required : Bool) (eager : List Val) (lazies : List (Param × Name × Bool)) :
    denParamsWith dn ps required eager lazies = denParamsWith dn' ps required eager lazies := by
  induction ps generalizing eager lazies with
  | nil => rfl
  | cons p ps ih =>
    have ih' := fun e l => ih (fun q hq => h q (List.mem_cons_of_mem _ hq)) e l
    simp only [denParamsWith]
    cases hsrc : p.src with
    | none => simp only [ih']
    | some src =>
      simp only
      rw [h p List.mem_cons_self src hsrc]
      simp only [ih']

theorem denParamsWith_lazies (dn : Name → Bool → Res) (all : List Param) (ps : List Param)
    (hsub : ∀ p ∈ ps, p ∈ all)
    (required : Bool) (eager : List Val) (lazies : List (Param × Name × Bool))
    (hl : LaziesFrom all lazies) (eg : List Val) (lz : List (Param × Name × Bool))
    (h : denParamsWith dn ps required eager lazies = .ok (some (eg, lz))) : LaziesFrom all lz := by
  induction ps generalizing eager lazies with
  | nil =>
    simp only [denParamsWith, Except.ok.injEq, Option.some.injEq, Prod.mk.injEq] at h
    obtain ⟨_, rfl⟩ := h
    intro e he; exact hl e (List.mem_reverse.mp he)
  | cons p ps ih =>
    have hsub' : ∀ q ∈ ps, q ∈ all := fun q hq => hsub q (List.mem_cons_of_mem _ hq)
    simp only [denParamsWith] at h
    cases hsrc : p.src with
    | none =>
      simp only [hsrc] at h
      split at h
      · exact ih hsub' _ _ hl h
      · split at h
        · simp at h
        · split at h
          · simp at h
          · exact ih hsub' _ _ hl h
    | some src =>
      simp only [hsrc] at h
      split at h
      · refine ih hsub' _ _ ?_ h
        intro e he
        rcases List.mem_cons.mp he with rfl | he
        · exact ⟨hsub p List.mem_cons_self, hsrc⟩
        · exact hl e he
      · split at h
        · simp at h
        · split at h
          · simp at h
          · split at h
            · split at h <;> simp at h
            · exact ih hsub' _ _ hl h

theorem denForce_congr (dn dn' : Name → Bool → Res) (sel : List Val → Option Nat) (eager : List Val)
    (lazies : List (Param × Name × Bool))
    (h : ∀ e ∈ lazies, ∀ r, dn e.2.1 r = dn' e.2.1 r) :
    denForce dn sel eager lazies = denForce dn' sel eager lazies := by
  unfold denForce
  cases sel eager with
  | none => rfl
  | some j =>
    simp only
    cases hj : lazies[j]? with
    | none => rfl
    | some e =>
      obtain ⟨p, src, ireq⟩ := e
      have hm : (p, src, ireq) ∈ lazies := List.mem_of_getElem? hj
      simp only
      rw [h _ hm]

/-- with enough fuel the denotation does not depend on the fuel -/
theorem denote_fuel (g : Graph) (R : Ranked g) (ι : Name → Val) : ∀ (r : Nat) (n : Name), R.rank n ≤ r →
    ∀ k k', R.rank n < k → R.rank n < k' → ∀ req, denote g ι k n req = denote g ι k' n req := by
  intro r
  induction r with
  | zero =>
    intro n hn k k' hk hk' req
    match k, k', hk, hk' with
    | k+1, k'+1, _, _ =>
      simp only [denote]
      cases hnode : g.node n with
      | literal v => rfl
      | input an acc => rfl
      | comp params sel fin =>
        simp only
        have hnone : ∀ p ∈ params, ∀ src, p.src = some src → False := by
          intro p hp src hs
          have := R.edge n params sel fin hnode p hp src hs
          omega
        have e1 : denParamsWith (fun m r => denote g ι k m r) params req [] []
            = denParamsWith (fun m r => denote g ι k' m r) params req [] [] :=
          denParamsWith_congr _ _ params (fun p hp src hs => (hnone p hp src hs).elim) req [] []
        rw [e1]
        cases hd : denParamsWith (fun m r => denote g ι k' m r) params req [] [] with
        | error e => rfl
        | ok o =>
          cases o with
          | none => rfl
          | some el =>
            obtain ⟨eg, lz⟩ := el
            simp only
            have hlz := denParamsWith_lazies _ params params (fun _ h => h) req [] [] (by intro e he; simp at he) eg lz hd
            have e2 : denForce (fun m r => denote g ι k m r) sel eg lz = denForce (fun m r => denote g ι k' m r) sel eg lz :=
              denForce_congr _ _ sel eg lz (fun e he => (hnone e.1 (hlz e he).1 e.2.1 (hlz e he).2).elim)
            rw [e2]
  | succ r ih =>
    intro n hn k k' hk hk' req
    match k, k', hk, hk' with
    | k+1, k'+1, hk, hk' =>
      simp only [denote]
      cases hnode : g.node n with
      | literal v => rfl
      | input an acc => rfl
      | comp params sel fin =>
        simp only
        have hsrc : ∀ p ∈ params, ∀ src, p.src = some src → ∀ q, denote g ι k src q = denote g ι k' src q := by
          intro p hp src hs q
          have := R.edge n params sel fin hnode p hp src hs
          exact ih src (by omega) k k' (by omega) (by omega) q
        have e1 : denParamsWith (fun m r => denote g ι k m r) params req [] []
            = denParamsWith (fun m r => denote g ι k' m r) params req [] [] :=
          denParamsWith_congr _ _ params hsrc req [] []
        rw [e1]
        cases hd : denParamsWith (fun m r => denote g ι k' m r) params req [] [] with
        | error e => rfl
        | ok o =>
          cases o with
          | none => rfl
          | some el =>
            obtain ⟨eg, lz⟩ := el
            simp only
            have hlz := denParamsWith_lazies _ params params (fun _ h => h) req [] [] (by intro e he; simp at he) eg lz hd
            have e2 : denForce (fun m r => denote g ι k m r) sel eg lz = denForce (fun m r => denote g ι k' m r) sel eg lz :=
              denForce_congr _ _ sel eg lz (fun e he q => hsrc e.1 (hlz e he).1 e.2.1 (hlz e he).2 q)
            rw [e2]

#print axioms denote_fuel
end LK.Pipe

namespace LK.Pipe

/-! ### how the `required` flag can change a node's denotation -/

/-- relation between demanding a node as not-required (`F`) and as required (`T`) -/
structure ReqRel (inp : Bool) (dF dT : Res) : Prop where
  t_to_f : ∀ v, dT = .ok (some v) → dF = .ok (some v)
  f_to_t : ∀ v, dF = .ok (some v) → v ≠ .none → dT = .ok (some v)
  f_none : dF = .ok (some .none) → dT = .ok (some .none) ∨ (inp = true ∧ dT = .error .pipeline)
  f_bail : dF = .ok Option.none → dT = .error .pipeline
  t_nobail : dT ≠ .ok Option.none

def mkLz (req : Bool) (l : List (Param × Name)) : List (Param × Name × Bool) :=
  l.map (fun e => (e.1, e.2, req && !e.1.acceptsNone))

theorem mkLz_reverse (req : Bool) (l : List (Param × Name)) : (mkLz req l).reverse = mkLz req l.reverse := by
  simp [mkLz, List.map_reverse]

/-- the parameter loop under `required = true` vs `false`, sources related by `ReqRel` -/
theorem denParams_req (dn : Name → Bool → Res) (inp : Name → Bool) (ps : List Param)
    (hrel : ∀ p ∈ ps, ∀ src, p.src = some src → ReqRel (inp src) (dn src false) (dn src true))
    (eager : List Val) (acc : List (Param × Name)) :
    (∀ eg lz, denParamsWith dn ps true eager (mkLz true acc) = .ok (some (eg, lz)) →
        ∃ acc', lz = mkLz true acc' ∧ denParamsWith dn ps false eager (mkLz false acc) = .ok (some (eg, mkLz false acc'))) ∧
    (∀ eg lz, denParamsWith dn ps false eager (mkLz false acc) = .ok (some (eg, lz)) →
        ∃ acc', lz = mkLz false acc' ∧ denParamsWith dn ps true eager (mkLz true acc) = .ok (some (eg, mkLz true acc'))) ∧
    (denParamsWith dn ps false eager (mkLz false acc) = .ok Option.none →
        denParamsWith dn ps true eager (mkLz true acc) = .error .pipeline) ∧
    (denParamsWith dn ps true eager (mkLz true acc) ≠ .ok Option.none) := by
  induction ps generalizing eager acc with
  | nil =>
    refine ⟨?_, ?_, ?_, ?_⟩
    · intro eg lz h
      simp only [denParamsWith, Except.ok.injEq, Option.some.injEq, Prod.mk.injEq] at h
      obtain ⟨rfl, rfl⟩ := h
      exact ⟨acc.reverse, mkLz_reverse _ _, by simp [denParamsWith, mkLz_reverse]⟩
    · intro eg lz h
      simp only [denParamsWith, Except.ok.injEq, Option.some.injEq, Prod.mk.injEq] at h
      obtain ⟨rfl, rfl⟩ := h
      exact ⟨acc.reverse, mkLz_reverse _ _, by simp [denParamsWith, mkLz_reverse]⟩
    · intro h; simp [denParamsWith] at h
    · simp [denParamsWith]
  | cons p ps ih =>
    have hrel' : ∀ q ∈ ps, ∀ src, q.src = some src → ReqRel (inp src) (dn src false) (dn src true) :=
      fun q hq => hrel q (List.mem_cons_of_mem _ hq)
    cases hsrc : p.src with
    | none =>
      by_cases hl : p.lzy
      · simp only [denParamsWith, hsrc, hl, if_true]
        exact ih hrel' _ _
      · by_cases han : p.acceptsNone
        · simp only [denParamsWith, hsrc, hl, han]
          simpa using ih hrel' (Val.none :: eager) acc
        · simp only [denParamsWith, hsrc, hl, han]
          simp
    | some src =>
      have R := hrel p List.mem_cons_self src hsrc
      by_cases hl : p.lzy
      · simp only [denParamsWith, hsrc, hl, if_true]
        have := ih hrel' eager ((p, src) :: acc)
        simpa [mkLz] using this
      · by_cases han : p.acceptsNone
        · -- both sides demand the source as not required
          simp only [denParamsWith, hsrc, hl, han, Bool.not_true, Bool.and_false, Bool.false_eq_true, if_false]
          cases hd : dn src false with
          | error e => simp
          | ok r =>
            simp only
            have hok : paramOk p (r.getD .none) = true ∨ paramOk p (r.getD .none) = false := by
              cases paramOk p (r.getD .none) <;> simp
            rcases hok with hok | hok
            · simp only [hok, Bool.not_true, Bool.false_eq_true, if_false, and_false, and_self]
              simpa using ih hrel' (r.getD .none :: eager) acc
            · simp only [hok]
              by_cases hv : r.getD .none = Val.none <;> simp [hv]
        · -- the parameter does not accept None: T demands the source as required
          have hanF : p.acceptsNone = false := by simpa using han
          simp only [denParamsWith, hsrc, hl, hanF, Bool.not_false, Bool.and_true, Bool.false_eq_true,
            if_false, Bool.true_and]
          cases hF : dn src false with
          | error e =>
            -- F fails; T cannot succeed with a value either (t_to_f), and never bails
            cases hT : dn src true with
            | error e' => simp
            | ok rT =>
              cases rT with
              | none => exact absurd hT R.t_nobail
              | some v => have := R.t_to_f v hT; rw [hF] at this; cases this
          | ok rF =>
            cases rF with
            | none =>
              -- F bails; T reports the missing input
              have hT := R.f_bail hF
              simp [hT, Option.getD]
            | some v =>
              by_cases hv : v = Val.none
              · subst hv
                have hT := R.f_none hF
                rcases hT with hT | ⟨_, hT⟩
                · simp [hT, Option.getD, paramOk, hanF]
                · simp [hT, Option.getD]
              · have hT := R.f_to_t v hF hv
                simp only [hT, Option.getD, hv, false_and, if_false]
                have hok : paramOk p v = true ∨ paramOk p v = false := by cases paramOk p v <;> simp
                rcases hok with hok | hok
                · simp only [hok, Bool.not_true, Bool.false_eq_true, if_false]
                  exact ih hrel' (v :: eager) acc
                · simp [hok, hv]

#print axioms denParams_req
end LK.Pipe

namespace LK.Pipe

/-- forcing the chosen lazy input under the two demand kinds -/
theorem denForce_req (dn : Name → Bool → Res) (inp : Name → Bool) (sel : List Val → Option Nat) (eager : List Val)
    (acc : List (Param × Name))
    (hrel : ∀ e ∈ acc, ReqRel (inp e.2) (dn e.2 false) (dn e.2 true)) :
    (∀ lv, denForce dn sel eager (mkLz true acc) = .ok lv → denForce dn sel eager (mkLz false acc) = .ok lv) ∧
    (∀ lv, denForce dn sel eager (mkLz false acc) = .ok lv → denForce dn sel eager (mkLz true acc) = .ok lv) := by
  unfold denForce
  cases sel eager with
  | none => simp
  | some j =>
    simp only [mkLz, List.getElem?_map]
    cases hj : acc[j]? with
    | none => simp
    | some e =>
      obtain ⟨p, src⟩ := e
      have R := hrel (p, src) (List.mem_of_getElem? hj)
      simp only [Option.map_some]
      by_cases han : p.acceptsNone
      · simp [han]
      · have hanF : p.acceptsNone = false := by simpa using han
        simp only [hanF, Bool.not_false, Bool.and_true, Bool.and_false]
        constructor
        · intro lv h
          cases hT : dn src true with
          | error e => rw [hT] at h; simp at h
          | ok rT =>
            rw [hT] at h
            simp only at h
            split at h
            · rename_i hok
              cases rT with
              | none => simp [Option.getD, paramOk, hanF] at hok
              | some v =>
                have hF := R.t_to_f v hT
                simp only [hF]
                simp only [Option.getD] at hok h ⊢
                simp [hok] at h ⊢
                exact h
            · simp at h
        · intro lv h
          cases hF : dn src false with
          | error e => rw [hF] at h; simp at h
          | ok rF =>
            rw [hF] at h
            simp only at h
            split at h
            · rename_i hok
              cases rF with
              | none => simp [Option.getD, paramOk, hanF] at hok
              | some v =>
                have hv : v ≠ Val.none := by
                  intro hv; subst hv; simp [Option.getD, paramOk, hanF] at hok
                have hT := R.f_to_t v hF hv
                simp only [hT]
                simp only [Option.getD] at hok h ⊢
                simp [hok] at h ⊢
                exact h
            · simp at h

def isInp (g : Graph) (n : Name) : Bool := match g.node n with | .input _ _ => true | _ => false

theorem reqRel_same (b : Bool) (d : Res) (h : d ≠ .ok Option.none) : ReqRel b d d :=
  ⟨fun _ h => h, fun _ h _ => h, fun h => Or.inl h, fun h' => absurd h' h, h⟩

/-- **the `required` flag never changes a value**: for every node, demanding it as required or not
    yields the same value when both succeed; a non-required bail-out is a `PipelineError` when required -/
theorem denote_reqRel (g : Graph) (R : Ranked g) (ι : Name → Val) : ∀ (r : Nat) (n : Name), R.rank n ≤ r →
    ∀ k, R.rank n < k → ReqRel (isInp g n) (denote g ι k n false) (denote g ι k n true) := by
  intro r
  induction r using Nat.strongRecOn with
  | _ r ih =>
    intro n hn k hk
    match k, hk with
    | k+1, hk =>
      cases hnode : g.node n with
      | literal v =>
        simp only [denote, hnode]
        exact reqRel_same _ _ (by intro h; cases h)
      | input an acc =>
        simp only [denote, hnode]
        by_cases hv : ι n = Val.none
        · by_cases han : an
          · simp only [hv, han, Bool.not_true, Bool.false_eq_true, and_false, if_false, ne_eq, not_true_eq_false, false_and]
            exact reqRel_same _ _ (by intro h; cases h)
          · have han' : an = false := by simpa using han
            simp only [hv, han', Bool.not_false, and_true, Bool.false_eq_true, false_and, and_false, if_false, if_true,
              ne_eq, not_true_eq_false, and_self]
            refine ⟨?_, ?_, ?_, ?_, ?_⟩
            · intro v h; cases h
            · intro v h hv'; cases h; exact absurd rfl hv'
            · intro _; exact Or.inr ⟨by simp [isInp, hnode], rfl⟩
            · intro h; cases h
            · intro h; cases h
        · simp only [hv, false_and, if_false, ne_eq, not_false_eq_true, true_and]
          split
          · exact reqRel_same _ _ (by intro h; cases h)
          · exact reqRel_same _ _ (by intro h; cases h)
      | comp params sel fin =>
        -- relation for every wired source, at the inner fuel
        have hsrc : ∀ p ∈ params, ∀ src, p.src = some src →
            ReqRel (isInp g src) (denote g ι k src false) (denote g ι k src true) := by
          intro p hp src hs
          have hlt := R.edge n params sel fin hnode p hp src hs
          exact ih (R.rank src) (by omega) src (Nat.le_refl _) k (by omega)
        have hP := denParams_req (fun m q => denote g ι k m q) (isInp g) params hsrc [] []
        have e0 : ∀ b, mkLz b [] = [] := fun _ => rfl
        simp only [e0] at hP
        obtain ⟨hTF, hFT, hbail, hnob⟩ := hP
        -- helper: lazies produced come from params, hence their sources are related
        have hlzrel : ∀ acc' eg, denParamsWith (fun m q => denote g ι k m q) params false [] [] = .ok (some (eg, mkLz false acc')) →
            ∀ e ∈ acc', ReqRel (isInp g e.2) (denote g ι k e.2 false) (denote g ι k e.2 true) := by
          intro acc' eg h e he
          have hl := denParamsWith_lazies _ params params (fun _ h => h) false [] [] (by intro e he; simp at he) eg _ h
          have hm : (e.1, e.2, false && !e.1.acceptsNone) ∈ mkLz false acc' := List.mem_map.mpr ⟨e, he, rfl⟩
          have := hl _ hm
          exact hsrc e.1 this.1 e.2 this.2
        simp only [denote, hnode]
        refine ⟨?_, ?_, ?_, ?_, ?_⟩
        · -- t_to_f
          intro v hT
          cases hpT : denParamsWith (fun m q => denote g ι k m q) params true [] [] with
          | error e => rw [hpT] at hT; simp at hT
          | ok o =>
            cases o with
            | none => exact absurd hpT hnob
            | some el =>
              obtain ⟨eg, lz⟩ := el
              obtain ⟨acc', rfl, hpF⟩ := hTF eg lz hpT
              rw [hpT] at hT
              simp only [hpF]
              simp only at hT
              have hfr := denForce_req (fun m q => denote g ι k m q) (isInp g) sel eg acc' (hlzrel acc' eg hpF)
              cases hfT : denForce (fun m q => denote g ι k m q) sel eg (mkLz true acc') with
              | error e => rw [hfT] at hT; simp at hT
              | ok lv =>
                rw [hfT] at hT
                rw [hfr.1 lv hfT]
                exact hT
        · -- f_to_t (for every value, not only non-None ones)
          intro v hF _
          cases hpF : denParamsWith (fun m q => denote g ι k m q) params false [] [] with
          | error e => rw [hpF] at hF; simp at hF
          | ok o =>
            cases o with
            | none => rw [hpF] at hF; simp at hF
            | some el =>
              obtain ⟨eg, lz⟩ := el
              obtain ⟨acc', rfl, hpT⟩ := hFT eg lz hpF
              rw [hpF] at hF
              simp only [hpT]
              simp only at hF
              have hfr := denForce_req (fun m q => denote g ι k m q) (isInp g) sel eg acc' (hlzrel acc' eg hpF)
              cases hfF : denForce (fun m q => denote g ι k m q) sel eg (mkLz false acc') with
              | error e => rw [hfF] at hF; simp at hF
              | ok lv =>
                rw [hfF] at hF
                rw [hfr.2 lv hfF]
                exact hF
        · -- f_none
          intro hF
          left
          cases hpF : denParamsWith (fun m q => denote g ι k m q) params false [] [] with
          | error e => rw [hpF] at hF; simp at hF
          | ok o =>
            cases o with
            | none => rw [hpF] at hF; simp at hF
            | some el =>
              obtain ⟨eg, lz⟩ := el
              obtain ⟨acc', rfl, hpT⟩ := hFT eg lz hpF
              rw [hpF] at hF
              simp only [hpT]
              simp only at hF
              have hfr := denForce_req (fun m q => denote g ι k m q) (isInp g) sel eg acc' (hlzrel acc' eg hpF)
              cases hfF : denForce (fun m q => denote g ι k m q) sel eg (mkLz false acc') with
              | error e => rw [hfF] at hF; simp at hF
              | ok lv =>
                rw [hfF] at hF
                rw [hfr.2 lv hfF]
                exact hF
        · -- f_bail
          intro hF
          cases hpF : denParamsWith (fun m q => denote g ι k m q) params false [] [] with
          | error e => rw [hpF] at hF; simp at hF
          | ok o =>
            cases o with
            | none => simp [hbail hpF]
            | some el =>
              obtain ⟨eg, lz⟩ := el
              rw [hpF] at hF
              simp only at hF
              cases hfF : denForce (fun m q => denote g ι k m q) sel eg lz with
              | error e => rw [hfF] at hF; simp at hF
              | ok lv =>
                rw [hfF] at hF
                simp only at hF
                cases hfin : fin eg lv with
                | error e => rw [hfin] at hF; simp at hF
                | ok v => rw [hfin] at hF; simp at hF
        · -- t_nobail
          intro hT
          cases hpT : denParamsWith (fun m q => denote g ι k m q) params true [] [] with
          | error e => rw [hpT] at hT; simp at hT
          | ok o =>
            cases o with
            | none => rw [hpT] at hT; simp at hT
            | some el =>
              obtain ⟨eg, lz⟩ := el
              rw [hpT] at hT
              simp only at hT
              cases hfT : denForce (fun m q => denote g ι k m q) sel eg lz with
              | error e => rw [hfT] at hT; simp at hT
              | ok lv =>
                rw [hfT] at hT
                simp only at hT
                cases hfin : fin eg lv with
                | error e => rw [hfin] at hT; simp at hT
                | ok v => rw [hfin] at hT; simp at hT

#print axioms denote_reqRel
end LK.Pipe

namespace LK.Pipe

/-! ### memo soundness of the (repaired) runner -/

@[simp] theorem setSt_status (s : RS) (n : Name) (x : Status) (m : Name) :
    (s.setSt n x).status m = if m = n then x else s.status m := rfl
@[simp] theorem setSt_state (s : RS) (n : Name) (x : Status) : (s.setSt n x).state = s.state := rfl
@[simp] theorem put_status (s : RS) (n : Name) (v : Val) : (s.put n v).status = s.status := rfl
@[simp] theorem put_state (s : RS) (n : Name) (v : Val) (m : Name) :
    (s.put n v).state m = if m = n then some v else s.state m := rfl
@[simp] theorem logged_status (s : RS) (n : Name) : (s.logged n).status = s.status := rfl
@[simp] theorem logged_state (s : RS) (n : Name) : (s.logged n).state = s.state := rfl

theorem denote_req_indep (g : Graph) (R : Ranked g) (ι : Name → Val) (n : Name) (hn : isInp g n = false)
    (k : Nat) (hk : R.rank n < k) (v : Val) (r1 r2 : Bool)
    (h : denote g ι k n r1 = .ok (some v)) : denote g ι k n r2 = .ok (some v) := by
  have RR := denote_reqRel g R ι (R.rank n) n (Nat.le_refl _) k hk
  have hF : denote g ι k n false = .ok (some v) := by
    cases r1 with
    | false => exact h
    | true => exact RR.t_to_f v h
  cases r2 with
  | false => exact hF
  | true =>
    by_cases hv : v = Val.none
    · subst hv
      rcases RR.f_none hF with h' | ⟨hi, _⟩
      · exact h'
      · rw [hn] at hi; cases hi
    · exact RR.f_to_t v hF hv

section
variable (g : Graph) (R : Ranked g) (ι : Name → Val)

def StoredOK (m : Name) (v : Val) : Prop :=
  match g.node m with
  | .input _ acc => v = ι m ∧ (v ≠ .none → acc v = true)
  | _ => ∀ k, R.rank m < k → ∀ req, denote g ι k m req = .ok (some v)

def Sound (s : RS) : Prop :=
  ∀ m, s.status m = .finished →
    (∀ v, s.state m = some v → StoredOK g R ι m v) ∧
    (s.state m = Option.none → ∀ k, R.rank m < k → denote g ι k m false = .ok Option.none)

def NoFailed (s : RS) : Prop := ∀ m, s.status m ≠ .failed
def AboveEq (s : RS) (r : Nat) : Prop := ∀ m, s.status m = .inProgress → r ≤ R.rank m
def SameProg (s s' : RS) : Prop := ∀ m, s'.status m = .inProgress ↔ s.status m = .inProgress

/-- only finished nodes carry state -/
def Clean (s : RS) : Prop := ∀ m v, s.state m = some v → s.status m = .finished

def Good (s : RS) : Prop := Sound g R ι s ∧ NoFailed s ∧ Clean s

def isOk {α} : Except Err α → Bool | .ok _ => true | .error _ => false

/-- "running source nodes of rank < r refines the denotation and keeps the invariants" -/
def NodeOK (rn : Name → Bool → RS → Res × RS) (dn : Name → Bool → Res) (r : Nat) : Prop :=
  ∀ m req s, R.rank m < r → Good g R ι s → AboveEq g R s (R.rank m + 1) →
    (rn m req s).1 = dn m req ∧
    (isOk (rn m req s).1 = true → Good g R ι (rn m req s).2 ∧ SameProg s (rn m req s).2)

theorem aboveEq_of_sameProg {s s' : RS} {r : Nat} (h : SameProg s s') (ha : AboveEq g R s r) : AboveEq g R s' r :=
  fun m hm => ha m ((h m).mp hm)

theorem sameProg_refl (s : RS) : SameProg s s := fun _ => Iff.rfl
theorem sameProg_trans {a b c : RS} (h1 : SameProg a b) (h2 : SameProg b c) : SameProg a c :=
  fun m => (h2 m).trans (h1 m)

theorem params_spec (rn : Name → Bool → RS → Res × RS) (dn : Name → Bool → Res) (r : Nat)
    (hN : NodeOK g R ι rn dn r) (ps : List Param)
    (hps : ∀ p ∈ ps, ∀ src, p.src = some src → R.rank src < r) :
    ∀ (req : Bool) (eager : List Val) (lazies : List (Param × Name × Bool)) (s : RS),
      Good g R ι s → AboveEq g R s r →
      (runParamsWith rn ps req eager lazies s).1 = denParamsWith dn ps req eager lazies ∧
      (isOk (runParamsWith rn ps req eager lazies s).1 = true →
        Good g R ι (runParamsWith rn ps req eager lazies s).2 ∧ SameProg s (runParamsWith rn ps req eager lazies s).2) := by
  induction ps with
  | nil => intro req eager lazies s hg _; exact ⟨rfl, fun _ => ⟨hg, sameProg_refl s⟩⟩
  | cons p ps ih =>
    have ih' := ih (fun q hq => hps q (List.mem_cons_of_mem _ hq))
    intro req eager lazies s hg ha
    simp only [runParamsWith, denParamsWith]
    cases hsrc : p.src with
    | none =>
      simp only
      by_cases hl : p.lzy
      · simp only [hl, if_true]; exact ih' _ _ _ s hg ha
      · simp only [hl]
        by_cases h1 : (!p.acceptsNone) = true ∧ (!req) = true
        · simp only [h1, and_self, if_true]; exact ⟨rfl, fun _ => ⟨hg, sameProg_refl s⟩⟩
        · simp only [h1, if_false]
          by_cases h2 : (!p.acceptsNone) = true
          · simp only [h2, if_true]; exact ⟨rfl, fun h => by simp [isOk] at h⟩
          · simp only [h2, if_false]; exact ih' _ _ _ s hg ha
    | some src =>
      simp only
      by_cases hl : p.lzy
      · simp only [hl, if_true]; exact ih' _ _ _ s hg ha
      · simp only [hl]
        have hlt := hps p List.mem_cons_self src hsrc
        have hsrcOK := hN src (req && !p.acceptsNone) s hlt hg (fun m hm => by have := ha m hm; omega)
        obtain ⟨heq, hpost⟩ := hsrcOK
        cases hrn : rn src (req && !p.acceptsNone) s with
        | mk res s1 =>
          rw [hrn] at heq hpost
          simp only at heq hpost
          rw [← heq]
          cases res with
          | error e => exact ⟨rfl, fun h => by simp [isOk] at h⟩
          | ok rv =>
            obtain ⟨hg1, hp1⟩ := hpost rfl
            simp only
            by_cases h1 : rv.getD Val.none = Val.none ∧ (!p.acceptsNone) = true ∧ (!req) = true
            · simp only [h1, and_self, if_true]; exact ⟨rfl, fun _ => ⟨hg1, hp1⟩⟩
            · simp only [h1, if_false]
              by_cases h2 : (!paramOk p (rv.getD Val.none)) = true
              · simp only [h2, if_true]
                by_cases h3 : rv.getD Val.none = Val.none
                · simp only [h3, if_true]; exact ⟨rfl, fun h => by simp [isOk] at h⟩
                · simp only [h3, if_false]; exact ⟨rfl, fun h => by simp [isOk] at h⟩
              · simp only [h2, if_false]
                have := ih' req (rv.getD Val.none :: eager) lazies s1 hg1 (aboveEq_of_sameProg g R hp1 ha)
                exact ⟨this.1, fun h => ⟨(this.2 h).1, sameProg_trans hp1 (this.2 h).2⟩⟩
end

#print axioms params_spec
end LK.Pipe

namespace LK.Pipe
section
variable (g : Graph) (R : Ranked g) (ι : Name → Val)

theorem force_spec (rn : Name → Bool → RS → Res × RS) (dn : Name → Bool → Res) (r : Nat)
    (hN : NodeOK g R ι rn dn r) (sel : List Val → Option Nat) (eager : List Val)
    (lazies : List (Param × Name × Bool)) (hlz : ∀ e ∈ lazies, R.rank e.2.1 < r)
    (s : RS) (hg : Good g R ι s) (ha : AboveEq g R s r) :
    (forceLazy rn sel eager lazies s).1 = denForce dn sel eager lazies ∧
    (isOk (forceLazy rn sel eager lazies s).1 = true →
      Good g R ι (forceLazy rn sel eager lazies s).2 ∧ SameProg s (forceLazy rn sel eager lazies s).2) := by
  unfold forceLazy denForce
  cases sel eager with
  | none => exact ⟨rfl, fun _ => ⟨hg, sameProg_refl s⟩⟩
  | some j =>
    simp only
    cases hj : lazies[j]? with
    | none => exact ⟨rfl, fun _ => ⟨hg, sameProg_refl s⟩⟩
    | some e =>
      obtain ⟨p, src, ireq⟩ := e
      have hlt := hlz _ (List.mem_of_getElem? hj)
      simp only at hlt ⊢
      obtain ⟨heq, hpost⟩ := hN src ireq s hlt hg (fun m hm => by have := ha m hm; omega)
      cases hrn : rn src ireq s with
      | mk res s1 =>
        rw [hrn] at heq hpost
        simp only at heq hpost
        rw [← heq]
        cases res with
        | error e => exact ⟨rfl, fun h => by simp [isOk] at h⟩
        | ok rv =>
          obtain ⟨hg1, hp1⟩ := hpost rfl
          simp only
          by_cases hok : paramOk p (rv.getD Val.none) = true
          · simp only [hok, if_true]; exact ⟨trivial, fun _ => ⟨hg1, hp1⟩⟩
          · have hok' : paramOk p (rv.getD Val.none) = false := by simpa using hok
            simp only [hok']; exact ⟨by simp, fun h => by simp [isOk] at h⟩

/-- marking a pending node in progress keeps soundness -/
theorem sound_setProg {s : RS} {n : Name} (hs : Sound g R ι s) (hn : s.status n = .pending) :
    Sound g R ι (s.setSt n .inProgress) := by
  intro m hm
  by_cases h : m = n
  · subst h; simp at hm
  · have : s.status m = .finished := by simpa [h] using hm
    exact hs m this

theorem sound_finish_val {s : RS} {n : Name} {v : Val} (hs : Sound g R ι s) (hv : StoredOK g R ι n v) :
    Sound g R ι ((s.put n v).setSt n .finished) := by
  intro m hm
  by_cases h : m = n
  · subst h
    refine ⟨?_, ?_⟩
    · intro w hw
      simp only [setSt_state, put_state, if_true, Option.some.injEq] at hw
      subst hw; exact hv
    · intro hnone; simp at hnone
  · have hst : s.status m = .finished := by simpa [h] using hm
    have := hs m hst
    simpa [h] using this

theorem sound_finish_bail {s : RS} {n : Name} (hs : Sound g R ι s) (hst : s.state n = Option.none)
    (hb : ∀ k, R.rank n < k → denote g ι k n false = .ok Option.none) :
    Sound g R ι (s.setSt n .finished) := by
  intro m hm
  by_cases h : m = n
  · subst h
    refine ⟨?_, ?_⟩
    · intro w hw; simp only [setSt_state] at hw; rw [hst] at hw; cases hw
    · intro _; exact hb
  · have hst' : s.status m = .finished := by simpa [h] using hm
    exact hs m hst'
end
end LK.Pipe

namespace LK.Pipe
section
variable (g : Graph) (R : Ranked g) (ι : Name → Val)

theorem nodeOK_mono (rn : Name → Bool → RS → Res × RS) (dn : Name → Bool → Res) (r r' : Nat) (h : r' ≤ r)
    (hN : NodeOK g R ι rn dn r) : NodeOK g R ι rn dn r' :=
  fun m req s hm hg ha => hN m req s (by omega) hg ha

theorem runParams_lazies (rn : Name → Bool → RS → Res × RS) (all ps : List Param)
    (hsub : ∀ p ∈ ps, p ∈ all) (required : Bool) (eager : List Val) (lazies : List (Param × Name × Bool))
    (hl : LaziesFrom all lazies) (dn : Name → Bool → Res) (eg : List Val) (lz : List (Param × Name × Bool))
    (h : denParamsWith dn ps required eager lazies = .ok (some (eg, lz))) : LaziesFrom all lz :=
  denParamsWith_lazies dn all ps hsub required eager lazies hl eg lz h

/-- **C02 core: the memoising runner computes the denotation** (repaired variant, acyclic graphs) -/
theorem node_spec : ∀ fuel, NodeOK g R ι (fun m r s => runNode .repaired g ι fuel m r s) (fun m r => denote g ι fuel m r) fuel := by
  intro fuel
  induction fuel with
  | zero => intro m req s hm; omega
  | succ fuel ih =>
    intro n req s hr hg ha
    obtain ⟨hs, hf, hc⟩ := hg
    simp only [runNode]
    cases hst : s.status n with
    | inProgress => have := ha n hst; omega
    | failed => exact absurd hst (hf n)
    | finished =>
      simp only
      cases hstate : s.state n with
      | none =>
        simp only
        have hb := (hs n hst).2 hstate (fuel + 1) hr
        cases req with
        | false => simp only [Bool.false_eq_true, if_false]; exact ⟨hb.symm, fun _ => ⟨⟨hs, hf, hc⟩, sameProg_refl s⟩⟩
        | true =>
          simp only [if_true]
          have RR := denote_reqRel g R ι (R.rank n) n (Nat.le_refl _) (fuel + 1) hr
          exact ⟨(RR.f_bail hb).symm, fun h => by simp [isOk] at h⟩
      | some v =>
        simp only
        have hv := (hs n hst).1 v hstate
        unfold StoredOK at hv
        cases hnode : g.node n with
        | input an acc =>
          simp only [hnode] at hv ⊢
          obtain ⟨hvι, hacc⟩ := hv
          simp only [denote, hnode]
          rw [← hvι]
          by_cases h1 : v = Val.none ∧ req = true ∧ (!an) = true
          · simp only [if_pos h1]; exact ⟨by first | rfl | trivial, fun h => by simp [isOk] at h⟩
          · simp only [if_neg h1]
            have h2 : ¬ (v ≠ Val.none ∧ (!acc v) = true) := by
              intro ⟨hne, hna⟩; have := hacc hne; simp [this] at hna
            simp only [if_neg h2]
            exact ⟨by first | rfl | trivial, fun _ => ⟨⟨hs, hf, hc⟩, sameProg_refl s⟩⟩
        | literal w =>
          simp only [hnode] at hv ⊢
          exact ⟨(hv (fuel + 1) hr req).symm, fun _ => ⟨⟨hs, hf, hc⟩, sameProg_refl s⟩⟩
        | comp params sel fin =>
          simp only [hnode] at hv ⊢
          exact ⟨(hv (fuel + 1) hr req).symm, fun _ => ⟨⟨hs, hf, hc⟩, sameProg_refl s⟩⟩
    | pending =>
      simp only
      have hnostate : s.state n = Option.none := by
        cases h : s.state n with
        | none => rfl
        | some v => have := hc n v h; rw [hst] at this; cases this
      -- the state after marking n in progress
      have hs0 : Sound g R ι (s.setSt n .inProgress) := sound_setProg g R ι hs hst
      have hf0 : NoFailed (s.setSt n .inProgress) := by
        intro m; by_cases h : m = n
        · subst h; simp
        · simpa [h] using hf m
      have hc0 : Clean (s.setSt n .inProgress) := by
        intro m v hv
        have := hc m v (by simpa using hv)
        by_cases h : m = n
        · subst h; rw [hst] at this; cases this
        · simpa [h] using this
      have ha0 : AboveEq g R (s.setSt n .inProgress) (R.rank n) := by
        intro m hm
        by_cases h : m = n
        · subst h; exact Nat.le_refl _
        · have : s.status m = .inProgress := by simpa [h] using hm
          have := ha m this; omega
      cases hnode : g.node n with
      | literal v =>
        simp only [denote, hnode]
        refine ⟨by first | rfl | trivial, fun _ => ⟨⟨?_, ?_, ?_⟩, ?_⟩⟩
        · apply sound_finish_val g R ι hs0
          unfold StoredOK; simp only [hnode]
          intro k hk req'
          match k, hk with
          | k+1, _ => simp [denote, hnode]
        · intro m; by_cases h : m = n
          · subst h; simp
          · simpa [h] using hf m
        · intro m w hw
          by_cases h : m = n
          · subst h; simp
          · have : s.state m = some w := by simpa [h] using hw
            simpa [h] using hc m w this
        · intro m; by_cases h : m = n
          · subst h; simp [hst]
          · simp [h]
      | input an acc =>
        simp only [denote, hnode]
        by_cases h1 : ι n = Val.none ∧ req = true ∧ (!an) = true
        · simp only [if_pos h1]; exact ⟨by first | rfl | trivial, fun h => by simp [isOk] at h⟩
        · simp only [if_neg h1]
          by_cases h2 : ι n ≠ Val.none ∧ (!acc (ι n)) = true
          · simp only [if_pos h2]; exact ⟨by first | rfl | trivial, fun h => by simp [isOk] at h⟩
          · simp only [if_neg h2]
            refine ⟨by first | rfl | trivial, fun _ => ⟨⟨?_, ?_, ?_⟩, ?_⟩⟩
            · apply sound_finish_val g R ι hs0
              unfold StoredOK; simp only [hnode]
              refine ⟨by first | rfl | trivial, ?_⟩
              intro hne
              by_cases hacc : acc (ι n) = true
              · exact hacc
              · exact absurd ⟨hne, by simpa using hacc⟩ h2
            · intro m; by_cases h : m = n
              · subst h; simp
              · simpa [h] using hf m
            · intro m w hw
              by_cases h : m = n
              · subst h; simp
              · have : s.state m = some w := by simpa [h] using hw
                simpa [h] using hc m w this
            · intro m; by_cases h : m = n
              · subst h; simp [hst]
              · simp [h]
      | comp params sel fin =>
        simp only [denote, hnode]
        have hsrcs : ∀ p ∈ params, ∀ src, p.src = some src → R.rank src < R.rank n :=
          R.edge n params sel fin hnode
        have hN : NodeOK g R ι (fun m r t => runNode .repaired g ι fuel m r t) (fun m r => denote g ι fuel m r) (R.rank n) :=
          nodeOK_mono g R ι _ _ fuel (R.rank n) (by omega) ih
        have hP := params_spec g R ι _ _ (R.rank n) hN params hsrcs req [] [] (s.setSt n .inProgress) ⟨hs0, hf0, hc0⟩ ha0
        obtain ⟨hPeq, hPpost⟩ := hP
        cases hrp : runParamsWith (fun m r t => runNode .repaired g ι fuel m r t) params req [] [] (s.setSt n .inProgress) with
        | mk pres s1 =>
          rw [hrp] at hPeq hPpost
          simp only at hPeq hPpost
          rw [← hPeq]
          cases pres with
          | error e => exact ⟨by first | rfl | trivial, fun h => by simp [isOk] at h⟩
          | ok o =>
            obtain ⟨⟨hs1, hf1, hc1⟩, hp1⟩ := hPpost rfl
            -- n is still in progress and stateless in s1
            have hn1 : s1.status n = .inProgress := (hp1 n).mpr (by simp)
            have hst1 : s1.state n = Option.none := by
              cases h : s1.state n with
              | none => rfl
              | some v => have := hc1 n v h; rw [hn1] at this; cases this
            cases o with
            | none =>
              simp only
              cases req with
              | true => simp only [if_true]; exact ⟨by first | rfl | trivial, fun h => by simp [isOk] at h⟩
              | false =>
                simp only [Bool.false_eq_true, if_false]
                refine ⟨by first | rfl | trivial, fun _ => ⟨⟨?_, ?_, ?_⟩, ?_⟩⟩
                · apply sound_finish_bail g R ι hs1 hst1
                  intro k hk
                  have h0 : denote g ι (fuel + 1) n false = .ok Option.none := by
                    simp only [denote, hnode, ← hPeq]; simp
                  rw [denote_fuel g R ι (R.rank n) n (Nat.le_refl _) k (fuel + 1) hk hr false]; exact h0
                · intro m; by_cases h : m = n
                  · subst h; simp
                  · simpa [h] using hf1 m
                · intro m w hw
                  have := hc1 m w (by simpa using hw)
                  by_cases h : m = n
                  · subst h; simp
                  · simpa [h] using this
                · intro m; by_cases h : m = n
                  · subst h; simp [hst]
                  · have := hp1 m; simp [h] at this ⊢; exact this
            | some el =>
              obtain ⟨eg, lz⟩ := el
              simp only
              have hlzfrom : LaziesFrom params lz :=
                denParamsWith_lazies _ params params (fun _ h => h) req [] [] (by intro e he; simp at he) eg lz hPeq.symm
              have hlzr : ∀ e ∈ lz, R.rank e.2.1 < R.rank n := fun e he => hsrcs e.1 (hlzfrom e he).1 e.2.1 (hlzfrom e he).2
              have ha1 : AboveEq g R (s1.logged n) (R.rank n) := fun m hm => aboveEq_of_sameProg g R hp1 ha0 m hm
              have hF := force_spec g R ι _ _ (R.rank n) hN sel eg lz hlzr (s1.logged n) ⟨hs1, hf1, hc1⟩ ha1
              obtain ⟨hFeq, hFpost⟩ := hF
              cases hfl : forceLazy (fun m r t => runNode .repaired g ι fuel m r t) sel eg lz (s1.logged n) with
              | mk fres s2 =>
                rw [hfl] at hFeq hFpost
                simp only at hFeq hFpost
                rw [← hFeq]
                cases fres with
                | error e => exact ⟨by first | rfl | trivial, fun h => by simp [isOk] at h⟩
                | ok lv =>
                  obtain ⟨⟨hs2, hf2, hc2⟩, hp2⟩ := hFpost rfl
                  simp only
                  cases hfin : fin eg lv with
                  | error e => exact ⟨by first | rfl | trivial, fun h => by simp [isOk] at h⟩
                  | ok v =>
                    simp only
                    have hp12 : SameProg (s.setSt n .inProgress) s2 := sameProg_trans hp1 hp2
                    refine ⟨by first | rfl | trivial, fun _ => ⟨⟨?_, ?_, ?_⟩, ?_⟩⟩
                    · apply sound_finish_val g R ι hs2
                      unfold StoredOK; simp only [hnode]
                      intro k hk req'
                      have h0 : denote g ι (fuel + 1) n req = .ok (some v) := by
                        simp only [denote, hnode, ← hPeq, ← hFeq, hfin]
                      have hk0 : denote g ι k n req = .ok (some v) := by
                        rw [denote_fuel g R ι (R.rank n) n (Nat.le_refl _) k (fuel + 1) hk hr req]; exact h0
                      exact denote_req_indep g R ι n (by simp [isInp, hnode]) k hk v req req' hk0
                    · intro m; by_cases h : m = n
                      · subst h; simp
                      · simpa [h] using hf2 m
                    · intro m w hw
                      by_cases h : m = n
                      · subst h; simp
                      · have : s2.state m = some w := by simpa [h] using hw
                        simpa [h] using hc2 m w this
                    · intro m; by_cases h : m = n
                      · subst h; simp [hst]
                      · have := hp12 m; simp [h] at this ⊢; exact this
end

#print axioms node_spec
end LK.Pipe

namespace LK.Pipe
section
variable (g : Graph) (R : Ranked g) (ι : Name → Val)

/-- the denotation of a request list: every requested node, as required, in order -/
def denoteAll (fuel : Nat) : List Name → Except Err (List Val)
  | [] => .ok []
  | n :: ns =>
    match denote g ι fuel n true with
    | .error e => .error e
    | .ok Option.none => .error .key
    | .ok (some v) =>
      match denoteAll fuel ns with
      | .error e => .error e
      | .ok vs => .ok (v :: vs)

theorem good_init : Good g R ι RS.init := by
  refine ⟨?_, ?_, ?_⟩
  · intro m hm; simp [RS.init] at hm
  · intro m; simp [RS.init]
  · intro m v hv; simp [RS.init] at hv

theorem runAll_spec (fuel : Nat) (reqs : List Name) (hr : ∀ n ∈ reqs, R.rank n < fuel) :
    ∀ s, Good g R ι s → (∀ m, s.status m ≠ .inProgress) →
      (runAll .repaired g ι fuel reqs s).1 = denoteAll g ι fuel reqs := by
  induction reqs with
  | nil => intro s _ _; rfl
  | cons n ns ih =>
    intro s hg hnp
    have hN := node_spec g R ι fuel n true s (hr n List.mem_cons_self) hg (fun m hm => absurd hm (hnp m))
    simp only at hN
    obtain ⟨heq, hpost⟩ := hN
    simp only [runAll, denoteAll]
    cases hrn : runNode .repaired g ι fuel n true s with
    | mk res s1 =>
      rw [hrn] at heq hpost
      simp only at heq hpost
      rw [← heq]
      cases res with
      | error e => rfl
      | ok o =>
        obtain ⟨hg1, hp1⟩ := hpost rfl
        cases o with
        | none => rfl
        | some v =>
          simp only
          have := ih (fun m hm => hr m (List.mem_cons_of_mem _ hm)) s1 hg1
            (fun m hm => hnp m ((hp1 m).mp hm))
          cases hra : runAll .repaired g ι fuel ns s1 with
          | mk res2 s2 =>
            rw [hra] at this
            simp only at this
            rw [← this]
            cases res2 <;> rfl

/-- **C02: a pipeline run is the functional evaluation of its DAG** — for every acyclic graph, every
    input assignment and every tuple of requested nodes, the memoising runner returns exactly the
    values (or the error) of the pure dataflow reading, whatever was requested before in the same run. -/
theorem run_eq_denote (fuel : Nat) (reqs : List Name) (hr : ∀ n ∈ reqs, R.rank n < fuel) :
    (run .repaired g ι fuel reqs).1 = denoteAll g ι fuel reqs :=
  runAll_spec g R ι fuel reqs hr RS.init (good_init g R ι) (by intro m; simp [RS.init])

end
#print axioms run_eq_denote
end LK.Pipe
