import LK.Proofs.Split
/-! C05 — `LastN`: the held-out rows are exactly the `n` latest ones (repaired variant). -/
namespace LK.Split

theorem insertByKey_perm (key : Nat → Int) (i : Nat) (l : List Nat) : (insertByKey key i l).Perm (i :: l) := by
  induction l with
  | nil => exact List.Perm.refl _
  | cons j js ih =>
    simp only [insertByKey]
    split
    · exact List.Perm.refl _
    · exact (ih.cons j).trans (List.Perm.swap i j js)

theorem argsortBy_perm (key : Nat → Int) (n : Nat) : (argsortBy key n).Perm (List.range n) := by
  unfold argsortBy
  induction List.range n with
  | nil => exact List.Perm.refl _
  | cons i is ih => exact (insertByKey_perm key i _).trans (ih.cons i)

def SortedKey (key : Nat → Int) (l : List Nat) : Prop := l.Pairwise (fun a b => key a ≤ key b)

theorem insertByKey_sorted (key : Nat → Int) (i : Nat) (l : List Nat) (h : SortedKey key l) :
    SortedKey key (insertByKey key i l) := by
  induction l with
  | nil => simp [insertByKey, SortedKey]
  | cons j js ih =>
    simp only [insertByKey]
    have hj := List.pairwise_cons.mp h
    split
    · rename_i hlt
      refine List.pairwise_cons.mpr ⟨?_, h⟩
      intro b hb
      rcases List.mem_cons.mp hb with rfl | hb
      · exact Int.le_of_lt hlt
      · exact Int.le_trans (Int.le_of_lt hlt) (hj.1 b hb)
    · rename_i hge
      refine List.pairwise_cons.mpr ⟨?_, ih hj.2⟩
      intro b hb
      have := (insertByKey_perm key i js).mem_iff.mp hb
      rcases List.mem_cons.mp this with rfl | hb'
      · exact Int.not_lt.mp hge
      · exact hj.1 b hb'

theorem argsortBy_sorted (key : Nat → Int) (n : Nat) : SortedKey key (argsortBy key n) := by
  unfold argsortBy
  induction List.range n with
  | nil => simp [SortedKey]
  | cons i is ih => exact insertByKey_sorted key i _ ih

/-- **C05 (`LastN`, repaired):** the result has `min n len` distinct valid positions, and no row left in
    training is later than a held-out one -/
theorem lastN_spec (times : List Int) (n : Nat) :
    (lastN .repaired times n).length = min n times.length ∧
    (lastN .repaired times n).Nodup ∧
    (∀ p ∈ lastN .repaired times n, p < times.length) ∧
    (∀ p ∈ lastN .repaired times n, ∀ r, r < times.length → r ∉ lastN .repaired times n →
      times.getD r 0 ≤ times.getD p 0) := by
  unfold lastN
  simp only
  by_cases hle : times.length ≤ n
  · simp only [hle, if_true]
    refine ⟨by simp; omega, List.nodup_range, fun p hp => List.mem_range.mp hp, ?_⟩
    intro p _ r hr hnot
    exact absurd (List.mem_range.mpr hr) hnot
  · simp only [hle, if_false]
    have hperm := argsortBy_perm (fun i => times.getD i 0) times.length
    have hsorted := argsortBy_sorted (fun i => times.getD i 0) times.length
    have hnd : (argsortBy (fun i => times.getD i 0) times.length).Nodup := hperm.nodup_iff.mpr List.nodup_range
    have hlen : (argsortBy (fun i => times.getD i 0) times.length).length = times.length := by
      rw [hperm.length_eq, List.length_range]
    refine ⟨?_, ?_, ?_, ?_⟩
    · rw [lastTake_length, hlen]
    · exact hnd.sublist (List.drop_sublist _ _)
    · intro p hp
      exact List.mem_range.mp (hperm.mem_iff.mp (List.mem_of_mem_drop hp))
    · intro p hp r hr hnot
      -- r sits in the dropped prefix, p in the kept suffix of a list sorted by time
      have hr_all : r ∈ argsortBy (fun i => times.getD i 0) times.length := hperm.mem_iff.mpr (List.mem_range.mpr hr)
      unfold lastTake at hp hnot
      rw [← List.take_append_drop (times.length - n) (argsortBy (fun i => times.getD i 0) times.length)] at hr_all hsorted
      rw [hlen] at hp hnot
      rcases List.mem_append.mp hr_all with hrt | hrd
      · exact (List.pairwise_append.mp hsorted).2.2 r hrt p hp
      · exact absurd hrd hnot

#print axioms lastN_spec
end LK.Split
