import LK.Model.Recommend
import LK.Proofs.TopN
namespace LK.Rec
open LK.TopN

/-- a bare identifier, a query carrying it, and a query carrying it with the user's training history
    all reach the scorer as the same query -/
theorem query_forms_agree (trainRow : Nat → Option (List Nat)) (u : Nat) :
    historyLookup trainRow (createQuery (.id u)) = historyLookup trainRow (createQuery (.query { user := some u, items := Option.none })) ∧
    (∀ h, trainRow u = some h →
      historyLookup trainRow (createQuery (.query { user := some u, items := some h })) = historyLookup trainRow (createQuery (.id u))) := by
  refine ⟨rfl, ?_⟩
  intro h hh
  simp [historyLookup, createQuery, hh]

theorem candidates_supplied (V : List Nat) (q : Query) (s : List Nat) : candidates V q (some s) = s := rfl

theorem candidates_unseen (V : List Nat) (q : Query) (h : List Nat) (hq : q.items = some h) (i : Nat) :
    i ∈ candidates V q Option.none ↔ i ∈ V ∧ i ∉ h := by
  simp [candidates, hq, List.mem_filter]

theorem candidates_all (V : List Nat) (q : Query) (hq : q.items = Option.none) : candidates V q Option.none = V := by
  simp [candidates, hq]

/-- **C03:** recommendations are candidates, distinct (when the candidates are), all scored, carry the
    scorer's own scores, and come best first -/
theorem recommend_spec (V : List Nat) (trainRow : Nat → Option (List Nat)) (score : Query → Nat → Option Q)
    (qin : QueryIn) (supplied : Option (List Nat)) (nCfg nRun : Option Int) :
    let q := historyLookup trainRow (createQuery qin)
    let c := candidates V q supplied
    (∀ r ∈ recommend V trainRow score qin supplied nCfg nRun, r.1 ∈ c ∧ r.2 = score q r.1 ∧ (score q r.1).isSome) ∧
    (c.Nodup → ((recommend V trainRow score qin supplied nCfg nRun).map (·.1)).Nodup) := by
  intro q c
  constructor
  · intro r hr
    simp only [recommend] at hr
    obtain ⟨p, hp, hget⟩ := List.mem_filterMap.mp hr
    cases hc : c[p]? with
    | none => simp [c, q, hc] at hget
    | some i =>
      simp only [c, q] at hc
      simp only [hc, Option.map_some, Option.some.injEq] at hget
      subst hget
      refine ⟨List.mem_of_getElem? hc, rfl, ?_⟩
      have hv := argtopn_sub _ _ p hp
      have := (mem_valid.mp hv).2
      simp only [List.getD_eq_getElem?_getD, List.getElem?_map, hc, Option.map_some, Option.getD_some] at this
      exact this
  · intro hnd
    simp only [recommend]
    have hnd' := argtopn_nodup (c.map (score q)) (effectiveN nCfg nRun)
    have hsub := argtopn_sub (c.map (score q)) (effectiveN nCfg nRun)
    simp only [rank]
    generalize argtopn (c.map (score q)) (effectiveN nCfg nRun) = idxs at hnd' hsub
    induction idxs with
    | nil => exact List.nodup_nil
    | cons j js ih =>
      have hj := List.nodup_cons.mp hnd'
      simp only [List.filterMap_cons]
      cases hget : c[j]? with
      | none => simpa [c, q, hget] using ih hj.2 (fun p hp => hsub p (List.mem_cons_of_mem _ hp))
      | some x =>
        simp only [c, q] at hget
        simp only [hget, Option.map_some, List.map_cons]
        refine List.nodup_cons.mpr ⟨?_, ih hj.2 (fun p hp => hsub p (List.mem_cons_of_mem _ hp))⟩
        intro hx
        obtain ⟨r, hr, hrx⟩ := List.mem_map.mp hx
        obtain ⟨j', hj', hget'⟩ := List.mem_filterMap.mp hr
        cases hc' : (candidates V (historyLookup trainRow (createQuery qin)) supplied)[j']? with
        | none => simp [hc'] at hget'
        | some y =>
          simp only [hc', Option.map_some, Option.some.injEq] at hget'
          subst hget'
          simp only at hrx
          subst hrx
          have h1 := List.getElem?_eq_some_iff.mp hget
          have h2 := List.getElem?_eq_some_iff.mp hc'
          have : j = j' := (List.getElem_inj hnd).mp (h1.2.trans h2.2.symm)
          subst this
          exact hj.1 hj'

/-- rating prediction = primary score where available, fallback elsewhere; items and order preserved -/
theorem fallbackMerge_spec (primary fallback : Nat → Option Q) (items : List Nat) :
    (fallbackMerge primary fallback items).map (·.1) = items ∧
    ∀ r ∈ fallbackMerge primary fallback items,
      (∀ s, primary r.1 = some s → r.2 = some s) ∧ (primary r.1 = Option.none → r.2 = fallback r.1) := by
  constructor
  · simp only [fallbackMerge, List.map_map]
    induction items with
    | nil => rfl
    | cons i is ih => simp only [List.map_cons, Function.comp]; rw [ih]
  · intro r hr
    obtain ⟨i, _, rfl⟩ := List.mem_map.mp hr
    constructor
    · intro s hs; simp [hs]
    · intro hn; simp [hn]

#print axioms recommend_spec
end LK.Rec
