import LK.Model.Scatter
namespace LK.Scatter

theorem scatter_filterMap {α β} (f : α → Option β) (g : β → Option Rat) (xs : List α) :
    scatterMask (xs.map (fun x => (f x).isSome)) ((xs.filterMap f).map g)
      = xs.map (fun x => (f x).map g) := by
  induction xs with
  | nil => rfl
  | cons x xs ih =>
    cases h : f x with
    | none => simp only [List.map_cons, List.filterMap_cons, h, Option.isSome_none, scatterMask, Option.map_none, ih]
    | some b => simp only [List.map_cons, List.filterMap_cons, h, Option.isSome_some, scatterMask, Option.map_some, ih]

/-- **C04 (alignment & independence):** the mask/scatter code is the pointwise map — the result lists
    exactly the input items in input order, keeps every other field, and an item's score depends on
    that item only -/
theorem scoreList_eq_map {φ} (num : Nat → Option Nat) (tbl : Nat → Option Rat) (L : List (Item φ)) :
    scoreList num tbl L = L.map (fun it => { it with score := (num it.id).bind tbl }) := by
  unfold scoreList
  simp only
  have e1 : (L.map (fun it => num it.id)).map Option.isSome = L.map (fun it => (num it.id).isSome) := by
    rw [List.map_map]; rfl
  have e2 : (L.map (fun it => num it.id)).filterMap id = L.filterMap (fun it => num it.id) := by
    rw [List.filterMap_map]; rfl
  rw [e1, e2, scatter_filterMap (fun it : Item φ => num it.id) tbl L]
  clear e1 e2
  induction L with
  | nil => rfl
  | cons it L ih =>
    simp only [List.map_cons, List.zipWith_cons_cons]
    congr 1
    cases num it.id <;> rfl

theorem score_independent_of_companions {φ} (num : Nat → Option Nat) (tbl : Nat → Option Rat)
    (L L' : List (Item φ)) (it : Item φ) (h : it ∈ L) (h' : it ∈ L') :
    ({ it with score := (num it.id).bind tbl } : Item φ) ∈ scoreList num tbl L ∧
    ({ it with score := (num it.id).bind tbl } : Item φ) ∈ scoreList num tbl L' := by
  rw [scoreList_eq_map, scoreList_eq_map]
  exact ⟨List.mem_map.mpr ⟨it, h, rfl⟩, List.mem_map.mpr ⟨it, h', rfl⟩⟩

theorem scoreList_length {φ} (num : Nat → Option Nat) (tbl : Nat → Option Rat) (L : List (Item φ)) :
    (scoreList num tbl L).length = L.length := by rw [scoreList_eq_map]; simp

theorem scoreList_ids {φ} (num : Nat → Option Nat) (tbl : Nat → Option Rat) (L : List (Item φ)) :
    (scoreList num tbl L).map (·.id) = L.map (·.id) := by rw [scoreList_eq_map]; simp

theorem scoreList_fields {φ} (num : Nat → Option Nat) (tbl : Nat → Option Rat) (L : List (Item φ)) :
    (scoreList num tbl L).map (·.fields) = L.map (·.fields) := by rw [scoreList_eq_map]; simp

theorem unknown_unscored {φ} (num : Nat → Option Nat) (tbl : Nat → Option Rat) (L : List (Item φ))
    (it : Item φ) (hit : it ∈ scoreList num tbl L) (h : num it.id = none) : it.score = none := by
  rw [scoreList_eq_map] at hit
  obtain ⟨x, _, rfl⟩ := List.mem_map.mp hit
  simp only at h ⊢
  simp [h]

/-- permutation equivariance -/
theorem scoreList_perm {φ} (num : Nat → Option Nat) (tbl : Nat → Option Rat) (L L' : List (Item φ))
    (h : L.Perm L') : (scoreList num tbl L).Perm (scoreList num tbl L') := by
  rw [scoreList_eq_map, scoreList_eq_map]; exact h.map _

/-- the multiply-first shortcut computes the same thing when every resolved number is a training item -/
theorem multFirst_eq {φ} (num : Nat → Option Nat) (tbl : Nat → Option Rat) (nItems : Nat) (L : List (Item φ))
    (hb : ∀ it ∈ L, ∀ k, num it.id = some k → k < nItems) :
    scoreListMultFirst num tbl nItems L = scoreList num tbl L := by
  unfold scoreListMultFirst scoreList
  simp only
  congr 2
  apply List.map_congr_left
  intro k hk
  have hk' : k < nItems := by
    simp only [List.mem_filterMap, List.mem_map, id] at hk
    obtain ⟨o, ⟨it, hit, rfl⟩, ho⟩ := hk
    exact hb it hit k ho
  simp [List.getD_eq_getElem?_getD, List.getElem?_map, List.getElem?_range hk']

#print axioms scoreList_eq_map
#print axioms multFirst_eq
end LK.Scatter
