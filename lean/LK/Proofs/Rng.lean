import LK.Model.Rng
namespace LK.Rng

theorem crossfoldRecords_seeded (s : Nat) : ∀ g ∈ crossfoldRecords (some s), g = .fresh s := by
  intro g hg; simpa [crossfoldRecords, resolve] using hg

theorem sampleRecords_seeded (s : Nat) (repeats : Option Nat) (dj fb : Bool) :
    ∀ g ∈ sampleRecords (some s) repeats dj fb, g = .fresh s := by
  intro g hg
  unfold sampleRecords at hg
  cases repeats with
  | none => simpa [resolve] using hg
  | some r =>
    simp only at hg
    split at hg
    · simpa [crossfoldRecords, resolve] using hg
    · split at hg
      · simpa [resolve] using hg
      · exact (List.mem_replicate.mp hg).2

/-- **C11 (seed forwarding):** with a seed, every generator `sample_users` consults is the seed's own — on
    every path, including the oversized-request fallback (repaired plumbing) -/
theorem sampleUsers_seeded (s : Nat) (repeats : Option Nat) (dj fb : Bool) :
    ∀ g ∈ sampleUsers .repaired (some s) repeats dj fb, g = .fresh s := by
  intro g hg
  unfold sampleUsers at hg
  cases repeats with
  | none => simpa [resolve] using hg
  | some r =>
    simp only at hg
    split at hg
    · simpa [crossfoldUsers, resolve] using hg
    · split at hg
      · simpa [resolve] using hg
      · exact (List.mem_replicate.mp hg).2

/-- as it stands the fallback path consults the global generator although a seed was given -/
example : Gen.global ∈ sampleUsers .asIs (some 7) (some 3) true true := by decide

/-- **C11 (request-order independence):** with user-derived seeds the generator serving a user is the same
    in every request sequence -/
theorem derived_order_independent (base : Nat) (reqs reqs' : List Nat) (u : Nat) (g g' : Gen)
    (h : (u, g) ∈ serveRequests base reqs) (h' : (u, g') ∈ serveRequests base reqs') : g = g' := by
  simp only [serveRequests, List.mem_map, Prod.mk.injEq] at h h'
  obtain ⟨a, _, rfl, rfl⟩ := h
  obtain ⟨b, _, hb, rfl⟩ := h'
  rw [hb]

#print axioms sampleUsers_seeded
end LK.Rng
