import LK.Proofs.Config
import Mathlib.Data.String.Basic
namespace LK.Cfg

theorem leKey_trans (a b c : String × String) : leKey a b → leKey b c → leKey a c := by
  unfold leKey; simp only [decide_eq_true_eq]; exact le_trans

theorem leKey_total (a b : String × String) : leKey a b || leKey b a := by
  unfold leKey; simp only [Bool.or_eq_true, decide_eq_true_eq]; exact le_total _ _

theorem leKey_antisymm_on (l : List (String × String)) (hnd : (l.map (·.1)).Nodup) :
    ∀ a ∈ l, ∀ b ∈ l, leKey a b → leKey b a → a = b := by
  intro a ha b hb h1 h2
  unfold leKey at h1 h2
  simp only [decide_eq_true_eq] at h1 h2
  have hk : a.1 = b.1 := le_antisymm h1 h2
  -- distinct keys: the same key occurs once
  rw [List.Nodup, List.pairwise_map] at hnd
  by_contra hne
  rcases List.mem_iff_getElem.mp ha with ⟨i, hi, rfl⟩
  rcases List.mem_iff_getElem.mp hb with ⟨j, hj, rfl⟩
  have hij : i ≠ j := fun h => hne (by subst h; rfl)
  rcases Nat.lt_or_gt_of_ne hij with h | h
  · exact (List.pairwise_iff_getElem.mp hnd i j hi hj h) hk
  · exact (List.pairwise_iff_getElem.mp hnd j i hj hi h) hk.symm

/-- **C13 (declaration order does not matter):** aliases declared in any order give the same configuration
    (hence the same text and hash) -/
theorem aliases_order_indep (v : Variant) (b : BState) (al' : List (String × String))
    (hp : b.aliases.Perm al') (hnd : (b.aliases.map (·.1)).Nodup) :
    buildCfg v { b with aliases := al' } = buildCfg v b := by
  simp only [buildCfg]
  congr 1
  exact (sortBy_perm_eq_on leKey leKey_trans leKey_total b.aliases al' (leKey_antisymm_on b.aliases hnd) hp).symm

/-- a component's connections declared in any order give the same wiring -/
theorem edges_order_indep (defaults : List (String × String)) (c : BComp) (e' : List (String × String))
    (hp : (resolve defaults c).Perm (resolve defaults { c with edges := e' }))
    (hnd : ((resolve defaults c).map (·.1)).Nodup) :
    compOut defaults { c with edges := e' } = compOut defaults c := by
  simp only [compOut]
  congr 2
  exact (sortBy_perm_eq_on leKey leKey_trans leKey_total _ _ (leKey_antisymm_on _ hnd) hp).symm

#print axioms aliases_order_indep
end LK.Cfg
