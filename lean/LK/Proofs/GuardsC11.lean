import LK.Generated.GuardsC11
/-!
# C11 — obligation on the translated guard of `DerivingRNG.__call__`
Branch 1 derives the seed from the user identifier; branch 0 spawns the next child seed.
-/
set_option linter.unusedSimpArgs false
namespace LK.Gen.GuardsC11

/-- every query that names a user — identifier 0 or "" included — gets the seed derived from that identifier -/
theorem derived_for_every_user (q u : Int) : derivingBranch (some q) (some u) = 1 := by
  simp [derivingBranch, LK.Py.truthy]

theorem spawned_without_user (q : LK.Py.V) : derivingBranch q none = 0 := by
  cases q <;> simp [derivingBranch, LK.Py.truthy]

theorem spawned_without_query (u : LK.Py.V) : derivingBranch none u = 0 := by
  simp [derivingBranch, LK.Py.truthy]

end LK.Gen.GuardsC11
