import LK.Generated.GuardsC11
import LK.Model.Rng
/-!
# C11 — obligation on the translated guard of `DerivingRNG.__call__`
Branch 1 derives the seed from the user identifier; branch 0 spawns the next child seed.
-/
set_option linter.unusedSimpArgs false
namespace LK.Gen.GuardsC11

/-- every query that names a user — identifier 0 or "" included — gets the seed derived from that identifier -/
theorem derived_for_every_user (q u : Int) : derivingBranch (some q) (some u) = 1 := by
  simp [derivingBranch, LK.Py.truthy]

theorem spawned_without_user (q : LK.Py.V) : derivingBranch q none = 0 := by
  cases q <;> simp [derivingBranch, LK.Py.truthy]

theorem spawned_without_query (u : LK.Py.V) : derivingBranch none u = 0 := by
  simp [derivingBranch, LK.Py.truthy]

/-! the samplers: a fall-back to cross-folding hands the caller's generator on (the call, arguments included, is an atom of the translation) -/

def pathSpec (repeats : LK.Py.V) (disjoint tooMany : Bool) : LK.Py.V :=
  match repeats with
  | none => some 0
  | some _ => if disjoint && tooMany then some 1 else if disjoint then some 2 else some 3

/-- `sample_records`: no repeat count ⇒ one sample; a disjoint request that does not fit ⇒ cross-folding with the caller's options and
    generator; otherwise disjoint or independent samples — for every repeat count, 0 included -/
theorem sampleRecordsPath_spec (repeats : LK.Py.V) (disjoint tooMany : Bool) :
    sampleRecordsPath repeats disjoint tooMany = pathSpec repeats disjoint tooMany := by
  cases repeats <;> cases disjoint <;> cases tooMany <;> simp [sampleRecordsPath, pathSpec, LK.Py.truthy]

/-- `sample_users` decides in another order but takes the same path -/
theorem sampleUsersPath_spec (repeats : LK.Py.V) (disjoint tooMany : Bool) :
    sampleUsersPath repeats disjoint tooMany = pathSpec repeats disjoint tooMany := by
  cases repeats <;> cases disjoint <;> cases tooMany <;> simp [sampleUsersPath, pathSpec, LK.Py.truthy]

theorem samplers_agree (repeats : LK.Py.V) (disjoint tooMany : Bool) :
    sampleRecordsPath repeats disjoint tooMany = sampleUsersPath repeats disjoint tooMany := by
  rw [sampleRecordsPath_spec, sampleUsersPath_spec]


/-! ### which generator a seed resolves to (`random_generator`, `derivable_rng`) -/

/-- the process-global generator is used exactly when no seed is given and one has been configured … -/
theorem global_iff (seed globalRng : LK.Py.V) : randomGeneratorBranch seed globalRng = 0 ↔ (seed.isNone ∧ globalRng.isSome) := by
  cases seed <;> cases globalRng <;> simp [randomGeneratorBranch]

/-- … so every given seed — 0 included — yields its own fresh generator: the model's `resolve` -/
theorem resolve_eq (seed : Option Nat) (g : Int) :
    LK.Rng.resolve seed = (if randomGeneratorBranch (seed.map (fun n => (n : Int))) (some g) = 0 then LK.Rng.Gen.global else
      match seed with | some s => LK.Rng.Gen.fresh s | none => LK.Rng.Gen.global) := by
  cases seed <;> simp [LK.Rng.resolve, randomGeneratorBranch]

/-- the seed specification: `"user"` and `(seed, "user")` give per-user derivation, anything else one fixed generator -/
theorem derivableSpec_dispatch (isUser isTuple : Bool) :
    derivableSpecBranch isUser isTuple = (if isUser then 0 else if isTuple then 1 else 2) := by
  cases isUser <;> cases isTuple <;> rfl


/-- `TrainingOptions.random_generator()` builds a generator from the seed on every call (code 1 = `random_generator(self.rng)`): a seed is a
    value, an options object carrying one means "start from that seed" each time it is asked -/
theorem options_generator_fresh : optionsGenerator = some 1 := rfl

end LK.Gen.GuardsC11
