import LK.Generated.GuardsC06
import LK.Model.RankMetrics
/-!
# C06 — the translated cut-off logic of the ranking metrics is the model's (`k ≥ 1` or none, as the property quantifies)
-/
set_option linter.unusedSimpArgs false
namespace LK.Gen.GuardsC06

/-- `RankingMetricBase.truncate` on an ordered list: the first `k` recommendations when the list is longer, the list itself otherwise —
    in lengths, the model's `LK.Metric.truncate` (`cut` is `items[:k]`, which is the list itself when it has exactly `k` items) -/
theorem truncate_spec (k : Option Nat) (hk : ∀ kk, k = some kk → 1 ≤ kk) (len : Nat) (cut items : LK.Py.V)
    (hcut : ∀ kk, k = some kk → len = kk → cut = items) :
    truncate (k.map (fun kk => (kk : Int))) true (len : Int) cut items
      = (match k with | none => items | some kk => if len > kk then cut else items) := by
  cases k with
  | none => simp [truncate, LK.Py.truthy]
  | some kk =>
    have h1 := hk kk rfl
    have h0 : ¬ ((kk : Int) = 0) := by omega
    have h00 : ¬ (kk = 0) := by omega
    rcases Nat.lt_trichotomy kk len with h | h | h
    · have a1 : (kk : Int) < len := by omega
      have a2 : (kk : Int) ≤ len := by omega
      have a3 : ¬ ((len : Int) < kk) := by omega
      have a4 : ¬ ((len : Int) ≤ kk) := by omega
      have a5 : len > kk := h
      simp [truncate, LK.Py.truthy, LK.Py.gt, LK.Py.lt, LK.Py.le, LK.Py.ge, a1, a2, a3, a4, a5, h0, h00]
    · have hc := hcut kk rfl h.symm
      subst h
      simp [truncate, LK.Py.truthy, LK.Py.gt, LK.Py.lt, LK.Py.le, LK.Py.ge, h0, h00, hc]
    · have a1 : ¬ ((kk : Int) < len) := by omega
      have a2 : ¬ ((kk : Int) ≤ len) := by omega
      have a3 : (len : Int) < kk := by omega
      have a4 : (len : Int) ≤ kk := by omega
      have a5 : ¬ (len > kk) := by omega
      simp [truncate, LK.Py.truthy, LK.Py.gt, LK.Py.lt, LK.Py.le, LK.Py.ge, a1, a2, a3, a4, a5, h0, h00]

/-- the length of the truncated list is the length of the model's truncation -/
theorem truncate_length {α} (k : Option Nat) (L : List α) :
    (LK.Metric.truncate k L).length = (match k with | none => L.length | some kk => if L.length > kk then kk else L.length) := by
  cases k with
  | none => simp [LK.Metric.truncate]
  | some kk =>
    by_cases h : L.length > kk
    · simp [LK.Metric.truncate, h]; omega
    · simp [LK.Metric.truncate, h]

/-- a cut-off on an unordered list is refused -/
theorem truncate_unordered (kk : Int) (len : Int) (cut items : LK.Py.V) (hk : 1 ≤ kk) : truncate (some kk) false len cut items = none := by
  have : ¬ (kk = 0) := by omega
  simp [truncate, LK.Py.truthy, this]

/-- the denominator of recall is the model's `nrelCap`: `min(k, |test|)`, or `|test|` without a cut-off -/
theorem recallDenominator_eq_nrelCap (k : Option Nat) (hk : ∀ kk, k = some kk → 1 ≤ kk) (T : List (Nat × LK.Metric.Q)) :
    recallDenominator (k.map (fun kk => (kk : Int))) (T.length : Int) = some ((LK.Metric.nrelCap k T : Nat) : Int) := by
  cases k with
  | none => simp [recallDenominator, LK.Metric.nrelCap, LK.Py.truthy]
  | some kk =>
    have h1 := hk kk rfl
    have h0 : ¬ ((kk : Int) = 0) := by omega
    have h00 : ¬ (kk = 0) := by omega
    rcases Nat.lt_trichotomy kk T.length with h | h | h
    · have a1 : (kk : Int) < T.length := by omega
      have a2 : (kk : Int) ≤ T.length := by omega
      have a3 : ¬ ((T.length : Int) < kk) := by omega
      have a4 : ¬ ((T.length : Int) ≤ kk) := by omega
      simp [recallDenominator, LK.Metric.nrelCap, LK.Py.truthy, LK.Py.lt, LK.Py.gt, LK.Py.le, LK.Py.ge, LK.Py.pmin, LK.Py.pmax, h, a1, a2, a3, a4, h0, h00]
      try omega
    · have a0 : ¬ (kk < T.length) := by omega
      simp [recallDenominator, LK.Metric.nrelCap, LK.Py.truthy, LK.Py.lt, LK.Py.gt, LK.Py.le, LK.Py.ge, LK.Py.pmin, LK.Py.pmax, a0, h.symm, h0, h00]
      try omega
      try omega
    · have a0 : ¬ (kk < T.length) := by omega
      have a1 : ¬ ((kk : Int) < T.length) := by omega
      have a2 : ¬ ((kk : Int) ≤ T.length) := by omega
      have a3 : (T.length : Int) < kk := by omega
      have a4 : (T.length : Int) ≤ kk := by omega
      simp [recallDenominator, LK.Metric.nrelCap, LK.Py.truthy, LK.Py.lt, LK.Py.gt, LK.Py.le, LK.Py.ge, LK.Py.pmin, LK.Py.pmax, a0, a1, a2, a3, a4, h0, h00]
      try omega

/-- the length of the ideal binary ranking nDCG normalises by is the same `nrelCap` -/
theorem ndcgIdealLength_eq_nrelCap (k : Option Nat) (hk : ∀ kk, k = some kk → 1 ≤ kk) (T : List (Nat × LK.Metric.Q)) :
    ndcgIdealLength (k.map (fun kk => (kk : Int))) none (T.length : Int) = some ((LK.Metric.nrelCap k T : Nat) : Int) := by
  cases k with
  | none => simp [ndcgIdealLength, LK.Metric.nrelCap, LK.Py.truthy]
  | some kk =>
    have h1 := hk kk rfl
    have h0 : ¬ ((kk : Int) = 0) := by omega
    have h00 : ¬ (kk = 0) := by omega
    rcases Nat.lt_trichotomy kk T.length with h | h | h
    · have a1 : (kk : Int) < T.length := by omega
      have a2 : (kk : Int) ≤ T.length := by omega
      have a3 : ¬ ((T.length : Int) < kk) := by omega
      have a4 : ¬ ((T.length : Int) ≤ kk) := by omega
      simp [ndcgIdealLength, LK.Metric.nrelCap, LK.Py.truthy, LK.Py.lt, LK.Py.gt, LK.Py.le, LK.Py.ge, LK.Py.pmin, LK.Py.pmax, h, a1, a2, a3, a4, h0, h00]
      try omega
    · have a0 : ¬ (kk < T.length) := by omega
      simp [ndcgIdealLength, LK.Metric.nrelCap, LK.Py.truthy, LK.Py.lt, LK.Py.gt, LK.Py.le, LK.Py.ge, LK.Py.pmin, LK.Py.pmax, a0, h.symm, h0, h00]
      try omega
      try omega
    · have a0 : ¬ (kk < T.length) := by omega
      have a1 : ¬ ((kk : Int) < T.length) := by omega
      have a2 : ¬ ((kk : Int) ≤ T.length) := by omega
      have a3 : (T.length : Int) < kk := by omega
      have a4 : (T.length : Int) ≤ kk := by omega
      simp [ndcgIdealLength, LK.Metric.nrelCap, LK.Py.truthy, LK.Py.lt, LK.Py.gt, LK.Py.le, LK.Py.ge, LK.Py.pmin, LK.Py.pmax, a0, a1, a2, a3, a4, h0, h00]
      try omega

end LK.Gen.GuardsC06
