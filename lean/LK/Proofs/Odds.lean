import Mathlib.Analysis.SpecialFunctions.ImproperIntegrals
/-!
# C19 — the analytic core of "the first-ranked item is item j with probability w_j / Σw"

`StochasticTopNRanker` ranks by the keys `log(u_i) / w_i` with independent uniform `u_i`; `-log(u_i)/w_i` is an exponential clock of
rate `w_i`, and the item ranked first is the one whose clock rings first.  For independent exponential clocks the probability that
clock `j` (rate `w`) rings before all the others (total rate `W - w`) is `∫₀^∞ w e^{-w t} · e^{-(W-w) t} dt`.  This file proves that
this integral is `w / W`.  That the sampler's keys *are* such clocks (uniformity and independence of NumPy's draws, the change of
variables) is assumed, not proved — see DESIGN §5 C19; the frequency test of the thorough tier samples it.
-/
open MeasureTheory Set Real

namespace LK.Stoch

theorem exp_clock_first_odds (w W : ℝ) (hW : 0 < W) :
    ∫ t in Ioi (0 : ℝ), (w * exp (-w * t)) * exp (-(W - w) * t) = w / W := by
  have h1 : ∀ t : ℝ, (w * exp (-w * t)) * exp (-(W - w) * t) = w * exp (-W * t) := by
    intro t
    rw [mul_assoc, ← Real.exp_add]
    congr 2; ring
  simp_rw [h1]
  rw [integral_const_mul, integral_exp_mul_Ioi (by linarith : -W < 0) 0]
  simp only [mul_zero, exp_zero]
  field_simp

/-- the odds of all clocks add up to one -/
theorem odds_sum_one (ws : List ℝ) (hpos : 0 < ws.sum) : (ws.map (fun w => w / ws.sum)).sum = 1 := by
  have hfun : (fun w : ℝ => w / ws.sum) = (fun w => w * (ws.sum)⁻¹) := by funext w; rw [div_eq_mul_inv]
  rw [hfun, List.sum_map_mul_right]
  simp only [List.map_id']
  exact mul_inv_cancel₀ (ne_of_gt hpos)

#print axioms exp_clock_first_odds
end LK.Stoch
