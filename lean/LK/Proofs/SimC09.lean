import LK.Generated.SimC09
import LK.Proofs.KNN2
import Mathlib.Tactic.Linarith
/-!
# C09 — `_sim_row` as written (torch operations on parallel tensors) computes the model's `simRowTrunc`

The code keeps column numbers and similarities in two tensors, selects by position (`topk` → positions, `argsort` → positions) and
gathers both tensors by those positions; the model sorts a list of pairs.  `gather_sorted` is the bridge: gathering a list of pairs
at the positions a stable sort of their keys produces is the stable sort of the pairs.
-/
set_option linter.unusedSimpArgs false
namespace LK.TorchOps
open LK LK.KNN LK.ArrayOps LK.Gen.SimC09

/-! ### sorting through a map -/

theorem insertBy_map {α β : Type} (le' : α → α → Bool) (le : β → β → Bool) (f : α → β) (x : α) (l : List α)
    (h : ∀ y ∈ l, le' y x = le (f y) (f x)) : (insertBy le' x l).map f = insertBy le (f x) (l.map f) := by
  induction l with
  | nil => rfl
  | cons y ys ih =>
    have hy := h y (List.mem_cons_self ..)
    simp only [insertBy, List.map_cons, hy]
    split
    · simp only [List.map_cons]; rw [ih (fun z hz => h z (List.mem_cons_of_mem _ hz))]
    · rfl

theorem sortBy_map {α β : Type} (le' : α → α → Bool) (le : β → β → Bool) (f : α → β) (l : List α)
    (h : ∀ y ∈ l, ∀ x ∈ l, le' y x = le (f y) (f x)) : (sortBy le' l).map f = sortBy le (l.map f) := by
  induction l with
  | nil => rfl
  | cons x xs ih =>
    simp only [sortBy, List.map_cons]
    rw [insertBy_map le' le f x (sortBy le' xs)
      (fun y hy => h y (List.mem_cons_of_mem _ ((mem_sortBy _ _ _).mp hy)) x (List.mem_cons_self ..))]
    rw [ih (fun y hy x hx => h y (List.mem_cons_of_mem _ hy) x (List.mem_cons_of_mem _ hx))]

/-! ### positions -/

theorem mem_enum {α} (xs : List α) (e : Nat × α) (h : e ∈ enum xs) : xs[e.1]? = some e.2 := by
  unfold enum at h
  obtain ⟨k, hk, rfl⟩ := List.mem_iff_getElem.mp h
  simp only [List.length_zip, List.length_range, Nat.min_self] at hk
  simp [List.getElem_zip, hk]

theorem enum_map_getD {β} {α} (ks : List α) (P : List β) (d : β) (hlen : ks.length = P.length) :
    (enum ks).map (fun e => P.getD e.1 d) = P := by
  unfold enum
  apply List.ext_getElem
  · simp [hlen]
  · intro k h1 h2
    simp only [List.length_map, List.length_zip, List.length_range, Nat.min_self] at h1
    simp [List.getElem_zip, h2]

/-- gathering pairs at the positions a stable sort of their keys yields is the stable sort of the pairs -/
theorem gather_sorted {κ β : Type} (leK : κ → κ → Bool) (le : β → β → Bool) (ks : List κ) (P : List β) (d : β)
    (hlen : ks.length = P.length)
    (hc : ∀ a b (ha : a < P.length) (hb : b < P.length), leK (ks[a]'(hlen ▸ ha)) (ks[b]'(hlen ▸ hb)) = le P[a] P[b]) :
    (sortBy (fun (a b : Nat × κ) => leK a.2 b.2) (enum ks)).map (fun e => P.getD e.1 d) = sortBy le P := by
  have hm := sortBy_map (fun (a b : Nat × κ) => leK a.2 b.2) le (fun e => P.getD e.1 d) (enum ks) ?_
  · rw [hm, enum_map_getD ks P d hlen]
  · intro y hy x hx
    have h1 := mem_enum ks y hy
    have h2 := mem_enum ks x hx
    obtain ⟨hy1, hy2⟩ := List.getElem?_eq_some_iff.mp h1
    obtain ⟨hx1, hx2⟩ := List.getElem?_eq_some_iff.mp h2
    have := hc y.1 x.1 (hlen ▸ hy1) (hlen ▸ hx1)
    simp only [hy2, hx2] at this
    rw [this]
    simp [List.getD_eq_getElem?_getD, hlen ▸ hy1, hlen ▸ hx1]

theorem getD_zip {α β} (as : List α) (bs : List β) (da : α) (db : β) (h : as.length = bs.length) (j : Nat) :
    (as.zip bs).getD j (da, db) = (as.getD j da, bs.getD j db) := by
  induction as generalizing bs j with
  | nil => cases bs <;> simp_all
  | cons a as ih =>
    cases bs with
    | nil => simp at h
    | cons b bs =>
      cases j with
      | zero => simp
      | succ j => simpa using ih bs (by simpa using h) j

theorem zip_takeIdx {α β} (as : List α) (bs : List β) (da : α) (db : β) (h : as.length = bs.length) (idx : List Nat) :
    (takeIdx as da idx).zip (takeIdx bs db idx) = idx.map (fun j => (as.zip bs).getD j (da, db)) := by
  unfold takeIdx
  induction idx with
  | nil => rfl
  | cons j js ih => simp only [List.map_cons, List.zip_cons_cons, ih, getD_zip as bs da db h]

@[simp] theorem takeIdx_length {α} (xs : List α) (d : α) (idx : List Nat) : (takeIdx xs d idx).length = idx.length := by
  simp [takeIdx]

/-- `cols[cis], vals[cis]` with `cis = topk(vals, k)` -/
theorem topk_pairs (cols : List Nat) (vals : List Q) (k : Nat) (h : cols.length = vals.length) :
    (takeIdx cols 0 (topkIdx vals k)).zip (takeIdx vals 0 (topkIdx vals k)) = (sortBy leSim (cols.zip vals)).take k := by
  rw [zip_takeIdx cols vals 0 0 h, topkIdx, List.map_map, List.map_take]
  congr 1
  have := gather_sorted (fun (x y : Q) => decide (y ≤ x)) leSim vals (cols.zip vals) (0, 0) (by simp [h])
    (by intro a b ha hb; simp [leSim, List.getElem_zip])
  simpa [Function.comp_def] using this

/-- `cols[order], vals[order]` with `order = argsort(cols)` -/
theorem argsort_pairs (cols : List Nat) (vals : List Q) (h : cols.length = vals.length) :
    (takeIdx cols 0 (argsort cols)).zip (takeIdx vals 0 (argsort cols)) = sortBy leCol (cols.zip vals) := by
  rw [zip_takeIdx cols vals 0 0 h, argsort, List.map_map]
  have := gather_sorted (fun (x y : Nat) => decide (x ≤ y)) leCol cols (cols.zip vals) (0, 0) (by simp [h])
    (by intro a b ha hb; simp [leCol, List.getElem_zip])
  simpa [Function.comp_def] using this

/-! ### threshold mask -/

theorem indexMask_zip {α β} (as : List α) (bs : List β) (m : List Bool) :
    (indexMask as m).zip (indexMask bs m) = indexMask (as.zip bs) m := by
  induction m generalizing as bs with
  | nil => cases as <;> cases bs <;> simp [indexMask]
  | cons b m ih =>
    cases as with
    | nil => cases bs <;> cases b <;> simp [indexMask]
    | cons a as =>
      cases bs with
      | nil => cases b <;> simp [indexMask]
      | cons c bs => cases b <;> simp [indexMask, ih]

theorem indexMask_map_eq_filter {α} (l : List α) (q : α → Bool) : indexMask l (l.map q) = l.filter q := by
  induction l with
  | nil => simp [indexMask]
  | cons a l ih => cases h : q a <;> simp [indexMask, h, ih]

theorem indexMask_length_congr {α β} (as : List α) (bs : List β) (m : List Bool) (h : as.length = bs.length) :
    (indexMask as m).length = (indexMask bs m).length := by
  induction m generalizing as bs with
  | nil => cases as <;> cases bs <;> simp [indexMask]
  | cons b m ih =>
    cases as with
    | nil => cases bs with
      | nil => simp [indexMask]
      | cons _ _ => simp at h
    | cons a as =>
      cases bs with
      | nil => simp at h
      | cons c bs => cases b <;> simp [indexMask, ih as bs (by simpa using h)]

/-- `nonzero(x >= c)` zipped with `x[x >= c]` are the (position, value) pairs that reach the threshold -/
theorem threshold_pairs (sim : List Q) (c : Q) :
    (nonzero (geScalar sim c)).zip (indexMask sim (geScalar sim c)) = (enum sim).filter (fun e => decide (c ≤ e.2)) := by
  unfold nonzero
  rw [indexMask_zip]
  have hm : geScalar sim c = (enum sim).map (fun e => decide (c ≤ e.2)) := by
    have h2 : (enum sim).map Prod.snd = sim := by unfold enum; exact List.map_snd_zip (by simp)
    unfold geScalar
    conv_lhs => rw [← h2]
    rw [List.map_map]; rfl
  have hl : (geScalar sim c).length = sim.length := by simp [geScalar]
  rw [hl]
  show indexMask (enum sim) (geScalar sim c) = _
  rw [hm, indexMask_map_eq_filter]

/-! ### the row -/

theorem enum_eq_map (xs : List Q) : enum xs = (List.range xs.length).map (fun j => (j, xs.getD j 0)) := by
  unfold enum
  apply List.ext_getElem
  · simp
  · intro k h1 h2
    simp only [List.length_zip, List.length_range, Nat.min_self] at h1
    simp [List.getElem_zip, h1]

theorem filter_map_eq_filterMap {α β} (l : List α) (g : α → β) (q : β → Bool) :
    (l.map g).filter q = l.filterMap (fun j => if q (g j) then some (g j) else none) := by
  induction l with
  | nil => rfl
  | cons a l ih => cases h : q (g a) <;> simp [h, ih]

theorem filterMap_congr' {α β} (l : List α) (f g : α → Option β) (h : ∀ a ∈ l, f a = g a) : l.filterMap f = l.filterMap g := by
  induction l with
  | nil => rfl
  | cons a l ih =>
    simp only [List.filterMap_cons, h a (List.mem_cons_self ..), ih (fun b hb => h b (List.mem_cons_of_mem _ hb))]

theorem dot_zero_left (a b : List Q) (h : ∀ x ∈ a, x = 0) : dot a b = 0 := by
  unfold dot
  induction a generalizing b with
  | nil => simp [sumQ]
  | cons x xs ih =>
    cases b with
    | nil => simp [sumQ]
    | cons y ys =>
      have hx : x = 0 := h x (List.mem_cons_self ..)
      have := ih ys (fun z hz => h z (List.mem_cons_of_mem _ hz))
      simp only [List.zipWith_cons_cons, sumQ, List.foldr_cons] at this ⊢
      rw [this, hx]; simp

/-- the thresholded (column, similarity) pairs of the code are the model's row -/
theorem simRow_eq (vecs : List (List Q)) (minSim : Q) (i : Nat) (hpos : 0 < minSim)
    (hle : ∀ j, j < vecs.length → dot (vecs.getD i []) (vecs.getD j []) ≤ 1) :
    (nonzero (geScalar (setAt (mv vecs (vecs.getD i [])) i 0) minSim)).zip
      (indexMask (setAt (mv vecs (vecs.getD i [])) i 0) (geScalar (setAt (mv vecs (vecs.getD i [])) i 0) minSim))
    = simRow vecs minSim i := by
  rw [threshold_pairs, enum_eq_map, filter_map_eq_filterMap]
  have hl : (setAt (mv vecs (vecs.getD i [])) i 0).length = vecs.length := by simp [setAt, mv]
  rw [hl]
  unfold simRow
  apply filterMap_congr'
  intro j hj
  have hj' : j < vecs.length := List.mem_range.mp hj
  have hg : (setAt (mv vecs (vecs.getD i [])) i 0).getD j 0 = if j = i then 0 else dot (vecs.getD j []) (vecs.getD i []) := by
    simp only [setAt, mv, List.getD_eq_getElem?_getD, List.getElem?_set, List.length_map, List.getElem?_map]
    by_cases hji : j = i
    · subst hji; simp [hj']
    · have : ¬ i = j := fun h => hji h.symm
      simp [this, hji, hj']
  simp only [hg]
  by_cases hji : j = i
  · subst hji
    have : ¬ minSim ≤ 0 := not_le.mpr hpos
    simp [this]
  · have h1 := hle j hj'
    rw [dot_comm (vecs.getD j []) (vecs.getD i [])]
    have : ¬ 1 < dot (vecs.getD i []) (vecs.getD j []) := not_lt.mpr h1
    simp only [hji, this, if_false, ne_eq, not_false_eq_true, true_and, decide_eq_true_eq]

theorem simRow_bounds (vecs : List (List Q)) (minSim : Q) (i : Nat) (hpos : 0 < minSim) (e : Nat × Q)
    (h : e ∈ simRow vecs minSim i) : -1 ≤ e.2 ∧ e.2 ≤ 1 := by
  unfold simRow at h
  simp only [List.mem_filterMap, List.mem_range] at h
  obtain ⟨j, _, hs⟩ := h
  split at hs
  · rename_i hc
    simp only [Option.some.injEq] at hs
    subst hs
    simp only
    split
    · constructor <;> norm_num
    · rename_i h1
      refine ⟨?_, not_lt.mp h1⟩
      have : (0:Q) < dot (vecs.getD i []) (vecs.getD j []) := lt_of_lt_of_le hpos hc.2
      linarith
  · simp at hs

theorem clamp_id (xs : List Q) (lo hi : Q) (h : ∀ x ∈ xs, lo ≤ x ∧ x ≤ hi) : clamp xs lo hi = xs := by
  unfold clamp
  conv_rhs => rw [← List.map_id xs]
  apply List.map_congr_left
  intro x hx
  have := h x hx
  simp [not_lt.mpr this.1, not_lt.mpr this.2]

/-- clamping the similarities of a list of pairs drawn from the model's row changes nothing -/
theorem clamp_pairs (vecs : List (List Q)) (minSim : Q) (maxN : Option Nat) (i : Nat) (hpos : 0 < minSim)
    (cols : List Nat) (vals : List Q) (hlen : cols.length = vals.length)
    (h : cols.zip vals = simRowTrunc vecs minSim maxN i) : cols.zip (clamp vals (-1) 1) = simRowTrunc vecs minSim maxN i := by
  rw [clamp_id, h]
  intro x hx
  obtain ⟨k, hk, rfl⟩ := List.mem_iff_getElem.mp hx
  have hm : (cols[k]'(hlen ▸ hk), vals[k]) ∈ cols.zip vals := by
    apply List.mem_iff_getElem.mpr
    exact ⟨k, by simp [hlen, hk], by simp [List.getElem_zip]⟩
  rw [h] at hm
  exact simRow_bounds vecs minSim i hpos _ (simRowTrunc_sub vecs minSim maxN i _ hm)

/-- **C09 (`_sim_row` as written is the model's row):** for a positive threshold and vectors whose cosines do not exceed 1
    (normalised vectors; the `clamp` only guards rounding), whatever the number of stored entries the row reports — as long
    as "no stored entries" means the vector is zero -/
theorem simRowT_eq (vecs : List (List Q)) (minSim : Q) (maxN : Option Nat) (i nnz : Nat) (hpos : 0 < minSim)
    (hle : ∀ j, j < vecs.length → dot (vecs.getD i []) (vecs.getD j []) ≤ 1)
    (hnnz : nnz = 0 → ∀ x ∈ vecs.getD i [], x = 0) :
    (simRowT i vecs (vecs.getD i []) nnz minSim maxN).1.zip (simRowT i vecs (vecs.getD i []) nnz minSim maxN).2
      = simRowTrunc vecs minSim maxN i := by
  by_cases h0 : nnz = 0
  · have hz := hnnz h0
    have hrow : simRow vecs minSim i = [] := by
      unfold simRow
      apply List.filterMap_eq_nil_iff.mpr
      intro j _
      have : ¬ minSim ≤ 0 := not_le.mpr hpos
      simp only [dot_zero_left _ _ hz, this, and_false, if_false]
    unfold simRowT simRowTrunc
    simp only [h0, if_true, hrow]
    cases maxN <;> simp
  · have hrow := simRow_eq vecs minSim i hpos hle
    have hlen : (nonzero (geScalar (setAt (mv vecs (vecs.getD i [])) i 0) minSim)).length
        = (indexMask (setAt (mv vecs (vecs.getD i [])) i 0) (geScalar (setAt (mv vecs (vecs.getD i [])) i 0) minSim)).length := by
      unfold nonzero
      apply indexMask_length_congr
      simp [geScalar]
    have hvl : (indexMask (setAt (mv vecs (vecs.getD i [])) i 0) (geScalar (setAt (mv vecs (vecs.getD i [])) i 0) minSim)).length
        = (simRow vecs minSim i).length := by
      rw [← hrow, List.length_zip, hlen, Nat.min_self]
    unfold simRowT
    simp only [h0, if_false]
    cases maxN with
    | none =>
      simp only
      exact clamp_pairs vecs minSim none i hpos _ _ hlen (by simpa [simRowTrunc] using hrow)
    | some k =>
      simp only
      by_cases hk : 0 < k ∧ k < (simRow vecs minSim i).length
      · have hk' := hk
        rw [← hvl] at hk'
        simp only [hk', and_self, if_true]
        apply clamp_pairs vecs minSim (some k) i hpos _ _ (by simp [argsort, topkIdx])
        rw [argsort_pairs _ _ (by simp), topk_pairs _ _ _ hlen, hrow]
        simp [simRowTrunc, hk]
      · have hk' := hk
        rw [← hvl] at hk'
        simp only [hk', if_false]
        exact clamp_pairs vecs minSim (some k) i hpos _ _ hlen (by simpa [simRowTrunc, hk] using hrow)

/-! ### the blocks -/

theorem blocks_eq_fanout {β} (f : Nat → β) (n c : Nat) : ∀ fuel start,
    (pyRangeStep n c fuel start).flatMap (fun s => (List.range' s (min (s + c) n - s)).map f) = LK.Batch.fanout f n c fuel start := by
  intro fuel
  induction fuel with
  | zero => intro start; simp [pyRangeStep, LK.Batch.fanout]
  | succ fuel ih =>
    intro start
    simp only [pyRangeStep, LK.Batch.fanout]
    by_cases hs : start < n
    · simp only [hs, if_true, List.flatMap_cons, ih]
      have : min (start + c) n - start = min c (n - start) := by omega
      rw [this]
    · simp [hs]

theorem flatten_map_map {σ α β} (S : List σ) (B : σ → List α) (h : α → β) :
    (S.map (fun s => (B s).map h)).flatten = (S.flatMap B).map h := by
  induction S with
  | nil => rfl
  | cons s S ih => simp only [List.map_cons, List.flatten_cons, List.flatMap_cons, List.map_append, ih]

theorem flatten_map_flatten {σ α β} (S : List σ) (B : σ → List α) (p : α → List β) :
    (S.map (fun s => ((B s).map p).flatten)).flatten = ((S.flatMap B).map p).flatten := by
  induction S with
  | nil => rfl
  | cons s S ih => simp only [List.map_cons, List.flatten_cons, List.flatMap_cons, List.map_append, List.flatten_append, ih]

/-- the CSR triple of a list of rows: row pointers (cumulative sum of the lengths after a leading 0), columns and values end to end -/
def csrOfRows (rows : List (List Nat × List Q)) : List Nat × List Nat × List Q :=
  (cumsum (0 :: rows.map (fun r => r.1.length)), (rows.map (fun r => r.1)).flatten, (rows.map (fun r => r.2)).flatten)

/-- **C09 (the block size is irrelevant, of the code as written):** the CSR triple `_sim_blocks` assembles from blocks of
    `block_size` rows is the triple of the rows `_sim_row` computes for items `0 … n − 1` in order, for every positive block size -/
theorem simBlocksT_eq (matrix : List (List Q)) (minSim : Q) (maxN : Option Nat) (b : Nat) (hb : 0 < b) (nnz : Nat → Nat) :
    simBlocksT matrix minSim maxN b nnz
      = csrOfRows ((List.range matrix.length).map (fun i => simRowT i matrix (matrix.getD i []) (nnz i) minSim maxN)) := by
  have hfan := blocks_eq_fanout (fun i : Nat => i) matrix.length b matrix.length 0
  rw [LK.Batch.fanout_eq_map _ _ _ hb matrix.length 0 (by have := Nat.le_mul_of_pos_right matrix.length hb; omega)] at hfan
  simp only [Nat.sub_zero, ← List.range_eq_range', List.map_id'] at hfan
  unfold simBlocksT simBlockT csrOfRows pyRange
  simp only [List.map_map, Function.comp_def, List.flatten_append, List.flatten_cons, List.flatten_nil, List.append_nil, List.singleton_append]
  rw [flatten_map_map, flatten_map_flatten, flatten_map_flatten, hfan]

theorem simBlocksT_blocksize_indep (matrix : List (List Q)) (minSim : Q) (maxN : Option Nat) (b₁ b₂ : Nat) (h1 : 0 < b₁) (h2 : 0 < b₂)
    (nnz : Nat → Nat) : simBlocksT matrix minSim maxN b₁ nnz = simBlocksT matrix minSim maxN b₂ nnz := by
  rw [simBlocksT_eq _ _ _ _ h1, simBlocksT_eq _ _ _ _ h2]

/-- …and those rows, as (column, similarity) pairs, are the model's `simBlocks` -/
theorem rows_eq_simBlocks (vecs : List (List Q)) (minSim : Q) (maxN : Option Nat) (b : Nat) (hb : 0 < b) (nnz : Nat → Nat)
    (hpos : 0 < minSim)
    (hle : ∀ i j, i < vecs.length → j < vecs.length → dot (vecs.getD i []) (vecs.getD j []) ≤ 1)
    (hnnz : ∀ i, nnz i = 0 → ∀ x ∈ vecs.getD i [], x = 0) :
    (List.range vecs.length).map (fun i => (simRowT i vecs (vecs.getD i []) (nnz i) minSim maxN).1.zip
        (simRowT i vecs (vecs.getD i []) (nnz i) minSim maxN).2) = simBlocks vecs minSim maxN b := by
  rw [simBlocks_eq_rows vecs minSim maxN b hb]
  apply List.map_congr_left
  intro i hi
  exact simRowT_eq vecs minSim maxN i (nnz i) hpos (fun j hj => hle i j (List.mem_range.mp hi) hj) (hnnz i)

/-! ### reading the CSR triple back -/

theorem cumsumFrom_getD (a : Nat) (xs : List Nat) (k : Nat) (hk : k < xs.length) :
    (LK.ArrowOps.cumsumFrom a xs).getD k 0 = a + (LK.ArrowOps.cumsumFrom 0 xs).getD k 0 := by
  induction xs generalizing a k with
  | nil => simp at hk
  | cons x xs ih =>
    cases k with
    | zero => simp [LK.ArrowOps.cumsumFrom]
    | succ k =>
      have hk' : k < xs.length := by simpa using hk
      simp only [LK.ArrowOps.cumsumFrom, List.getD_cons_succ, Nat.zero_add]
      rw [ih (a + x) k hk', ih x k hk']; omega

/-- row pointer `u` (`0 ≤ u ≤ number of rows`) -/
def ptrAt {α} (L : List (List α)) (u : Nat) : Nat := (cumsum (0 :: L.map List.length)).getD u 0

theorem ptrAt_zero {α} (L : List (List α)) : ptrAt L 0 = 0 := by simp [ptrAt, cumsum, LK.ArrowOps.cumsum, LK.ArrowOps.cumsumFrom]

theorem ptrAt_succ_cons {α} (l : List α) (L : List (List α)) (u : Nat) (hu : u ≤ L.length) :
    ptrAt (l :: L) (u + 1) = l.length + ptrAt L u := by
  simp only [ptrAt, cumsum, LK.ArrowOps.cumsum, LK.ArrowOps.cumsumFrom, List.map_cons, Nat.zero_add, List.getD_cons_succ, Nat.add_zero]
  cases u with
  | zero => simp [LK.ArrowOps.cumsumFrom]
  | succ u =>
    simp only [LK.ArrowOps.cumsumFrom, List.getD_cons_succ, Nat.zero_add]
    exact cumsumFrom_getD l.length _ u (by rw [List.length_map]; omega)

/-- **reading a row back:** the slice `[ptr u, ptr (u+1))` of the concatenation is row `u` -/
theorem csr_row {α} (L : List (List α)) (u : Nat) (hu : u < L.length) :
    (L.flatten.drop (ptrAt L u)).take (ptrAt L (u + 1) - ptrAt L u) = L[u] := by
  induction L generalizing u with
  | nil => simp at hu
  | cons l L ih =>
    cases u with
    | zero =>
      rw [ptrAt_zero, ptrAt_succ_cons l L 0 (Nat.zero_le _), ptrAt_zero]
      simp
    | succ u =>
      have hu' : u < L.length := by simpa using hu
      rw [ptrAt_succ_cons l L u (Nat.le_of_lt hu'), ptrAt_succ_cons l L (u + 1) hu']
      have : l.length + ptrAt L (u + 1) - (l.length + ptrAt L u) = ptrAt L (u + 1) - ptrAt L u := by omega
      rw [this, List.flatten_cons, List.drop_append, List.drop_of_length_le (by omega)]
      simp only [List.nil_append, Nat.add_sub_cancel_left, List.getElem_cons_succ]
      exact ih u hu'

theorem simRowT_lengths (item : Nat) (matrix : List (List Q)) (row : List Q) (nnz : Nat) (minSim : Q) (maxN : Option Nat) :
    (simRowT item matrix row nnz minSim maxN).1.length = (simRowT item matrix row nnz minSim maxN).2.length := by
  have hlen : (nonzero (geScalar (setAt (mv matrix row) item 0) minSim)).length
      = (indexMask (setAt (mv matrix row) item 0) (geScalar (setAt (mv matrix row) item 0) minSim)).length := by
    unfold nonzero
    apply indexMask_length_congr
    simp [geScalar]
  unfold simRowT
  split
  · rfl
  · cases maxN with
    | none => simp [clamp, hlen]
    | some k =>
      simp only
      split
      · simp [clamp, argsort, topkIdx]
      · simp [clamp, hlen]

/-- **C09 (what `_sim_blocks` stores for item `u` is the model's row `u`):** the slice of (column, similarity) pairs between
    row pointers `u` and `u + 1` of the assembled CSR triple is `simRowTrunc … u`, whatever the block size -/
theorem simBlocksT_row (vecs : List (List Q)) (minSim : Q) (maxN : Option Nat) (b : Nat) (hb : 0 < b) (nnz : Nat → Nat)
    (hpos : 0 < minSim)
    (hle : ∀ i j, i < vecs.length → j < vecs.length → dot (vecs.getD i []) (vecs.getD j []) ≤ 1)
    (hnnz : ∀ i, nnz i = 0 → ∀ x ∈ vecs.getD i [], x = 0) (u : Nat) (hu : u < vecs.length) :
    let csr := simBlocksT vecs minSim maxN b nnz
    ((csr.2.1.drop (csr.1.getD u 0)).take (csr.1.getD (u + 1) 0 - csr.1.getD u 0)).zip
      ((csr.2.2.drop (csr.1.getD u 0)).take (csr.1.getD (u + 1) 0 - csr.1.getD u 0)) = simRowTrunc vecs minSim maxN u := by
  intro csr
  have hcsr : csr = csrOfRows ((List.range vecs.length).map (fun i => simRowT i vecs (vecs.getD i []) (nnz i) minSim maxN)) :=
    simBlocksT_eq vecs minSim maxN b hb nnz
  rw [hcsr]
  simp only [csrOfRows]
  have hL : (List.map (fun r : List Nat × List Q => r.1.length) ((List.range vecs.length).map (fun i => simRowT i vecs (vecs.getD i []) (nnz i) minSim maxN)))
      = (((List.range vecs.length).map (fun i => simRowT i vecs (vecs.getD i []) (nnz i) minSim maxN)).map (fun r => r.1)).map List.length := by
    simp [List.map_map, Function.comp_def]
  have hV : (List.map (fun r : List Nat × List Q => r.1.length) ((List.range vecs.length).map (fun i => simRowT i vecs (vecs.getD i []) (nnz i) minSim maxN)))
      = (((List.range vecs.length).map (fun i => simRowT i vecs (vecs.getD i []) (nnz i) minSim maxN)).map (fun r => r.2)).map List.length := by
    simp only [List.map_map, Function.comp_def]
    apply List.map_congr_left
    intro i _
    exact simRowT_lengths ..
  have hc := csr_row (((List.range vecs.length).map (fun i => simRowT i vecs (vecs.getD i []) (nnz i) minSim maxN)).map (fun r => r.1)) u (by simpa using hu)
  have hv := csr_row (((List.range vecs.length).map (fun i => simRowT i vecs (vecs.getD i []) (nnz i) minSim maxN)).map (fun r => r.2)) u (by simpa using hu)
  unfold ptrAt at hc hv
  rw [← hL] at hc
  rw [← hV] at hv
  rw [hc, hv]
  simp only [List.getElem_map, List.getElem_range]
  exact simRowT_eq vecs minSim maxN u (nnz u) hpos (fun j hj => hle u j hu hj) (hnnz u)

/-! ### the candidate neighbours of the user-user scorer -/

/-- the similarities the selection works on: the product, with the user's own entry zeroed when the user is a training user -/
def userSims (vectors : List (List Q)) (ratings : List Q) (uidx : Option Nat) : List Q :=
  match uidx with
  | some u => setAt (mv vectors ratings) u 0
  | none => mv vectors ratings

theorem userSims_length (vectors : List (List Q)) (ratings : List Q) (uidx : Option Nat) : (userSims vectors ratings uidx).length = vectors.length := by
  cases uidx <;> simp [userSims, setAt, mv]

/-- **the candidate neighbours are exactly the users whose similarity reaches `min_sim`** (the threshold included), each with its
    similarity, in position order -/
theorem userNbrsT_pairs (vectors : List (List Q)) (ratings : List Q) (uidx : Option Nat) (c : Q) :
    (userNbrsT vectors ratings uidx c vectors.length).1.zip (userNbrsT vectors ratings uidx c vectors.length).2
      = (enum (userSims vectors ratings uidx)).filter (fun e => decide (c ≤ e.2)) := by
  have key : ∀ sims : List Q, sims.length = vectors.length →
      (indexMask (List.range vectors.length) (geScalar sims c)).zip (indexMask sims (geScalar sims c)) = (enum sims).filter (fun e => decide (c ≤ e.2)) := by
    intro sims hl
    have := threshold_pairs sims c
    unfold nonzero at this
    have hm : (geScalar sims c).length = vectors.length := by simp [geScalar, hl]
    rw [hm] at this
    exact this
  cases uidx with
  | none => simpa [userNbrsT, userSims] using key (mv vectors ratings) (by simp [mv])
  | some u => simpa [userNbrsT, userSims] using key (setAt (mv vectors ratings) u 0) (by simp [setAt, mv])

theorem mem_enum_iff {α} (xs : List α) (i : Nat) (x : α) : (i, x) ∈ enum xs ↔ xs[i]? = some x := by
  constructor
  · intro h; simpa using mem_enum xs (i, x) h
  · intro h
    obtain ⟨hi, rfl⟩ := List.getElem?_eq_some_iff.mp h
    unfold enum
    exact List.mem_iff_getElem.mpr ⟨i, by simpa using hi, by simp⟩

/-- a user is a candidate neighbour iff its similarity is at least `min_sim` -/
theorem userNbrsT_mem (vectors : List (List Q)) (ratings : List Q) (uidx : Option Nat) (c : Q) (v : Nat) (s : Q) :
    (v, s) ∈ (userNbrsT vectors ratings uidx c vectors.length).1.zip (userNbrsT vectors ratings uidx c vectors.length).2
      ↔ (userSims vectors ratings uidx)[v]? = some s ∧ c ≤ s := by
  rw [userNbrsT_pairs, List.mem_filter, mem_enum_iff]; simp

/-- with a positive threshold the user is never their own neighbour -/
theorem userNbrsT_no_self (vectors : List (List Q)) (ratings : List Q) (u : Nat) (c : Q) (hc : 0 < c) (s : Q) :
    (u, s) ∉ (userNbrsT vectors ratings (some u) c vectors.length).1.zip (userNbrsT vectors ratings (some u) c vectors.length).2 := by
  rw [userNbrsT_mem]
  rintro ⟨h1, h2⟩
  obtain ⟨hi, rfl⟩ := List.getElem?_eq_some_iff.mp h1
  simp [userSims, setAt] at h2
  exact absurd (lt_of_lt_of_le hc h2) (lt_irrefl _)

/-- any other user's similarity is the product of the two vectors -/
theorem userSims_other (vectors : List (List Q)) (ratings : List Q) (uidx : Option Nat) (v : Nat) (hv : uidx ≠ some v) :
    (userSims vectors ratings uidx)[v]? = (vectors[v]?).map (fun vec => dot vec ratings) := by
  cases uidx with
  | none => simp [userSims, mv]
  | some u =>
    have : u ≠ v := by intro h; exact hv (by rw [h])
    simp [userSims, setAt, mv, List.getElem?_set_ne this]

/-! ### the score of one target item in the item-item scorer -/

/-- the rated items as neighbours of the target: position, similarity to the target (0 when not a stored neighbour), rating -/
def denseNbrs (ri_vals col : List Q) : List Nbr := (enum col).map (fun e => ⟨e.1, e.2, ri_vals.getD e.1 0⟩)

theorem denseNbrs_length (r col : List Q) : (denseNbrs r col).length = col.length := by simp [denseNbrs, enum]

theorem denseNbrs_getElem (r col : List Q) (i : Nat) (hi : i < (denseNbrs r col).length) :
    (denseNbrs r col)[i] = ⟨i, col[i]'(by simpa [denseNbrs_length] using hi), r.getD i 0⟩ := by
  simp [denseNbrs, enum]

theorem denseNbrs_getD (r col : List Q) (j : Nat) :
    ((denseNbrs r col).getD j ⟨0, 0, 0⟩).sim = col.getD j 0 ∧ (j < col.length → ((denseNbrs r col).getD j ⟨0, 0, 0⟩).r = r.getD j 0) := by
  by_cases hj : j < col.length
  · have hj' : j < (denseNbrs r col).length := by simpa [denseNbrs_length] using hj
    simp [List.getD_eq_getElem?_getD, List.getElem?_eq_getElem hj', denseNbrs_getElem, List.getElem?_eq_getElem hj]
  · have hj' : ¬ j < (denseNbrs r col).length := by simpa [denseNbrs_length] using hj
    simp [List.getD_eq_getElem?_getD, List.getElem?_eq_none (Nat.le_of_not_lt hj'), List.getElem?_eq_none (Nat.le_of_not_lt hj), hj]

theorem sims_denseNbrs (r col : List Q) : (denseNbrs r col).map (·.sim) = col := by
  apply List.ext_getElem (by simp [denseNbrs_length])
  intro i h1 h2
  simp [denseNbrs_getElem]

theorem prods_denseNbrs (r col : List Q) (h : r.length = col.length) :
    (denseNbrs r col).map (fun n => n.sim * n.r) = List.zipWith (· * ·) r col := by
  apply List.ext_getElem (by simp [denseNbrs_length, h])
  intro i h1 h2
  have hi : i < col.length := by simpa [denseNbrs_length] using h1
  have hr : i < r.length := by omega
  simp [denseNbrs_getElem, List.getD_eq_getElem?_getD, List.getElem?_eq_getElem hr, mul_comm]

/-- the model's aggregate in terms of the two sums the code divides -/
theorem aggregate_eq_divQ (explicit : Bool) (ns : List Nbr) :
    aggregate explicit ns = if explicit then divQ (sumQ (ns.map (fun n => n.sim * n.r))) (sumQ (ns.map (·.sim))) else some (sumQ (ns.map (·.sim))) := by
  cases explicit <;> simp [aggregate, divQ]

/-- the positions `topk` returns, read as neighbours, are the `k` most similar of the rated items -/
theorem topk_nbrs (r col : List Q) (k : Nat) :
    (topkIdx col k).map (fun j => (denseNbrs r col).getD j ⟨0, 0, 0⟩) = (sortBy leDesc (denseNbrs r col)).take k := by
  have := gather_sorted (fun (x y : Q) => decide (y ≤ x)) leDesc col (denseNbrs r col) ⟨0, 0, 0⟩ (by simp [denseNbrs_length])
    (by intro a b ha hb; simp [leDesc, denseNbrs_getElem])
  rw [← this, topkIdx, List.map_map, List.map_take]
  rfl

/-- **the fast path is the model's aggregate over the whole neighbourhood** -/
theorem itemScoreT_fast (explicit : Bool) (minN maxN : Nat) (r col : List Q) (size : Nat) (hr : r.length = col.length)
    (h1 : minN ≤ size) (h2 : size ≤ maxN) :
    itemScoreT explicit minN maxN r col size = aggregate explicit (denseNbrs r col) := by
  rw [aggregate_eq_divQ, sims_denseNbrs, prods_denseNbrs r col hr]
  simp [itemScoreT, h1, h2, dot]

/-- **the slow path is the model's aggregate over the `max_nbrs` most similar** — numerator and denominator range over the same
    truncated neighbourhood -/
theorem itemScoreT_slow (explicit : Bool) (minN maxN : Nat) (r col : List Q) (size : Nat) (hr : r.length = col.length)
    (h1 : minN ≤ size) (h2 : maxN < size) :
    itemScoreT explicit minN maxN r col size = aggregate explicit ((sortBy leDesc (denseNbrs r col)).take maxN) := by
  have hnf : ¬ size ≤ maxN := by omega
  rw [aggregate_eq_divQ, ← topk_nbrs r col maxN]
  have hin : ∀ j ∈ topkIdx col maxN, j < col.length := by
    intro j hj
    simp only [topkIdx, List.mem_map] at hj
    obtain ⟨e, he, rfl⟩ := hj
    have := mem_enum col e ((sortBy_perm _ _).subset (List.mem_of_mem_take he))
    exact (List.getElem?_eq_some_iff.mp this).1
  have hs : takeIdx col 0 (topkIdx col maxN) = ((topkIdx col maxN).map (fun j => (denseNbrs r col).getD j ⟨0, 0, 0⟩)).map (·.sim) := by
    simp only [takeIdx, List.map_map]
    apply List.map_congr_left; intro j _
    simp only [Function.comp_apply]; exact ((denseNbrs_getD r col j).1).symm
  have hp : List.zipWith (· * ·) (takeIdx col 0 (topkIdx col maxN)) (takeIdx r 0 (topkIdx col maxN))
      = ((topkIdx col maxN).map (fun j => (denseNbrs r col).getD j ⟨0, 0, 0⟩)).map (fun n => n.sim * n.r) := by
    simp only [takeIdx, List.map_map, List.zipWith_map, List.zipWith_self]
    apply List.map_congr_left; intro j hj
    simp only [Function.comp_apply]; rw [(denseNbrs_getD r col j).1, (denseNbrs_getD r col j).2 (hin j hj)]
  simp only [itemScoreT, hnf, h1, decide_false, decide_true, Bool.and_false, Bool.false_eq_true, if_false, Bool.not_false, Bool.and_true, if_true]
  rw [hp, hs]

/-- **a neighbourhood with fewer than `min_nbrs` stored entries gets no score** — whether or not it exceeds `max_nbrs` (the slow path
    used to score it; repaired by `fix:` in `/repo`) -/
theorem itemScoreT_too_few (explicit : Bool) (minN maxN : Nat) (r col : List Q) (size : Nat) (h1 : size < minN) :
    itemScoreT explicit minN maxN r col size = none := by
  have : ¬ minN ≤ size := by omega
  simp [itemScoreT, this]

/-- the dispatch is the model's `itemScoreImpl`: nothing below the minimum, the whole neighbourhood when it fits, the `max_nbrs` most
    similar otherwise -/
theorem itemScoreT_eq (explicit : Bool) (minN maxN : Nat) (r col : List Q) (size : Nat) (hr : r.length = col.length) :
    itemScoreT explicit minN maxN r col size =
      (if size < minN then none else if size ≤ maxN then aggregate explicit (denseNbrs r col)
       else aggregate explicit ((sortBy leDesc (denseNbrs r col)).take maxN)) := by
  by_cases h1 : size < minN
  · simp [h1, itemScoreT_too_few explicit minN maxN r col size h1]
  · by_cases h2 : size ≤ maxN
    · simp [h1, h2, itemScoreT_fast explicit minN maxN r col size hr (by omega) h2]
    · simp [h1, h2, itemScoreT_slow explicit minN maxN r col size hr (by omega) (by omega)]

#print axioms simRowT_eq
#print axioms simBlocksT_eq
#print axioms simBlocksT_row
end LK.TorchOps
