import LK.Generated.BuildC14
import LK.Proofs.Heap
/-!
# C14 / C02 — the builder's edit operations as translated from the code: they are the steps of the heap model, and replacing a
component retains the connections that are not given again
-/
namespace LK.Gen.BuildC14
open LK.Heap

def dictGet (d : Dict) (k : String) : Option String := (d.find? (·.1 == k)).map (·.2)

theorem dictGet_dictSet (d : Dict) (k v k' : String) : dictGet (dictSet d k v) k' = if k' = k then some v else dictGet d k' := by
  unfold dictGet dictSet
  by_cases h : k' = k
  · subst h; simp
  · have h1 : (k == k') = false := by simp [Ne.symm h]
    simp only [List.find?_cons, h1, h]
    simp only [if_false]
    congr 1
    induction d with
    | nil => rfl
    | cons e d ih =>
      by_cases he : e.1 = k
      · have hne : (e.1 == k') = false := by simp [he, Ne.symm h]
        have hf : (e.1 != k) = false := by simp [he]
        rw [List.filter_cons, hf, List.find?_cons, hne]; simpa using ih
      · have hf : (e.1 != k) = true := by simp [he]
        rw [List.filter_cons, hf]
        simp only [if_true, List.find?_cons]
        cases hq : (e.1 == k') with
        | true => rfl
        | false => simpa using ih

/-- the loop of `connect` on the dictionary at address `a` -/
def writeAll (h : Heap) (a : Nat) (inputs : List (String × Input)) : Heap :=
  inputs.foldl (fun h kn => h.set a (dictSet (h.cell a) kn.1 (resolve kn.2))) h

theorem writeAll_next (h : Heap) (a : Nat) (inputs : List (String × Input)) : (writeAll h a inputs).next = h.next := by
  induction inputs generalizing h with
  | nil => rfl
  | cons kn ins ih => simp only [writeAll, List.foldl_cons] at ih ⊢; rw [ih]; rfl

/-- no other dictionary is touched -/
theorem writeAll_frame (h : Heap) (a b : Nat) (hb : b ≠ a) (inputs : List (String × Input)) : (writeAll h a inputs).cell b = h.cell b := by
  induction inputs generalizing h with
  | nil => rfl
  | cons kn ins ih => simp only [writeAll, List.foldl_cons] at ih ⊢; rw [ih]; simp [Heap.set, hb]

/-- an input that is not given again keeps its connection -/
theorem writeAll_keeps (h : Heap) (a : Nat) (inputs : List (String × Input)) (k : String) (hk : k ∉ inputs.map (·.1)) :
    dictGet ((writeAll h a inputs).cell a) k = dictGet (h.cell a) k := by
  induction inputs generalizing h with
  | nil => rfl
  | cons kn ins ih =>
    simp only [List.map_cons, List.mem_cons, not_or] at hk
    simp only [writeAll, List.foldl_cons] at ih ⊢
    rw [ih _ hk.2]
    simp [Heap.set, dictGet_dictSet, hk.1]

/-- an input that is given (once) is connected to what was given -/
theorem writeAll_sets (h : Heap) (a : Nat) (pre post : List (String × Input)) (k : String) (i : Input) (hk : k ∉ post.map (·.1)) :
    dictGet ((writeAll h a (pre ++ (k, i) :: post)).cell a) k = some (resolve i) := by
  unfold writeAll
  rw [List.foldl_append, List.foldl_cons]
  have := writeAll_keeps ((List.foldl (fun h kn => h.set a (dictSet (h.cell a) kn.1 (resolve kn.2))) h pre).set a
    (dictSet ((List.foldl (fun h kn => h.set a (dictSet (h.cell a) kn.1 (resolve kn.2))) h pre).cell a) k (resolve i))) a post k hk
  unfold writeAll at this
  rw [this]
  simp [Heap.set, dictGet_dictSet]

theorem connectT_some (h : Heap) (es : List (String × Nat)) (node : String) (a : Nat) (ha : lookupE es node = some a) (inputs : List (String × Input)) :
    connectT h es node inputs = (writeAll h a inputs, es) := by
  simp [connectT, ha, writeAll]

theorem connectT_none (h : Heap) (es : List (String × Nat)) (node : String) (ha : lookupE es node = none) (inputs : List (String × Input)) :
    connectT h es node inputs = (writeAll (h.alloc []).1 h.next inputs, setE es node h.next) := by
  simp [connectT, ha, writeAll, Heap.alloc]

/-- **`connect` is the heap model's `connect` step** (one input; a node by its name, anything else by its literal's name) -/
theorem connectT_is_step (deep : Bool) (w : World) (b : Nat) (o : Obj) (ho : w.objs[b]? = some o) (hk : o.kind = .builder) (comp k : String) (i : Input) :
    step deep w (.connect b comp k (resolve i)) =
      { heap := (connectT w.heap o.edges comp [(k, i)]).1,
        objs := if (lookupE o.edges comp).isSome then w.objs else setObj w.objs b { o with edges := (connectT w.heap o.edges comp [(k, i)]).2 } } := by
  cases ha : lookupE o.edges comp with
  | some a => simp [step, ho, hk, ha, connectT_some _ _ _ _ ha, writeAll]
  | none =>
    simp only [step, ho, hk, ha, connectT_none _ _ _ ha, writeAll, List.foldl_cons, List.foldl_nil, Option.isSome_none, Bool.false_eq_true, if_false, if_true]
    congr 1
    simp only [Heap.alloc, Heap.set, dictSet]
    congr 1
    funext c
    by_cases hc : c = w.heap.next <;> simp [hc]

/-- **`clear_inputs` is the heap model's `clearInputs` step**: a new dictionary, the old one left as it is -/
theorem clearInputsT_is_step (deep : Bool) (w : World) (b : Nat) (o : Obj) (ho : w.objs[b]? = some o) (hk : o.kind = .builder) (comp : String) :
    step deep w (.clearInputs b comp) =
      { heap := (clearInputsT w.heap o.edges comp).1, objs := setObj w.objs b { o with edges := (clearInputsT w.heap o.edges comp).2 } } := by
  simp [step, ho, hk, clearInputsT]

/-- **replacing a component retains the connections that are not given again** — the wiring table is not touched, the component's
    dictionary stays at its address, and every input that is not among the new ones is connected to what it was connected to -/
theorem replace_retains (h : Heap) (es : List (String × Nat)) (name : String) (a : Nat) (ha : lookupE es name = some a)
    (inputs : List (String × Input)) (k : String) (hk : k ∉ inputs.map (·.1)) :
    (replaceComponentT h es name inputs).2 = es ∧
    dictGet ((replaceComponentT h es name inputs).1.cell a) k = dictGet (h.cell a) k := by
  unfold replaceComponentT
  rw [connectT_some h es name a ha]
  exact ⟨rfl, writeAll_keeps h a inputs k hk⟩

/-- …and the inputs that are given are connected as given -/
theorem replace_overrides (h : Heap) (es : List (String × Nat)) (name : String) (a : Nat) (ha : lookupE es name = some a)
    (pre post : List (String × Input)) (k : String) (i : Input) (hk : k ∉ post.map (·.1)) :
    dictGet ((replaceComponentT h es name (pre ++ (k, i) :: post)).1.cell a) k = some (resolve i) := by
  unfold replaceComponentT
  rw [connectT_some h es name a ha]
  exact writeAll_sets h a pre post k i hk

/-- the other components' dictionaries are not touched by `connect` / `replace_component` -/
theorem connect_frame (h : Heap) (es : List (String × Nat)) (name : String) (inputs : List (String × Input)) (b : Nat) (hb : b < h.next)
    (hne : lookupE es name ≠ some b) : (connectT h es name inputs).1.cell b = h.cell b := by
  cases ha : lookupE es name with
  | some a =>
    rw [connectT_some h es name a ha]
    exact writeAll_frame h a b (by intro e; exact hne (by rw [ha, e])) inputs
  | none =>
    rw [connectT_none h es name ha]
    rw [writeAll_frame _ _ b (by omega)]
    exact alloc_cell_old h [] b hb

/-- **a value that is not a node is wired as a literal, whatever it spells**: a string equal to the name of a node of the builder is
    connected to its literal node, not to that node -/
theorem literal_stays_literal (h : Heap) (es : List (String × Nat)) (comp k litName : String) (a : Nat) (ha : lookupE es comp = some a) :
    dictGet ((connectT h es comp [(k, .value litName)]).1.cell a) k = some litName := by
  have := replace_overrides h es comp a ha [] [] k (.value litName) (by simp)
  simpa [replaceComponentT, resolve] using this

example : (replaceComponentT { cell := fun a => if a = 0 then [("items", "cands"), ("n", "n")] else [], next := 1 } [("ranker", 0)] "ranker" [("n", .value "lit-5")]).1.cell 0
    = [("n", "lit-5"), ("items", "cands")] := by decide

end LK.Gen.BuildC14
