import LK.Generated.CollC15
/-!
# C15 — the native Parquet layout of an item-list collection, as translated from the code: what is loaded is what was saved, list by
list and key by key, whatever the batch size
-/
namespace LK.Gen.CollC15
open LK.CollOps

theorem chunkedAux_flatten {α} (n : Nat) (hn : 0 < n) : ∀ (fuel : Nat) (xs : List α), xs.length ≤ fuel → (chunkedAux n fuel xs).flatten = xs
  | 0, xs, h => by
    have : xs = [] := List.eq_nil_of_length_eq_zero (by omega)
    simp [chunkedAux, this]
  | fuel + 1, xs, h => by
    unfold chunkedAux
    by_cases he : xs.isEmpty
    · simp [he, List.isEmpty_iff.mp he]
    · have hne : xs ≠ [] := by simpa [List.isEmpty_iff] using he
      have hpos : 0 < xs.length := List.length_pos_iff.mpr hne
      have := chunkedAux_flatten n hn fuel (xs.drop n) (by simp; omega)
      simp [he, this]

/-- the chunks, put end to end, are the input -/
theorem chunked_flatten {α} (n : Nat) (hn : 0 < n) (xs : List α) : (chunked n xs).flatten = xs := by
  have : n ≠ 0 := by omega
  simp [chunked, this, chunkedAux_flatten n hn xs.length xs (Nat.le_refl _)]

theorem chunkedAux_sizes {α} (n : Nat) : ∀ (fuel : Nat) (xs : List α), ∀ c ∈ chunkedAux n fuel xs, c.length ≤ n
  | 0, _, c, h => by simp [chunkedAux] at h
  | fuel + 1, xs, c, h => by
    unfold chunkedAux at h
    by_cases he : xs.isEmpty
    · simp [he] at h
    · simp only [he, Bool.false_eq_true, if_false, List.mem_cons] at h
      rcases h with rfl | h
      · simp [List.length_take]; omega
      · exact chunkedAux_sizes n fuel _ c h

/-- no batch holds more than `batch_size` lists -/
theorem batch_sizes {κ α μ} (enc : α → μ) (items : List (κ × α)) (n : Nat) : ∀ b ∈ recordBatchesT enc items n, b.keys.length ≤ n ∧ b.items.length = b.keys.length := by
  intro b hb
  simp only [recordBatchesT, List.mem_map] at hb
  obtain ⟨c, hc, rfl⟩ := hb
  by_cases h0 : n = 0
  · simp [chunked, h0] at hc
  · simp only [chunked, h0, if_false] at hc
    simpa using chunkedAux_sizes n _ _ c hc

theorem foldl_snoc {β} (l : List β) (acc : List β) : l.foldl (fun w b => w ++ [b]) acc = acc ++ l := by
  induction l generalizing acc with
  | nil => simp
  | cons x l ih => simp [ih]

/-- the file holds the record batches in the order they were produced -/
theorem save_is_batches {κ α μ} (enc : α → μ) (items : List (κ × α)) (n : Nat) : saveParquetT enc items n = recordBatchesT enc items n := by
  unfold saveParquetT; rw [foldl_snoc]; simp

theorem flatMap_map_flatten {α β} (f : α → β) (cs : List (List α)) : cs.flatMap (fun c => c.map f) = cs.flatten.map f := by
  induction cs with
  | nil => rfl
  | cons c cs ih => simp [ih]

theorem read_keys {κ α μ} (enc : α → μ) (items : List (κ × α)) (n : Nat) (hn : 0 < n) : readKeys (saveParquetT enc items n) = items.map (·.1) := by
  rw [save_is_batches]
  simp only [readKeys, recordBatchesT, List.flatMap_map]
  rw [flatMap_map_flatten (fun kl : κ × α => kl.1), chunked_flatten n hn]

theorem read_items {κ α μ} (enc : α → μ) (items : List (κ × α)) (n : Nat) (hn : 0 < n) : readItems (saveParquetT enc items n) = items.map (fun kl => enc kl.2) := by
  rw [save_is_batches]
  simp only [readItems, recordBatchesT, List.flatMap_map]
  rw [flatMap_map_flatten (fun kl : κ × α => enc kl.2), chunked_flatten n hn]

/-- **Round trip of the native layout**: for every collection (any keys, duplicates included, any lists) and every batch size ≥ 1, the loaded
    collection has the saved keys in the saved order, each with its own list converted out and back. -/
theorem load_save {κ α μ} (enc : α → μ) (dec : μ → α) (items : List (κ × α)) (n : Nat) (hn : 0 < n) :
    loadParquetT dec (saveParquetT enc items n) = items.map (fun kl => (kl.1, some (dec (enc kl.2)))) := by
  simp only [loadParquetT, read_keys enc items n hn, read_items enc items n hn, enumerate]
  apply List.ext_getElem?
  intro i
  simp only [List.getElem?_map, List.getElem?_zipIdx, Option.map_map]
  cases h : items[i]? with
  | none => simp
  | some kl => simp [h]

/-- with a faithful list conversion the collection comes back exactly -/
theorem load_save_exact {κ α μ} (enc : α → μ) (dec : μ → α) (hed : ∀ a, dec (enc a) = a) (items : List (κ × α)) (n : Nat) (hn : 0 < n) :
    loadParquetT dec (saveParquetT enc items n) = items.map (fun kl => (kl.1, some kl.2)) := by
  rw [load_save enc dec items n hn]; simp [hed]

/-- **The batch size does not matter** -/
theorem load_save_batch_indep {κ α μ} (enc : α → μ) (dec : μ → α) (items : List (κ × α)) (n m : Nat) (hn : 0 < n) (hm : 0 < m) :
    loadParquetT dec (saveParquetT enc items n) = loadParquetT dec (saveParquetT enc items m) := by
  rw [load_save enc dec items n hn, load_save enc dec items m hm]

/-- an empty collection writes no batch at all (no file is opened: the known finding about empty collections) -/
theorem save_empty {κ α μ} (enc : α → μ) (n : Nat) : saveParquetT enc ([] : List (κ × α)) n = [] := by
  by_cases h0 : n = 0 <;> simp [saveParquetT, recordBatchesT, chunked, chunkedAux, h0]

example : loadParquetT (fun (x : Nat) => x) (saveParquetT (fun (x : Nat) => x) [(1, 10), (2, 20), (1, 30)] 2) = [(1, some 10), (2, some 20), (1, some 30)] := by decide
example : (saveParquetT (fun (x : Nat) => x) [(1, 10), (2, 20), (1, 30)] 2).length = 2 := by decide

end LK.Gen.CollC15
