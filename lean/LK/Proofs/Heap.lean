import LK.Model.Heap
namespace LK.Heap

/- the defect, as a model-level witness: modify → connect changes the original -/
def w0 : World :=
  { heap := { cell := fun a => if a = 0 then [("query", "history-lookup")] else [], next := 1 },
    objs := [{ kind := .pipe, edges := [("scorer", 0)] }] }

example : observe (runOps false w0 [.modify 0, .connect 1 "scorer" "items" "items"]) 0 ≠ observe w0 0 := by decide
example : observe (runOps true w0 [.modify 0, .connect 1 "scorer" "items" "items"]) 0 = observe w0 0 := by decide


/-! ### separation invariant for the repaired discipline -/

def addrs (o : Obj) : List Nat := o.edges.map (·.2)

theorem alloc_next (h : Heap) (d : Dict) : (h.alloc d).1.next = h.next + 1 := rfl
theorem alloc_addr (h : Heap) (d : Dict) : (h.alloc d).2 = h.next := rfl
theorem alloc_cell_old (h : Heap) (d : Dict) (a : Nat) (ha : a < h.next) : (h.alloc d).1.cell a = h.cell a := by
  have : a ≠ h.next := Nat.ne_of_lt ha
  simp [Heap.alloc, this]
theorem alloc_cell_new (h : Heap) (d : Dict) : (h.alloc d).1.cell h.next = d := by simp [Heap.alloc]

theorem copyEdges_next (h : Heap) (es : List (String × Nat)) : h.next ≤ (copyEdges h es).1.next := by
  induction es generalizing h with
  | nil => simp [copyEdges]
  | cons ca es ih =>
    obtain ⟨c, a⟩ := ca
    simp only [copyEdges]
    have := ih (h.alloc (h.cell a)).1
    rw [alloc_next] at this
    exact Nat.le_trans (Nat.le_succ _) this

theorem copyEdges_frame (h : Heap) (es : List (String × Nat)) (b : Nat) (hb : b < h.next) :
    (copyEdges h es).1.cell b = h.cell b := by
  induction es generalizing h with
  | nil => simp [copyEdges]
  | cons ca es ih =>
    obtain ⟨c, a⟩ := ca
    simp only [copyEdges]
    rw [ih (h.alloc (h.cell a)).1 (by rw [alloc_next]; exact Nat.lt_succ_of_lt hb)]
    exact alloc_cell_old h _ b hb

theorem copyEdges_fresh (h : Heap) (es : List (String × Nat)) :
    ∀ a ∈ (copyEdges h es).2.map (·.2), h.next ≤ a ∧ a < (copyEdges h es).1.next := by
  induction es generalizing h with
  | nil => simp [copyEdges]
  | cons ca es ih =>
    obtain ⟨c, a⟩ := ca
    intro b hb
    simp only [copyEdges, List.map_cons, List.mem_cons] at hb ⊢
    rcases hb with rfl | hb
    · rw [alloc_addr]
      refine ⟨Nat.le_refl _, ?_⟩
      have := copyEdges_next (h.alloc (h.cell a)).1 es
      rw [alloc_next] at this
      exact this
    · have := ih (h.alloc (h.cell a)).1 b hb
      rw [alloc_next] at this
      exact ⟨Nat.le_of_succ_le this.1, this.2⟩

theorem copyEdges_content (h : Heap) (es : List (String × Nat)) (hes : ∀ a ∈ es.map (·.2), a < h.next) :
    (copyEdges h es).2.map (fun ca => (ca.1, (copyEdges h es).1.cell ca.2))
      = es.map (fun ca => (ca.1, h.cell ca.2)) := by
  induction es generalizing h with
  | nil => simp [copyEdges]
  | cons ca es ih =>
    obtain ⟨c, a⟩ := ca
    simp only [copyEdges, List.map_cons]
    have ha : a < h.next := hes a (by simp)
    congr 1
    · congr 1
      rw [alloc_addr, copyEdges_frame _ _ _ (by rw [alloc_next]; exact Nat.lt_succ_self _), alloc_cell_new]
    · rw [ih (h.alloc (h.cell a)).1 (fun b hb => by
        rw [alloc_next]; exact Nat.lt_succ_of_lt (hes b (by simp [hb])))]
      apply List.map_congr_left
      intro cb hcb
      congr 1
      exact alloc_cell_old h _ _ (hes cb.2 (by simp; exact Or.inr ⟨cb.1, hcb⟩))

structure WF (w : World) : Prop where
  bounded : ∀ (i : Nat) (o : Obj), w.objs[i]? = some o → ∀ a ∈ addrs o, a < w.heap.next
  sep : ∀ (i j : Nat) (oi oj : Obj), i ≠ j → w.objs[i]? = some oi → w.objs[j]? = some oj →
          ∀ a ∈ addrs oi, a ∉ addrs oj

def obsObj (h : Heap) (o : Obj) : List (String × Dict) := o.edges.map (fun ca => (ca.1, h.cell ca.2))

theorem observe_eq (w : World) (i : Nat) : observe w i = (w.objs[i]?).map (obsObj w.heap) := by
  rfl


theorem lookupE_mem (es : List (String × Nat)) (c : String) (a : Nat) (h : lookupE es c = some a) :
    a ∈ es.map (·.2) := by
  unfold lookupE at h
  cases hf : es.find? (fun e => e.1 == c) with
  | none => rw [hf] at h; simp at h
  | some e =>
    rw [hf] at h
    simp only [Option.map_some, Option.some.injEq] at h
    subst h
    exact List.mem_map.mpr ⟨e, List.mem_of_find?_eq_some hf, rfl⟩

theorem addrs_setE (es : List (String × Nat)) (c : String) (a b : Nat)
    (h : b ∈ (setE es c a).map (·.2)) : b = a ∨ b ∈ es.map (·.2) := by
  simp only [setE, List.map_cons, List.mem_cons] at h
  rcases h with h | h
  · exact Or.inl h
  · right
    obtain ⟨e, he, rfl⟩ := List.mem_map.mp h
    exact List.mem_map.mpr ⟨e, (List.mem_filter.mp he).1, rfl⟩

theorem obsObj_frame (h h' : Heap) (o : Obj) (hf : ∀ a ∈ addrs o, h'.cell a = h.cell a) :
    obsObj h' o = obsObj h o := by
  unfold obsObj
  apply List.map_congr_left
  intro ca hca
  have : ca.2 ∈ addrs o := List.mem_map.mpr ⟨ca, hca, rfl⟩
  rw [hf _ this]

theorem getElem?_append_one {α} (os : List α) (o : α) (i : Nat) (x : α) (h : os[i]? = some x) :
    (os ++ [o])[i]? = some x := by
  have hi : i < os.length := (List.getElem?_eq_some_iff.mp h).1
  rw [List.getElem?_append_left hi]; exact h

/-- appending an object whose addresses are all fresh keeps the invariant -/
theorem wf_append_fresh (w : World) (hw : WF w) (h' : Heap) (o : Obj)
    (hnext : w.heap.next ≤ h'.next)
    (hfresh : ∀ a ∈ addrs o, w.heap.next ≤ a ∧ a < h'.next) :
    WF { heap := h', objs := w.objs ++ [o] } := by
  have hlen : ∀ i x, (w.objs ++ [o])[i]? = some x → (w.objs[i]? = some x) ∨ (i = w.objs.length ∧ x = o) := by
    intro i x hx
    by_cases hi : i < w.objs.length
    · rw [List.getElem?_append_left hi] at hx; exact Or.inl hx
    · rw [List.getElem?_append_right (by omega)] at hx
      have : i - w.objs.length = 0 := by
        cases hk : i - w.objs.length with
        | zero => rfl
        | succ k => rw [hk] at hx; simp at hx
      rw [this] at hx
      simp at hx
      exact Or.inr ⟨by omega, hx.symm⟩
  refine ⟨?_, ?_⟩
  · intro i x hx a ha
    rcases hlen i x hx with h | ⟨_, rfl⟩
    · have := hw.bounded i x h a ha; simp only; omega
    · exact (hfresh a ha).2
  · intro i j oi oj hij hi hj a hai haj
    rcases hlen i oi hi with h1 | ⟨h1i, rfl⟩ <;> rcases hlen j oj hj with h2 | ⟨h2j, rfl⟩
    · exact hw.sep i j oi oj hij h1 h2 a hai haj
    · have := hw.bounded i oi h1 a hai; have := (hfresh a haj).1; omega
    · have := hw.bounded j oj h2 a haj; have := (hfresh a hai).1; omega
    · omega

/-- one step of the repaired discipline keeps the invariant and every existing pipeline's observation -/
theorem step_deep (w : World) (hw : WF w) (op : Op) :
    WF (step true w op) ∧
    ∀ (i : Nat) (o : Obj), w.objs[i]? = some o → o.kind = .pipe →
      (step true w op).objs[i]? = some o ∧ obsObj (step true w op).heap o = obsObj w.heap o := by
  cases op with
  | modify p =>
    simp only [step]
    cases hp : w.objs[p]? with
    | none => exact ⟨hw, fun i o hi _ => ⟨hi, rfl⟩⟩
    | some ob =>
      simp only
      split
      · simp only [if_true]
        have hb : ∀ a ∈ ob.edges.map (·.2), a < w.heap.next := hw.bounded p ob hp
        refine ⟨?_, ?_⟩
        · exact wf_append_fresh w hw _ _ (copyEdges_next _ _) (copyEdges_fresh _ _)
        · intro i o hi _
          refine ⟨getElem?_append_one _ _ _ _ hi, ?_⟩
          apply obsObj_frame
          intro a ha
          exact copyEdges_frame _ _ a (hw.bounded i o hi a ha)
      · exact ⟨hw, fun i o hi _ => ⟨hi, rfl⟩⟩
  | build b =>
    simp only [step]
    cases hp : w.objs[b]? with
    | none => exact ⟨hw, fun i o hi _ => ⟨hi, rfl⟩⟩
    | some ob =>
      simp only
      split
      · refine ⟨?_, ?_⟩
        · exact wf_append_fresh w hw _ _ (copyEdges_next _ _) (copyEdges_fresh _ _)
        · intro i o hi _
          refine ⟨getElem?_append_one _ _ _ _ hi, ?_⟩
          apply obsObj_frame
          intro a ha
          exact copyEdges_frame _ _ a (hw.bounded i o hi a ha)
      · exact ⟨hw, fun i o hi _ => ⟨hi, rfl⟩⟩
  | connect b comp k v =>
    simp only [step]
    cases hp : w.objs[b]? with
    | none => exact ⟨hw, fun i o hi _ => ⟨hi, rfl⟩⟩
    | some ob =>
      simp only
      split
      · rename_i hkind
        cases hl : lookupE ob.edges comp with
        | some a =>
          simp only
          have hab : a ∈ addrs ob := lookupE_mem _ _ _ hl
          refine ⟨⟨?_, hw.sep⟩, ?_⟩
          · intro i x hx c hc; exact hw.bounded i x hx c hc
          · intro i o hi hk
            refine ⟨hi, ?_⟩
            apply obsObj_frame
            intro c hc
            have hib : i ≠ b := by
              intro h; subst h; rw [hp] at hi; cases hi; rw [hkind] at hk; cases hk
            have : c ≠ a := by
              intro h; subst h
              exact hw.sep i b o ob hib hi hp c hc hab
            simp [Heap.set, this]
        | none =>
          simp only
          have hblt : b < w.objs.length := (List.getElem?_eq_some_iff.mp hp).1
          refine ⟨⟨?_, ?_⟩, ?_⟩
          · intro i x hx c hc
            simp only [setObj] at hx
            rw [alloc_next]
            by_cases hib : i = b
            · subst hib
              rw [List.getElem?_set_self hblt] at hx
              cases hx
              rcases addrs_setE _ _ _ _ hc with h | h
              · rw [h, alloc_addr]; omega
              · have := hw.bounded i ob hp c h; omega
            · rw [List.getElem?_set_ne (fun h => hib h.symm)] at hx
              have := hw.bounded i x hx c hc; omega
          · intro i j oi oj hij hi hj c hci hcj
            simp only [setObj] at hi hj
            by_cases hib : i = b
            · subst hib
              rw [List.getElem?_set_self hblt] at hi; cases hi
              rw [List.getElem?_set_ne (fun h => hij h)] at hj
              rcases addrs_setE _ _ _ _ hci with h | h
              · have := hw.bounded j oj hj c hcj; rw [h, alloc_addr] at this; omega
              · exact hw.sep i j ob oj hij hp hj c h hcj
            · rw [List.getElem?_set_ne (fun h => hib h.symm)] at hi
              by_cases hjb : j = b
              · subst hjb
                rw [List.getElem?_set_self hblt] at hj; cases hj
                rcases addrs_setE _ _ _ _ hcj with h | h
                · have := hw.bounded i oi hi c hci; rw [h, alloc_addr] at this; omega
                · exact hw.sep i j oi ob hij hi hp c hci h
              · rw [List.getElem?_set_ne (fun h => hjb h.symm)] at hj
                exact hw.sep i j oi oj hij hi hj c hci hcj
          · intro i o hi hk
            have hib : i ≠ b := by
              intro h; subst h; rw [hp] at hi; cases hi; rw [hkind] at hk; cases hk
            refine ⟨by simp only [setObj]; rw [List.getElem?_set_ne (fun h => hib h.symm)]; exact hi, ?_⟩
            apply obsObj_frame
            intro c hc
            exact alloc_cell_old _ _ c (hw.bounded i o hi c hc)
      · exact ⟨hw, fun i o hi _ => ⟨hi, rfl⟩⟩
  | clearInputs b comp =>
    simp only [step]
    cases hp : w.objs[b]? with
    | none => exact ⟨hw, fun i o hi _ => ⟨hi, rfl⟩⟩
    | some ob =>
      simp only
      split
      · rename_i hkind
        have hblt : b < w.objs.length := (List.getElem?_eq_some_iff.mp hp).1
        refine ⟨⟨?_, ?_⟩, ?_⟩
        · intro i x hx c hc
          simp only [setObj] at hx
          rw [alloc_next]
          by_cases hib : i = b
          · subst hib
            rw [List.getElem?_set_self hblt] at hx
            cases hx
            rcases addrs_setE _ _ _ _ hc with h | h
            · rw [h, alloc_addr]; omega
            · have := hw.bounded i ob hp c h; omega
          · rw [List.getElem?_set_ne (fun h => hib h.symm)] at hx
            have := hw.bounded i x hx c hc; omega
        · intro i j oi oj hij hi hj c hci hcj
          simp only [setObj] at hi hj
          by_cases hib : i = b
          · subst hib
            rw [List.getElem?_set_self hblt] at hi; cases hi
            rw [List.getElem?_set_ne (fun h => hij h)] at hj
            rcases addrs_setE _ _ _ _ hci with h | h
            · have := hw.bounded j oj hj c hcj; rw [h, alloc_addr] at this; omega
            · exact hw.sep i j ob oj hij hp hj c h hcj
          · rw [List.getElem?_set_ne (fun h => hib h.symm)] at hi
            by_cases hjb : j = b
            · subst hjb
              rw [List.getElem?_set_self hblt] at hj; cases hj
              rcases addrs_setE _ _ _ _ hcj with h | h
              · have := hw.bounded i oi hi c hci; rw [h, alloc_addr] at this; omega
              · exact hw.sep i j oi ob hij hi hp c hci h
            · rw [List.getElem?_set_ne (fun h => hjb h.symm)] at hj
              exact hw.sep i j oi oj hij hi hj c hci hcj
        · intro i o hi hk
          have hib : i ≠ b := by
            intro h; subst h; rw [hp] at hi; cases hi; rw [hkind] at hk; cases hk
          refine ⟨by simp only [setObj]; rw [List.getElem?_set_ne (fun h => hib h.symm)]; exact hi, ?_⟩
          apply obsObj_frame
          intro c hc
          exact alloc_cell_old _ _ c (hw.bounded i o hi c hc)
      · exact ⟨hw, fun i o hi _ => ⟨hi, rfl⟩⟩

/-- **C14 (pipelines): a built pipeline never changes**, whatever sequence of derive / rewire / clear /
    build operations is applied afterwards (repaired copy discipline) -/
theorem immutable (ops : List Op) : ∀ (w : World), WF w →
    ∀ (i : Nat) (o : Obj), w.objs[i]? = some o → o.kind = .pipe →
      observe (runOps true w ops) i = observe w i := by
  induction ops with
  | nil => intro w _ i o _ _; rfl
  | cons op ops ih =>
    intro w hw i o hi hk
    have ⟨hw', hframe⟩ := step_deep w hw op
    have ⟨hi', hobs⟩ := hframe i o hi hk
    simp only [runOps, List.foldl_cons]
    have := ih (step true w op) hw' i o hi' hk
    simp only [runOps] at this
    rw [this, observe_eq, observe_eq, hi', hi]
    simp [hobs]

#print axioms immutable
end LK.Heap
