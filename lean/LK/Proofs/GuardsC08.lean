import LK.Generated.GuardsC08
/-!
# C08 — obligation on the translated user-offset branch of `BiasModel.compute_for_items`
Branch 0: recompute the user offset from the supplied rated history; branch 1: the trained offset of the identified user; 2: none.
-/
set_option linter.unusedSimpArgs false
namespace LK.Gen.GuardsC08

/-- a supplied rated history takes precedence over the identifier -/
theorem history_first (r : Int) (uid : LK.Py.V) : biasUserBranch (some r) uid = 0 := by
  simp [biasUserBranch, LK.Py.truthy]

/-- without one, *every* user identifier — 0 and the empty string included — selects the trained offset -/
theorem identifier_next (u : Int) : biasUserBranch none (some u) = 1 := by
  simp [biasUserBranch, LK.Py.truthy]

theorem neither : biasUserBranch none none = 2 := by
  simp [biasUserBranch, LK.Py.truthy]

end LK.Gen.GuardsC08
