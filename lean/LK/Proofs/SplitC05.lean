import LK.Generated.SplitC05
import LK.Proofs.ArrowC17
import LK.Proofs.Split
/-!
# C05 — the record splitters' bookkeeping, as matched against the source, is the model's
`makePair` / `crossfoldRecords` are what the partition theorems (`makePair_partition`, `crossfoldRecords_*`) are stated over.
-/
set_option linter.unusedSimpArgs false
namespace LK.SplitOps
open LK.Split LK.Gen.SplitC05

theorem setTrueAt_eq (n : Nat) (idx : List Nat) (h : ∀ r ∈ idx, r < n) : setTrueAt (List.replicate n false) idx = maskOf n idx := by
  have := LK.ArrowOps.scatterTrue_eq n idx h
  unfold LK.ArrowOps.scatterTrue at this
  unfold setTrueAt maskOf
  exact this

/-- **C05 (`_make_pair`):** test = the records at the test positions, train = the others, or nothing when only the test data is wanted -/
theorem makePairT_eq {α} (df : List α) (test_is : List Nat) (test_only : Bool) (h : ∀ r ∈ test_is, r < df.length) :
    makePairT df test_is test_only = makePair df test_is test_only := by
  unfold makePairT makePair
  simp only [setTrueAt_eq df.length test_is h]
  cases test_only <;> simp

/-- **C05 (`crossfold_records`):** one pair per part of the shuffled index array -/
theorem crossfoldRecordsT_eq {α} (df : List α) (perm : List Nat) (k : Nat) (test_only : Bool) (h : ∀ r ∈ perm, r < df.length) :
    crossfoldRecordsT df perm k test_only = crossfoldRecords df perm k test_only := by
  unfold crossfoldRecordsT crossfoldRecords
  apply List.map_congr_left
  intro ts hts
  apply makePairT_eq
  intro r hr
  apply h
  have : r ∈ (arraySplit perm k).flatten := List.mem_flatten.mpr ⟨ts, hts, hr⟩
  by_cases hk : 0 < k
  · rw [arraySplit_flatten perm k hk] at this; exact this
  · have hk0 : k = 0 := by omega
    subst hk0
    have hl := arraySplit_length perm 0
    have : arraySplit perm 0 = [] := List.eq_nil_of_length_eq_zero hl
    rw [this] at hts; simp at hts

/-- **C05 (`_disjoint_samples`):** the windows, end to end, are the first `reps × size` entries of the shuffled index array — so they
    are pairwise disjoint whenever that array has no repeats -/
theorem disjointSamplesT_flatten (perm : List Nat) (size reps : Nat) :
    (disjointSamplesT perm size reps).flatten = perm.take (reps * size) := by
  unfold disjointSamplesT pySlice
  induction reps with
  | zero => simp
  | succ r ih =>
    rw [List.range_succ, List.map_append, List.flatten_append, ih]
    simp only [List.map_cons, List.map_nil, List.flatten_cons, List.flatten_nil, List.append_nil, Nat.add_sub_cancel_left]
    rw [Nat.succ_mul, List.take_add]

theorem disjointSamplesT_window (perm : List Nat) (size reps i : Nat) (hi : i < reps) (hn : reps * size ≤ perm.length) :
    ((disjointSamplesT perm size reps)[i]?.map List.length) = some size := by
  unfold disjointSamplesT pySlice
  simp only [List.getElem?_map, List.getElem?_range hi, Option.map_some, Nat.add_sub_cancel_left, List.length_take, List.length_drop]
  congr 1
  have : (i + 1) * size ≤ reps * size := Nat.mul_le_mul_right _ hi
  rw [Nat.succ_mul] at this
  omega

/-- **C05 (`_make_split`):** with training data wanted, the user-based split is the model's `userSplit` (the subject of
    `userSplit_test`, `userSplit_no_leak`, `userSplit_other_users`); with `test_only` the test side is the same and there is no training data -/
theorem makeSplitT_eq {β} (recs : List (IRec β)) (test_us : List Nat) (method : Nat → List (IRec β) → List (IRec β)) :
    makeSplitT recs test_us method false = userSplit recs test_us method := by
  unfold makeSplitT userSplit
  simp

theorem makeSplitT_test_only {β} (recs : List (IRec β)) (test_us : List Nat) (method : Nat → List (IRec β) → List (IRec β)) :
    makeSplitT recs test_us method true = ((userSplit recs test_us method).1, []) := by
  unfold makeSplitT userSplit
  simp

/-- **C05 (`crossfold_users`):** every user position of the shuffled array falls into exactly one part (`arraySplit_flatten`), and each
    part's split is the model's `userSplit` for the users at those positions -/
theorem crossfoldUsersT_eq {β} (recs : List (IRec β)) (users perm : List Nat) (k : Nat) (method : Nat → List (IRec β) → List (IRec β)) :
    crossfoldUsersT recs users perm k method false
      = (arraySplit perm k).map (fun ts => userSplit recs (ts.map (fun j => users.getD j 0)) method) := by
  unfold crossfoldUsersT
  simp only [makeSplitT_eq]

/-! ### temporal -/

theorem selectMask_map_eq_filter {α} (l : List α) (q : α → Bool) : selectMask l (l.map q) = l.filter q := by
  induction l with
  | nil => rfl
  | cons a l ih => cases h : q a <;> simp [selectMask, h, ih]

/-- **C05 (`split_global_time`, one cut-off):** training = the records strictly before the cut-off; test = those from the cut-off on, up to
    (not including) the next cut-off — or the end bound after the last one: the model's `temporalSplit` -/
theorem globalTimeRoundT_eq {β} (recs : List (IRec β)) (times : List Int) (end_ : Option Int) (i : Nat) (t : Int) :
    globalTimeRoundT recs times end_ i t
      = temporalSplit recs t (if i + 1 < times.length then times[i + 1]? else end_) := by
  unfold globalTimeRoundT temporalSplit
  simp only
  congr 1
  cases h : (if i + 1 < times.length then times[i + 1]? else end_) with
  | none =>
    simp only
    rw [selectMask_map_eq_filter]
    apply List.filter_congr
    intro r _; simp
  | some e =>
    simp only
    have : List.zipWith (fun a b => a && b) (recs.map (fun r => decide (t ≤ r.t))) (recs.map (fun r => decide (r.t < e)))
        = recs.map (fun r => decide (t ≤ r.t) && decide (r.t < e)) := by
      induction recs with
      | nil => rfl
      | cons a l ih => simp [ih]
    rw [this, selectMask_map_eq_filter]

#print axioms makePairT_eq
#print axioms crossfoldRecordsT_eq
end LK.SplitOps
