import LK.Model.Config
namespace LK.Cfg

/-- a configuration as `build_config` produces it: wirings, aliases and type lists strictly ascending -/
structure WFcfg (c : Cfg) : Prop where
  aliases : c.aliases.Pairwise (fun a b => leKey b a = false)
  wiring : ∀ nc ∈ c.components, nc.2.inputs.Pairwise (fun a b => leKey b a = false)
  types : ∀ i ∈ c.inputs, ∀ ts, i.types = some ts → ts.Pairwise (fun a b => decide (b ≤ a) = false)
  literals : c.literals.Pairwise (fun a b => decide (b.1 ≤ a.1) = false)          -- listed by (content-derived) name

theorem resolve_fromCfg (inputs : List (String × String)) (name code : String) (config : Option String) :
    resolve [] { name := name, code := code, config := config, params := inputs.map (·.1), edges := inputs } = inputs := by
  unfold resolve
  simp only
  have : (inputs.map (·.1)).filterMap (fun p =>
      if (inputs.map (·.1)).contains p then none
      else (([] : List (String × String)).find? (·.1 == p)).map (fun d => (p, d.2))) = [] := by
    apply List.filterMap_eq_nil_iff.mpr
    intro p hp
    have : (inputs.map (·.1)).contains p = true := by simpa using hp
    simp [this]
  rw [this]; simp

theorem comp_roundtrip (nc : String × CompSpec) (h : nc.2.inputs.Pairwise (fun a b => leKey b a = false)) :
    compOut [] (compIn nc) = nc := by
  obtain ⟨n, c⟩ := nc
  cases c with
  | mk code config inputs =>
    simp only [compOut, compIn, resolve_fromCfg]
    rw [sortBy_of_strict leKey inputs h]

theorem sortTypes_id (i : InputSpec) (h : ∀ ts, i.types = some ts → ts.Pairwise (fun a b => decide (b ≤ a) = false)) :
    sortTypes i = i := by
  cases i with
  | mk name types =>
    cases types with
    | none => rfl
    | some ts =>
      simp only [sortTypes, Option.map_some]
      have : sortStrings ts = ts := sortBy_of_strict _ ts (h ts rfl)
      rw [this]

theorem map_id_of_forall {α} (f : α → α) (l : List α) (h : ∀ a ∈ l, f a = a) : l.map f = l := by
  induction l with
  | nil => rfl
  | cons a as ih =>
    simp only [List.map_cons]
    rw [h a List.mem_cons_self, ih (fun b hb => h b (List.mem_cons_of_mem _ hb))]

/-- **C13 (round trip):** rebuilding from a configuration reproduces it — name, version, inputs and
    types, components with their settings, resolved wiring, aliases, default node and literals -/
theorem roundtrip (c : Cfg) (h : WFcfg c) : buildCfg .repaired (fromCfg .repaired c) = c := by
  cases c with
  | mk name version inputs components aliases default literals =>
    simp only [buildCfg, fromCfg, Cfg.mk.injEq, true_and, and_true]
    refine ⟨?_, ?_, ?_, ?_⟩
    · exact map_id_of_forall _ _ (fun i hi => sortTypes_id i (h.types i hi))
    · rw [List.map_map]
      exact map_id_of_forall _ _ (fun nc hnc => comp_roundtrip nc (h.wiring nc hnc))
    · exact sortBy_of_strict leKey aliases h.aliases
    · exact sortBy_of_strict _ literals h.literals

/-- as it stands, `from_config` forgets the pipeline name, so a named pipeline does not round-trip -/
example : (buildCfg .asIs (fromCfg .asIs
    { name := some "p", version := none, inputs := [], components := [], aliases := [], default := none, literals := [] })).name
      = none := by decide

#print axioms roundtrip
end LK.Cfg

namespace LK.Cfg

theorem map_inj {α β} (f : α → β) (hf : ∀ a b, f a = f b → a = b) : ∀ (l l' : List α), l.map f = l'.map f → l = l' := by
  intro l
  induction l with
  | nil => intro l' h; cases l' with | nil => rfl | cons _ _ => simp at h
  | cons a as ih =>
    intro l' h
    cases l' with
    | nil => simp at h
    | cons b bs =>
      simp only [List.map_cons, List.cons.injEq] at h
      rw [hf a b h.1, ih bs h.2]

theorem optField_inj (k : String) (a b : Option Json) (rest rest' : List (String × Json))
    (hk : ∀ kv ∈ rest, kv.1 ≠ k) (hk' : ∀ kv ∈ rest', kv.1 ≠ k)
    (h : optField k a ++ rest = optField k b ++ rest') : a = b ∧ rest = rest' := by
  cases a with
  | none =>
    cases b with
    | none => simpa [optField] using h
    | some y =>
      simp only [optField, List.nil_append, List.cons_append] at h
      cases rest with
      | nil => simp at h
      | cons r rs =>
        simp only [List.cons.injEq] at h
        exact absurd (congrArg Prod.fst h.1) (hk r List.mem_cons_self)
  | some x =>
    cases b with
    | none =>
      simp only [optField, List.nil_append, List.cons_append] at h
      cases rest' with
      | nil => simp at h
      | cons r rs =>
        simp only [List.cons.injEq] at h
        exact absurd (congrArg Prod.fst h.1).symm (hk' r List.mem_cons_self)
    | some y =>
      simp only [optField, List.cons_append, List.nil_append, List.cons.injEq, Prod.mk.injEq, true_and] at h
      exact ⟨by rw [h.1], h.2⟩

theorem strMap_inj (a b : List (String × String)) (h : strMap a = strMap b) : a = b := by
  simp only [strMap, Json.obj.injEq] at h
  exact map_inj _ (by intro x y hxy; simp only [Prod.mk.injEq, Json.str.injEq] at hxy; exact Prod.ext hxy.1 hxy.2) a b h

/-- **C13 (content-only hash):** two configurations with the same JSON document are the same configuration,
    so any change to the name, version, an input, a component, a setting, a connection, an alias, the default
    node or a literal changes the text that is hashed -/
theorem toJson_injective (c c' : Cfg) (h : toJson c = toJson c') : c = c' := by
  cases c with
  | mk n v ins comps al d lits =>
  cases c' with
  | mk n' v' ins' comps' al' d' lits' =>
    simp only [toJson, Json.obj.injEq] at h
    -- split the fixed prefix
    simp only [List.cons_append, List.nil_append, List.cons.injEq, Prod.mk.injEq, true_and] at h
    obtain ⟨hmeta, hins, hcomps, hal, hrest⟩ := h
    -- default + literals
    have hd := optField_inj "default" (d.map Json.str) (d'.map Json.str) _ _
      (by intro kv hkv; simp at hkv; rw [hkv]; simp) (by intro kv hkv; simp at hkv; rw [hkv]; simp) hrest
    obtain ⟨hdd, hlits⟩ := hd
    have hdeq : d = d' := by
      cases d <;> cases d' <;> simp at hdd ⊢
      exact hdd
    -- meta
    simp only [Json.obj.injEq] at hmeta
    have hm := optField_inj "name" (n.map Json.str) (n'.map Json.str) _ _
      (by intro kv hkv; cases v <;> simp [optField] at hkv; rw [hkv]; simp)
      (by intro kv hkv; cases v' <;> simp [optField] at hkv; rw [hkv]; simp) hmeta
    obtain ⟨hnn, hvv⟩ := hm
    have hneq : n = n' := by cases n <;> cases n' <;> simp at hnn ⊢; exact hnn
    have hveq : v = v' := by
      cases v <;> cases v' <;> simp [optField] at hvv ⊢
      exact hvv
    -- aliases
    have haleq := strMap_inj al al' hal
    -- inputs
    simp only [Json.arr.injEq] at hins
    have hinseq : ins = ins' := by
      apply map_inj _ _ ins ins' hins
      intro a b hab
      simp only [Json.obj.injEq, List.cons_append, List.nil_append, List.cons.injEq, Prod.mk.injEq, Json.str.injEq, true_and] at hab
      cases a with | mk an at' => cases b with | mk bn bt =>
      simp only at hab
      obtain ⟨hn1, ht⟩ := hab
      subst hn1
      cases at' <;> cases bt <;> simp [optField] at ht ⊢
      exact map_inj Json.str (by intro x y hxy; simpa using hxy) _ _ ht
    -- literals
    simp only [List.cons.injEq, Prod.mk.injEq, true_and, and_true, Json.obj.injEq] at hlits
    have hlitseq : lits = lits' := by
      apply map_inj _ _ lits lits' hlits
      intro a b hab
      simp only [Prod.mk.injEq, Json.obj.injEq, List.cons.injEq, Json.str.injEq, Json.raw.injEq, true_and, and_true] at hab
      exact Prod.ext hab.1 (Prod.ext hab.2.1 hab.2.2)
    -- components
    simp only [Json.obj.injEq] at hcomps
    have hcompseq : comps = comps' := by
      apply map_inj _ _ comps comps' hcomps
      intro a b hab
      simp only [Prod.mk.injEq, Json.obj.injEq, List.cons_append, List.nil_append, List.cons.injEq, Json.str.injEq, true_and] at hab
      obtain ⟨hname, hcode, hrest'⟩ := hab
      have hc := optField_inj "config" (a.2.config.map Json.raw) (b.2.config.map Json.raw) _ _
        (by intro kv hkv; simp at hkv; rw [hkv]; simp) (by intro kv hkv; simp at hkv; rw [hkv]; simp) hrest'
      obtain ⟨hcfg, hinp⟩ := hc
      simp only [List.cons.injEq, Prod.mk.injEq, true_and, and_true] at hinp
      have hinputs := strMap_inj _ _ hinp
      have hcfgeq : a.2.config = b.2.config := by
        cases ha : a.2.config <;> cases hb : b.2.config <;> simp [ha, hb] at hcfg ⊢
        exact hcfg
      cases a with | mk an ac => cases b with | mk bn bc =>
      cases ac; cases bc
      simp_all
    subst hneq hveq hinseq hcompseq haleq hdeq hlitseq
    rfl

#print axioms toJson_injective
end LK.Cfg
