import LK.Generated.ImpC19
import Mathlib.Algebra.Order.Field.Rat
/-!
# C19 — the `linear` transform of the stochastic ranker, as translated from the source, is the model's `linearWeights`
-/
set_option linter.unusedSimpArgs false
namespace LK.NpOps
open LK.Gen.ImpC19

theorem sum_eq (xs : List Q) : npSum xs = LK.Stoch.sumQ xs := rfl
theorem min_eq (xs : List Q) : npMin xs = LK.Stoch.minQ xs := by cases xs <;> rfl
theorem max_eq (xs : List Q) : npMax xs = LK.Stoch.maxQ xs := by cases xs <;> rfl

/-- **C19 (weight normalisation):** min–max rescaling to probabilities; uniform weights when the scores do not differ (or sum to nothing) -/
theorem linearWeightsT_eq (scores : List Q) : linearWeightsT scores = LK.Stoch.linearWeights scores := by
  unfold linearWeightsT LK.Stoch.linearWeights
  simp only [sum_eq, min_eq, max_eq, npSubScalar, npDivScalar, npOnesLike, List.map_map, List.length_map, Function.comp_def]

/-- the exponential-race keys `log u / max(w, ε)` are the model's `keys` -/
theorem keys_eq (logu weights : List Q) (eps : Q) : npDiv logu (npMaximumScalar weights eps) = LK.Stoch.keys logu weights eps := by
  unfold npDiv npMaximumScalar LK.Stoch.keys
  induction logu generalizing weights with
  | nil => simp
  | cons l ls ih =>
    cases weights with
    | nil => simp
    | cons w ws =>
      simp only [List.map_cons, List.zipWith_cons_cons, ih ws]
      congr 2
      by_cases h : w < eps
      · simp only [h, if_true]; exact max_eq_right (le_of_lt h)
      · simp only [h, if_false]; exact max_eq_left (not_lt.mp h)

/-- **C19 (the statements after the transform):** the positions picked are the model's — the `n` best exponential-race keys -/
theorem pickT_eq (logu weights : List Q) (eps : Q) (n : Int) :
    pickT logu weights eps n = LK.TopN.argtopn ((LK.Stoch.keys logu weights eps).map some) n := by
  unfold pickT
  simp only [keys_eq]

/-- …so the model's `stochasticRank` is the translated tail applied to the effective length, mapped back to the original positions -/
theorem stochasticRank_eq_pickT (scores : List LK.Stoch.Score) (cfg run : Option Int) (weights logu : List Q) (eps : Q) :
    LK.Stoch.stochasticRank scores cfg run weights logu eps =
      (let eligible := (List.range scores.length).filter (fun p => (scores.getD p .nan).isFinite)
       if eligible.length = 0 then []
       else (pickT logu weights eps ((LK.Stoch.effN cfg run eligible.length : Nat) : Int)).filterMap (fun j => eligible[j]?)) := by
  unfold LK.Stoch.stochasticRank
  simp only [pickT_eq]

/-! ### the statement before the transform -/

theorem scaledScoresT_eq (scores : List Q) (valid : List Bool) (scale : Q) :
    scaledScoresT scores valid scale = (LK.ArrayOps.indexMask scores valid).map (· * scale) := by
  unfold scaledScoresT npMulScalar
  rfl

/-- the finite scores of the model's view, scaled, are what the translated statement computes -/
theorem scaled_eq (raw : List Q) (finite : List Bool) (scale : Q) :
    (LK.Stoch.scoresOf raw finite).filterMap (LK.Stoch.finScaled scale) = scaledScoresT raw finite scale := by
  rw [scaledScoresT_eq]
  unfold LK.Stoch.scoresOf
  induction raw generalizing finite with
  | nil => cases finite <;> simp [LK.ArrayOps.indexMask]
  | cons q qs ih =>
    cases finite with
    | nil => simp [LK.ArrayOps.indexMask]
    | cons v vs => cases v <;> simp [LK.ArrayOps.indexMask, LK.Stoch.finScaled, List.filterMap_cons, ih vs]

/-- **C19 (the whole call, linear / identity transform):** the model's `stochasticCall` is the translated statements run in the code's
    order — scale the finite scores, transform them into weights, draw the keys, pick -/
theorem stochasticCall_eq (linear : Bool) (raw : List Q) (finite : List Bool) (scale : Q) (cfg run : Option Int) (logu : List Q) (eps : Q) :
    LK.Stoch.stochasticCall linear raw finite scale cfg run logu eps =
      (let sc := scaledScoresT raw finite scale
       let weights := if linear then linearWeightsT sc else sc
       let eligible := (List.range (LK.Stoch.scoresOf raw finite).length).filter (fun p => ((LK.Stoch.scoresOf raw finite).getD p .nan).isFinite)
       if eligible.length = 0 then []
       else (pickT logu weights eps ((LK.Stoch.effN cfg run eligible.length : Nat) : Int)).filterMap (fun j => eligible[j]?)) := by
  unfold LK.Stoch.stochasticCall
  simp only [scaled_eq, linearWeightsT_eq, stochasticRank_eq_pickT]

end LK.NpOps
