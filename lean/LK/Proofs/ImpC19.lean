import LK.Generated.ImpC19
/-!
# C19 — the `linear` transform of the stochastic ranker, as translated from the source, is the model's `linearWeights`
-/
set_option linter.unusedSimpArgs false
namespace LK.NpOps
open LK.Gen.ImpC19

theorem sum_eq (xs : List Q) : npSum xs = LK.Stoch.sumQ xs := rfl
theorem min_eq (xs : List Q) : npMin xs = LK.Stoch.minQ xs := by cases xs <;> rfl
theorem max_eq (xs : List Q) : npMax xs = LK.Stoch.maxQ xs := by cases xs <;> rfl

/-- **C19 (weight normalisation):** min–max rescaling to probabilities; uniform weights when the scores do not differ (or sum to nothing) -/
theorem linearWeightsT_eq (scores : List Q) : linearWeightsT scores = LK.Stoch.linearWeights scores := by
  unfold linearWeightsT LK.Stoch.linearWeights
  simp only [sum_eq, min_eq, max_eq, npSubScalar, npDivScalar, npOnesLike, List.map_map, List.length_map, Function.comp_def]

end LK.NpOps
