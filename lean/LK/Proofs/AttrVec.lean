import LK.Proofs.Attr
/-! # C17 — dense-vector layout: read-back for every subset / order (repaired algorithm), defect witness for the as-is one -/
namespace LK.Attr

/-- the defect as it stands: full coverage in non-ascending order stores the vectors unaligned -/
example : (addDense .asIs 2 [(1, some ["b"]), (0, some ["a"])]).get 0 = some ["b"] := by decide
example : (addDense .repaired 2 [(1, some ["b"]), (0, some ["a"])]).get 0 = some ["a"] := by decide
example : (addDense .repaired 3 [(2, some ["c"]), (0, none)]).get 2 = some ["c"] := by decide

theorem rwm_all_true {α} : ∀ (m : List Bool) (vs : List α), (∀ b ∈ m, b = true) → m.length = vs.length →
    replaceWithMask m vs = vs.map some
  | [], [], _, _ => rfl
  | [], _ :: _, _, h => by simp at h
  | _ :: _, [], _, h => by simp at h
  | b :: m, v :: vs, hb, hl => by
    have hb0 : b = true := hb b (by simp)
    subst hb0
    simp only [replaceWithMask, List.map_cons, List.cons.injEq, true_and]
    exact rwm_all_true m vs (fun b hbm => hb b (by simp [hbm])) (by simpa using hl)

theorem dropNulls_keys_sublist {α} (ps : List (Nat × Option α)) :
    ((dropNulls ps).map (·.1)).Sublist (ps.map (·.1)) := by
  induction ps with
  | nil => simp [dropNulls]
  | cons p ps ih =>
    obtain ⟨k, w⟩ := p
    cases w with
    | none => simpa [dropNulls] using ih.cons k
    | some l => simpa [dropNulls] using ih.cons₂ k

theorem supplied_dropNulls {α} (ps : List (Nat × Option α)) (hnd : (ps.map (·.1)).Nodup) (r : Nat) :
    supplied (dropNulls ps) r = (supplied ps r).join := by
  induction ps with
  | nil => simp [supplied, dropNulls]
  | cons p ps ih =>
    obtain ⟨k, w⟩ := p
    simp only [List.map_cons, List.nodup_cons] at hnd
    obtain ⟨hk, hnd'⟩ := hnd
    have ih' := ih hnd'
    by_cases hkr : k = r
    · subst hkr
      cases w with
      | some l => simp [supplied, dropNulls]
      | none =>
        have hnone : supplied (dropNulls ps) k = none := by
          rw [supplied_eq_none_iff]
          intro hmem
          exact hk ((dropNulls_keys_sublist ps).subset hmem)
        have : dropNulls ((k, (none : Option α)) :: ps) = dropNulls ps := by simp [dropNulls]
        rw [this, hnone]
        simp [supplied]
    · have hne : (k == r) = false := by simpa using hkr
      have hstep : supplied ((k, w) :: ps) r = supplied ps r := by simp [supplied, List.find?_cons, hne]
      rw [hstep, ← ih']
      cases w with
      | none => simp [dropNulls]
      | some l =>
        have : dropNulls ((k, some l) :: ps) = (k, l) :: dropNulls ps := by simp [dropNulls]
        rw [this]; simp [supplied, List.find?_cons, hne]

theorem fullCover_length {α} (n : Nat) (ps : List (Nat × Option α)) (hnd : (ps.map (·.1)).Nodup)
    (hlt : ∀ p ∈ ps, p.1 < n) (hf : fullCover n ps = true) : ps.length = n := by
  simp only [fullCover, Bool.and_eq_true, List.all_eq_true, decide_eq_true_eq, List.mem_range] at hf
  have h1 : (ps.map (·.1)).length ≤ (List.range n).length :=
    List.Nodup.length_le_of_subset hnd (fun x hx => by
      obtain ⟨p, hp, rfl⟩ := List.mem_map.mp hx
      exact List.mem_range.mpr (hlt p hp))
  have h2 : (List.range n).length ≤ (ps.map (·.1)).length :=
    List.Nodup.length_le_of_subset List.nodup_range (fun x hx => hf.1 x (List.mem_range.mp hx))
  simp only [List.length_map, List.length_range] at h1 h2
  omega

/-- **C17, dense-vector layout (repaired algorithm):** every row reads back exactly the vector supplied for it
    (a missing value for rows that got none or got a null) — for any subset of the rows, in any order. -/
theorem dense_readback {α} (n : Nat) (ps : List (Nat × Option (List α))) (hnd : (ps.map (·.1)).Nodup)
    (hlt : ∀ p ∈ ps, p.1 < n) (r : Nat) (hr : r < n) :
    (addDense .repaired n ps).get r = (supplied ps r).join := by
  unfold addDense
  by_cases hf : fullCover n ps = true
  · simp only [hf, if_true, VecCol.get]
    have hlen := fullCover_length n ps hnd hlt hf
    have hsc := scalar_readback n ps hnd r hr
    simp only [addScalar] at hsc
    have hmask : ∀ b ∈ maskFrom 0 n ((sortPairs ps).map (·.1)), b = true := by
      intro b hb
      simp only [maskFrom, List.mem_map, List.mem_range'_1] at hb
      obtain ⟨i, hi, rfl⟩ := hb
      simp only [fullCover, Bool.and_eq_true, List.all_eq_true, decide_eq_true_eq, List.mem_range] at hf
      have := hf.1 i (by omega)
      simp only [decide_eq_true_eq]
      exact List.mem_map.mp (((sortPairs_perm ps).map _).mem_iff.mpr this)
    have hl : (maskFrom 0 n ((sortPairs ps).map (·.1))).length = ((sortPairs ps).map (·.2)).length := by
      simp [maskFrom, (sortPairs_perm ps).length_eq, hlen]
    rw [rwm_all_true _ _ hmask hl, List.getElem?_map] at hsc
    cases hx : ((sortPairs ps).map (·.2))[r]? with
    | none => rw [hx] at hsc; simp at hsc
    | some v => rw [hx] at hsc; simp at hsc; simp [hsc]
  · have hf' : fullCover n ps = false := by simpa using hf
    simp only [hf', Bool.false_eq_true, if_false, VecCol.get]
    have hnd' : ((dropNulls ps).map (·.1)).Nodup := (dropNulls_keys_sublist ps).nodup hnd
    rw [list_readback n (dropNulls ps) hnd' r hr, supplied_dropNulls ps hnd r]

/-- the unrepaired code satisfies the dense-vector clause when the rows arrive ascending -/
theorem dense_readback_partial {α} (n : Nat) (ps : List (Nat × Option (List α)))
    (hs : (ps.map (·.1)).Pairwise (· < ·)) (hlt : ∀ p ∈ ps, p.1 < n) (r : Nat) (hr : r < n) :
    (addDense .asIs n ps).get r = (supplied ps r).join := by
  have hnd : (ps.map (·.1)).Nodup := hs.imp (fun h => Nat.ne_of_lt h)
  have hsorted : sortPairs ps = ps := by
    unfold sortPairs
    apply sortBy_of_strict
    rw [List.pairwise_map] at hs
    exact hs.imp (fun h => by simp; omega)
  have := dense_readback n ps hnd hlt r hr
  unfold addDense at this ⊢
  by_cases hf : fullCover n ps = true
  · simp only [hf, if_true] at this ⊢; rw [hsorted] at this; exact this
  · have hf' : fullCover n ps = false := by simpa using hf
    simp only [hf', Bool.false_eq_true, if_false] at this ⊢; exact this

/-- the repaired list path ignores whatever precedes a sliced input's first element -/
theorem raw_readback {α} (outLen : Nat) (lead : List α) (ps : List (Nat × List α)) (hnd : (ps.map (·.1)).Nodup)
    (r : Nat) (hr : r < outLen) : (expandAlignRaw .repaired outLen lead ps).get r = supplied ps r := by
  simp only [expandAlignRaw]; exact list_readback outLen ps hnd r hr

/-- the defect as it stands: an ascending, null-free *slice* is read through the unsliced child buffer -/
example : (expandAlignRaw .asIs 3 ["z"] [(0, ["a", "b"]), (2, ["c"])]).get 0 = some ["z", "a"] := by decide
example : (expandAlignRaw .repaired 3 ["z"] [(0, ["a", "b"]), (2, ["c"])]).get 0 = some ["a", "b"] := by decide

#print axioms dense_readback
#print axioms dense_readback_partial
end LK.Attr
