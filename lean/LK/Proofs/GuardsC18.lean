import LK.Generated.GuardsC18
import LK.Model.Train
/-!
# C18 — obligations on the translated seed handling of `Pipeline.train`
-/
set_option linter.unusedSimpArgs false
namespace LK.Gen.GuardsC18

/-- which seed sequence the per-component seeds are spawned from: the caller's own sequence; none for an absent seed or a generator;
    otherwise a sequence wrapping the supplied seed — for every seed value, 0 included -/
theorem trainSeed_spec (isSeq isGen : Bool) (rng wrapped : LK.Py.V) :
    trainSeed isSeq isGen rng wrapped
      = (if isSeq then rng else if rng.isNone || isGen then none else wrapped) := by
  cases isSeq <;> cases isGen <;> cases rng <;> simp [trainSeed, LK.Py.truthy]

theorem zero_is_a_seed (wrapped : LK.Py.V) : trainSeed false false (some 0) wrapped = wrapped := by
  rw [trainSeed_spec]; rfl

/-- each trainable component gets the caller's options — all of them — with only the generator replaced by its own spawned seed;
    without a seed sequence the options are passed through unchanged -/
theorem trainCompOptions_spec (opts seed spawnedOpts : LK.Py.V) :
    trainCompOptions opts seed spawnedOpts = (match seed with | none => opts | some _ => spawnedOpts) := by
  cases seed <;> simp [trainCompOptions, LK.Py.truthy]

/-! ### the retrain guard of every shipped trainable component

Each `train` starts with `if <already trained> and not options.retrain: return` (the translator also checks that the branch simply
returns and that nothing of the component is assigned before it).  `guardSpec` is the guard of the training model `LK.Train.train`. -/

def guardSpec (trained retrain : Bool) : Nat := if trained && !retrain then 0 else 1

/-- branch 0 (skip) of the guard is exactly the case in which `LK.Train.train` leaves the component as it is; branch 1 replaces the
    learned state by what a fresh component learns -/
theorem guardSpec_is_model {δ σ} (learn : δ → σ) (c : LK.Train.Comp σ) (d : δ) (retrain : Bool) :
    LK.Train.train learn c d retrain = (if guardSpec c.learned.isSome retrain = 0 then c else { learned := some (learn d) }) := by
  cases h : c.learned.isSome <;> cases retrain <;> simp [LK.Train.train, guardSpec, h]

theorem guardBaseRec_spec (trained retrain : Bool) : guardBaseRec trained retrain = guardSpec trained retrain := by
  cases trained <;> cases retrain <;> rfl

theorem guardItemKNNScorer_spec (trained retrain : Bool) : guardItemKNNScorer trained retrain = guardSpec trained retrain := by
  cases trained <;> cases retrain <;> rfl

theorem guardUserKNNScorer_spec (trained retrain : Bool) : guardUserKNNScorer trained retrain = guardSpec trained retrain := by
  cases trained <;> cases retrain <;> rfl

theorem guardFunkSVDScorer_spec (trained retrain : Bool) : guardFunkSVDScorer trained retrain = guardSpec trained retrain := by
  cases trained <;> cases retrain <;> rfl

theorem guardBiasedSVDScorer_spec (trained retrain : Bool) : guardBiasedSVDScorer trained retrain = guardSpec trained retrain := by
  cases trained <;> cases retrain <;> rfl

theorem guardHPFScorer_spec (trained retrain : Bool) : guardHPFScorer trained retrain = guardSpec trained retrain := by
  cases trained <;> cases retrain <;> rfl

theorem guardUserTrainingHistoryLookup_spec (trained retrain : Bool) : guardUserTrainingHistoryLookup trained retrain = guardSpec trained retrain := by
  cases trained <;> cases retrain <;> rfl

theorem guardKnownRatingScorer_spec (trained retrain : Bool) : guardKnownRatingScorer trained retrain = guardSpec trained retrain := by
  cases trained <;> cases retrain <;> rfl

theorem guardBiasScorer_spec (trained retrain : Bool) : guardBiasScorer trained retrain = guardSpec trained retrain := by
  cases trained <;> cases retrain <;> rfl

theorem guardTrainingCandidateSelectorBase_spec (trained retrain : Bool) : guardTrainingCandidateSelectorBase trained retrain = guardSpec trained retrain := by
  cases trained <;> cases retrain <;> rfl

theorem guardPopScorer_spec (trained retrain : Bool) : guardPopScorer trained retrain = guardSpec trained retrain := by
  cases trained <;> cases retrain <;> rfl

theorem guardTimeBoundedPopScore_spec (trained retrain : Bool) : guardTimeBoundedPopScore trained retrain = guardSpec trained retrain := by
  cases trained <;> cases retrain <;> rfl

theorem guardIterativeTraining_spec (trained retrain : Bool) : guardIterativeTraining trained retrain = guardSpec trained retrain := by
  cases trained <;> cases retrain <;> rfl

/-- a (re)training starts its epoch count from zero — the count is part of the model's state and must describe the latest training only;
    a skipped training leaves it as it is -/
theorem epochsAtLoopStart_spec (epochs : LK.Py.V) (trained retrain : Bool) :
    epochsAtLoopStart epochs trained retrain = (if guardSpec trained retrain = 0 then epochs else some 0) := by
  cases trained <;> cases retrain <;> simp [epochsAtLoopStart, guardSpec]


/-- the `implicit` bridge fits a model constructed for this training (code 1 = `self._construct()`), not one kept from an earlier training —
    the third-party `fit` warm-starts from whatever factors its object already has -/
theorem implicit_delegate_fresh : implicitDelegate = some 1 := rfl

end LK.Gen.GuardsC18
