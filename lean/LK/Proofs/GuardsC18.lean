import LK.Generated.GuardsC18
/-!
# C18 — obligations on the translated seed handling of `Pipeline.train`
-/
set_option linter.unusedSimpArgs false
namespace LK.Gen.GuardsC18

/-- which seed sequence the per-component seeds are spawned from: the caller's own sequence; none for an absent seed or a generator;
    otherwise a sequence wrapping the supplied seed — for every seed value, 0 included -/
theorem trainSeed_spec (isSeq isGen : Bool) (rng wrapped : LK.Py.V) :
    trainSeed isSeq isGen rng wrapped
      = (if isSeq then rng else if rng.isNone || isGen then none else wrapped) := by
  cases isSeq <;> cases isGen <;> cases rng <;> simp [trainSeed, LK.Py.truthy]

theorem zero_is_a_seed (wrapped : LK.Py.V) : trainSeed false false (some 0) wrapped = wrapped := by
  rw [trainSeed_spec]; rfl

/-- each trainable component gets the caller's options — all of them — with only the generator replaced by its own spawned seed;
    without a seed sequence the options are passed through unchanged -/
theorem trainCompOptions_spec (opts seed spawnedOpts : LK.Py.V) :
    trainCompOptions opts seed spawnedOpts = (match seed with | none => opts | some _ => spawnedOpts) := by
  cases seed <;> simp [trainCompOptions, LK.Py.truthy]

end LK.Gen.GuardsC18
