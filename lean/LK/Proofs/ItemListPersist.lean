import LK.Model.ItemListPersist
import LK.Proofs.ItemListCopy
/-! # C15 — an item list loads back from its pickle observationally equal (identifiers, numbers, fields, order flag, length) -/
namespace LK.IL
variable {ι : Type} [DecidableEq ι]

/-- unfolding: a successful pickle round trip is `setstate` of the two resolved sides -/
theorem pickleRT_ok {φ} (vt : Variant) (il out : IL ι φ) (h : pickleRT vt il = .ok out) :
    ∃ i n, stateIds il = .ok i ∧ stateNums vt il = .ok n ∧
      out = { len := il.len, ids := i, nums := n, vocab := none, fields := il.fields, ordered := il.ordered, ranks := none } := by
  unfold pickleRT getstate at h
  cases h1 : stateIds il with
  | error e => simp [h1] at h
  | ok i =>
    cases h2 : stateNums vt il with
    | error e => simp [h1, h2] at h
    | ok n =>
      simp only [h1, h2, setstate, Except.ok.injEq] at h
      exact ⟨i, n, rfl, rfl, h.symm⟩

/-- the pickled state never loses the flag, the length or a field -/
theorem pickle_keeps_fields {φ} (vt : Variant) (il out : IL ι φ) (h : pickleRT vt il = .ok out) :
    out.fields = il.fields ∧ out.ordered = il.ordered ∧ out.len = il.len := by
  obtain ⟨i, n, _, _, ho⟩ := pickleRT_ok vt il out h
  subst ho; exact ⟨rfl, rfl, rfl⟩

theorem stateIds_of_ids {φ} (il : IL ι φ) (i : List ι) (hi : idsOf il = .ok i) (io : Option (List ι))
    (hs : stateIds il = .ok io) : io = some i := by
  unfold stateIds at hs
  cases hids : il.ids with
  | some i0 =>
    have : i0 = i := by simpa [idsOf, hids] using hi
    subst this; simp only [hids, Except.ok.injEq] at hs; exact hs.symm
  | none =>
    cases hv : il.vocab with
    | none => simp [idsOf, hids, hv] at hi
    | some v => simp only [hids, hv, hi, Except.ok.injEq] at hs; exact hs.symm

/-- **C15 (pickle, identifiers):** whatever `ids()` answered before pickling it answers afterwards -/
theorem pickle_ids {φ} (vt : Variant) (il out : IL ι φ) (i : List ι) (h : pickleRT vt il = .ok out) (hi : idsOf il = .ok i) :
    idsOf out = .ok i := by
  obtain ⟨io, n, h1, _, ho⟩ := pickleRT_ok vt il out h
  have := stateIds_of_ids il i hi io h1
  subst ho; subst this
  simp [idsOf]

theorem stateNums_of_numbers {φ} (il : IL ι φ) (n : List Int) (hn : numbersOf il none .negative = .ok n) (no : Option (List Int))
    (hs : stateNums .repaired il = .ok no) : no = some n := by
  unfold stateNums at hs
  cases hnum : il.nums with
  | some n0 =>
    have : n0 = n := by simpa [numbersOf, hnum] using hn
    subst this; simp only [hnum, Except.ok.injEq] at hs; exact hs.symm
  | none =>
    cases hv : il.vocab with
    | none => simp [numbersOf, hnum, hv] at hn
    | some v => simp only [hnum, hv, hn, Except.ok.injEq] at hs; exact hs.symm

/-- **C15 (pickle, numbers, repaired):** the numbers the list reports (unknown identifiers as the negative marker) survive the pickle -/
theorem pickle_numbers {φ} (il out : IL ι φ) (n : List Int) (h : pickleRT .repaired il = .ok out)
    (hn : numbersOf il none .negative = .ok n) : numbersOf out none .negative = .ok n := by
  obtain ⟨io, no, _, h2, ho⟩ := pickleRT_ok .repaired il out h
  have := stateNums_of_numbers il n hn no h2
  subst ho; subst this
  simp [numbersOf]

/-- **C15 (pickle always possible, repaired):** a vocabulary-backed list whose identifiers can be read can be pickled — in particular
    one that holds an identifier its vocabulary does not know -/
theorem pickle_total {φ} (il : IL ι φ) (i : List ι) (hi : idsOf il = .ok i) (v : Vocab ι) (hv : il.vocab = some v) :
    ∃ out, pickleRT .repaired il = .ok out := by
  have h1 : ∃ io, stateIds il = .ok io := by
    unfold stateIds
    cases hids : il.ids with
    | some i0 => exact ⟨_, rfl⟩
    | none => simp only [hv, hi]; exact ⟨_, rfl⟩
  have h2 : ∃ no, stateNums .repaired il = .ok no := by
    unfold stateNums
    cases hnum : il.nums with
    | some n0 => exact ⟨_, rfl⟩
    | none =>
      simp only [hv]
      cases hids : il.ids with
      | some i0 => simp [numbersOf, hnum, hv, hids]
      | none => simp [idsOf, hids, hv, hnum] at hi
  obtain ⟨io, h1⟩ := h1; obtain ⟨no, h2⟩ := h2
  exact ⟨setstate { ordered := il.ordered, len := il.len, ids := io, numbers := no, fields := il.fields }, by simp [pickleRT, getstate, h1, h2]⟩

/-- as it stands: an identifier outside the vocabulary makes pickling raise -/
def exUnk : IL Nat Int := { len := 2, ids := some [10, 999], nums := none, vocab := some [10, 20], fields := [], ordered := false }
example : (match pickleRT .asIs exUnk with | .error .key => true | _ => false) = true := by decide
example : (pickleRT .repaired exUnk).toOption.map (·.nums) = some (some [0, -1]) := by decide

#print axioms pickle_ids
#print axioms pickle_numbers
#print axioms pickle_total
end LK.IL
