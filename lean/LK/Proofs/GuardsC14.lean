import LK.Generated.GuardsC14
/-!
# C14 — how deep the copies are that separate a built object from the builders derived from it
Depth 0 is the object itself (an alias), 1 a fresh container holding the same members, 2 a deep copy.  The heap model
(`LK.Heap`, `step_deep`) assumes exactly these separations.
-/
namespace LK.Gen.GuardsC14

/-- `Pipeline.modify()`: every component's wiring dictionary is copied (its members are node names — immutable strings — so one level
    is a full separation) -/
theorem modify_copies_wiring : 1 ≤ modifyEdgesCopy := by decide

/-- `build_config`: the builder's wiring — a dictionary of dictionaries that the default connections are then written into — is copied in
    depth -/
theorem build_copies_wiring_deeply : buildConfigEdgesCopy = 2 := by decide

/-- `DatasetBuilder(dataset)`: the schema (entity classes, their attribute dictionaries) is copied in depth -/
theorem builder_copies_schema_deeply : builderFromDatasetSchemaCopy = 2 := by decide

/-- `build()`: the built container gets its own deep copy of the builder's schema -/
theorem build_copies_schema_deeply : buildContainerSchemaCopy = 2 := by decide

end LK.Gen.GuardsC14
