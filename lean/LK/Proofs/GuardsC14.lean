import LK.Generated.GuardsC14
import LK.Model.ItemListHeap
/-!
# C14 — how deep the copies are that separate a built object from the builders derived from it
Depth 0 is the object itself (an alias), 1 a fresh container holding the same members, 2 a deep copy.  The heap model
(`LK.Heap`, `step_deep`) assumes exactly these separations.
-/
namespace LK.Gen.GuardsC14

/-- `Pipeline.modify()`: every component's wiring dictionary is copied (its members are node names — immutable strings — so one level
    is a full separation) -/
theorem modify_copies_wiring : 1 ≤ modifyEdgesCopy := by decide

/-- `build_config`: the builder's wiring — a dictionary of dictionaries that the default connections are then written into — is copied in
    depth -/
theorem build_copies_wiring_deeply : buildConfigEdgesCopy = 2 := by decide

/-- `DatasetBuilder(dataset)`: the schema (entity classes, their attribute dictionaries) is copied in depth -/
theorem builder_copies_schema_deeply : builderFromDatasetSchemaCopy = 2 := by decide

/-- `build()`: the built container gets its own deep copy of the builder's schema -/
theorem build_copies_schema_deeply : buildContainerSchemaCopy = 2 := by decide

/-- `ItemList(source, …)`: the effective fields are a new dictionary (`source._fields | fields`), not the source's -/
theorem itemlist_effective_fields_fresh : 1 ≤ itemListEffFieldsCopy := by decide

/-- `ItemList(source, …)`: the new list's `_fields` is bound to a new dictionary before anything is written into it -/
theorem itemlist_fields_fresh : 1 ≤ itemListFieldsCopy := by decide

/-- `ItemList(source, …)`: nothing the new list still shares with its source is changed in place -/
theorem itemlist_shared_untouched : itemListSharedMutations = 0 := by decide

end LK.Gen.GuardsC14

namespace LK.ItemListHeap

/-- one derivation under the code's discipline leaves every existing field dictionary as it was -/
theorem derive_leaves (h : List Cell) (src : Nat) (adds : Cell) (drops : List String) (i : Nat) (hi : i < h.length) :
    (derive true h src adds drops).1[i]? = h[i]? := by
  simp [derive, List.getElem?_append_left hi]

theorem derive_length (h : List Cell) (src : Nat) (adds : Cell) (drops : List String) :
    (derive true h src adds drops).1.length = h.length + 1 := by
  simp [derive]

/-- **Components leave the lists they are given unchanged** (heap form): after any sequence of derivations — add, replace, remove
    fields, from any existing list, including lists derived earlier — every list that existed before has the fields it had. -/
theorem run_leaves (ops : List Op) (h : List Cell) (i : Nat) (hi : i < h.length) : (run true h ops)[i]? = h[i]? := by
  induction ops generalizing h with
  | nil => rfl
  | cons o ops ih =>
    have h1 : i < (derive true h o.src o.adds o.drops).1.length := by rw [derive_length]; omega
    have := ih (derive true h o.src o.adds o.drops).1 h1
    simp only [run, List.foldl_cons] at this ⊢
    rw [this, derive_leaves h o.src o.adds o.drops i hi]

/-- the derived list has exactly the effective fields -/
theorem derive_new (h : List Cell) (src : Nat) (adds : Cell) (drops : List String) :
    (derive true h src adds drops).1[(derive true h src adds drops).2]? = some (effective (h.getD src []) adds drops) := by
  simp [derive]

/-- a removed field is absent from the derived list -/
theorem effective_drops (base adds : Cell) (drops : List String) (n : String) (hn : n ∈ drops) :
    n ∉ (effective base adds drops).map Prod.fst := by
  simp only [effective, List.mem_map, List.mem_filter, not_exists, not_and]
  rintro ⟨k, v⟩ ⟨_, hk⟩ rfl
  simp [hn] at hk

/-- the discipline matters: editing the shared dictionary removes the field from the source as well (the witness is the
    `scores=False` copy of a scored list) -/
theorem shared_edit_changes_source :
    (derive false [[("score", 7)]] 0 [] ["score"]).1[0]? ≠ some [("score", 7)] := by decide

end LK.ItemListHeap
