import LK.Proofs.Dataset
/-! C01 — per-user rows, CSR slices and per-entity counts denote the stored records. -/
namespace LK.DS
variable {ι β : Type} [DecidableEq ι]

def leRC (r s : Rec β) : Bool := decide (r.u < s.u ∨ (r.u = s.u ∧ r.i ≤ s.i))

theorem leRC_trans (a b c : Rec β) : leRC a b → leRC b c → leRC a c := by
  simp only [leRC, decide_eq_true_eq]; omega
theorem leRC_total (a b : Rec β) : leRC a b || leRC b a := by
  simp only [leRC, Bool.or_eq_true, decide_eq_true_eq]; omega

/-- the matrix view is sorted by row -/
theorem sortedRecs_byRow (b : Builder ι β) : (sortedRecs b).Pairwise (fun r s => r.u ≤ s.u) := by
  have h := sortBy_pairwise (leRC (β := β)) leRC_trans leRC_total b.recs
  refine List.Pairwise.imp ?_ h
  intro r s hrs
  simp only [leRC, decide_eq_true_eq] at hrs; omega

/-- tag each record with its row so that the generic CSR lemmas apply -/
def tagged (rs : List (Rec β)) : List (Nat × Rec β) := rs.map (fun r => (r.u, r))

theorem tagged_sorted (b : Builder ι β) : LK.SortedByRow (tagged (sortedRecs b)) := by
  unfold LK.SortedByRow tagged
  rw [List.pairwise_map]
  exact sortedRecs_byRow b

theorem rowCount_tagged (rs : List (Rec β)) (u : Nat) : LK.rowCount (tagged rs) u = rowCount rs u := by
  unfold LK.rowCount rowCount tagged
  rw [List.filter_map, List.length_map]
  rfl

theorem below_tagged (rs : List (Rec β)) (u : Nat) :
    ((List.range u).map (rowCount rs)).sum = LK.below (tagged rs) u := by
  rw [← LK.cumsum_eq_below]
  congr 1
  apply List.map_congr_left
  intro v _
  exact (rowCount_tagged rs v).symm

theorem rowPtrs_getD (b : Builder ι β) (u : Nat) (hu : u ≤ b.users.length) :
    (rowPtrs b).getD u 0 = LK.below (tagged (sortedRecs b)) u := by
  unfold rowPtrs
  rw [List.getD_eq_getElem?_getD, List.getElem?_map, List.getElem?_range (by omega)]
  simp only [Option.map_some, Option.getD_some]
  exact below_tagged _ u

/-- **C01 (CSR rows):** the slice between consecutive row pointers is exactly the user's records -/
theorem rowOf_eq_filter (b : Builder ι β) (u : Nat) (hu : u < b.users.length) :
    rowOf b u = (sortedRecs b).filter (fun r => r.u == u) := by
  unfold rowOf
  simp only
  rw [rowPtrs_getD b u (by omega), rowPtrs_getD b (u + 1) (by omega)]
  have h := LK.row_slice (tagged (sortedRecs b)) (tagged_sorted b) u
  -- transport the statement about tagged records back to the records
  have hmap : ∀ (l : List (Rec β)) (a n : Nat), ((tagged l).drop a).take n = tagged ((l.drop a).take n) := by
    intro l a n; simp [tagged, List.map_drop, List.map_take]
  rw [hmap] at h
  have hf : (tagged (sortedRecs b)).filter (fun r => r.1 == u) = tagged ((sortedRecs b).filter (fun r => r.u == u)) := by
    unfold tagged; rw [List.filter_map]; rfl
  rw [hf] at h
  have hinj : ∀ (l l' : List (Rec β)), tagged l = tagged l' → l = l' := by
    intro l l' e
    have := congrArg (List.map Prod.snd) e
    simpa [tagged, List.map_map, Function.comp_def] using this
  exact hinj _ _ h

/-- **C01 (nothing lost, nothing moved):** a user's row is a rearrangement of that user's stored records -/
theorem rowOf_perm (b : Builder ι β) (u : Nat) (hu : u < b.users.length) :
    (rowOf b u).Perm (b.recs.filter (fun r => r.u == u)) := by
  rw [rowOf_eq_filter b u hu]
  exact (sortedRecs_perm b).filter _

/-- a user without interactions has an empty row -/
theorem rowOf_empty (b : Builder ι β) (u : Nat) (hu : u < b.users.length) (h : ∀ r ∈ b.recs, r.u ≠ u) :
    rowOf b u = [] := by
  have hp := rowOf_perm b u hu
  have : b.recs.filter (fun r => r.u == u) = [] := by
    apply List.filter_eq_nil_iff.mpr
    intro r hr; simpa using h r hr
  rw [this] at hp
  exact hp.eq_nil

/-- per-user counts are the numbers of stored records, and they add up to the total -/
theorem rowCount_sorted (b : Builder ι β) (u : Nat) : rowCount (sortedRecs b) u = rowCount b.recs u := by
  unfold rowCount
  exact ((sortedRecs_perm b).filter _).length_eq

theorem last_ptr_total (b : Builder ι β) (hwf : ∀ r ∈ b.recs, r.u < b.users.length) :
    (rowPtrs b).getD b.users.length 0 = b.recs.length := by
  rw [rowPtrs_getD b _ (Nat.le_refl _)]
  unfold LK.below
  have hall : (tagged (sortedRecs b)).filter (fun r => decide (r.1 < b.users.length)) = tagged (sortedRecs b) := by
    apply List.filter_eq_self.mpr
    intro r hr
    unfold tagged at hr
    obtain ⟨x, hx, rfl⟩ := List.mem_map.mp hr
    have := hwf x ((mem_sortBy _ _ _).mp hx)
    simpa using this
  rw [hall]
  simp [tagged, (sortedRecs_perm b).length_eq]

#print axioms rowOf_eq_filter
#print axioms rowOf_perm
#print axioms last_ptr_total
end LK.DS
