import LK.Generated.GuardsC07
/-!
# C07 — obligation on the translated test-data guard of `RunAnalysis.measure`
-/
set_option linter.unusedSimpArgs false
namespace LK.Gen.GuardsC07

/-- an output list whose key has a test list — even an empty one — is measured (branch 2) -/
theorem measured_iff_test_exists (o t : Int) : measureTestBranch (some o) (some t) = 2 := by
  simp [measureTestBranch, LK.Py.truthy]

/-- only a key without any test list is counted as "no test data" (branch 1) -/
theorem no_test_data (o : Int) : measureTestBranch (some o) none = 1 := by
  simp [measureTestBranch, LK.Py.truthy]

end LK.Gen.GuardsC07
