import LK.Generated.GuardsC07
/-!
# C07 — obligation on the translated test-data guard of `RunAnalysis.measure`
-/
set_option linter.unusedSimpArgs false
namespace LK.Gen.GuardsC07

/-- an output list whose key has a test list — even an empty one — is measured (branch 2) -/
theorem measured_iff_test_exists (o t : Int) : measureTestBranch (some o) (some t) = 2 := by
  simp [measureTestBranch, LK.Py.truthy]

/-- only a key without any test list is counted as "no test data" (branch 1) -/
theorem no_test_data (o : Int) : measureTestBranch (some o) none = 1 := by
  simp [measureTestBranch, LK.Py.truthy]

/-! ### the missing-data dispositions of `PredictMetric.align_scores` -/

/-- the run is rejected for missing *scores* exactly when that disposition is `error` and some rated item has no score — whatever the
    disposition for missing truth -/
theorem missingScores_iff (scoresAreError truthIsError : Bool) (nRatedUnscored nScoredUnrated : Nat) :
    missingScoresBranch scoresAreError truthIsError nRatedUnscored nScoredUnrated = (if scoresAreError && decide (0 < nRatedUnscored) then 0 else 1) := by
  cases scoresAreError <;> by_cases h : nRatedUnscored = 0 <;> simp [missingScoresBranch, LK.Py.truthy, h] <;> omega

/-- …and for missing *truth* exactly when its own disposition is `error` and some scored item has no rating -/
theorem missingTruth_iff (scoresAreError truthIsError : Bool) (nRatedUnscored nScoredUnrated : Nat) :
    missingTruthBranch scoresAreError truthIsError nRatedUnscored nScoredUnrated = (if truthIsError && decide (0 < nScoredUnrated) then 0 else 1) := by
  cases truthIsError <;> by_cases h : nScoredUnrated = 0 <;> simp [missingTruthBranch, LK.Py.truthy, h] <;> omega


/-- the default a metric is registered with: one that is given — 0 included — is kept; otherwise the metric's own (which may be "none"),
    or 0 for a plain function -/
theorem wrapDefault_spec (given own : LK.Py.V) (isListMetric : Bool) :
    wrapDefault given isListMetric own = (match given with | some d => some d | none => if isListMetric then own else some 0) := by
  cases given <;> cases isListMetric <;> simp [wrapDefault]

end LK.Gen.GuardsC07
