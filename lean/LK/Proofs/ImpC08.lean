import LK.Generated.ImpC08
import LK.Model.Bias
/-!
# C08 — `BiasModel.compute_for_items`, as translated from the source, is the documented score assembly

global offset + item offset (zero for an unknown item) + user offset, where the user offset is — in this order of precedence — the
damped mean recomputed from the query's rated history, the trained offset of the identified user, or zero; with a pre-computed
user offset supplied, that offset is added instead and no user offset is reported.
-/
set_option linter.unusedSimpArgs false
namespace LK.NpOps
open LK.Bias LK.ArrayOps LK.Gen.ImpC08

/-- the item offset of an item number (−1 = unknown to the model): zero for unknown items and when the model has no item offsets -/
def itemOff (ib : Option (List Q)) (i : Int) : Q :=
  match ib with
  | some t => if 0 ≤ i then t.getD i.toNat 0 else 0
  | none => 0

/-- the user offset recomputed from a rated history: damped mean of rating − global − item offset -/
def histBias (g : Q) (ib : Option (List Q)) (dampU : Q) (rs : List Q) (hnums : List Int) : Q :=
  let offs := List.zipWith (fun r i => r - g - itemOff ib i) rs hnums
  sumQ offs / ((offs.length : Q) + dampU)

def userBiasSpec (g : Q) (ib : Option (List Q)) (usersPresent : Bool) (ub : List Q) (dampU : Q)
    (histPresent : Bool) (hratings : Option (List Q)) (hnums : List Int) (uidPresent : Bool) (uno : Option Nat) : Q :=
  if usersPresent then
    match (if histPresent then hratings else none) with
    | some rs => histBias g ib dampU rs hnums
    | none => if uidPresent then (match uno with | some u => ub.getD u 0 | none => 0) else 0
  else 0

theorem rat_sub_zero (x : Q) : x - 0 = x := by grind

theorem addMask_gather (t : List Q) (g : Q) (inums : List Int) :
    npAddMask (npFull inums.length g) (geZero inums) (npGatherInt t (indexMask inums (geZero inums)))
      = inums.map (fun i => g + (if 0 ≤ i then t.getD i.toNat 0 else 0)) := by
  induction inums with
  | nil => rfl
  | cons i is ih =>
    by_cases h : 0 ≤ i
    · simp only [npFull, geZero, List.length_cons, List.replicate_succ, List.map_cons, h, decide_true, indexMask, npGatherInt, npAddMask, if_true] at ih ⊢
      rw [ih]
    · simp only [npFull, geZero, List.length_cons, List.replicate_succ, List.map_cons, h, decide_false, indexMask, npAddMask, if_false, Rat.add_zero] at ih ⊢
      rw [ih]

theorem subMask_gather (t : List Q) (g : Q) (rs : List Q) (hnums : List Int) (hl : rs.length = hnums.length) :
    npSubMask (npSubScalar rs g) (geZero hnums) (npGatherInt t (indexMask hnums (geZero hnums)))
      = List.zipWith (fun r i => r - g - (if 0 ≤ i then t.getD i.toNat 0 else 0)) rs hnums := by
  induction rs generalizing hnums with
  | nil => cases hnums <;> rfl
  | cons r rs ih =>
    cases hnums with
    | nil => simp at hl
    | cons i is =>
      have hl' : rs.length = is.length := by simpa using hl
      have e := ih is hl'
      simp only [npSubScalar, geZero, npGatherInt] at e ⊢
      by_cases h : 0 ≤ i
      · simp only [List.map_cons, h, decide_true, indexMask, npSubMask, List.zipWith_cons_cons, if_true]
        rw [e]
      · simp only [List.map_cons, h, decide_false, indexMask, npSubMask, List.zipWith_cons_cons, if_false, rat_sub_zero]
        rw [e]

theorem addScalar_map {α} (xs : List α) (f : α → Q) (c : Q) : npAddScalar (xs.map f) c = xs.map (fun x => f x + c) := by
  simp [npAddScalar, List.map_map, Function.comp_def]

theorem full_eq_map (inums : List Int) (g : Q) : npFull inums.length g = inums.map (fun _ => g) := by
  induction inums with
  | nil => rfl
  | cons i is ih => simp only [npFull, List.length_cons, List.replicate_succ, List.map_cons] at ih ⊢; rw [ih]

theorem zipWith_len {α β γ} (f : α → β → γ) (a : List α) (b : List β) (h : a.length = b.length) : (List.zipWith f a b).length = a.length := by
  simp [List.length_zipWith, h]

/-- item numbers as the code sees them: −1 for an item unknown to the model -/
def enc : Option Nat → Int
  | some k => (k : Int)
  | none => -1

theorem itemOff_enc (t : List Q) (n : Option Nat) :
    itemOff (some t) (enc n) = (match n with | some k => t.getD k 0 | none => 0) := by
  cases n with
  | none => simp [itemOff, enc]
  | some k => simp [itemOff, enc]

/-- the assembled score of an item is the model's `LK.Bias.score` -/
theorem assembled_is_score (g u : Q) (t : List Q) (n : Option Nat) :
    g + itemOff (some t) (enc n) + u = LK.Bias.score g (fun i => t.getD i 0) u n := by
  rw [itemOff_enc]; cases n <;> rfl

theorem rat_div_zero (x : Q) : x / 0 = 0 := by
  rw [Rat.div_def]; simp [Rat.inv_zero, Rat.mul_zero]

/-- the user offset recomputed from a rated history is the model's `LK.Bias.historyBias` (unknown history items count with a zero
    item offset; an empty history with zero damping gives zero) -/
theorem histBias_is_model (g dampU : Q) (t : List Q) (hist : List (Option Nat × Q)) :
    histBias g (some t) dampU (hist.map (·.2)) (hist.map (fun h => enc h.1))
      = LK.Bias.historyBias g dampU (fun i => t.getD i 0) hist := by
  have hz : List.zipWith (fun r i => r - g - itemOff (some t) i) (hist.map (·.2)) (hist.map (fun h => enc h.1))
      = hist.map (fun h => h.2 - g - (match h.1 with | some i => t.getD i 0 | none => 0)) := by
    induction hist with
    | nil => rfl
    | cons h hs ih => simp only [List.map_cons, List.zipWith_cons_cons, itemOff_enc, ih]
  unfold histBias LK.Bias.historyBias
  simp only [hz]
  split
  · rename_i h0
    simp only [List.length_map] at h0 ⊢
    rw [h0, rat_div_zero]
  · simp only [List.length_map]
    rfl

theorem hb_some (t : List Q) (g dampU : Q) (rs : List Q) (hnums : List Int) (hl : rs.length = hnums.length) :
    npSum (npSubMask (npSubScalar rs g) (geZero hnums) (npGatherInt t (indexMask hnums (geZero hnums))))
        / (((npSubMask (npSubScalar rs g) (geZero hnums) (npGatherInt t (indexMask hnums (geZero hnums)))).length : Q) + dampU)
      = histBias g (some t) dampU rs hnums := by
  rw [subMask_gather t g rs hnums hl]
  rfl

theorem hb_none (g dampU : Q) (rs : List Q) (hnums : List Int) (hl : rs.length = hnums.length) :
    npSum (npSubScalar rs g) / (((npSubScalar rs g).length : Q) + dampU) = histBias g none dampU rs hnums := by
  have : List.zipWith (fun r (i : Int) => r - g - itemOff none i) rs hnums = npSubScalar rs g := by
    induction rs generalizing hnums with
    | nil => cases hnums <;> rfl
    | cons r rs ih =>
      cases hnums with
      | nil => simp at hl
      | cons i is =>
        have hl' : rs.length = is.length := by simpa using hl
        simp only [List.zipWith_cons_cons, npSubScalar, List.map_cons, itemOff, rat_sub_zero] at ih ⊢
        rw [ih is hl']
  unfold histBias
  simp only [this]
  rfl

/-- **C08 (score assembly):** the translated `compute_for_items`, for every model state, candidate list, pre-computed offset, history and
    user identification -/
theorem computeForItems_spec (g : Q) (ib : Option (List Q)) (usersPresent : Bool) (ub : List Q) (dampU : Q) (inums : List Int)
    (bias : Option Q) (histPresent : Bool) (hratings : Option (List Q)) (hnums : List Int) (uidPresent : Bool) (uno : Option Nat)
    (hl : ∀ rs, hratings = some rs → rs.length = hnums.length) :
    computeForItems g ib usersPresent ub dampU inums bias histPresent hratings hnums uidPresent uno
      = (match bias with
         | some b => (inums.map (fun i => g + itemOff ib i + b), none)
         | none =>
           let u := userBiasSpec g ib usersPresent ub dampU histPresent hratings hnums uidPresent uno
           (inums.map (fun i => g + itemOff ib i + u), some u)) := by
  cases ib with
  | some t =>
    cases bias with
    | some b => simp [computeForItems, addMask_gather, addScalar_map, itemOff]
    | none =>
      cases histPresent <;> cases usersPresent <;> cases uidPresent <;> cases uno <;> cases hr : hratings <;>
        first
        | (simp [computeForItems, addMask_gather, addScalar_map, itemOff, userBiasSpec, hr, Rat.add_zero]; done)
        | (simp only [computeForItems, hr]
           rw [hb_some t g dampU _ hnums (hl _ hr)]
           simp [addMask_gather, addScalar_map, itemOff, userBiasSpec, hr])
  | none =>
    cases bias with
    | some b => simp [computeForItems, full_eq_map, addScalar_map, itemOff, List.map_map, Function.comp_def, Rat.add_zero]
    | none =>
      cases histPresent <;> cases usersPresent <;> cases uidPresent <;> cases uno <;> cases hr : hratings <;>
        first
        | (simp [computeForItems, full_eq_map, addScalar_map, itemOff, userBiasSpec, hr, List.map_map, Function.comp_def, Rat.add_zero]; done)
        | (simp only [computeForItems, hr]
           rw [hb_none g dampU _ hnums (hl _ hr)]
           simp [full_eq_map, addScalar_map, itemOff, userBiasSpec, hr, List.map_map, Function.comp_def, Rat.add_zero])

end LK.NpOps
