import LK.Generated.ScatterC04
import LK.Proofs.Scatter
/-!
# C04 — the translated gather / mask / scatter code of five scorers is the per-item map
-/
namespace LK.ArrayOps
open LK.Scatter LK.Gen.ScatterC04

/-- the array steps, whatever names the code gives them, compute each item's score from that item alone; in particular a negative
    index is never read (`wrap` does not occur on the right) -/
theorem steps_eq_map {φ} (num : Nat → Option Nat) (tbl : Nat → Option Rat) (wrap : Option Rat) (L : List (Item φ)) :
    setMask (fullNan L.length) (geZero (numbersNeg num L)) (gather tbl wrap (indexMask (numbersNeg num L) (geZero (numbersNeg num L))))
      = L.map (fun it => (num it.id).bind tbl) := by
  induction L with
  | nil => rfl
  | cons it L ih =>
    cases h : num it.id with
    | none =>
      simp only [numbersNeg, geZero, fullNan, List.map_cons, List.length_cons, List.replicate_succ, h] at ih ⊢
      simp only [show decide ((0 : Int) ≤ -1) = false by decide, indexMask, setMask, Option.bind_none]
      rw [ih]
    | some k =>
      simp only [numbersNeg, geZero, fullNan, List.map_cons, List.length_cons, List.replicate_succ, h] at ih ⊢
      have hk : decide ((0 : Int) ≤ (k : Int)) = true := by simp
      simp only [hk, indexMask, gather, List.map_cons, setMask, Option.bind_some] at ih ⊢
      have hk' : (0 : Int) ≤ (k : Int) := by omega
      simp only [hk', if_true, Int.toNat_natCast]
      rw [ih]

theorem withScores_map {φ} (L : List (Item φ)) (f : Item φ → Option Rat) :
    withScores L (L.map f) = L.map (fun it => { it with score := f it }) := by
  induction L with
  | nil => rfl
  | cons it L ih => simp only [withScores, List.map_cons, List.zipWith_cons_cons] at ih ⊢; rw [ih]

/-- **C04:** `PopScorer.__call__`, as translated from the source, is the model's `scoreList` — the per-item map -/
theorem popScorerCall_eq (φ) (num : Nat → Option Nat) (tbl : Nat → Option Rat) (wrap : Option Rat) (L : List (Item φ)) :
    popScorerCall num tbl wrap L = scoreList num tbl L := by
  rw [scoreList_eq_map]; simp only [popScorerCall]; rw [steps_eq_map, withScores_map]

theorem hpfScorerCall_eq (φ) (num : Nat → Option Nat) (tbl : Nat → Option Rat) (wrap : Option Rat) (L : List (Item φ)) :
    hpfScorerCall num tbl wrap L = scoreList num tbl L := by
  rw [scoreList_eq_map]; simp only [hpfScorerCall]; rw [steps_eq_map, withScores_map]

theorem funkSVDScorerCall_eq (φ) (num : Nat → Option Nat) (tbl : Nat → Option Rat) (wrap : Option Rat) (L : List (Item φ)) :
    funkSVDScorerCall num tbl wrap L = scoreList num tbl L := by
  rw [scoreList_eq_map]; simp only [funkSVDScorerCall]; rw [steps_eq_map, withScores_map]

theorem alsScorerCall_eq (φ) (num : Nat → Option Nat) (tbl : Nat → Option Rat) (wrap : Option Rat) (L : List (Item φ)) :
    alsScorerCall num tbl wrap L = scoreList num tbl L := by
  rw [scoreList_eq_map]; simp only [alsScorerCall]; rw [steps_eq_map, withScores_map]

theorem biasedSVDScorerCall_eq (φ) (num : Nat → Option Nat) (tbl : Nat → Option Rat) (wrap : Option Rat) (L : List (Item φ)) :
    biasedSVDScorerCall num tbl wrap L = scoreList num tbl L := by
  rw [scoreList_eq_map]; simp only [biasedSVDScorerCall]; rw [steps_eq_map, withScores_map]

/-- the FlexMF scorers (explicit, implicit, BPR / logistic share this `__call__`): the compacted item numbers are converted to a tensor
    and handed to the model's own kernel, whose output is scattered back -/
theorem flexMFScorerCall_eq (φ) (num : Nat → Option Nat) (tbl : Nat → Option Rat) (wrap : Option Rat) (L : List (Item φ)) :
    flexMFScorerCall num tbl wrap L = scoreList num tbl L := by
  rw [scoreList_eq_map]; simp only [flexMFScorerCall]; rw [steps_eq_map, withScores_map]

/-- the `implicit` bridge (`BaseRec`): whichever order of evaluation the data-dependent test `mult_first` selects — multiply the whole
    embedding matrix and pick the wanted rows, or pick the rows and multiply — the result is the per-item map -/
theorem implicitScorerCall_eq (φ) (num : Nat → Option Nat) (tbl : Nat → Option Rat) (wrap : Option Rat) (L : List (Item φ)) :
    implicitScorerCallMultFirst num tbl wrap L = scoreList num tbl L ∧ implicitScorerCallGatherFirst num tbl wrap L = scoreList num tbl L := by
  constructor
  · rw [scoreList_eq_map]; simp only [implicitScorerCallMultFirst]; rw [steps_eq_map, withScores_map]
  · rw [scoreList_eq_map]; simp only [implicitScorerCallGatherFirst]; rw [steps_eq_map, withScores_map]

end LK.ArrayOps
