import LK.Generated.BatchTraceC12
/-!
# C12 — the batch worker asks the pipeline exactly what each invocation says, and `batch.recommend` forwards the requested length as given
-/
namespace LK.BatchWorker
open LK.Gen.BatchTraceC12

/-- every call of the worker depends on its own invocation only (no input of one invocation reaches another) — by construction of
    `workerCalls`, for every list of invocations -/
theorem call_depends_on_own_invocation (hasUser : Bool) (invs : List Inv) (i : Nat) :
    (workerCalls hasUser invs)[i]? = (invs[i]?).map (callOf hasUser) := by
  simp [workerCalls, List.getElem?_map]

theorem one_call_per_invocation (hasUser : Bool) (invs : List Inv) : (workerCalls hasUser invs).length = invs.length := by
  simp [workerCalls]

/-- the runner's convenience methods register the documented invocations (a zero length is a length) -/
theorem observed_invocations : observedInvocations = [recommendInv (Arg.int 0), predictInv, scoreInv] := by decide

/-- the calls the real worker made are the model's: one per invocation, in order, each with the key's user, the test items only where the
    invocation takes them, and its own extra inputs -/
theorem observed_calls_are_model : observedCalls = workerCalls true observedInvocations := by decide

/-- a key that carries fields beyond the user is still that user's request: the same calls, with the user as the query -/
theorem observed_calls_composite_key : observedCallsCompositeKey = workerCalls true observedInvocations := by decide

/-- an empty test list is handed on as the test list (the candidates of a user with nothing held out are "none", not "everything") -/
theorem observed_calls_empty_test : observedCallsEmptyTest = workerCalls true observedInvocations := by decide

/-- a key without a user passes no query -/
theorem observed_calls_no_user : observedCallsNoUser = workerCalls false observedInvocations := by decide

theorem observed_outputs : observedOutputs = observedInvocations.map (·.output) := by decide

/-- `batch.recommend(pipe, users, n)` hands `n` to the runner as given — `None`, 0 and 3 alike -/
theorem observed_forwarding :
    observedForwarding = [[recommendInv Arg.none], [recommendInv (Arg.int 0)], [recommendInv (Arg.int 3)]] := by decide

end LK.BatchWorker
