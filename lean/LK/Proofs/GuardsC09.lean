import LK.Generated.GuardsC09
/-!
# C09 — obligation on the translated self-similarity guard of `UserKNNScorer.__call__`
-/
set_option linter.unusedSimpArgs false
namespace LK.Gen.GuardsC09

/-- the self-similarity is removed for every known user — the one stored at index 0 included (no user is their own neighbour) -/
theorem self_removed (i : Int) : uknnSelfBranch (some i) = 0 := by
  simp [uknnSelfBranch, LK.Py.truthy]

theorem unknown_user_untouched : uknnSelfBranch none = 1 := by
  simp [uknnSelfBranch, LK.Py.truthy]

end LK.Gen.GuardsC09
