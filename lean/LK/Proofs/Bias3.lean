import LK.Proofs.Bias2
import Mathlib.Tactic.Linarith
import Mathlib.Algebra.Order.Field.Rat
/-! # C08 — the cumulative-share ("quantile") popularity score is strictly monotone in the interaction count -/
namespace LK.Bias

def natSum (l : List Nat) : Nat := l.foldr (· + ·) 0

theorem natSum_append (a b : List Nat) : natSum (a ++ b) = natSum a + natSum b := by
  induction a with
  | nil => simp [natSum]
  | cons x xs ih => simp only [natSum, List.cons_append, List.foldr_cons] at ih ⊢; omega

theorem natSum_ge_mem (l : List Nat) (x : Nat) (h : x ∈ l) : x ≤ natSum l := by
  induction l with
  | nil => simp at h
  | cons y ys ih =>
    simp only [natSum, List.foldr_cons]
    rcases List.mem_cons.mp h with rfl | h
    · omega
    · have := ih h; simp only [natSum] at this; omega

/-- position of an element of a sorted order: a strictly smaller count comes strictly earlier -/
theorem idx_lt_of_count_lt (counts : List Nat) (order : List Nat) (a b : Nat)
    (hs : order.Pairwise (fun x y => countOf counts x ≤ countOf counts y)) (ha : a ∈ order) (hb : b ∈ order)
    (hab : countOf counts a < countOf counts b) : order.idxOf a < order.idxOf b := by
  rcases Nat.lt_trichotomy (order.idxOf a) (order.idxOf b) with h | h | h
  · exact h
  · have ia := List.idxOf_lt_length_iff.mpr ha
    have ea : order[order.idxOf a] = a := List.getElem_idxOf ia
    have ib := List.idxOf_lt_length_iff.mpr hb
    have eb : order[order.idxOf b] = b := List.getElem_idxOf ib
    have : a = b := by rw [← ea, ← eb]; simp [h]
    subst this; omega
  · -- b strictly before a: sortedness gives count b ≤ count a
    have ia := List.idxOf_lt_length_iff.mpr ha
    have ib := List.idxOf_lt_length_iff.mpr hb
    have := List.pairwise_iff_getElem.mp hs (order.idxOf b) (order.idxOf a) ib ia h
    rw [List.getElem_idxOf ib, List.getElem_idxOf ia] at this
    omega

/-- **C08 (cumulative share):** in an order sorted by ascending count, a larger count gives a strictly larger cumulative share -/
theorem quantile_strict_mono (counts : List Nat) (order : List Nat) (a b : Nat)
    (hs : order.Pairwise (fun x y => countOf counts x ≤ countOf counts y)) (ha : a ∈ order) (hb : b ∈ order)
    (hab : countOf counts a < countOf counts b) (htot : 0 < natSum counts) :
    quantile counts order a < quantile counts order b := by
  have hidx := idx_lt_of_count_lt counts order a b hs ha hb hab
  have ib := List.idxOf_lt_length_iff.mpr hb
  -- split the longer prefix at the shorter one
  have hsplit : order.take (order.idxOf b + 1) = order.take (order.idxOf a + 1) ++ (order.take (order.idxOf b + 1)).drop (order.idxOf a + 1) := by
    have : order.take (order.idxOf a + 1) = (order.take (order.idxOf b + 1)).take (order.idxOf a + 1) := by
      rw [List.take_take]; congr 1; omega
    rw [this]; exact (List.take_append_drop _ _).symm
  have hbmem : b ∈ (order.take (order.idxOf b + 1)).drop (order.idxOf a + 1) := by
    rw [List.mem_iff_getElem]
    refine ⟨order.idxOf b - (order.idxOf a + 1), ?_, ?_⟩
    · simp only [List.length_drop, List.length_take]; omega
    · simp only [List.getElem_drop, List.getElem_take]
      have : order.idxOf a + 1 + (order.idxOf b - (order.idxOf a + 1)) = order.idxOf b := by omega
      simp only [this]; exact List.getElem_idxOf ib
  have hsum : natSum ((order.take (order.idxOf a + 1)).map (countOf counts)) + countOf counts b
      ≤ natSum ((order.take (order.idxOf b + 1)).map (countOf counts)) := by
    rw [hsplit, List.map_append, natSum_append]
    have := natSum_ge_mem (((order.take (order.idxOf b + 1)).drop (order.idxOf a + 1)).map (countOf counts)) (countOf counts b)
      (List.mem_map.mpr ⟨b, hbmem, rfl⟩)
    omega
  have hpos : 0 < countOf counts b := by omega
  unfold quantile
  simp only
  have htq : (0 : Q) < ((counts.foldr (· + ·) 0 : Nat) : Q) := by
    have : 0 < counts.foldr (· + ·) 0 := htot
    exact_mod_cast this
  apply div_lt_div_of_pos_right _ htq
  have : natSum ((order.take (order.idxOf a + 1)).map (countOf counts)) < natSum ((order.take (order.idxOf b + 1)).map (countOf counts)) := by omega
  unfold natSum at this
  exact_mod_cast this

#print axioms quantile_strict_mono
end LK.Bias
