import LK.Model.Batch
namespace LK.Batch

theorem fill_perm {β} (n : Nat) (order : List Nat) (hperm : order.Perm (List.range n)) (g : Nat → β) :
    fill n (order.map (fun i => (i, g i))) = (List.range n).map (fun i => some (g i)) := by
  unfold fill
  apply List.map_congr_left
  intro i hi
  have hmem : i ∈ order := hperm.mem_iff.mpr hi
  have : (order.map (fun i => (i, g i))).find? (fun e => e.1 == i) = some (i, g i) := by
    clear hperm hi
    induction order with
    | nil => simp at hmem
    | cons a as ih =>
      by_cases ha : a = i
      · subst ha; simp
      · have hne : (a == i) = false := by simpa using ha
        simp only [List.map_cons, List.find?_cons, hne]
        have : i ∈ as := by
          rcases List.mem_cons.mp hmem with h | h
          · exact absurd h.symm ha
          · exact h
        exact ih this
  rw [this]; rfl

/-- result of task `i` (a dummy error for indices outside the task list; never consulted) -/
def resultAt {κ α β} (tasks : List (κ × α)) (f : α → Except Nat β) (i : Nat) : Except Nat β :=
  match tasks[i]? with
  | some t => f t.2
  | none => .error 0

theorem events_eq {κ α β} (tasks : List (κ × α)) (f : α → Except Nat β) (order : List Nat)
    (hb : ∀ i ∈ order, i < tasks.length) :
    order.filterMap (fun i => (tasks[i]?).map (fun t => (i, f t.2)))
      = order.map (fun i => (i, resultAt tasks f i)) := by
  induction order with
  | nil => rfl
  | cons a as ih =>
    have ha : a < tasks.length := hb a List.mem_cons_self
    have ih' := ih (fun i hi => hb i (List.mem_cons_of_mem _ hi))
    simp only [List.filterMap_cons, List.map_cons]
    rw [List.getElem?_eq_getElem ha]
    simp only [Option.map_some]
    rw [ih']
    simp [resultAt, List.getElem?_eq_getElem ha]

theorem range_map_resultAt {κ α β} (tasks : List (κ × α)) (f : α → Except Nat β) :
    (List.range tasks.length).map (fun i => some (resultAt tasks f i)) = tasks.map (fun t => some (f t.2)) := by
  apply List.ext_getElem
  · simp
  · intro i h1 h2
    have hi : i < tasks.length := by simpa using h1
    simp [resultAt, List.getElem?_eq_getElem hi]

/-- **C12 (transparency):** whatever order the workers finish in, the batch result is the sequential one —
    one result per key, in input order, each attributed to its own key; a failing task surfaces as the
    same error -/
theorem batch_eq_sequential {κ α β} (tasks : List (κ × α)) (f : α → Except Nat β) (order : List Nat)
    (hperm : order.Perm (List.range tasks.length)) : batch tasks f order = sequential tasks f := by
  unfold batch sequential
  simp only
  rw [events_eq tasks f order (fun i hi => List.mem_range.mp (hperm.mem_iff.mp hi)),
    fill_perm tasks.length order hperm (resultAt tasks f), range_map_resultAt]

theorem deliver_ok_length {β} (slots : List (Option (Except Nat β))) (i : Nat) (bs : List β)
    (h : deliver slots i = .ok bs) : bs.length = slots.length := by
  induction slots generalizing i bs with
  | nil => simp [deliver] at h; subst h; rfl
  | cons s rest ih =>
    cases s with
    | none => simp [deliver] at h
    | some r =>
      cases r with
      | error e => simp [deliver] at h
      | ok b =>
        simp only [deliver] at h
        cases hd : deliver rest (i + 1) with
        | error e => rw [hd] at h; simp at h
        | ok bs' =>
          rw [hd] at h
          simp only [Except.ok.injEq] at h
          subst h
          simp [ih (i + 1) bs' hd]

/-- a successful sequential run has exactly one result per task, in task order, with the task's key -/
theorem sequential_keys {κ α β} (tasks : List (κ × α)) (f : α → Except Nat β) (out : List (κ × β))
    (h : sequential tasks f = .ok out) : out.map (·.1) = tasks.map (·.1) := by
  unfold sequential at h
  cases hd : deliver (tasks.map (fun t => some (f t.2))) 0 with
  | error e => rw [hd] at h; simp at h
  | ok bs =>
    rw [hd] at h
    simp only [Except.ok.injEq] at h
    subst h
    have hlen := deliver_ok_length _ _ _ hd
    simp only [List.length_map] at hlen
    clear hd
    induction tasks generalizing bs with
    | nil => simp
    | cons t ts ih =>
      cases bs with
      | nil => simp at hlen
      | cons b bs =>
        simp only [List.zipWith_cons_cons, List.map_cons]
        congr 1
        exact ih bs (by simpa using hlen)

/-- a failing task makes the whole (sequential, hence also the parallel) run fail: never a shorter list -/
theorem failure_surfaces {β} (slots : List (Option (Except Nat β))) (i : Nat)
    (hfail : ∃ s ∈ slots, s = none ∨ ∃ e, s = some (.error e)) : ∃ e, deliver slots i = .error e := by
  induction slots generalizing i with
  | nil => obtain ⟨s, hs, _⟩ := hfail; simp at hs
  | cons s rest ih =>
    cases s with
    | none => exact ⟨_, rfl⟩
    | some r =>
      cases r with
      | error e => exact ⟨_, rfl⟩
      | ok b =>
        obtain ⟨s', hs', hbad⟩ := hfail
        rcases List.mem_cons.mp hs' with rfl | hs'
        · rcases hbad with h | ⟨e, h⟩ <;> cases h
        · obtain ⟨e, he⟩ := ih (i + 1) ⟨s', hs', hbad⟩
          exact ⟨e, by simp [deliver, he]⟩

/-! ### fan-out -/

theorem fanout_eq_map {β} (f : Nat → β) (n c : Nat) (hc : 0 < c) :
    ∀ fuel start, n ≤ start + fuel * c → fanout f n c fuel start = (List.range' start (n - start)).map f := by
  intro fuel
  induction fuel with
  | zero =>
    intro start h
    have : n - start = 0 := by omega
    simp [fanout, this]
  | succ fuel ih =>
    intro start h
    simp only [fanout]
    by_cases hs : start < n
    · simp only [hs, if_true]
      rw [ih (start + c) (by rw [Nat.succ_mul] at h; omega)]
      by_cases hcl : c ≤ n - start
      · rw [Nat.min_eq_left hcl, ← List.map_append]
        congr 1
        have : n - start = c + (n - (start + c)) := by omega
        rw [this, List.range'_append_1]
      · have h1 : min c (n - start) = n - start := Nat.min_eq_right (by omega)
        have h2 : n - (start + c) = 0 := by omega
        rw [h1, h2]; simp
    · have : n - start = 0 := by omega
      simp [hs, this]

/-- **C11 (thread/block independence):** processing rows chunk by chunk and concatenating in chunk
    order gives the row-wise map, for every positive chunk size -/
theorem fanout_chunk_independent {β} (f : Nat → β) (n c₁ c₂ : Nat) (h1 : 0 < c₁) (h2 : 0 < c₂) :
    fanout f n c₁ n 0 = fanout f n c₂ n 0 := by
  rw [fanout_eq_map f n c₁ h1 n 0 (by have := Nat.le_mul_of_pos_right n h1; omega),
    fanout_eq_map f n c₂ h2 n 0 (by have := Nat.le_mul_of_pos_right n h2; omega)]

#print axioms batch_eq_sequential
#print axioms fanout_chunk_independent
end LK.Batch
