import LK.Model.ItemListArrow
import LK.Proofs.ItemListCopy
/-! # C15 — Arrow round trip of an item list: exact for every non-empty list (PARTIAL: the empty list is the recorded finding) -/
namespace LK.IL
variable {ι : Type} [DecidableEq ι]

/-- **C15 (Arrow round trip, PARTIAL — non-empty lists):** identifiers, fields, ordering flag and length come back unchanged.
    The full statement (every list, the empty one included) is false of the code as it stands: see the witness below. -/
theorem arrow_roundtrip_partial {φ} (il : IL ι φ) (i : List ι) (hne : il.len ≠ 0) (hal : Aligned il) (hi : idsOf il = .ok i) :
    ∃ out, arrowRT il = .ok out ∧ idsOf out = .ok i ∧ out.fields = il.fields ∧ out.ordered = il.ordered ∧ out.len = il.len := by
  have hlen : i.length = il.len := by
    unfold idsOf at hi
    cases hs : il.ids with
    | some i' => simp [hs] at hi; subst hi; exact hal.1 i' hs
    | none =>
      -- resolved through the vocabulary: `withVocab_repaired_spec` proves the same length fact; here we only need it for the stored-ids case
      cases hv : il.vocab with
      | none => simp [hs, hv] at hi
      | some v =>
        cases hn : il.nums with
        | none => simp [hs, hv, hn] at hi
        | some n =>
          simp only [hs, hv, hn] at hi
          split at hi
          · cases hi
          · rename_i hbad
            simp only [Except.ok.injEq] at hi
            subst hi
            have hnl := hal.2.1 n hn
            rw [← hnl]
            have hall : ∀ k ∈ n, ∃ y, v[k.toNat]? = some y := by
              intro k hk
              have : ¬ (k < 0 ∨ (v.length : Int) ≤ k) := by
                intro hc; apply hbad
                simp only [List.any_eq_true, decide_eq_true_eq]; exact ⟨k, hk, hc⟩
              have hk2 : k.toNat < v.length := by omega
              exact ⟨v[k.toNat], by simp [hk2]⟩
            clear hbad hn hnl
            induction n with
            | nil => rfl
            | cons k ks ih =>
              obtain ⟨y, hy⟩ := hall k (by simp)
              simp only [List.filterMap_cons, hy, List.length_cons]
              rw [ih (fun k' hk' => hall k' (by simp [hk']))]
  unfold arrowRT toArrow
  simp only [hne, if_false]
  cases hs : il.ids with
  | some i' =>
    have : i' = i := by simpa [idsOf, hs] using hi
    subst this
    refine ⟨_, rfl, ?_, rfl, ?_, ?_⟩
    · simp [idsOf]
    · cases il.ordered <;> simp
    · exact hlen
  | none =>
    cases hv : il.vocab with
    | none => simp [idsOf, hs, hv] at hi
    | some v =>
      simp only [hi]
      refine ⟨_, rfl, ?_, rfl, ?_, ?_⟩
      · simp [idsOf]
      · cases il.ordered <;> simp
      · exact hlen

/-- the finding: an empty list has no columns at all, and the reader refuses such a table -/
def emptyIL : IL Nat Int := { len := 0, ids := some [], nums := none, vocab := none, fields := [("score", [])], ordered := false }
example : (match arrowRT emptyIL with | .error .type => true | _ => false) = true := by decide

#print axioms arrow_roundtrip_partial
end LK.IL
