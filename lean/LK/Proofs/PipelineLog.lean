import LK.Proofs.Pipeline
/-!
# C02 — execution log: each component runs at most once per run, and only if reachable from a request

These facts hold for *every* graph (cyclic or not) and for both runner variants.
-/
namespace LK.Pipe

/-- `m` is reachable from `n` through wired parameters (eager or lazy) -/
inductive Reach (g : Graph) : Name → Name → Prop
  | refl (n : Name) : Reach g n n
  | step (n src m : Name) (params : List Param) (sel : List Val → Option Nat) (fin) (p : Param) :
      g.node n = .comp params sel fin → p ∈ params → p.src = some src → Reach g src m → Reach g n m

def LogInv (s : RS) : Prop := s.log.Nodup ∧ ∀ m ∈ s.log, s.status m ≠ .pending

/-- what one call rooted at `n` may do to the log and the status table -/
structure LogStep (g : Graph) (n : Name) (s s' : RS) : Prop where
  inv : LogInv s → LogInv s'
  mono : ∀ m, s.status m ≠ .pending → s'.status m ≠ .pending
  fresh : ∀ m ∈ s'.log, m ∈ s.log ∨ (s.status m = .pending ∧ Reach g n m)

theorem logStep_refl (g : Graph) (n : Name) (s : RS) : LogStep g n s s :=
  ⟨fun h => h, fun _ h => h, fun _ h => Or.inl h⟩

theorem logStep_trans (g : Graph) (n : Name) {a b c : RS} (h1 : LogStep g n a b) (h2 : LogStep g n b c) :
    LogStep g n a c := by
  refine ⟨fun h => h2.inv (h1.inv h), fun m h => h2.mono m (h1.mono m h), ?_⟩
  intro m hm
  rcases h2.fresh m hm with h | ⟨hp, hr⟩
  · exact h1.fresh m h
  · right
    refine ⟨?_, hr⟩
    cases h : a.status m with
    | pending => rfl
    | inProgress => exact absurd hp (h1.mono m (by rw [h]; intro h'; cases h'))
    | finished => exact absurd hp (h1.mono m (by rw [h]; intro h'; cases h'))
    | failed => exact absurd hp (h1.mono m (by rw [h]; intro h'; cases h'))

/-- a call rooted at a wired source is a call rooted at the consumer -/
theorem logStep_lift (g : Graph) (n src : Name) (hr : Reach g n src) {a b : RS} (h : LogStep g src a b) :
    LogStep g n a b := by
  refine ⟨h.inv, h.mono, ?_⟩
  intro m hm
  rcases h.fresh m hm with h' | ⟨hp, hr'⟩
  · exact Or.inl h'
  · right; refine ⟨hp, ?_⟩
    -- Reach is transitive
    clear h hm hp
    induction hr with
    | refl _ => exact hr'
    | step a s _ params sel fin p hn hp hs _ ih => exact Reach.step a s m params sel fin p hn hp hs (ih hr')

theorem runParams_log (g : Graph) (n : Name) (rn : Name → Bool → RS → Res × RS) (ps : List Param)
    (hrn : ∀ p ∈ ps, ∀ src, p.src = some src → ∀ req s, LogStep g n s (rn src req s).2) :
    ∀ req eager lazies s, LogStep g n s (runParamsWith rn ps req eager lazies s).2 := by
  induction ps with
  | nil => intro req eager lazies s; exact logStep_refl g n s
  | cons p ps ih =>
    have ih' := ih (fun q hq => hrn q (List.mem_cons_of_mem _ hq))
    intro req eager lazies s
    simp only [runParamsWith]
    cases hsrc : p.src with
    | none =>
      simp only
      split
      · exact ih' _ _ _ _
      · split
        · exact logStep_refl g n s
        · split
          · exact logStep_refl g n s
          · exact ih' _ _ _ _
    | some src =>
      simp only
      split
      · exact ih' _ _ _ _
      · have h1 := hrn p List.mem_cons_self src hsrc (req && !p.acceptsNone) s
        cases hr : rn src (req && !p.acceptsNone) s with
        | mk res s1 =>
          rw [hr] at h1
          simp only at h1 ⊢
          cases res with
          | error e => exact h1
          | ok rv =>
            simp only
            split
            · exact h1
            · split
              · split <;> exact h1
              · exact logStep_trans g n h1 (ih' _ _ _ _)

theorem forceLazy_log (g : Graph) (n : Name) (rn : Name → Bool → RS → Res × RS)
    (sel : List Val → Option Nat) (eager : List Val) (lazies : List (Param × Name × Bool))
    (hrn : ∀ e ∈ lazies, ∀ req s, LogStep g n s (rn e.2.1 req s).2) (s : RS) :
    LogStep g n s (forceLazy rn sel eager lazies s).2 := by
  unfold forceLazy
  cases sel eager with
  | none => exact logStep_refl g n s
  | some j =>
    simp only
    cases hj : lazies[j]? with
    | none => exact logStep_refl g n s
    | some e =>
      obtain ⟨p, src, ireq⟩ := e
      have h1 := hrn _ (List.mem_of_getElem? hj) ireq s
      simp only at h1 ⊢
      cases hr : rn src ireq s with
      | mk res s1 =>
        rw [hr] at h1
        cases res with
        | error e => exact h1
        | ok rv =>
          simp only
          split <;> exact h1

/-- an unconsulted lazy input is not run by this component -/
theorem forceLazy_unselected (rn : Name → Bool → RS → Res × RS) (sel : List Val → Option Nat)
    (eager : List Val) (lazies : List (Param × Name × Bool)) (s : RS) (h : sel eager = Option.none) :
    forceLazy rn sel eager lazies s = (.ok Option.none, s) := by
  simp [forceLazy, h]

end LK.Pipe

namespace LK.Pipe

theorem logStep_setSt (g : Graph) (n : Name) (s : RS) (x : Status) (hx : x ≠ .pending) :
    LogStep g n s (s.setSt n x) := by
  refine ⟨?_, ?_, ?_⟩
  · intro ⟨hnd, hst⟩
    refine ⟨hnd, ?_⟩
    intro m hm
    by_cases h : m = n
    · subst h; simpa using hx
    · simpa [h] using hst m hm
  · intro m hm
    by_cases h : m = n
    · subst h; simpa using hx
    · simpa [h] using hm
  · intro m hm; exact Or.inl hm

theorem logStep_putSt (g : Graph) (n : Name) (s : RS) (v : Val) (x : Status) (hx : x ≠ .pending) :
    LogStep g n s ((s.put n v).setSt n x) := by
  have := logStep_setSt g n (s.put n v) x hx
  exact ⟨fun h => this.inv h, fun m h => this.mono m h, fun m h => this.fresh m h⟩

/-- **C02: each component executes at most once per run, and only if a request reaches it** -/
theorem runNode_log (vt : Variant) (g : Graph) (ι : Name → Val) :
    ∀ fuel n req s, LogStep g n s (runNode vt g ι fuel n req s).2 := by
  intro fuel
  induction fuel with
  | zero => intro n req s; exact logStep_refl g n s
  | succ fuel ih =>
    intro n req s
    simp only [runNode]
    cases hst : s.status n with
    | inProgress => exact logStep_refl g n s
    | failed => exact logStep_refl g n s
    | finished =>
      simp only
      cases vt with
      | asIs => cases s.state n <;> exact logStep_refl g n s
      | repaired =>
        simp only
        cases s.state n with
        | none => simp only; split <;> exact logStep_refl g n s
        | some v =>
          simp only
          cases g.node n with
          | input an acc => simp only; split <;> exact logStep_refl g n s
          | literal w => exact logStep_refl g n s
          | comp params sel fin => exact logStep_refl g n s
    | pending =>
      simp only
      have hA : LogStep g n s (s.setSt n .inProgress) := logStep_setSt g n s _ (by intro h; cases h)
      cases hnode : g.node n with
      | literal v =>
        simp only
        exact logStep_trans g n hA (logStep_putSt g n _ v _ (by intro h; cases h))
      | input an acc =>
        simp only
        split
        · exact logStep_trans g n hA (logStep_setSt g n _ _ (by intro h; cases h))
        · split
          · exact logStep_trans g n hA (logStep_setSt g n _ _ (by intro h; cases h))
          · exact logStep_trans g n hA (logStep_putSt g n _ _ _ (by intro h; cases h))
      | comp params sel fin =>
        simp only
        -- calls on wired sources, lifted to root n
        have hsrc : ∀ p ∈ params, ∀ src, p.src = some src → ∀ r t,
            LogStep g n t (runNode vt g ι fuel src r t).2 := by
          intro p hp src hs r t
          exact logStep_lift g n src (Reach.step n src src params sel fin p hnode hp hs (Reach.refl src)) (ih src r t)
        have hB := runParams_log g n (fun m r t => runNode vt g ι fuel m r t) params hsrc req [] [] (s.setSt n .inProgress)
        cases hrp : runParamsWith (fun m r t => runNode vt g ι fuel m r t) params req [] [] (s.setSt n .inProgress) with
        | mk pres s1 =>
          rw [hrp] at hB
          simp only at hB ⊢
          have hAB := logStep_trans g n hA hB
          cases pres with
          | error e => exact logStep_trans g n hAB (logStep_setSt g n _ _ (by intro h; cases h))
          | ok o =>
            cases o with
            | none =>
              simp only
              split <;> exact logStep_trans g n hAB (logStep_setSt g n _ _ (by intro h; cases h))
            | some el =>
              obtain ⟨eg, lz⟩ := el
              simp only
              -- logging n: n was pending at entry, in progress ever since, so it is not in the log yet
              have hL : LogStep g n s (s1.logged n) := by
                refine ⟨?_, ?_, ?_⟩
                · intro hinv
                  have h1 := hAB.inv hinv
                  have hn_notin : n ∉ s1.log := by
                    intro hmem
                    rcases hB.fresh n hmem with h | ⟨h, _⟩
                    · exact (hinv.2 n h) hst
                    · simp at h
                  refine ⟨List.nodup_cons.mpr ⟨hn_notin, h1.1⟩, ?_⟩
                  intro m hm
                  rcases List.mem_cons.mp hm with rfl | hm
                  · exact hB.mono m (by simp)
                  · exact h1.2 m hm
                · intro m hm; exact hAB.mono m hm
                · intro m hm
                  rcases List.mem_cons.mp hm with rfl | hm
                  · exact Or.inr ⟨hst, Reach.refl m⟩
                  · exact hAB.fresh m hm
              -- lazies come from params
              have hlzsrc : ∀ e ∈ lz, ∀ r t, LogStep g n t (runNode vt g ι fuel e.2.1 r t).2 := by
                intro e he r t
                -- every deferred entry stems from a wired parameter
                have : ∀ (ps : List Param) (rq : Bool) (ea : List Val) (la : List (Param × Name × Bool)) (t0 : RS) res t1,
                    (∀ p ∈ ps, p ∈ params) → LaziesFrom params la →
                    runParamsWith (fun m r t => runNode vt g ι fuel m r t) ps rq ea la t0 = (.ok (some res), t1) →
                    LaziesFrom params res.2 := by
                  intro ps
                  induction ps with
                  | nil =>
                    intro rq ea la t0 res t1 _ hla h
                    simp only [runParamsWith, Prod.mk.injEq, Except.ok.injEq, Option.some.injEq] at h
                    obtain ⟨rfl, _⟩ := h
                    intro e he; exact hla e (List.mem_reverse.mp he)
                  | cons p ps ihp =>
                    intro rq ea la t0 res t1 hsub hla h
                    have hsub' : ∀ q ∈ ps, q ∈ params := fun q hq => hsub q (List.mem_cons_of_mem _ hq)
                    simp only [runParamsWith] at h
                    cases hs : p.src with
                    | none =>
                      simp only [hs] at h
                      split at h
                      · exact ihp _ _ _ _ _ _ hsub' hla h
                      · split at h
                        · simp at h
                        · split at h
                          · simp at h
                          · exact ihp _ _ _ _ _ _ hsub' hla h
                    | some src =>
                      simp only [hs] at h
                      split at h
                      · refine ihp _ _ _ _ _ _ hsub' ?_ h
                        intro e he
                        rcases List.mem_cons.mp he with rfl | he
                        · exact ⟨hsub p List.mem_cons_self, hs⟩
                        · exact hla e he
                      · split at h
                        · simp at h
                        · split at h
                          · simp at h
                          · split at h
                            · split at h <;> simp at h
                            · exact ihp _ _ _ _ _ _ hsub' hla h
                have hfrom := this params req [] [] (s.setSt n .inProgress) (eg, lz) s1 (fun _ h => h)
                  (by intro e he; simp at he) hrp
                have := hfrom e he
                exact hsrc e.1 this.1 e.2.1 this.2 r t
              have hC := forceLazy_log g n (fun m r t => runNode vt g ι fuel m r t) sel eg lz hlzsrc (s1.logged n)
              cases hfl : forceLazy (fun m r t => runNode vt g ι fuel m r t) sel eg lz (s1.logged n) with
              | mk fres s2 =>
                rw [hfl] at hC
                simp only at hC ⊢
                have hLC := logStep_trans g n hL hC
                cases fres with
                | error e => exact logStep_trans g n hLC (logStep_setSt g n _ _ (by intro h; cases h))
                | ok lv =>
                  simp only
                  cases fin eg lv with
                  | error e => exact logStep_trans g n hLC (logStep_setSt g n _ _ (by intro h; cases h))
                  | ok v => exact logStep_trans g n hLC (logStep_putSt g n _ _ _ (by intro h; cases h))

/-- whole run: the execution log has no repeats and contains only nodes reachable from a request -/
theorem run_log (vt : Variant) (g : Graph) (ι : Name → Val) (fuel : Nat) (reqs : List Name) :
    ∀ s, LogInv s → LogInv (runAll vt g ι fuel reqs s).2 ∧
      ∀ m ∈ (runAll vt g ι fuel reqs s).2.log, m ∈ s.log ∨ ∃ n ∈ reqs, Reach g n m := by
  induction reqs with
  | nil => intro s h; exact ⟨h, fun m hm => Or.inl hm⟩
  | cons n ns ih =>
    intro s hinv
    have h1 := runNode_log vt g ι fuel n true s
    simp only [runAll]
    cases hr : runNode vt g ι fuel n true s with
    | mk res s1 =>
      rw [hr] at h1
      simp only at h1 ⊢
      have hfresh1 : ∀ m ∈ s1.log, m ∈ s.log ∨ ∃ n' ∈ n :: ns, Reach g n' m := by
        intro m hm
        rcases h1.fresh m hm with h | ⟨_, h⟩
        · exact Or.inl h
        · exact Or.inr ⟨n, List.mem_cons_self, h⟩
      cases res with
      | error e => exact ⟨h1.inv hinv, hfresh1⟩
      | ok o =>
        cases o with
        | none => exact ⟨h1.inv hinv, hfresh1⟩
        | some v =>
          simp only
          have h2 := ih s1 (h1.inv hinv)
          cases hra : runAll vt g ι fuel ns s1 with
          | mk res2 s2 =>
            rw [hra] at h2
            simp only at h2
            have hfin : LogInv s2 ∧ ∀ m ∈ s2.log, m ∈ s.log ∨ ∃ n' ∈ n :: ns, Reach g n' m := by
              refine ⟨h2.1, ?_⟩
              intro m hm
              rcases h2.2 m hm with h | ⟨n', hn', h⟩
              · exact hfresh1 m h
              · exact Or.inr ⟨n', List.mem_cons_of_mem _ hn', h⟩
            cases res2 <;> exact hfin

theorem exec_at_most_once (vt : Variant) (g : Graph) (ι : Name → Val) (fuel : Nat) (reqs : List Name) :
    (run vt g ι fuel reqs).2.log.Nodup :=
  (run_log vt g ι fuel reqs RS.init ⟨by simp [RS.init], by intro m hm; simp [RS.init] at hm⟩).1.1

theorem exec_only_needed (vt : Variant) (g : Graph) (ι : Name → Val) (fuel : Nat) (reqs : List Name)
    (m : Name) (hm : m ∈ (run vt g ι fuel reqs).2.log) : ∃ n ∈ reqs, Reach g n m := by
  rcases (run_log vt g ι fuel reqs RS.init ⟨by simp [RS.init], by intro m hm; simp [RS.init] at hm⟩).2 m hm with h | h
  · simp [RS.init] at h
  · exact h

#print axioms exec_at_most_once
#print axioms exec_only_needed
end LK.Pipe
