import LK.Model.RankMetrics
import Mathlib.Tactic.Linarith
import Mathlib.Tactic.Positivity
import Mathlib.Algebra.Order.Field.Rat
/-! # C06 — `MeanPopRank`: quantiles lie in [0, 1], unknown and inactive items count as 0, the mean stays in [0, 1] -/
namespace LK.Metric

theorem popQuantile_unknown (counts : List (Nat × Nat)) (i : Nat) (h : ∀ p ∈ counts, p.1 ≠ i) :
    popQuantile counts i = 0 := by
  have : counts.find? (fun p => p.1 == i) = none := by
    rw [List.find?_eq_none]; intro p hp; simpa using h p hp
  simp [popQuantile, this]

theorem popQuantile_inactive (counts : List (Nat × Nat)) (i : Nat)
    (h : counts.find? (fun p => p.1 == i) = some (i, 0)) : popQuantile counts i = 0 := by
  simp [popQuantile, h]

theorem filter_lt_eq_le (l : List (Nat × Nat)) (c : Nat) :
    (l.filter (fun p => p.2 < c)).length + (l.filter (fun p => p.2 == c)).length ≤ l.length := by
  induction l with
  | nil => simp
  | cons a l ih =>
    simp only [List.filter_cons, List.length_cons]
    by_cases h1 : a.2 < c
    · have h2 : ¬ a.2 = c := by omega
      simp [h1, h2]; omega
    · by_cases h2 : a.2 = c
      · simp [h1, h2]; omega
      · simp [h1, h2]; omega

theorem popQuantile_range (counts : List (Nat × Nat)) (i : Nat) :
    0 ≤ popQuantile counts i ∧ popQuantile counts i ≤ 1 := by
  unfold popQuantile
  cases hf : counts.find? (fun p => p.1 == i) with
  | none => simp
  | some pc =>
    obtain ⟨j, c⟩ := pc
    simp only
    by_cases hc : c = 0
    · simp [hc]
    · simp only [hc, if_false]
      have hmem : (j, c) ∈ counts := List.mem_of_find?_eq_some hf
      set pos := counts.filter (fun p => 0 < p.2) with hpos
      have hin : (j, c) ∈ pos := by
        rw [hpos, List.mem_filter]; exact ⟨hmem, by simp; omega⟩
      have heq1 : 1 ≤ (pos.filter (fun p => p.2 == c)).length := by
        have : (j, c) ∈ pos.filter (fun p => p.2 == c) := by rw [List.mem_filter]; exact ⟨hin, by simp⟩
        exact List.length_pos_of_mem this
      have hsum := filter_lt_eq_le pos c
      have hlen : 1 ≤ pos.length := List.length_pos_of_mem hin
      set a := (pos.filter (fun p => p.2 < c)).length
      set e := (pos.filter (fun p => p.2 == c)).length
      set n := pos.length
      have hnq : (0 : Q) < (n : Q) := by exact_mod_cast hlen
      have haq : (0 : Q) ≤ (a : Q) := by positivity
      have heq : (1 : Q) ≤ (e : Q) := by exact_mod_cast heq1
      have hsq : (a : Q) + (e : Q) ≤ (n : Q) := by exact_mod_cast hsum
      constructor
      · apply div_nonneg _ hnq.le; linarith
      · rw [div_le_one hnq]; linarith

theorem sum_le_length (f : Nat → Q) (l : List Nat) (h0 : ∀ i, 0 ≤ f i) (h1 : ∀ i, f i ≤ 1) (acc : Q) :
    acc ≤ (l.map f).foldl (· + ·) acc ∧ (l.map f).foldl (· + ·) acc ≤ acc + (l.length : Q) := by
  induction l generalizing acc with
  | nil => simp
  | cons x l ih =>
    simp only [List.map_cons, List.foldl_cons, List.length_cons]
    have := ih (acc + f x)
    have a0 := h0 x; have a1 := h1 x
    push_cast
    constructor <;> linarith [this.1, this.2]

/-- **C06, MeanPopRank:** the value is in [0, 1] for every list, cutoff and popularity table -/
theorem meanPopRank_range (k : Option Nat) (counts : List (Nat × Nat)) (L : List Nat) (v : Q)
    (h : meanPopRank k (popQuantile counts) L = some v) : 0 ≤ v ∧ v ≤ 1 := by
  unfold meanPopRank at h
  simp only at h
  split at h
  · cases h
  · rename_i hne
    injection h with h
    have hl : 0 < (truncate k L).length := by
      cases hL : truncate k L with
      | nil => simp [hL] at hne
      | cons a t => simp
    have hq : (0 : Q) < ((truncate k L).length : Q) := by exact_mod_cast hl
    have hs := sum_le_length (popQuantile counts) (truncate k L) (fun i => (popQuantile_range counts i).1)
      (fun i => (popQuantile_range counts i).2) 0
    subst h
    constructor
    · exact div_nonneg hs.1 hq.le
    · rw [div_le_one hq]; linarith [hs.2]

#print axioms meanPopRank_range
#print axioms popQuantile_unknown
end LK.Metric
