import LK.Model.KNN
import Mathlib.Algebra.Order.Field.Rat
import Mathlib.Tactic.Ring
namespace LK.KNN

theorem sumQ_perm (a b : List Q) (h : a.Perm b) : sumQ a = sumQ b := by
  induction h with
  | nil => rfl
  | cons x _ ih => simp only [sumQ, List.foldr_cons] at ih ⊢; rw [ih]
  | swap x y l => simp only [sumQ, List.foldr_cons]; ring
  | trans _ _ ih1 ih2 => exact ih1.trans ih2

theorem aggregate_perm (explicit : Bool) (a b : List Nbr) (h : a.Perm b) : aggregate explicit a = aggregate explicit b := by
  unfold aggregate
  rw [sumQ_perm _ _ (h.map (·.sim)), sumQ_perm _ _ (h.map (fun n => n.sim * n.r))]

theorem leDesc_trans (a b c : Nbr) : leDesc a b → leDesc b c → leDesc a c := by
  unfold leDesc; simp only [decide_eq_true_eq]; intro h1 h2; exact le_trans h2 h1

theorem leDesc_total (a b : Nbr) : leDesc a b || leDesc b a := by
  unfold leDesc; simp only [Bool.or_eq_true, decide_eq_true_eq]; exact le_total _ _

/-- **C09 (item-based):** the fast/slow path split computes the documented neighbourhood formula -/
theorem item_impl_eq_def (explicit : Bool) (k minNbrs : Nat) (nbrs : List Nbr) :
    itemScoreImpl explicit k minNbrs nbrs = scoreDef explicit k minNbrs nbrs := by
  unfold itemScoreImpl scoreDef
  by_cases h1 : nbrs.length < minNbrs
  · simp [h1]
  · simp only [h1, if_false]
    by_cases h2 : nbrs.length ≤ k
    · simp only [h2, if_true]
      have : (sortBy leDesc nbrs).take k = sortBy leDesc nbrs :=
        List.take_of_length_le (by rw [sortBy_length]; exact h2)
      rw [this]
      exact aggregate_perm explicit _ _ (sortBy_perm leDesc nbrs).symm
    · simp [h2]

/-- **C09 (user-based):** sorting all neighbours once and picking each item's raters in that order is
    the same as sorting that item's raters -/
theorem user_impl_eq_def (explicit : Bool) (k minNbrs : Nat) (allNbrs : List Nbr) (rated : Nbr → Bool) :
    userScoreImpl explicit k minNbrs allNbrs rated = userScoreDef explicit k minNbrs allNbrs rated := by
  unfold userScoreImpl userScoreDef scoreDef
  simp only
  rw [filter_sortBy leDesc leDesc_trans leDesc_total rated allNbrs, sortBy_length]

/-- the chosen neighbourhood really consists of the most similar qualifying neighbours -/
theorem chosen_are_top (k : Nat) (nbrs : List Nbr) (x y : Nbr)
    (hx : x ∈ (sortBy leDesc nbrs).take k) (hy : y ∈ (sortBy leDesc nbrs).drop k) : y.sim ≤ x.sim := by
  have hpw := sortBy_pairwise leDesc leDesc_trans leDesc_total nbrs
  rw [← List.take_append_drop k (sortBy leDesc nbrs)] at hpw
  have := (List.pairwise_append.mp hpw).2.2 x hx y hy
  simpa [leDesc] using this

theorem dot_comm (a b : List Q) : dot a b = dot b a := by
  unfold dot
  congr 1
  induction a generalizing b with
  | nil => cases b <;> rfl
  | cons x xs ih =>
    cases b with
    | nil => rfl
    | cons y ys => simp only [List.zipWith_cons_cons]; rw [ih ys, mul_comm]

/-- untruncated similarity rows are symmetric, never relate an item to itself, and stay in [minSim, 1] -/
theorem simRow_symm (vecs : List (List Q)) (minSim : Q) (i j : Nat) (s : Q) (hi : i < vecs.length)
    (h : (j, s) ∈ simRow vecs minSim i) : (i, s) ∈ simRow vecs minSim j := by
  unfold simRow at h ⊢
  simp only [List.mem_filterMap, List.mem_range] at h ⊢
  obtain ⟨j', hj', hs⟩ := h
  split at hs
  · rename_i hc
    simp only [Option.some.injEq, Prod.mk.injEq] at hs
    obtain ⟨rfl, rfl⟩ := hs
    refine ⟨i, hi, ?_⟩
    rw [dot_comm (vecs.getD j' []) (vecs.getD i [])]
    have : i ≠ j' := fun h => hc.1 h.symm
    have h2 := hc.2
    simp only [List.getD_eq_getElem?_getD] at h2 ⊢
    simp [this, h2]
  · simp at hs

theorem simRow_no_self (vecs : List (List Q)) (minSim : Q) (i : Nat) (s : Q) : (i, s) ∉ simRow vecs minSim i := by
  unfold simRow
  simp only [List.mem_filterMap, List.mem_range, not_exists, not_and]
  intro j _ h
  split at h
  · rename_i hc
    simp only [Option.some.injEq, Prod.mk.injEq] at h
    exact hc.1 h.1
  · simp at h

theorem simRow_range (vecs : List (List Q)) (minSim : Q) (hm : minSim ≤ 1) (i j : Nat) (s : Q)
    (h : (j, s) ∈ simRow vecs minSim i) : minSim ≤ s ∧ s ≤ 1 := by
  unfold simRow at h
  simp only [List.mem_filterMap, List.mem_range] at h
  obtain ⟨j', _, hs⟩ := h
  split at hs
  · rename_i hc
    simp only [Option.some.injEq, Prod.mk.injEq] at hs
    obtain ⟨_, rfl⟩ := hs
    split
    · exact ⟨hm, le_refl _⟩
    · rename_i h1; exact ⟨hc.2, not_lt.mp h1⟩
  · simp at hs

#print axioms item_impl_eq_def
#print axioms user_impl_eq_def
#print axioms simRow_symm
end LK.KNN
