import LK.Generated.NegC20
/-!
# C20 — verified negative sampling, as translated from the source, is the model's `sampleVerified`
-/
set_option linter.unusedSimpArgs false
namespace LK.Neg
open LK.Gen.NegC20

/-- a pair is marked for re-drawing exactly when it is an observed interaction — the pair stored at position 0 included -/
theorem loc_nonneg_iff (m : Mat) (r c : Nat) : decide (0 ≤ pairLoc m r c) = isObs m r c := by
  unfold pairLoc isObs
  by_cases h : (r, c) ∈ m.observed
  · have hk : m.observed.idxOf (r, c) < m.observed.length := List.idxOf_lt_length_of_mem h
    simp [hk, h]
  · have hk : ¬ m.observed.idxOf (r, c) < m.observed.length := by
      intro hlt; exact h (List.idxOf_lt_length_iff.mp hlt)
    simp [hk, h]

theorem decode_uniform (m : Mat) : decode m .uniform = fun x => x := by funext x; rfl
theorem decode_popular (m : Mat) : decode m .popular = fun x => m.storedCols[x]?.getD 0 := by
  funext x; simp [decode, List.getD_eq_getElem?_getD]

/-- **C20:** for every matrix, weighting, budget, row list and draw stream, the translated code computes what the model's
    `sampleVerified` computes — the function `verified_or_warned`, `cols_from_draws`, `every_column_reachable` … are proved about -/
theorem sampleT_eq (m : Mat) (w : Weighting) (a : Nat) (rows : List Nat) (draws : List (List Nat)) :
    sampleT m w a rows draws = sampleVerified m w a rows draws := by
  induction a generalizing rows draws with
  | zero =>
    cases draws with
    | nil => simp [sampleT, sampleVerified]
    | cons d ds =>
      by_cases hl : d.length ≠ rows.length
      · cases w <;> simp [sampleT, sampleVerified, hl]
      · cases w <;> simp only [sampleT, sampleVerified, hl, if_false, resample, loc_nonneg_iff, decode_uniform, decode_popular, List.map_id', List.getD_eq_getElem?_getD] <;>
          split <;> simp_all <;> rfl
  | succ a ih =>
    cases draws with
    | nil => simp [sampleT, sampleVerified]
    | cons d ds =>
      by_cases hl : d.length ≠ rows.length
      · cases w <;> simp [sampleT, sampleVerified, hl]
      · cases w <;> simp only [sampleT, sampleVerified, hl, if_false, resample, loc_nonneg_iff, decode_uniform, decode_popular, List.map_id', List.getD_eq_getElem?_getD, ih] <;>
          split <;> simp_all <;> rfl

end LK.Neg
