import LK.Generated.GuardsC15
import LK.Model.ItemListPersist
/-!
# C15 — what an item list puts into its pickled state (`ItemList.__getstate__` / `__setstate__`)
The model's `stateIds` / `stateNums` (about which `LK/Proofs/ItemListPersist.lean` proves the round trip) choose among three sources:
what is stored, what the vocabulary resolves, nothing.  These obligations say the code chooses the same way, in the same order.
-/
set_option linter.unusedSimpArgs false
namespace LK.Gen.GuardsC15
open LK.IL

def encO {α} : Option α → LK.Py.V
  | none => none
  | some _ => some 0

/-- identifiers: stored ones first, else resolved through the vocabulary, else left out — the model's `stateIds` -/
theorem stateIds_dispatch {ι φ : Type} [DecidableEq ι] (il : IL ι φ) :
    stateIds il = (match stateIdsBranch (encO il.ids) (encO il.vocab) with
      | 0 => .ok il.ids
      | 1 => (match idsOf il with | .ok i => .ok (some i) | .error e => .error e)
      | _ => .ok none) := by
  unfold stateIds stateIdsBranch
  cases h1 : il.ids <;> cases h2 : il.vocab <;> simp [encO] <;> (cases idsOf il <;> rfl)

/-- numbers likewise — the model's `stateNums` (unknown identifiers get the negative marker: `Variant.repaired`, `cc2063f`) -/
theorem stateNums_dispatch {ι φ : Type} [DecidableEq ι] (vt : Variant) (il : IL ι φ) :
    stateNums vt il = (match stateNumbersBranch (encO il.nums) (encO il.vocab) with
      | 0 => .ok il.nums
      | 1 => (match numbersOf il none (match vt with | .asIs => .error | .repaired => .negative) with
               | .ok n => .ok (some n) | .error e => .error e)
      | _ => .ok none) := by
  unfold stateNums stateNumbersBranch
  cases h1 : il.nums <;> cases h2 : il.vocab <;> simp [encO] <;> (cases numbersOf il none (match vt with | .asIs => .error | .repaired => .negative) <;> rfl)

/-- stored values are pickled whatever their truth value (an empty array is a value) -/
theorem stored_first (k : Int) (vocab : LK.Py.V) : stateIdsBranch (some k) vocab = 0 ∧ stateNumbersBranch (some k) vocab = 0 := by
  simp [stateIdsBranch, stateNumbersBranch]

/-- numbers are restored exactly when the state holds some -/
theorem restore_iff (b : Bool) : restoreNumbersBranch b = 0 ↔ b = true := by cases b <;> simp [restoreNumbersBranch]

/-- the tables of a dataset are written with no option beyond the compression — nothing that coerces or truncates a value on the way
    to the file (a date-time keeps its resolution) -/
theorem tables_written_as_they_are : writeTableExtraOptions = 0 := by decide

end LK.Gen.GuardsC15
