import LK.Proofs.KNN
import LK.Proofs.Batch
/-! C09 — stored-neighbour truncation keeps the most similar entries; the model does not depend on the block size. -/
namespace LK.KNN

theorem leSim_trans (a b c : Nat × Q) : leSim a b → leSim b c → leSim a c := by
  simp only [leSim, decide_eq_true_eq]; intro h1 h2; exact le_trans h2 h1
theorem leSim_total (a b : Nat × Q) : leSim a b || leSim b a := by
  simp only [leSim, Bool.or_eq_true, decide_eq_true_eq]; exact le_total _ _

/-- every kept entry was in the untruncated row (so it inherits `no_self` and the `[minSim, 1]` range) -/
theorem simRowTrunc_sub (vecs : List (List Q)) (minSim : Q) (maxN : Option Nat) (i : Nat) (e : Nat × Q)
    (h : e ∈ simRowTrunc vecs minSim maxN i) : e ∈ simRow vecs minSim i := by
  unfold simRowTrunc at h
  cases maxN with
  | none => exact h
  | some k =>
    simp only at h
    split at h
    · have h1 := (mem_sortBy _ _ _).mp h
      exact (mem_sortBy _ _ _).mp (List.mem_of_mem_take h1)
    · exact h

/-- **C09 (truncation keeps the most similar neighbours):** nothing dropped is more similar than anything kept -/
theorem simRowTrunc_top (vecs : List (List Q)) (minSim : Q) (k : Nat) (i : Nat) (hk : 0 < k)
    (hlt : k < (simRow vecs minSim i).length) (kept dropped : Nat × Q)
    (hkept : kept ∈ simRowTrunc vecs minSim (some k) i)
    (hdrop : dropped ∈ (sortBy leSim (simRow vecs minSim i)).drop k) : dropped.2 ≤ kept.2 := by
  unfold simRowTrunc at hkept
  simp only [hk, hlt, and_self, if_true] at hkept
  have h1 := (mem_sortBy _ _ _).mp hkept
  have hpw := sortBy_pairwise leSim leSim_trans leSim_total (simRow vecs minSim i)
  rw [← List.take_append_drop k (sortBy leSim (simRow vecs minSim i))] at hpw
  have := (List.pairwise_append.mp hpw).2.2 kept h1 dropped hdrop
  simpa [leSim] using this

theorem simRowTrunc_length (vecs : List (List Q)) (minSim : Q) (k : Nat) (i : Nat) (hk : 0 < k) :
    (simRowTrunc vecs minSim (some k) i).length = min k (simRow vecs minSim i).length := by
  unfold simRowTrunc
  simp only
  split
  · rename_i h
    rw [sortBy_length, List.length_take, sortBy_length]
  · rename_i h
    have : (simRow vecs minSim i).length ≤ k := by
      rcases Nat.lt_or_ge k (simRow vecs minSim i).length with hlt | hge
      · exact absurd ⟨hk, hlt⟩ h
      · exact hge
    omega

/-- the whole model, computed block by block as `_sim_blocks` does -/
def simBlocks (vecs : List (List Q)) (minSim : Q) (maxN : Option Nat) (blockSize : Nat) : List (List (Nat × Q)) :=
  LK.Batch.fanout (simRowTrunc vecs minSim maxN) vecs.length blockSize vecs.length 0

/-- **C09 (block size is irrelevant)** -/
theorem simBlocks_blocksize_indep (vecs : List (List Q)) (minSim : Q) (maxN : Option Nat) (b₁ b₂ : Nat)
    (h1 : 0 < b₁) (h2 : 0 < b₂) : simBlocks vecs minSim maxN b₁ = simBlocks vecs minSim maxN b₂ :=
  LK.Batch.fanout_chunk_independent _ _ _ _ h1 h2

theorem simBlocks_eq_rows (vecs : List (List Q)) (minSim : Q) (maxN : Option Nat) (b : Nat) (hb : 0 < b) :
    simBlocks vecs minSim maxN b = (List.range vecs.length).map (simRowTrunc vecs minSim maxN) := by
  unfold simBlocks
  rw [LK.Batch.fanout_eq_map _ _ _ hb vecs.length 0 (by have := Nat.le_mul_of_pos_right vecs.length hb; omega)]
  simp [List.range_eq_range']

#print axioms simRowTrunc_top
#print axioms simBlocks_blocksize_indep
end LK.KNN
