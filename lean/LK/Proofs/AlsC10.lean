import LK.Generated.AlsC10
import LK.Proofs.NormalEq
import LK.Proofs.NormalEqW
/-!
# C10 — the systems the ALS row solvers build, as translated from the source, are the normal equations of the documented objectives
(`solve_cholesky(A, V)` is assumed to return the solution of `A x = V`; what is proved is that `A` and `V` are the right ones.)
-/
namespace LK.AlsC10
open Matrix LK.Gen.AlsC10

variable {m n : Type} [Fintype m] [Fintype n] [DecidableEq n] [DecidableEq m] {K : Type} [Field K]

/-- **explicit feedback, training:** with `regI = reg · I` (as `TrainContext.create` builds it) a vector solves the system iff it solves
    the normal equations of the ridge problem whose penalty is `reg` times *the number of entries of the row* -/
theorem explicitRow_iff_normalEq (M : Matrix m n K) (vals : m → K) (reg nui : K) (x : n → K) :
    (explicitRowSystem M vals (reg • (1 : Matrix n n K)) nui).1 *ᵥ x = (explicitRowSystem M vals (reg • (1 : Matrix n n K)) nui).2
      ↔ LK.NormalEq.NormalEq M vals (nui * reg) x := by
  unfold explicitRowSystem LK.NormalEq.NormalEq
  simp only [smul_smul, add_comm]

/-- **explicit feedback, fold-in of a supplied history:** the same system, the count being the length of the history -/
theorem explicitFoldIn_iff_normalEq (M : Matrix m n K) (ratings : m → K) (reg nui : K) (x : n → K) :
    (explicitFoldInSystem M ratings reg nui).1 *ᵥ x = (explicitFoldInSystem M ratings reg nui).2
      ↔ LK.NormalEq.NormalEq M ratings (nui * reg) x := by
  unfold explicitFoldInSystem LK.NormalEq.NormalEq
  simp only [smul_smul, add_comm]

/-- training and fold-in build the same system from the same data -/
theorem explicit_foldIn_eq_row (M : Matrix m n K) (r : m → K) (reg nui : K) :
    explicitFoldInSystem M r reg nui = explicitRowSystem M r (reg • (1 : Matrix n n K)) nui := by
  unfold explicitFoldInSystem explicitRowSystem
  simp only [add_comm]

/-- **implicit feedback:** the matrix is `OtOr + Mᵀ diag(vals) M`, the right-hand side `Mᵀ (vals + 1)` — for training rows and fold-in alike -/
theorem implicitRow_system (M : Matrix m n K) (vals : m → K) (OtOr : Matrix n n K) :
    implicitRowSystem M vals OtOr = (OtOr + Mᵀ * diagonal vals * M, Mᵀ *ᵥ (fun i => vals i + 1)) := rfl

theorem implicit_foldIn_eq_row (M : Matrix m n K) (vals : m → K) (OtOr : Matrix n n K) :
    implicitFoldInSystem M vals OtOr = implicitRowSystem M vals OtOr := rfl

/-- the pre-computed background matrix is `OᵀO + reg · I` over *all* rows `O` of the other side -/
theorem implicitOtor_eq {o : Type} [Fintype o] (O : Matrix o n K) (reg : K) :
    implicitOtor O reg = Oᵀ * O + reg • (1 : Matrix n n K) := rfl

/-- hence, when the row's entries are all rows of the other side (`O = M`), the system is the confidence-weighted normal equations with
    preference 1 and confidence `1 + vals` everywhere (`implicit_split`); for a proper subset of entries the remaining rows enter with
    confidence 1 and preference 0 through `OᵀO` — that restriction step is the part left to the residual evaluation of the check -/
theorem implicitRow_full_iff_normalEq (M : Matrix m n K) (vals : m → K) (reg : K) (x : n → K) :
    (implicitRowSystem M vals (implicitOtor M reg)).1 *ᵥ x = (implicitRowSystem M vals (implicitOtor M reg)).2
      ↔ LK.NormalEqW.NormalEq M (fun _ => 1) (fun i => 1 + vals i) reg x := by
  rw [implicitRow_system, implicitOtor_eq]
  unfold LK.NormalEqW.NormalEq
  rw [LK.NormalEqW.implicit_split]
  have h1 : Mᵀ * M + reg • (1 : Matrix n n K) + Mᵀ * diagonal vals * M = Mᵀ * M + Mᵀ * diagonal vals * M + reg • (1 : Matrix n n K) := by abel
  have h2 : (diagonal (fun i => 1 + vals i) *ᵥ fun _ => (1 : K)) = fun i => vals i + 1 := by
    funext i; rw [mulVec_diagonal]; ring
  simp only [h1, h2]

/-! ### restriction to the row's entries -/

/-- a sum over all rows of the other side whose terms vanish off the row's entries is the sum over the entries -/
theorem sum_restrict {ι : Type} [Fintype ι] [DecidableEq ι] (e : m → ι) (he : Function.Injective e) (f : ι → K)
    (h0 : ∀ j, j ∉ Set.range e → f j = 0) : ∑ j, f j = ∑ i, f (e i) := by
  rw [← Finset.sum_image (s := Finset.univ) (g := e) (f := f) (fun a _ b _ h => he h)]
  symm
  apply Finset.sum_subset (Finset.subset_univ _)
  intro j _ hj
  apply h0
  intro ⟨i, hi⟩
  exact hj (Finset.mem_image.mpr ⟨i, Finset.mem_univ _, hi⟩)

/-- **implicit feedback, in general:** let `Y` hold *all* rows of the other side, `e` pick the row's entries, `v` be the confidence
    surplus (`weight × value` on the entries, 0 elsewhere) and `p` the preference (1 on the entries, 0 elsewhere).  The system the code
    builds from the entries alone — `M = Y` restricted to them — is the confidence-weighted normal equations over all of `Y`, with
    confidence `1 + v` and preference `p` -/
theorem implicitRow_iff_normalEq {ι : Type} [Fintype ι] [DecidableEq ι] (Y : Matrix ι n K) (e : m → ι) (he : Function.Injective e)
    (vals : m → K) (v p : ι → K) (hv : ∀ i, v (e i) = vals i) (hv0 : ∀ j, j ∉ Set.range e → v j = 0)
    (hp : ∀ i, p (e i) = 1) (hp0 : ∀ j, j ∉ Set.range e → p j = 0) (reg : K) (x : n → K) :
    (implicitRowSystem (Y.submatrix e id) vals (implicitOtor Y reg)).1 *ᵥ x = (implicitRowSystem (Y.submatrix e id) vals (implicitOtor Y reg)).2
      ↔ LK.NormalEqW.NormalEq Y p (fun j => 1 + v j) reg x := by
  have hA : (Y.submatrix e id)ᵀ * diagonal vals * (Y.submatrix e id) = Yᵀ * diagonal v * Y := by
    ext a b
    simp only [Matrix.mul_apply, Matrix.transpose_apply, Matrix.submatrix_apply, id, Matrix.diagonal_apply, mul_ite, mul_zero,
      Finset.sum_ite_eq', Finset.mem_univ, if_true]
    rw [sum_restrict e he (fun j => Y j a * v j * Y j b) (fun j hj => by simp [hv0 j hj])]
    exact Finset.sum_congr rfl (fun i _ => by rw [hv i])
  have hy : (Y.submatrix e id)ᵀ *ᵥ (fun i => vals i + 1) = Yᵀ *ᵥ (diagonal (fun j => 1 + v j) *ᵥ p) := by
    funext a
    simp only [Matrix.mulVec, dotProduct, Matrix.transpose_apply, Matrix.submatrix_apply, id, Matrix.diagonal_apply, ite_mul, zero_mul,
      Finset.sum_ite_eq, Finset.mem_univ, if_true]
    rw [sum_restrict e he (fun j => Y j a * ((1 + v j) * p j)) (fun j hj => by simp [hp0 j hj])]
    exact Finset.sum_congr rfl (fun i _ => by rw [hv i, hp i]; ring)
  rw [implicitRow_system, implicitOtor_eq, hA, hy]
  unfold LK.NormalEqW.NormalEq
  rw [LK.NormalEqW.implicit_split]
  have h1 : Yᵀ * Y + reg • (1 : Matrix n n K) + Yᵀ * diagonal v * Y = Yᵀ * Y + Yᵀ * diagonal v * Y + reg • (1 : Matrix n n K) := by abel
  rw [h1]

end LK.AlsC10
