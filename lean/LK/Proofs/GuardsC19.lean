import LK.Generated.GuardsC19
import LK.Model.Stochastic
/-!
# C19 — the translated list-length logic of the three random components is the model's
-/
set_option linter.unusedSimpArgs false
namespace LK.Gen.GuardsC19
open LK.Stoch

/-- the length the stochastic ranker produces over `N > 0` rankable items is the model's `effN`: a run-time `n ≥ 0` wins (clamped to `N`),
    an absent or negative one falls back to the configured value, and absent / zero / negative / oversized values mean "all" -/
theorem stochasticN_eq_effN (run cfg : Option Int) (N : Nat) (hN : 0 < N) :
    stochasticN run cfg (N : Int) = some ((effN cfg run N : Nat) : Int) := by
  have hN0 : ¬ ((N : Int) = 0) := by omega
  have hN1 : ¬ (N = 0) := by omega
  unfold stochasticN effN clampN chosenN cfgN
  cases run with
  | none =>
    cases cfg with
    | none => simp [LK.Py.por, LK.Py.truthy, LK.Py.lt, LK.Py.gt, LK.Py.le, LK.Py.ge, hN0, hN1]
    | some c =>
      by_cases hc : c = 0
      · simp [LK.Py.por, LK.Py.truthy, LK.Py.lt, LK.Py.gt, LK.Py.le, LK.Py.ge, hN0, hN1, hc]
      · by_cases h1 : c < 0
        · simp [LK.Py.por, LK.Py.truthy, LK.Py.lt, LK.Py.gt, LK.Py.le, LK.Py.ge, hN0, hN1, hc, h1]
        · by_cases h2 : (N : Int) < c
          · simp [LK.Py.por, LK.Py.truthy, LK.Py.lt, LK.Py.gt, LK.Py.le, LK.Py.ge, hN0, hN1, hc, h1, h2]
          · simp [LK.Py.por, LK.Py.truthy, LK.Py.lt, LK.Py.gt, LK.Py.le, LK.Py.ge, hN0, hN1, hc, h1, h2]; omega
  | some r =>
    by_cases hr : r < 0
    · cases cfg with
      | none => simp [LK.Py.por, LK.Py.truthy, LK.Py.lt, LK.Py.gt, LK.Py.le, LK.Py.ge, hN0, hN1, hr]
      | some c =>
        by_cases hc : c = 0
        · simp [LK.Py.por, LK.Py.truthy, LK.Py.lt, LK.Py.gt, LK.Py.le, LK.Py.ge, hN0, hN1, hc, hr]
        · by_cases h1 : c < 0
          · simp [LK.Py.por, LK.Py.truthy, LK.Py.lt, LK.Py.gt, LK.Py.le, LK.Py.ge, hN0, hN1, hc, h1, hr]
          · by_cases h2 : (N : Int) < c
            · simp [LK.Py.por, LK.Py.truthy, LK.Py.lt, LK.Py.gt, LK.Py.le, LK.Py.ge, hN0, hN1, hc, h1, h2, hr]
            · simp [LK.Py.por, LK.Py.truthy, LK.Py.lt, LK.Py.gt, LK.Py.le, LK.Py.ge, hN0, hN1, hc, h1, h2, hr]; omega
    · by_cases h2 : (N : Int) < r
      · simp [LK.Py.por, LK.Py.truthy, LK.Py.lt, LK.Py.gt, LK.Py.le, LK.Py.ge, hN0, hN1, hr, h2]
      · simp [LK.Py.por, LK.Py.truthy, LK.Py.lt, LK.Py.gt, LK.Py.le, LK.Py.ge, hN0, hN1, hr, h2]; omega

/-- likewise for `SoftmaxRanker`: the length it produces over `N > 0` rankable items is the model's `effN`: a run-time `n ≥ 0` wins (clamped to `N`),
    an absent or negative one falls back to the configured value, and absent / zero / negative / oversized values mean "all" -/
theorem softmaxN_eq_effN (run cfg : Option Int) (N : Nat) (hN : 0 < N) :
    softmaxN run cfg (N : Int) = some ((effN cfg run N : Nat) : Int) := by
  have hN0 : ¬ ((N : Int) = 0) := by omega
  have hN1 : ¬ (N = 0) := by omega
  unfold softmaxN effN clampN chosenN cfgN
  cases run with
  | none =>
    cases cfg with
    | none => simp [LK.Py.por, LK.Py.truthy, LK.Py.lt, LK.Py.gt, LK.Py.le, LK.Py.ge, hN0, hN1]
    | some c =>
      by_cases hc : c = 0
      · simp [LK.Py.por, LK.Py.truthy, LK.Py.lt, LK.Py.gt, LK.Py.le, LK.Py.ge, hN0, hN1, hc]
      · by_cases h1 : c < 0
        · simp [LK.Py.por, LK.Py.truthy, LK.Py.lt, LK.Py.gt, LK.Py.le, LK.Py.ge, hN0, hN1, hc, h1]
        · by_cases h2 : (N : Int) < c
          · simp [LK.Py.por, LK.Py.truthy, LK.Py.lt, LK.Py.gt, LK.Py.le, LK.Py.ge, hN0, hN1, hc, h1, h2]
          · simp [LK.Py.por, LK.Py.truthy, LK.Py.lt, LK.Py.gt, LK.Py.le, LK.Py.ge, hN0, hN1, hc, h1, h2]; omega
  | some r =>
    by_cases hr : r < 0
    · cases cfg with
      | none => simp [LK.Py.por, LK.Py.truthy, LK.Py.lt, LK.Py.gt, LK.Py.le, LK.Py.ge, hN0, hN1, hr]
      | some c =>
        by_cases hc : c = 0
        · simp [LK.Py.por, LK.Py.truthy, LK.Py.lt, LK.Py.gt, LK.Py.le, LK.Py.ge, hN0, hN1, hc, hr]
        · by_cases h1 : c < 0
          · simp [LK.Py.por, LK.Py.truthy, LK.Py.lt, LK.Py.gt, LK.Py.le, LK.Py.ge, hN0, hN1, hc, h1, hr]
          · by_cases h2 : (N : Int) < c
            · simp [LK.Py.por, LK.Py.truthy, LK.Py.lt, LK.Py.gt, LK.Py.le, LK.Py.ge, hN0, hN1, hc, h1, h2, hr]
            · simp [LK.Py.por, LK.Py.truthy, LK.Py.lt, LK.Py.gt, LK.Py.le, LK.Py.ge, hN0, hN1, hc, h1, h2, hr]; omega
    · by_cases h2 : (N : Int) < r
      · simp [LK.Py.por, LK.Py.truthy, LK.Py.lt, LK.Py.gt, LK.Py.le, LK.Py.ge, hN0, hN1, hr, h2]
      · simp [LK.Py.por, LK.Py.truthy, LK.Py.lt, LK.Py.gt, LK.Py.le, LK.Py.ge, hN0, hN1, hr, h2]; omega


/-- the number of items `RandomSelector` picks from `L` candidates is the model's `randomK`: a run-time `n` (0 included) wins, a negative
    one means all; otherwise the configured value, where absent / 0 mean all -/
theorem randomN_eq_randomK (run cfg : Option Int) (L : Nat) :
    randomN run cfg (L : Int) = some ((randomK L cfg run : Nat) : Int) := by
  unfold randomN randomK
  cases run with
  | none =>
    cases cfg with
    | none => simp [LK.Py.por, LK.Py.truthy, LK.Py.lt, LK.Py.gt, LK.Py.le, LK.Py.ge, LK.Py.pmin]
    | some c =>
      by_cases hc : c = 0
      · simp [LK.Py.por, LK.Py.truthy, LK.Py.lt, LK.Py.gt, LK.Py.le, LK.Py.ge, LK.Py.pmin, hc]
      · by_cases h1 : c < 0
        · simp [LK.Py.por, LK.Py.truthy, LK.Py.lt, LK.Py.gt, LK.Py.le, LK.Py.ge, LK.Py.pmin, hc, h1]
        · simp [LK.Py.por, LK.Py.truthy, LK.Py.lt, LK.Py.gt, LK.Py.le, LK.Py.ge, LK.Py.pmin, hc, h1]; omega
  | some r =>
    by_cases hr : r < 0
    · simp [LK.Py.por, LK.Py.truthy, LK.Py.lt, LK.Py.gt, LK.Py.le, LK.Py.ge, LK.Py.pmin, hr]
    · simp [LK.Py.por, LK.Py.truthy, LK.Py.lt, LK.Py.gt, LK.Py.le, LK.Py.ge, LK.Py.pmin, hr]; omega

/-- a length given at run time overrides the configured one (all three components) -/
theorem runtime_overrides (k : Nat) (cfg : Option Int) (N : Nat) (hN : 0 < N) :
    stochasticN (some (k : Int)) cfg (N : Int) = some ((min k N : Nat) : Int)
    ∧ softmaxN (some (k : Int)) cfg (N : Int) = some ((min k N : Nat) : Int)
    ∧ randomN (some (k : Int)) cfg (N : Int) = some ((min k N : Nat) : Int) := by
  rw [stochasticN_eq_effN _ _ _ hN, softmaxN_eq_effN _ _ _ hN, randomN_eq_randomK]
  have h0 : ¬ ((k : Int) < 0) := by omega
  by_cases hk : N < k
  · have hk' : (N : Int) < k := by omega
    have hm : min k N = N := by omega
    refine ⟨?_, ?_, ?_⟩ <;> simp [effN, clampN, chosenN, randomK, h0, hk, hk', hm] <;> omega
  · have hk' : ¬ ((N : Int) < k) := by omega
    have hm : min k N = k := by omega
    refine ⟨?_, ?_, ?_⟩ <;> simp [effN, clampN, chosenN, randomK, h0, hk, hk', hm] <;> omega

end LK.Gen.GuardsC19
