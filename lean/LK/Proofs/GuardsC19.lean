import LK.Generated.GuardsC19
import LK.Model.Stochastic
/-!
# C19 — the translated list-length logic of the three random components is the model's
-/
set_option linter.unusedSimpArgs false
namespace LK.Gen.GuardsC19
open LK.Stoch

/-- the length the stochastic ranker produces over `N > 0` rankable items is the model's `effN`: a run-time `n ≥ 0` wins (clamped to `N`),
    an absent or negative one falls back to the configured value, and absent / zero / negative / oversized values mean "all" -/
theorem stochasticN_eq_effN (run cfg : Option Int) (N : Nat) (hN : 0 < N) :
    stochasticN run cfg (N : Int) = some ((effN cfg run N : Nat) : Int) := by
  have hN0 : ¬ ((N : Int) = 0) := by omega
  have hN1 : ¬ (N = 0) := by omega
  unfold stochasticN effN clampN chosenN cfgN
  cases run with
  | none =>
    cases cfg with
    | none => simp [LK.Py.por, LK.Py.truthy, LK.Py.lt, LK.Py.gt, LK.Py.le, LK.Py.ge, hN0, hN1]
    | some c =>
      by_cases hc : c = 0
      · simp [LK.Py.por, LK.Py.truthy, LK.Py.lt, LK.Py.gt, LK.Py.le, LK.Py.ge, hN0, hN1, hc]
      · by_cases h1 : c < 0
        · simp [LK.Py.por, LK.Py.truthy, LK.Py.lt, LK.Py.gt, LK.Py.le, LK.Py.ge, hN0, hN1, hc, h1]
        · by_cases h2 : (N : Int) < c
          · simp [LK.Py.por, LK.Py.truthy, LK.Py.lt, LK.Py.gt, LK.Py.le, LK.Py.ge, hN0, hN1, hc, h1, h2]
          · simp [LK.Py.por, LK.Py.truthy, LK.Py.lt, LK.Py.gt, LK.Py.le, LK.Py.ge, hN0, hN1, hc, h1, h2]; omega
  | some r =>
    by_cases hr : r < 0
    · cases cfg with
      | none => simp [LK.Py.por, LK.Py.truthy, LK.Py.lt, LK.Py.gt, LK.Py.le, LK.Py.ge, hN0, hN1, hr]
      | some c =>
        by_cases hc : c = 0
        · simp [LK.Py.por, LK.Py.truthy, LK.Py.lt, LK.Py.gt, LK.Py.le, LK.Py.ge, hN0, hN1, hc, hr]
        · by_cases h1 : c < 0
          · simp [LK.Py.por, LK.Py.truthy, LK.Py.lt, LK.Py.gt, LK.Py.le, LK.Py.ge, hN0, hN1, hc, h1, hr]
          · by_cases h2 : (N : Int) < c
            · simp [LK.Py.por, LK.Py.truthy, LK.Py.lt, LK.Py.gt, LK.Py.le, LK.Py.ge, hN0, hN1, hc, h1, h2, hr]
            · simp [LK.Py.por, LK.Py.truthy, LK.Py.lt, LK.Py.gt, LK.Py.le, LK.Py.ge, hN0, hN1, hc, h1, h2, hr]; omega
    · by_cases h2 : (N : Int) < r
      · simp [LK.Py.por, LK.Py.truthy, LK.Py.lt, LK.Py.gt, LK.Py.le, LK.Py.ge, hN0, hN1, hr, h2]
      · simp [LK.Py.por, LK.Py.truthy, LK.Py.lt, LK.Py.gt, LK.Py.le, LK.Py.ge, hN0, hN1, hr, h2]; omega

/-- likewise for `SoftmaxRanker`: the length it produces over `N > 0` rankable items is the model's `effN`: a run-time `n ≥ 0` wins (clamped to `N`),
    an absent or negative one falls back to the configured value, and absent / zero / negative / oversized values mean "all" -/
theorem softmaxN_eq_effN (run cfg : Option Int) (N : Nat) (hN : 0 < N) :
    softmaxN run cfg (N : Int) = some ((effN cfg run N : Nat) : Int) := by
  have hN0 : ¬ ((N : Int) = 0) := by omega
  have hN1 : ¬ (N = 0) := by omega
  unfold softmaxN effN clampN chosenN cfgN
  cases run with
  | none =>
    cases cfg with
    | none => simp [LK.Py.por, LK.Py.truthy, LK.Py.lt, LK.Py.gt, LK.Py.le, LK.Py.ge, hN0, hN1]
    | some c =>
      by_cases hc : c = 0
      · simp [LK.Py.por, LK.Py.truthy, LK.Py.lt, LK.Py.gt, LK.Py.le, LK.Py.ge, hN0, hN1, hc]
      · by_cases h1 : c < 0
        · simp [LK.Py.por, LK.Py.truthy, LK.Py.lt, LK.Py.gt, LK.Py.le, LK.Py.ge, hN0, hN1, hc, h1]
        · by_cases h2 : (N : Int) < c
          · simp [LK.Py.por, LK.Py.truthy, LK.Py.lt, LK.Py.gt, LK.Py.le, LK.Py.ge, hN0, hN1, hc, h1, h2]
          · simp [LK.Py.por, LK.Py.truthy, LK.Py.lt, LK.Py.gt, LK.Py.le, LK.Py.ge, hN0, hN1, hc, h1, h2]; omega
  | some r =>
    by_cases hr : r < 0
    · cases cfg with
      | none => simp [LK.Py.por, LK.Py.truthy, LK.Py.lt, LK.Py.gt, LK.Py.le, LK.Py.ge, hN0, hN1, hr]
      | some c =>
        by_cases hc : c = 0
        · simp [LK.Py.por, LK.Py.truthy, LK.Py.lt, LK.Py.gt, LK.Py.le, LK.Py.ge, hN0, hN1, hc, hr]
        · by_cases h1 : c < 0
          · simp [LK.Py.por, LK.Py.truthy, LK.Py.lt, LK.Py.gt, LK.Py.le, LK.Py.ge, hN0, hN1, hc, h1, hr]
          · by_cases h2 : (N : Int) < c
            · simp [LK.Py.por, LK.Py.truthy, LK.Py.lt, LK.Py.gt, LK.Py.le, LK.Py.ge, hN0, hN1, hc, h1, h2, hr]
            · simp [LK.Py.por, LK.Py.truthy, LK.Py.lt, LK.Py.gt, LK.Py.le, LK.Py.ge, hN0, hN1, hc, h1, h2, hr]; omega
    · by_cases h2 : (N : Int) < r
      · simp [LK.Py.por, LK.Py.truthy, LK.Py.lt, LK.Py.gt, LK.Py.le, LK.Py.ge, hN0, hN1, hr, h2]
      · simp [LK.Py.por, LK.Py.truthy, LK.Py.lt, LK.Py.gt, LK.Py.le, LK.Py.ge, hN0, hN1, hr, h2]; omega


/-- the number of items `RandomSelector` picks from `L` candidates is the model's `randomK`: a run-time `n` (0 included) wins, a negative
    one means all; otherwise the configured value, where absent / 0 mean all -/
theorem randomN_eq_randomK (run cfg : Option Int) (L : Nat) :
    randomN run cfg (L : Int) = some ((randomK L cfg run : Nat) : Int) := by
  unfold randomN randomK
  cases run with
  | none =>
    cases cfg with
    | none => simp [LK.Py.por, LK.Py.truthy, LK.Py.lt, LK.Py.gt, LK.Py.le, LK.Py.ge, LK.Py.pmin]
    | some c =>
      by_cases hc : c = 0
      · simp [LK.Py.por, LK.Py.truthy, LK.Py.lt, LK.Py.gt, LK.Py.le, LK.Py.ge, LK.Py.pmin, hc]
      · by_cases h1 : c < 0
        · simp [LK.Py.por, LK.Py.truthy, LK.Py.lt, LK.Py.gt, LK.Py.le, LK.Py.ge, LK.Py.pmin, hc, h1]
        · simp [LK.Py.por, LK.Py.truthy, LK.Py.lt, LK.Py.gt, LK.Py.le, LK.Py.ge, LK.Py.pmin, hc, h1]; omega
  | some r =>
    by_cases hr : r < 0
    · simp [LK.Py.por, LK.Py.truthy, LK.Py.lt, LK.Py.gt, LK.Py.le, LK.Py.ge, LK.Py.pmin, hr]
    · simp [LK.Py.por, LK.Py.truthy, LK.Py.lt, LK.Py.gt, LK.Py.le, LK.Py.ge, LK.Py.pmin, hr]; omega

/-- a length given at run time overrides the configured one (all three components) -/
theorem runtime_overrides (k : Nat) (cfg : Option Int) (N : Nat) (hN : 0 < N) :
    stochasticN (some (k : Int)) cfg (N : Int) = some ((min k N : Nat) : Int)
    ∧ softmaxN (some (k : Int)) cfg (N : Int) = some ((min k N : Nat) : Int)
    ∧ randomN (some (k : Int)) cfg (N : Int) = some ((min k N : Nat) : Int) := by
  rw [stochasticN_eq_effN _ _ _ hN, softmaxN_eq_effN _ _ _ hN, randomN_eq_randomK]
  have h0 : ¬ ((k : Int) < 0) := by omega
  by_cases hk : N < k
  · have hk' : (N : Int) < k := by omega
    have hm : min k N = N := by omega
    refine ⟨?_, ?_, ?_⟩ <;> simp [effN, clampN, chosenN, randomK, h0, hk, hk', hm] <;> omega
  · have hk' : ¬ ((N : Int) < k) := by omega
    have hm : min k N = k := by omega
    refine ⟨?_, ?_, ?_⟩ <;> simp [effN, clampN, chosenN, randomK, h0, hk, hk', hm] <;> omega

/-! ### the generator factory is built once -/

/-- each of the three stochastic components builds its generator factory exactly once, at the top level of its constructor, from its
    configured seed, defines no method of that name, and its call method draws from `self._rng_factory(query)` exactly once, outside any loop -/
theorem factories_built_once :
    randomSelectorFactoryDepartures = 0 ∧ softmaxRankerFactoryDepartures = 0 ∧ stochasticRankerFactoryDepartures = 0 := by decide

/-- The stretch `(start, length)` of the seeded stream that each of a sequence of calls reads, when the calls consume `ks` numbers: with
    the factory built once a fixed seed gives one generator that every call continues; were it rebuilt on every call, every call
    would start the stream again. -/
def stretches (once : Bool) : Nat → List Nat → List (Nat × Nat)
  | _, [] => []
  | pos, k :: ks => (pos, k) :: stretches once (if once then pos + k else pos) ks

/-- built once: the i-th call starts where the calls before it stopped — no two calls read the same numbers -/
theorem once_continues (pos : Nat) (ks : List Nat) (i : Nat) (hi : i < ks.length) :
    (stretches true pos ks)[i]? = some (pos + (ks.take i).sum, ks[i]) := by
  induction ks generalizing pos i with
  | nil => simp at hi
  | cons k ks ih =>
    cases i with
    | zero => simp [stretches]
    | succ i =>
      have hi' : i < ks.length := by simpa using hi
      simp only [stretches, if_true, List.getElem?_cons_succ, List.take_succ_cons, List.sum_cons, List.getElem_cons_succ]
      rw [ih (pos + k) i hi']
      simp [Nat.add_assoc]

/-- rebuilt on every call: every call reads the stream from its start — a selector with a fixed seed would return the same draw each time -/
theorem remade_repeats (pos : Nat) (ks : List Nat) (i : Nat) (hi : i < ks.length) :
    (stretches false pos ks)[i]? = some (pos, ks[i]) := by
  induction ks generalizing i with
  | nil => simp at hi
  | cons k ks ih =>
    cases i with
    | zero => simp [stretches]
    | succ i =>
      have hi' : i < ks.length := by simpa using hi
      simp only [stretches, Bool.false_eq_true, if_false, List.getElem?_cons_succ, List.getElem_cons_succ]
      exact ih i hi'

end LK.Gen.GuardsC19
