import Mathlib.Data.Matrix.Mul
import Mathlib.LinearAlgebra.Matrix.DotProduct
import Mathlib.Tactic.Ring
import Mathlib.Tactic.Linarith
import Mathlib.Tactic.Positivity

/-! C10 — weighted (implicit-feedback) form: a solution of `(Mᵀ W M + c I) x = Mᵀ W r` is the unique
    minimiser of `Σ_i w_i (r_i − (M x)_i)² + c‖x‖²` for non-negative weights. -/
namespace LK.NormalEqW
open Matrix

variable {m n : Type} [Fintype m] [Fintype n] [DecidableEq n] [DecidableEq m]
variable {K : Type} [Field K] [LinearOrder K] [IsStrictOrderedRing K]

/-- weighted inner product `Σ w_i u_i v_i` -/
def wd (w u v : m → K) : K := ∑ i, w i * (u i * v i)

omit [DecidableEq n] [DecidableEq m] [LinearOrder K] [IsStrictOrderedRing K] in
theorem wd_comm (w u v : m → K) : wd w u v = wd w v u := by
  unfold wd; exact Finset.sum_congr rfl (fun i _ => by ring)
omit [DecidableEq n] [DecidableEq m] [LinearOrder K] [IsStrictOrderedRing K] in
theorem wd_add_left (w u u' v : m → K) : wd w (u + u') v = wd w u v + wd w u' v := by
  unfold wd; rw [← Finset.sum_add_distrib]; exact Finset.sum_congr rfl (fun i _ => by simp only [Pi.add_apply]; ring)
omit [DecidableEq n] [DecidableEq m] [LinearOrder K] [IsStrictOrderedRing K] in
theorem wd_sub_left (w u u' v : m → K) : wd w (u - u') v = wd w u v - wd w u' v := by
  unfold wd; rw [← Finset.sum_sub_distrib]; exact Finset.sum_congr rfl (fun i _ => by simp only [Pi.sub_apply]; ring)
omit [DecidableEq n] [DecidableEq m] [LinearOrder K] [IsStrictOrderedRing K] in
theorem wd_sub_right (w u v v' : m → K) : wd w u (v - v') = wd w u v - wd w u v' := by
  rw [wd_comm, wd_sub_left, wd_comm w v, wd_comm w v']
omit [DecidableEq n] [DecidableEq m] [LinearOrder K] [IsStrictOrderedRing K] in
theorem wd_sub_self (w a b : m → K) : wd w (a - b) (a - b) = wd w a a - 2 * wd w b a + wd w b b := by
  rw [wd_sub_left w a b (a - b), wd_sub_right w a a b, wd_sub_right w b a b, wd_comm w a b]; ring
omit [DecidableEq n] [DecidableEq m] in
theorem wd_self_nonneg (w u : m → K) (hw : ∀ i, 0 ≤ w i) : 0 ≤ wd w u u :=
  Finset.sum_nonneg (fun i _ => mul_nonneg (hw i) (mul_self_nonneg (u i)))
omit [DecidableEq n] [LinearOrder K] [IsStrictOrderedRing K] in
theorem wd_eq_dot (w u v : m → K) : wd w u v = u ⬝ᵥ (diagonal w *ᵥ v) := by
  unfold wd dotProduct
  refine Finset.sum_congr rfl (fun i _ => ?_)
  rw [mulVec_diagonal]; ring

def obj (M : Matrix m n K) (r w : m → K) (c : K) (x : n → K) : K :=
  wd w (r - M *ᵥ x) (r - M *ᵥ x) + c * (x ⬝ᵥ x)

def NormalEq (M : Matrix m n K) (r w : m → K) (c : K) (x : n → K) : Prop :=
  (Mᵀ * diagonal w * M + c • (1 : Matrix n n K)) *ᵥ x = Mᵀ *ᵥ (diagonal w *ᵥ r)

omit [LinearOrder K] [IsStrictOrderedRing K] in
theorem grad_eq (M : Matrix m n K) (r w : m → K) (c : K) (x h : n → K) :
    h ⬝ᵥ ((Mᵀ * diagonal w * M + c • (1 : Matrix n n K)) *ᵥ x - Mᵀ *ᵥ (diagonal w *ᵥ r))
      = wd w (M *ᵥ h) (M *ᵥ x) + c * (h ⬝ᵥ x) - wd w (M *ᵥ h) r := by
  have e1 : h ⬝ᵥ (Mᵀ * diagonal w * M) *ᵥ x = wd w (M *ᵥ h) (M *ᵥ x) := by
    rw [wd_eq_dot, Matrix.mul_assoc, ← mulVec_mulVec, dotProduct_mulVec, vecMul_transpose, mulVec_mulVec]
  have e2 : h ⬝ᵥ Mᵀ *ᵥ (diagonal w *ᵥ r) = wd w (M *ᵥ h) r := by
    rw [wd_eq_dot, dotProduct_mulVec, vecMul_transpose]
  rw [dotProduct_sub, add_mulVec, dotProduct_add, e1, e2, smul_mulVec, one_mulVec, dotProduct_smul, smul_eq_mul]

omit [LinearOrder K] [IsStrictOrderedRing K] in
theorem obj_diff (M : Matrix m n K) (r w : m → K) (c : K) (x h : n → K) :
    obj M r w c (x + h) - obj M r w c x
      = 2 * (h ⬝ᵥ ((Mᵀ * diagonal w * M + c • (1 : Matrix n n K)) *ᵥ x - Mᵀ *ᵥ (diagonal w *ᵥ r)))
        + (wd w (M *ᵥ h) (M *ᵥ h) + c * (h ⬝ᵥ h)) := by
  rw [grad_eq]
  unfold obj
  rw [mulVec_add]
  have hs : r - (M *ᵥ x + M *ᵥ h) = (r - M *ᵥ x) - M *ᵥ h := by rw [sub_sub]
  rw [hs]
  have c1 : wd w ((r - M *ᵥ x) - M *ᵥ h) ((r - M *ᵥ x) - M *ᵥ h)
      = wd w (r - M *ᵥ x) (r - M *ᵥ x) - 2 * wd w (M *ᵥ h) (r - M *ᵥ x) + wd w (M *ᵥ h) (M *ᵥ h) :=
    wd_sub_self w _ _
  have c2 : wd w (M *ᵥ h) (r - M *ᵥ x) = wd w (M *ᵥ h) r - wd w (M *ᵥ h) (M *ᵥ x) := wd_sub_right w _ _ _
  have c3 : (x + h) ⬝ᵥ (x + h) = x ⬝ᵥ x + 2 * (h ⬝ᵥ x) + h ⬝ᵥ h := by
    simp only [add_dotProduct, dotProduct_add, dotProduct_comm x h]; ring
  rw [c1, c2, c3]
  ring

omit [DecidableEq m] [DecidableEq n] in
theorem dot_self_nonneg (v : n → K) : 0 ≤ v ⬝ᵥ v :=
  Finset.sum_nonneg (fun i _ => mul_self_nonneg (v i))

/-- a solution of the weighted normal equations is a global minimiser (weights and `c` non-negative) -/
theorem normalEq_isMin (M : Matrix m n K) (r w : m → K) (c : K) (hw : ∀ i, 0 ≤ w i) (hc : 0 ≤ c)
    (x : n → K) (hx : NormalEq M r w c x) (y : n → K) : obj M r w c x ≤ obj M r w c y := by
  have h := obj_diff M r w c x (y - x)
  rw [add_sub_cancel] at h
  unfold NormalEq at hx
  rw [hx, sub_self, dotProduct_zero, mul_zero, zero_add] at h
  have h1 := wd_self_nonneg w (M *ᵥ (y - x)) hw
  have h2 : 0 ≤ (y - x) ⬝ᵥ (y - x) := dot_self_nonneg _
  have : 0 ≤ obj M r w c y - obj M r w c x := by rw [h]; positivity
  linarith

/-- unique when `c > 0` -/
theorem normalEq_unique_min (M : Matrix m n K) (r w : m → K) (c : K) (hw : ∀ i, 0 ≤ w i) (hc : 0 < c)
    (x : n → K) (hx : NormalEq M r w c x) (y : n → K) (hy : obj M r w c y ≤ obj M r w c x) : y = x := by
  have h := obj_diff M r w c x (y - x)
  rw [add_sub_cancel] at h
  unfold NormalEq at hx
  rw [hx, sub_self, dotProduct_zero, mul_zero, zero_add] at h
  have h1 := wd_self_nonneg w (M *ᵥ (y - x)) hw
  have h2 : 0 ≤ (y - x) ⬝ᵥ (y - x) := dot_self_nonneg _
  have h3 : c * ((y - x) ⬝ᵥ (y - x)) ≤ 0 := by linarith
  have h4 : (y - x) ⬝ᵥ (y - x) = 0 := by
    rcases h2.lt_or_eq with hp | he
    · have := mul_pos hc hp; linarith
    · exact he.symm
  exact sub_eq_zero.mp (dotProduct_self_eq_zero.mp h4)

#print axioms normalEq_isMin
#print axioms normalEq_unique_min

end LK.NormalEqW

namespace LK.NormalEqW
open Matrix
variable {m n : Type} [Fintype m] [Fintype n] [DecidableEq n] [DecidableEq m]
variable {K : Type} [Field K]

/-- executable residual of the weighted system; zero exactly when the normal equations hold -/
def resid (M : Matrix m n K) (r w : m → K) (c : K) (x : n → K) : n → K :=
  (Mᵀ * diagonal w * M + c • (1 : Matrix n n K)) *ᵥ x - Mᵀ *ᵥ (diagonal w *ᵥ r)

theorem resid_zero_iff (M : Matrix m n K) (r w : m → K) (c : K) (x : n → K) :
    resid M r w c x = 0 ↔ NormalEq M r w c x := by
  unfold resid NormalEq; exact sub_eq_zero

omit [Fintype n] [DecidableEq n] in
/-- the implicit-feedback code accumulates `YᵀY` once and adds the observed rows' extra confidence -/
theorem implicit_split (M : Matrix m n K) (v : m → K) :
    Mᵀ * diagonal (fun i => 1 + v i) * M = Mᵀ * M + Mᵀ * diagonal v * M := by
  have : diagonal (fun i => 1 + v i) = (1 : Matrix m m K) + diagonal v := by
    rw [← diagonal_one, diagonal_add]
  rw [this, Matrix.mul_add, Matrix.add_mul, Matrix.mul_one]
end LK.NormalEqW
